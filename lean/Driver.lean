/-
  driver: runs the executable MODELS (the very definitions the theorems are about) on the cases the
  harness ran through the real code.  `driver <family>` reads one JSON case per line on stdin and
  prints one JSON result per line.  One invocation = one history: model state is threaded through
  all lines exactly as coca's process-global state is in the harness process.
-/
import CocaVerif.Drv.Call
import CocaVerif.Drv.Bs
import CocaVerif.Drv.Stats
import CocaVerif.Drv.Tbs
import CocaVerif.Drv.Git
import CocaVerif.Drv.Todo
import CocaVerif.Drv.Arch
import CocaVerif.Drv.Deps
import CocaVerif.Drv.Cloc
import CocaVerif.Drv.Api
import CocaVerif.Drv.JavaFull
import CocaVerif.Drv.Refactor
import CocaVerif.Drv.Front
open Lean

partial def loopFrom {σ : Type} (h : IO.FS.Stream) (out : IO.FS.Stream) (step : σ → Json → σ × Json) (init : σ) (st : σ) : IO Unit := do
  let line ← h.getLine
  if line.isEmpty then return ()
  if line.trim.isEmpty then loopFrom h out step init st else
  match Json.parse line with
  | .error e => do
    out.putStrLn (Json.mkObj [("bad-case", e)]).compress
    loopFrom h out step init st
  | .ok j => do
    -- a case marked "cli" went through the real command in a FRESH process: the model runs it from the initial
    -- state, and the state threaded through the history is left as it was
    let cli := CocaVerif.J.boolD j "cli"
    let (st', o) := step (if cli then init else st) j
    let id := CocaVerif.J.natD j "id"
    out.putStrLn (Json.mkObj [("id", CocaVerif.J.mkNat id), ("out", o)]).compress
    out.flush
    loopFrom h out step init (if cli then st else st')

def loop {σ : Type} (h : IO.FS.Stream) (out : IO.FS.Stream) (step : σ → Json → σ × Json) (st : σ) : IO Unit :=
  loopFrom h out step st st

def main (args : List String) : IO UInt32 := do
  let stdin ← IO.getStdin
  let stdout ← IO.getStdout
  match args with
  | ["call"] => loop stdin stdout CocaVerif.Drv.Call.step {}; return 0
  | ["bs"] => loop stdin stdout CocaVerif.Drv.Bs.step (); return 0
  | ["stats"] => loop stdin stdout CocaVerif.Drv.Stats.step (); return 0
  | ["tbs"] => loop stdin stdout CocaVerif.Drv.Tbs.step (); return 0
  | ["git"] => loop stdin stdout CocaVerif.Drv.Git.step {}; return 0
  | ["todo"] => loop stdin stdout CocaVerif.Drv.Todo.step (); return 0
  | ["arch"] => loop stdin stdout CocaVerif.Drv.Arch.step (); return 0
  | ["deps"] => loop stdin stdout CocaVerif.Drv.Deps.step (); return 0
  | ["cloc"] => loop stdin stdout CocaVerif.Drv.Cloc.step (); return 0
  | ["api"] => loop stdin stdout CocaVerif.Drv.Api.step {}; return 0
  | ["javafull"] => loop stdin stdout CocaVerif.Drv.JavaFull.step {}; return 0
  | ["passes"] => loop stdin stdout (fun (_ : Unit) (_ : Json) => ((), Json.mkObj [("allok", true)])) (); return 0
  | ["front"] => loop stdin stdout CocaVerif.Drv.Front.step none; return 0
  | ["refactor"] => loop stdin stdout CocaVerif.Drv.Refactor.step (); return 0
  | _ => IO.eprintln "usage: driver <family>"; return 2
