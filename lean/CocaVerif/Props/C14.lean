/-
  C14 — Commit-log parsing preserves every commit and every file change.
  Layer A (proved here, for EVERY log): the state machine of `ParseLog` over CLASSIFIED lines turns a
  log made of blocks  header · (numstat | mode)* · separator  into exactly one entry per block that
  has changes, in log order, carrying exactly that block's header fields, and built ONLY from that
  block's own lines (`blocks_exact`: the state is clean again after every block, so no change can be
  attributed to a different commit).  Merge/empty commits (blocks without changes) produce no entry.
  Layer B (not proved; re-established on every run by the correspondence check): `classify`, i.e.
  the seven regular expressions and the `SplitN` field extraction, agrees with the real code on
  generated/adversarial lines, and the text git prints for the argv pinned below has that block
  structure (real repositories, judged against `git diff-tree`).
-/
import CocaVerif.Proofs.Git

namespace CocaVerif.Props.C14
open CocaVerif CocaVerif.Git

structure Block where
  rev : String
  author : String
  date : String
  msg : String
  body : List LineClass

def Block.lines (b : Block) : List LineClass := [.header b.rev b.author b.date b.msg] ++ b.body ++ [.other]

def clean (cs : List Commit) : PState := { cur := {}, fmap := [], curChanges := [], commits := cs }

/-- the state reached inside a block after its body: file map and pending deletes of THIS block only -/
def Block.bodyState (σ : Oracle) (b : Block) : Except String PState :=
  runC σ { cur := { rev := b.rev, author := b.author, date := b.date, message := b.msg, changes := [] },
           fmap := [], curChanges := [], commits := [] } b.body

/-- the entry a block produces: its own header fields and the changes gathered from its own body -/
def Block.entry (σ : Oracle) (b : Block) : Option Commit :=
  match b.bodyState σ with
  | .ok s =>
    let chs := s.curChanges ++ (σ (GoMap.entries s.fmap)).map (·.2)
    if chs.isEmpty then none else some { rev := b.rev, author := b.author, date := b.date, message := b.msg, changes := chs }
  | .error _ => none

/-- body lines do not look at `commits`: running a body with other already-parsed commits present
    gives the same file map and pending list -/
theorem body_indep (σ : Oracle) : ∀ (body : List LineClass) (st : PState) (cs : List Commit),
    (∀ l ∈ body, isBody l = true) →
    ∀ fm cc, runC σ st body = .ok { st with fmap := fm, curChanges := cc } →
      runC σ { st with commits := cs } body = .ok { st with fmap := fm, curChanges := cc, commits := cs } := by
  intro body
  induction body with
  | nil =>
    intro st cs _ fm cc h
    simp only [runC, Except.ok.injEq] at h ⊢
    cases st; simp_all
  | cons l ls ih =>
    intro st cs hb fm cc h
    have hl := hb l (by simp)
    have hls : ∀ x ∈ ls, isBody x = true := fun x hx => hb x (by simp [hx])
    cases l with
    | numstat a d f =>
      simp only [runC, stepC] at h ⊢
      exact ih _ cs hls fm cc h
    | mode m f =>
      simp only [runC, stepC] at h ⊢
      cases hg : GoMap.get? st.fmap f with
      | some ch => simp only [hg] at h ⊢; exact ih _ cs hls fm cc h
      | none =>
        simp only [hg] at h ⊢
        cases hm : (m == "delete")
        · simp only [hm, Bool.false_eq_true, ↓reduceIte] at h ⊢; exact ih _ cs hls fm cc h
        · simp only [hm, ↓reduceIte] at h ⊢; exact ih _ cs hls fm cc h
    | header => simp [isBody] at hl
    | other => simp [isBody] at hl
    | panic => simp [isBody] at hl

/-- one block, started in a clean state, ends in a clean state and appends exactly its own entry -/
theorem block_exact (σ : Oracle) (b : Block) (cs : List Commit)
    (hrev : b.rev ≠ "") (hbody : ∀ l ∈ b.body, isBody l = true) :
    runC σ (clean cs) b.lines = .ok (clean (cs ++ (b.entry σ).toList)) := by
  unfold Block.lines
  rw [runC_append, runC_append]
  simp only [runC, stepC, clean]
  obtain ⟨fm, cc, hrun⟩ := runC_body σ b.body
    { cur := { rev := b.rev, author := b.author, date := b.date, message := b.msg, changes := [] },
      fmap := [], curChanges := [], commits := [] } hbody
  have h2 := body_indep σ b.body _ cs hbody fm cc hrun
  simp only at h2
  rw [h2]
  have hr : (b.rev != "") = true := by simpa using hrev
  simp only [runC, stepC, hr, ↓reduceIte, Block.entry, Block.bodyState, hrun]
  cases hc : (cc ++ (σ (GoMap.entries fm)).map (·.2)).isEmpty <;> simp [hc]

/-- THE THEOREM: a log that is a sequence of blocks parses to exactly the blocks' own entries, in order -/
theorem blocks_exact (σ : Oracle) : ∀ (bs : List Block) (cs : List Commit),
    (∀ b ∈ bs, b.rev ≠ "" ∧ ∀ l ∈ b.body, isBody l = true) →
    runC σ (clean cs) (bs.flatMap Block.lines) = .ok (clean (cs ++ bs.flatMap fun b => (b.entry σ).toList)) := by
  intro bs
  induction bs with
  | nil => intro cs _; simp [runC]
  | cons b rest ih =>
    intro cs h
    rw [List.flatMap_cons, runC_append, block_exact σ b cs (h b (by simp)).1 (h b (by simp)).2]
    simp only
    rw [ih _ (fun x hx => h x (by simp [hx])), List.flatMap_cons, List.append_assoc]

/-- the entry of a block carries the header fields exactly as they were read -/
theorem entry_header (σ : Oracle) (b : Block) (c : Commit) (h : b.entry σ = some c) :
    c.rev = b.rev ∧ c.author = b.author ∧ c.date = b.date ∧ c.message = b.msg := by
  unfold Block.entry at h
  split at h
  · dsimp only at h
    split at h
    · simp at h
    · simp only [Option.some.injEq] at h; subst h; exact ⟨rfl, rfl, rfl, rfl⟩
  · simp at h

/-- merge commits / empty commits (header directly followed by the separator) produce no entry -/
theorem empty_block_no_entry (σ : Oracle) (hσ : OracleOK σ) (r a d m : String) :
    Block.entry σ (Block.mk r a d m []) = none := by
  have : σ (GoMap.entries ([] : List (String × Change))) = [] := by
    have := (hσ (GoMap.entries ([] : List (String × Change)))).length_eq
    simpa [GoMap.entries, GoMap.keys] using this
  simp [Block.entry, Block.bodyState, runC, this]

/-- a numstat line followed by its `create`/`delete` summary line yields that change with its counts and mode -/
example : Block.entry (fun l => l) (Block.mk "abc1234" "Ann" "2020-01-02" "m"
      [.numstat 2 0 "f.txt", .numstat 0 3 "g.txt", .mode "create" "f.txt", .mode "delete" "g.txt"]) =
    some { rev := "abc1234", author := "Ann", date := "2020-01-02", message := "m",
           changes := [{ added := 2, deleted := 0, file := "f.txt", mode := "create" },
                       { added := 0, deleted := 3, file := "g.txt", mode := "delete" }] } := by decide

/-- the regular expressions and the git invocation the model is written against are the ones in the source -/
theorem regex_sources_pinned :
    Gen.Git.revSrc = "\\[([\\d|a-f]{5,12})\\]" ∧ Gen.Git.authorSrc = "(.*?)\\s\\d{4}-\\d{2}-\\d{2}" ∧
    Gen.Git.dateSrc = "\\d{4}-\\d{2}-\\d{2}" ∧ Gen.Git.changesSrc = "([\\d-]+)[\\t\\s]+([\\d-]+)[\\t\\s]+(.*)" ∧
    Gen.Git.changeModelSrc = "\\s(\\w{1,6})\\s(mode 100(\\d){3})?\\s?(.*)(\\s\\(\\d{2}%\\))?" :=
  ⟨rfl, rfl, rfl, rfl, rfl⟩

theorem git_argv_pinned :
    Gen.Git.gitArgv = ["log", "--pretty=format:[%h] %aN %ad %s", "--date=short", "--numstat", "--reverse", "--summary"] := rfl

/-- classification of the lines git prints (checked instances; the general claim is Layer B) -/
example : classify "[51c8859] Ann Lee 2020-01-02 first: add f" = .header "51c8859" "Ann Lee" "2020-01-02" "first: add f" := by decide
example : classify "2\t0\tf.txt" = .numstat 2 0 "f.txt" ∧ classify "-\t-\tx.bin" = .numstat 0 0 "x.bin" := by decide
example : classify " create mode 100644 d/g.txt" = .mode "create" "d/g.txt" ∧ classify "" = .other := by decide
example : classify "[8d78aac] Ann Lee 2020-01-03 second [abc12] by Ann Lee 2020-01-01" =
    .header "8d78aac" "Ann Lee" "2020-01-03" "second [abc12] by Ann Lee 2020-01-01" := by decide

end CocaVerif.Props.C14
