/-
  C06 — Unused-import removal deletes nothing but unused single-type imports (rewrite layer).

  * `errorLines_iff` — a line is reported iff it holds an import whose last segment is not `*` and is
    not among the names the file refers to (decision logic of `BuildErrorLines`, for every table);
    wildcard imports are never reported, also when the file refers to nothing (`wildcard_kept`).
  * `removeLines_exact` — for EVERY file and every strictly ascending list of line numbers inside it,
    the loop that deletes line `n - k` for the k-th report (re-reading the file each time) yields
    exactly the lines whose number is not reported, in order (`keepFrom`): only whole lines disappear,
    every other line is unchanged, whatever the shifting.
  * `second_run_noop` — after the removal the kept imports are all used, so a second run reports nothing.
  * per file: the tables and the path travel with each identifier (regenerated facts `per_file_facts`:
    no package-level table is left in the models package, and the file rewritten is `node.File`), so
    every file of a directory is cleaned with its own tables — the multi-file clause is then decided on
    the real code by the directory oracle.
-/
import CocaVerif.Model.Refactor

namespace CocaVerif.Props.C06
open CocaVerif CocaVerif.Refactor

theorem per_file_facts : Gen.Refactor.modelsGlobals = [] ∧ Gen.Refactor.unusedRewritesFile = "node.File" ∧
    Gen.Refactor.unusedSkipsUnnamed = true ∧ Gen.Refactor.wildcardTestedInLoop = false ∧ Gen.Refactor.nameTestedInLoop = true :=
  ⟨rfl, rfl, rfl, rfl, rfl⟩

/-- reported = unused single-type import -/
theorem errorLines_iff (imports : List (String × Nat)) (names : List String) (l : Nat) :
    l ∈ errorLines imports names ↔ ∃ imp ∈ imports, imp.2 = l ∧ lastSeg imp.1 ≠ "*" ∧ ¬ lastSeg imp.1 ∈ names := by
  simp only [errorLines, Gen.Refactor.wildcardTestedInLoop, Bool.false_eq_true, if_false, List.mem_filterMap]
  constructor
  · rintro ⟨imp, hm, h⟩
    split at h
    · cases h
    · rename_i hc
      simp only [Option.some.injEq] at h
      simp only [Bool.or_eq_true, beq_iff_eq, List.contains_iff_mem, not_or] at hc
      exact ⟨imp, hm, h, hc.1, hc.2⟩
  · rintro ⟨imp, hm, h1, h2, h3⟩
    refine ⟨imp, hm, ?_⟩
    simp [h1, h2, h3]

theorem wildcard_kept (imports : List (String × Nat)) (names : List String) (imp : String × Nat)
    (h : lastSeg imp.1 = "*") (huniq : ∀ j ∈ imports, j.2 = imp.2 → j = imp) : ¬ imp.2 ∈ errorLines imports names := by
  rw [errorLines_iff]
  rintro ⟨j, hj, hl, hs, _⟩
  have := huniq j hj hl
  subst this
  exact hs h

/-- the lines of a file numbered from `n`, without those whose number is reported -/
def keepFrom {α : Type} : Nat → List α → List Nat → List α
  | _, [], _ => []
  | n, x :: xs, errs => if errs.contains n then keepFrom (n + 1) xs errs else x :: keepFrom (n + 1) xs errs

theorem keepFrom_append {α : Type} (A B : List α) (errs : List Nat) : ∀ (n : Nat), (∀ m, n ≤ m → m < n + A.length → ¬ m ∈ errs) →
    keepFrom n (A ++ B) errs = A ++ keepFrom (n + A.length) B errs := by
  induction A with
  | nil => intro n _; simp
  | cons a A ih =>
    intro n h
    have hn : errs.contains n = false := by
      have := h n (Nat.le_refl _) (by simp)
      simpa using this
    simp only [List.cons_append, keepFrom, hn, Bool.false_eq_true, if_false, List.length_cons]
    rw [ih (n + 1) (fun m h1 h2 => h m (by omega) (by simp; omega))]
    have : n + 1 + A.length = n + (A.length + 1) := by omega
    rw [this]

theorem keepFrom_skip {α : Type} (D : List α) (l : Nat) (rest : List Nat) : ∀ (n : Nat), l < n →
    keepFrom n D (l :: rest) = keepFrom n D rest := by
  induction D with
  | nil => intro n _; rfl
  | cons d D ih =>
    intro n h
    have : (l :: rest).contains n = rest.contains n := by
      have hne : (n == l) = false := by simpa using (by omega : n ≠ l)
      simp only [List.contains_cons, hne, Bool.false_or]
    simp only [keepFrom, this, ih (n + 1) (by omega)]

/-- strictly ascending line numbers, the first at least `c`, all below `hi` -/
def Asc (hi : Nat) : Nat → List Nat → Prop
  | _, [] => True
  | c, l :: rest => c ≤ l ∧ l < hi ∧ Asc hi (l + 1) rest

theorem asc_gt (hi : Nat) : ∀ (rest : List Nat) (c : Nat), Asc hi c rest → ∀ r ∈ rest, c ≤ r := by
  intro rest
  induction rest with
  | nil => intro c _ r hr; cases hr
  | cons l rest ih =>
    intro c h r hr
    have h0 := h.1
    rcases List.mem_cons.mp hr with rfl | hr
    · exact h0
    · have := ih (l + 1) h.2.2 r hr; omega

theorem asc_lower (hi : Nat) (rest : List Nat) (c c' : Nat) (h : Asc hi c rest) (hc : c' ≤ c) : Asc hi c' rest := by
  cases rest with
  | nil => trivial
  | cons l rest => exact ⟨by have := h.1; omega, h.2.1, h.2.2⟩

/-- the deletion loop, from any intermediate state `(cur, c)`: `cur`'s first line has number `c` -/
theorem removeLoop_exact {α : Type} : ∀ (errs : List Nat) (cur : List α) (c : Nat), Asc (c + cur.length) c errs →
    (errs.foldlM (fun (acc : List α × Nat) l =>
        if l < acc.2 then none else (removeAt acc.1 (l - acc.2)).map fun r => (r, acc.2 + 1)) (cur, c)).map (·.1)
      = some (keepFrom c cur errs) := by
  intro errs
  induction errs with
  | nil =>
    intro cur c _
    have : ∀ (n : Nat) (l : List α), keepFrom n l [] = l := by
      intro n l; induction l generalizing n with
      | nil => rfl
      | cons x xs ih => simp [keepFrom, ih]
    simp [this]
  | cons l rest ih =>
    intro cur c h
    obtain ⟨h1, h2, h3⟩ := h
    have hlt : ¬ l < c := by omega
    have hi : l - c < cur.length := by omega
    have hr : removeAt cur (l - c) = some (List.take (l - c) cur ++ List.drop (l - c + 1) cur) := by simp [removeAt, hi]
    simp only [List.foldlM_cons, hlt, if_false, hr, Option.map_some, Option.bind_some, bind]
    have hlen : (List.take (l - c) cur ++ List.drop (l - c + 1) cur).length = cur.length - 1 := by
      simp; omega
    have hasc : Asc (c + 1 + (List.take (l - c) cur ++ List.drop (l - c + 1) cur).length) (c + 1) rest := by
      rw [hlen]
      have : c + 1 + (cur.length - 1) = c + cur.length := by omega
      rw [this]
      exact asc_lower _ rest (l + 1) (c + 1) h3 (by omega)
    rw [ih _ (c + 1) hasc]
    congr 1
    -- both sides: the first l - c lines, then the lines after line l without the remaining reports
    have hgt : ∀ r ∈ rest, l + 1 ≤ r := asc_gt _ rest (l + 1) h3
    have htl : (List.take (l - c) cur).length = l - c := by simp; omega
    have e1 : keepFrom (c + 1) (List.take (l - c) cur ++ List.drop (l - c + 1) cur) rest
        = List.take (l - c) cur ++ keepFrom (c + 1 + (List.take (l - c) cur).length) (List.drop (l - c + 1) cur) rest :=
      keepFrom_append _ _ rest (c + 1) (fun m hm1 hm2 hmem => by
        have := hgt m hmem
        rw [htl] at hm2; omega)
    have hsplit : cur = List.take (l - c) cur ++ (cur[l - c] :: List.drop (l - c + 1) cur) := by
      conv => lhs; rw [← List.take_append_drop (l - c) cur]
      congr 1
      exact List.drop_eq_getElem_cons hi
    have e2 : keepFrom c cur (l :: rest)
        = List.take (l - c) cur ++ keepFrom (c + (List.take (l - c) cur).length) (cur[l - c] :: List.drop (l - c + 1) cur) (l :: rest) := by
      conv => lhs; rw [hsplit]
      exact keepFrom_append _ _ (l :: rest) c (fun m hm1 hm2 hmem => by
        rw [htl] at hm2
        rcases List.mem_cons.mp hmem with rfl | hmem
        · omega
        · have := hgt m hmem; omega)
    rw [e1, e2, htl]
    congr 1
    have hc : c + (l - c) = l := by omega
    have hc' : c + 1 + (l - c) = l + 1 := by omega
    rw [hc, hc']
    simp only [keepFrom, List.contains_cons, beq_self_eq_true, Bool.true_or, if_true]
    exact (keepFrom_skip _ l rest (l + 1) (by omega)).symm

/-- **only the reported lines disappear**: `removeImportByLines` on a file of `ls`, reports strictly ascending and inside the file -/
theorem removeLines_exact {α : Type} (ls : List α) (errs : List Nat) (h : Asc (1 + ls.length) 1 errs) :
    removeLines ls errs = some (keepFrom 1 ls errs) := removeLoop_exact errs ls 1 h

/-- `BuildErrorLines`' test for one import -/
def used (names : List String) (imp : String × Nat) : Bool := lastSeg imp.1 == "*" || names.contains (lastSeg imp.1)

theorem errorLines_eq (imports : List (String × Nat)) (names : List String) :
    errorLines imports names = imports.filterMap fun imp => if used names imp then none else some imp.2 := by
  simp [errorLines, used, Gen.Refactor.wildcardTestedInLoop]

/-- the kept imports are all used: a second run reports nothing -/
theorem second_run_noop (imports : List (String × Nat)) (names : List String) :
    errorLines (imports.filter (used names)) names = [] := by
  rw [errorLines_eq]
  induction imports with
  | nil => rfl
  | cons i is ih =>
    simp only [List.filter_cons]
    by_cases h : used names i = true
    · simp only [h, if_true, List.filterMap_cons]; exact ih
    · simp only [h, Bool.false_eq_true, if_false]; exact ih

/-! ### non-vacuity -/

-- five lines, the imports on lines 2 and 4 unused, the wildcard on line 3 kept: lines 2 and 4 go, the rest stays
#guard removeLines ["package p;", "import a.B;", "import c.*;", "import d.E;", "class X {}"] (errorLines [("a.B", 2), ("c.*", 3), ("d.E", 4)] []) ==
  some ["package p;", "import c.*;", "class X {}"]
#guard keepFrom 1 ["package p;", "import a.B;", "import c.*;", "import d.E;", "class X {}"] [2, 4] == ["package p;", "import c.*;", "class X {}"]

end CocaVerif.Props.C06
