/-
  C16 — Per-directory line counts add up and agree with the whole-tree count.
  scc (the external line counter) is a parameter: the theorems are about the glue, for EVERY list of
  counted files and EVERY list of immediate subdirectories; that scc delivers the assumed figures —
  also across the repeated runs inside one process — is exercised by the end-to-end correspondence
  (real CLI in a fresh process on trees with ground truth), not proved (partial by nature).
-/
import CocaVerif.Model.Cloc

namespace CocaVerif.Props.C16
open CocaVerif CocaVerif.Cloc

/-- the header names exactly the languages found in the whole tree, each once -/
theorem header_is_base_languages (files : List FileStat) :
    (languages files).Nodup ∧ ∀ k, k ∈ languages files ↔ ∃ f ∈ files, f.lang = k := by
  refine ⟨GoMap.dedup_nodup _, fun k => ?_⟩
  simp [languages, GoMap.mem_dedup]

/-- exactly one row per immediate subdirectory that is not a VCS / IDE / report directory, in order -/
theorem one_row_per_nonignored_subdir (files : List FileStat) (subdirs : List String) :
    (rows files subdirs).map (·.dir) =
      subdirs.filter fun d => !([".git", ".svn", ".hg", ".idea", "coca_reporter"].contains d) := by
  simp only [rows, List.map_map]
  have : (fun d => !isIgnoreDir d) = fun d => !([".git", ".svn", ".hg", ".idea", "coca_reporter"].contains d) := rfl
  rw [this]
  induction (subdirs.filter fun d => !([".git", ".svn", ".hg", ".idea", "coca_reporter"].contains d)) with
  | nil => rfl
  | cons d ds ih => simp only [List.map_cons, Function.comp]; rw [ih]

/-- every row has one figure per header language … -/
theorem row_cells_per_language (files : List FileStat) (subdirs : List String) :
    ∀ r ∈ rows files subdirs, r.cells.map (·.1) = languages files := by
  intro r hr
  simp only [rows, List.mem_map] at hr
  obtain ⟨d, _, rfl⟩ := hr
  simp only [List.map_map]
  conv => rhs; rw [← List.map_id (languages files)]
  apply List.map_congr_left
  intro k _; rfl

/-- … which is the number of code lines of that language inside that subdirectory (zero when none) … -/
theorem cell_eq_count (files : List FileStat) (subdirs : List String) :
    ∀ r ∈ rows files subdirs, ∀ c ∈ r.cells,
      c.2 = ((files.filter fun f => topDir f.path == some r.dir && f.lang == c.1).map (·.code)).sum := by
  intro r hr c hc
  simp only [rows, List.mem_map] at hr
  obtain ⟨d, _, rfl⟩ := hr
  simp only [List.mem_map] at hc
  obtain ⟨k, _, rfl⟩ := hc
  rfl

theorem cell_zero_of_none (files : List FileStat) (d k : String)
    (h : ∀ f ∈ files, ¬ (topDir f.path = some d ∧ f.lang = k)) : cell files d k = 0 := by
  unfold cell
  have : (files.filter fun f => topDir f.path == some d && f.lang == k) = [] := by
    rw [List.filter_eq_nil_iff]
    intro f hf
    have := h f hf
    simp only [Bool.and_eq_true, beq_iff_eq]
    exact this
  rw [this]; rfl

/-- … and the summary column is the sum of the row's per-language figures -/
theorem summary_eq_row_sum (files : List FileStat) (subdirs : List String) :
    ∀ r ∈ rows files subdirs, r.summary = (r.cells.map (·.2)).sum := by
  intro r hr
  simp only [rows, List.mem_map] at hr
  obtain ⟨d, _, rfl⟩ := hr
  rfl

/-- top files: per language a permutation of that language's files, in non-increasing order of code lines -/
theorem topfile_sorted (files : List FileStat) : ∀ g ∈ topFiles files,
    g.2.Perm (files.filter (·.lang == g.1)) ∧ g.2.Pairwise (fun a b => a.code ≥ b.code) := by
  intro g hg
  simp only [topFiles, List.mem_map] at hg
  obtain ⟨k, _, rfl⟩ := hg
  refine ⟨List.mergeSort_perm _ _, ?_⟩
  have := List.pairwise_mergeSort (le := codeGe)
    (fun a b c hab hbc => by simp only [codeGe, decide_eq_true_eq] at *; omega)
    (fun a b => by simp only [codeGe, Bool.or_eq_true, decide_eq_true_eq]; omega) (files.filter (·.lang == k))
  exact this.imp (fun h => by simpa [codeGe] using h)

/-- the printed table is that list truncated to the requested size -/
theorem toptable_truncated (files : List FileStat) (size : Nat) :
    topTable files size = (topFiles files).map fun g => (g.1, g.2.take size) := rfl

theorem ignored_dirs_pinned : Gen.Cloc.ignoredDirs = [".git", ".svn", ".hg", ".idea", "coca_reporter"] := rfl

-- (test) two languages in two subdirectories, one ignored
#guard (rows [{ path := "a/x.go", lang := "Go", code := 3 }, { path := "a/s/y.py", lang := "Python", code := 2 },
              { path := ".git/z.py", lang := "Python", code := 9 }, { path := "r.py", lang := "Python", code := 1 }] ["a", ".git", "e"]).map
        (fun r => (r.dir, r.summary, r.cells)) = [("a", 5, [("Go", 3), ("Python", 2)]), ("e", 0, [("Go", 0), ("Python", 0)])]

end CocaVerif.Props.C16
