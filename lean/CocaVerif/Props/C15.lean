/-
  C15 — Git summaries are consistent with the parsed history.
  The Go code keeps per-file records in a Go map; `abs` reads that map as a function
  `path ↦ record`, and `buildInfos_refines` shows that the whole computation is exactly the abstract
  file-identity semantics `specRun` (create / touch / rename carries the record / delete drops it).
  The clauses of the statement are then corollaries on the abstract semantics.  Rename notations
  are recognised by the two regular expressions (`fileOp`), whose agreement with Go's `regexp` is
  established by the correspondence check, not proved.
-/
import CocaVerif.Proofs.Git
import CocaVerif.Proofs.GitAuthors
import CocaVerif.Proofs.GitChangelog

namespace CocaVerif.Props.C15
open CocaVerif CocaVerif.Git

/-- REFINEMENT: the Go-map state after any history denotes the abstract file-identity state -/
theorem buildInfos_refines (commits : List Commit) : abs (buildInfos commits) = specRun commits :=
  abs_commits commits []

/-- a rename carries the history of the old name over to the new name, and the old name disappears -/
theorem rename_carries_history (F : FSpec) (c : Commit) (ch : Change) (old new : String) (i : Info)
    (hop : fileOp ch.file = .move old new) (hold : F old = some i) (hne : old ≠ new)
    (hnew : new ≠ "") (hmode : (ch.mode == "delete") = false) :
    specApply F c ch new = some { name := new, authors := addUnique i.authors c.author,
                                  revs := addUnique i.revs c.rev, date := i.date } ∧
    specApply F c ch old = none := by
  have hne' : (new == old) = false := by simpa using (Ne.symm hne)
  have hne'' : (old == new) = false := by simpa using hne
  unfold specApply
  simp only [hop, hmode, Bool.false_eq_true, ↓reduceIte, specSwitch, hold]
  constructor
  · simp [upd, touch, hnew]
  · simp [upd, hne']

/-- a deleted file is dropped -/
theorem delete_drops (F : FSpec) (c : Commit) (ch : Change) (f : String)
    (hop : fileOp ch.file = .plain f) (hmode : (ch.mode == "delete") = true) :
    specApply F c ch f = none := by
  unfold specApply
  simp [hop, hmode, upd]

/-- a plain change touches its file: first touch creates the record with this commit's date,
    author and revision; a later touch adds author and revision to the sets and keeps the date -/
theorem touch_creates_or_extends (F : FSpec) (c : Commit) (ch : Change) (f : String)
    (hop : fileOp ch.file = .plain f) (hmode : (ch.mode == "delete") = false) :
    specApply F c ch f = some (touch c f (F f)) := by
  unfold specApply
  simp [hop, hmode, upd]

/-- files not mentioned by a change keep their record -/
theorem frame (F : FSpec) (c : Commit) (ch : Change) (f q : String)
    (hop : fileOp ch.file = .plain f) (hq : f ≠ q) : specApply F c ch q = F q := by
  have : (f == q) = false := by simpa using hq
  unfold specApply
  simp only [hop]
  split <;> simp [upd, this]

/-- the author and revision sets never hold duplicates, so their sizes are the numbers of DISTINCT
    authors / commits -/
theorem addUnique_nodup (l : List String) (x : String) (h : l.Nodup) : (addUnique l x).Nodup := by
  unfold addUnique
  cases hc : l.contains x
  · simp only [Bool.false_eq_true, ↓reduceIte]
    rw [List.nodup_append]
    refine ⟨h, by simp, ?_⟩
    intro a ha b hb
    simp at hb; subst hb
    intro e; subst e
    simp at hc; exact hc ha
  · simpa using h

theorem touch_nodup (c : Commit) (name : String) (o : Option Info)
    (h : ∀ i, o = some i → i.authors.Nodup ∧ i.revs.Nodup) :
    (touch c name o).authors.Nodup ∧ (touch c name o).revs.Nodup := by
  unfold touch
  cases o with
  | none => simp [fresh]
  | some i =>
    have := h i rfl
    simp only
    split
    · simp [fresh]
    · exact ⟨addUnique_nodup _ _ this.1, addUnique_nodup _ _ this.2⟩

/-- the team summary is in non-increasing order of revisions, whatever the map iteration order -/
theorem team_sorted (σ : List (String × Info) → List (String × Info)) (commits : List Commit) :
    (teamSummary σ commits).Pairwise (fun a b => a.revsCount ≥ b.revsCount) := by
  have := List.pairwise_mergeSort (le := revsGe)
    (fun a b c hab hbc => by simp only [revsGe, decide_eq_true_eq] at *; omega)
    (fun a b => by simp only [revsGe, Bool.or_eq_true, decide_eq_true_eq]; omega)
    (((σ (GoMap.entries (buildInfos commits))).map fun (_, i) =>
      { name := i.name, authorCount := i.authors.length, revsCount := i.revs.length : TeamRow }))
  exact this.imp (fun h => by simpa [revsGe] using h)

/-- … and consists of exactly one row per file that still exists, with the sizes of its author and
    revision sets (as a collection: independent of the iteration oracle) -/
theorem team_rows (σ : List (String × Info) → List (String × Info)) (hσ : OracleOK σ) (commits : List Commit) :
    (teamSummary σ commits).Perm ((GoMap.entries (buildInfos commits)).map fun (_, i) =>
      { name := i.name, authorCount := i.authors.length, revsCount := i.revs.length : TeamRow }) :=
  (List.mergeSort_perm _ _).trans ((hσ _).map _)

/-- the top-author commit counts sum to the number of commits -/
theorem top_authors_conservation (σ : List (String × TopAuthor) → List (String × TopAuthor)) (hσ : OracleOK σ)
    (commits : List Commit) : ((topAuthors σ commits).map (·.commitCount)).sum = commits.length := by
  have hperm : (topAuthors σ commits).Perm ((GoMap.entries (authorMap commits)).map (·.2)) :=
    (List.mergeSort_perm _ _).trans ((hσ _).map _)
  rw [(hperm.map (·.commitCount)).sum_nat, List.map_map]
  have := GoMap.sum_entries tcount (authorMap commits)
  simp only [tcount] at this
  have h2 := sumW_authorMap commits []
  rw [show ((fun x : TopAuthor => x.commitCount) ∘ fun x : String × TopAuthor => x.2) = fun e => e.2.commitCount from rfl]
  rw [this]
  simpa [authorMap, GoMap.sumW, GoMap.keys, tcount] using h2

/-- THE TOP-AUTHOR LIST, exactly (for every order in which the runtime ranges over the author map): a row is listed iff its
    author has at least one commit, and it carries the number of that author's commits and his net added-minus-deleted lines -/
theorem top_authors_exact (σ : List (String × TopAuthor) → List (String × TopAuthor)) (hσ : OracleOK σ)
    (commits : List Commit) (t : TopAuthor) :
    t ∈ topAuthors σ commits ↔
      commitsBy t.name commits ≠ [] ∧ t.commitCount = (commitsBy t.name commits).length ∧
        t.lineCount = netFrom 0 (commitsBy t.name commits) := by
  have hperm : (topAuthors σ commits).Perm ((GoMap.entries (authorMap commits)).map (·.2)) :=
    (List.mergeSort_perm _ _).trans ((hσ _).map _)
  rw [hperm.mem_iff, List.mem_map]
  constructor
  · rintro ⟨⟨k, v⟩, hmem, rfl⟩
    have h := (GoMap.mem_entries _ k v).mp hmem
    rw [authorMap_exact] at h
    by_cases he : commitsBy k commits = []
    · simp [he] at h
    · simp only [he, ↓reduceIte, Option.some.injEq] at h
      subst h
      exact ⟨he, rfl, rfl⟩
  · rintro ⟨hne, hc, hl⟩
    refine ⟨(t.name, t), ?_, rfl⟩
    rw [GoMap.mem_entries, authorMap_exact]
    simp only [hne, ↓reduceIte, Option.some.injEq]
    cases t
    simp_all

/-- every author is listed once -/
theorem top_authors_once (σ : List (String × TopAuthor) → List (String × TopAuthor)) (hσ : OracleOK σ)
    (commits : List Commit) : ((topAuthors σ commits).map (·.name)).Nodup := by
  have hperm : (topAuthors σ commits).Perm ((GoMap.entries (authorMap commits)).map (·.2)) :=
    (List.mergeSort_perm _ _).trans ((hσ _).map _)
  refine (hperm.map (·.name)).nodup_iff.mpr ?_
  rw [List.map_map]
  have hkey : (GoMap.entries (authorMap commits)).map ((fun t : TopAuthor => t.name) ∘ fun e => e.2) =
      (GoMap.entries (authorMap commits)).map (·.1) := by
    apply List.map_congr_left
    rintro ⟨k, v⟩ hmem
    have h := (GoMap.mem_entries _ k v).mp hmem
    rw [authorMap_exact] at h
    by_cases he : commitsBy k commits = []
    · simp [he] at h
    · simp only [he, ↓reduceIte, Option.some.injEq] at h
      subst h
      rfl
  rw [hkey]
  exact GoMap.entries_keys_nodup _

-- non-vacuity (a test, evaluated by the compiler): two authors, one of them with two commits and a deletion
#guard topAuthors id [{ author := "ann", changes := [⟨5, 0, "a", ""⟩] }, { author := "bob", changes := [⟨1, 0, "b", ""⟩] },
                      { author := "ann", changes := [⟨0, 2, "a", ""⟩] }] ==
    [{ name := "ann", commitCount := 2, lineCount := 3 }, { name := "bob", commitCount := 1, lineCount := 1 }]
example : commitsBy "ann" [{ author := "ann" }, { author := "bob" }, { author := "ann" }] = [{ author := "ann" }, { author := "ann" }] := by decide

/-- top authors are listed in non-increasing order of commits -/
theorem top_authors_sorted (σ : List (String × TopAuthor) → List (String × TopAuthor)) (commits : List Commit) :
    (topAuthors σ commits).Pairwise (fun a b => a.commitCount ≥ b.commitCount) := by
  have := List.pairwise_mergeSort (le := commitsGe)
    (fun a b c hab hbc => by simp only [commitsGe, decide_eq_true_eq] at *; omega)
    (fun a b => by simp only [commitsGe, Bool.or_eq_true, decide_eq_true_eq]; omega)
    ((σ (GoMap.entries (authorMap commits))).map (·.2))
  exact this.imp (fun h => by simpa [commitsGe] using h)

/-- basic summary: numbers of commits, distinct authors and distinct paths -/
theorem basic_summary_counts (commits : List Commit) :
    (basicSummary commits).commits = commits.length ∧
    (basicSummary commits).authors = (GoMap.dedup (commits.map (·.author))).length ∧
    (GoMap.dedup (commits.map (·.author))).Nodup ∧
    (∀ a, a ∈ GoMap.dedup (commits.map (·.author)) ↔ a ∈ commits.map (·.author)) ∧
    (basicSummary commits).entities = (GoMap.dedup (commits.flatMap fun c => c.changes.map (·.file))).length ∧
    (GoMap.dedup (commits.flatMap fun c => c.changes.map (·.file))).Nodup :=
  ⟨rfl, rfl, GoMap.dedup_nodup _, fun a => GoMap.mem_dedup _ a, rfl, GoMap.dedup_nodup _⟩

/-- code age lists each existing file with its first-commit date, oldest first -/
theorem code_age_sorted (σ : List (String × Info) → List (String × Info)) (commits : List Commit) :
    (codeAge σ commits).Pairwise (fun a b => a.2 ≤ b.2) := by
  have := List.pairwise_mergeSort (le := dateLe)
    (fun a b c hab hbc => by simp only [dateLe, decide_eq_true_eq] at *; exact String.le_trans hab hbc)
    (fun a b => by simp only [dateLe, Bool.or_eq_true, decide_eq_true_eq]; exact String.le_total _ _)
    ((σ (GoMap.entries (buildInfos commits))).map fun (_, i) => (i.name, i.date))
  exact this.imp (fun h => by simpa [dateLe] using h)

theorem code_age_rows (σ : List (String × Info) → List (String × Info)) (hσ : OracleOK σ) (commits : List Commit) :
    (codeAge σ commits).Perm ((GoMap.entries (buildInfos commits)).map fun (_, i) => (i.name, i.date)) :=
  (List.mergeSort_perm _ _).trans ((hσ _).map _)

/-- THE CHANGELOG SUMMARY, exactly: for every conventional-commit type and every file, the number the summary shows (an absent
    type or file counts as 0) is the number of changes to that file made by commits whose subject has that type — a brace
    rename counted under its new name.  `typeOf` is the first group of the regenerated subject regex. -/
theorem changelog_exact (commits : List Commit) (kw f : String) :
    cntK (changeMap commits) kw f = (countedOf kw commits).count f := changeMap_exact commits kw f

/-- a commit whose subject has no conventional type changes nothing in the summary -/
theorem changelog_untyped_ignored (commits : List Commit) (c : Commit) (h : typeOf c = none) (kw f : String) :
    cntK (changeMap (commits ++ [c])) kw f = cntK (changeMap commits) kw f := by
  rw [changelog_exact, changelog_exact]
  simp [countedOf, List.filter_append, h]

-- non-vacuity (a test, evaluated by the compiler): two feat commits touching a.go, one fix commit, one untyped
#guard cntK (changeMap [{ message := "feat: x", changes := [⟨1, 0, "a.go", ""⟩, ⟨1, 0, "b.go", ""⟩] }, { message := "fix(core): y", changes := [⟨1, 0, "a.go", ""⟩] },
                        { message := "feat(ui): z", changes := [⟨0, 1, "a.go", ""⟩] }, { message := "wip", changes := [⟨1, 0, "a.go", ""⟩] }]) "feat" "a.go" == 2

/-- the regular expressions the rename notations are read with are the ones in the Go source -/
theorem move_regex_sources_pinned :
    Gen.Git.complexMoveSrc = "(.*)\\{(.*)\\s=>\\s(.*)\\}(.*)" ∧ Gen.Git.basicMoveSrc = "(.*)\\s=>\\s(.*)" ∧
    Gen.Git.changeLogSrc = "^(\\w*)(?:\\((.*)\\))?: (.*)$" := ⟨rfl, rfl, rfl⟩

/-- non-vacuity: the in-directory and the full-path notation are read as renames -/
example : fileOp "src/{a.txt => b.txt}" = .move "src/a.txt" "src/b.txt" ∧ fileOp "a.txt => d/b.txt" = .move "a.txt" "d/b.txt" ∧
    fileOp "d/{ => sub}/f.go" = .move "d/f.go" "d/sub/f.go" ∧ fileOp "plain.txt" = .plain "plain.txt" := by decide

end CocaVerif.Props.C15
