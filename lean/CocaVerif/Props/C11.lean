/-
  C11 — Test-smell findings are exactly those evidenced in the test sources (model of tbs_app.go).
  For EVERY code model, class `d` and method `m`; `cs` is the method's call list after one level of
  same-class helper inlining (`inlined`).  `EmptyTest` deviates from the statement (known findings
  tbs-emptytest-single-call and tbs-ignore-only-empty, both pinned by repository tests): the full
  clause is stated as `emptyTest_full`, refuted by witnesses, and the exact behaviour is
  `emptyTest_characterised`.
-/
import CocaVerif.Proofs.Tbs

namespace CocaVerif.Props.C11
open CocaVerif CocaVerif.Tbs CocaVerif.Gen.Tbs

/-- methods without @Test/@Ignore never produce a finding -/
theorem non_test_silent (clzs : List DS) (d : DS) (m : Fn) (h : isJunitTest m = false) :
    methodFindings clzs d m = [] := by
  simp [methodFindings, h]

/-- "is a test method" means: carries an annotation named Test or Ignore -/
theorem isJunitTest_iff (m : Fn) : isJunitTest m = true ↔ ∃ a ∈ m.annos, a.name = "Test" ∨ a.name = "Ignore" := by
  simp [isJunitTest, isTestAnno, isIgnoreAnno]

/-- every finding names the file it was found in -/
theorem finding_names_file (clzs : List DS) (d : DS) (m : Fn) : ∀ f ∈ methodFindings clzs d m, f.file = d.path := by
  intro f hf
  unfold methodFindings at hf
  split at hf
  · simp only [List.mem_append, List.mem_flatMap] at hf
    rcases hf with (⟨a, _, h | h⟩ | h) | h
    · unfold ignoreF at h; split at h <;> simp at h; subst h; rfl
    · unfold emptyF at h
      split at h
      · split at h <;> simp at h; subst h; rfl
      · simp at h
    · generalize inlined clzs d m = cs at h
      generalize false = has at h
      induction cs generalizing has with
      | nil => simp [callLoop] at h
      | cons c rest ih =>
        unfold callLoop at h
        split at h
        · simp only [List.mem_append] at h
          rcases h with h | h
          · split at h
            · unfold assertF at h; split at h <;> simp at h; subst h; rfl
            · simp at h
          · exact ih _ h
        · simp only [List.mem_append] at h
          rcases h with (((h | h) | h) | h) | h
          · unfold printF at h; split at h <;> simp at h; subst h; rfl
          · unfold sleepF at h; split at h <;> simp at h; subst h; rfl
          · unfold redundantF at h; split at h <;> simp at h; subst h; rfl
          · split at h
            · unfold assertF at h; split at h <;> simp at h; subst h; rfl
            · simp at h
          · exact ih _ h
    · unfold dupF at h; split at h <;> simp at h; subst h; rfl
  · simp at hf

/-- findings of type `t` of a test method, split by origin -/
theorem ofType_methodFindings (clzs : List DS) (d : DS) (m : Fn) (t : String) (h : isJunitTest m = true) :
    ofType t (methodFindings clzs d m) =
      (m.annos.flatMap fun a => ofType t (ignoreF d.path a) ++ ofType t (emptyF d.path m (inlined clzs d m).length a)) ++
      ofType t (callLoop d.path m (inlined clzs d m) false) ++ ofType t (dupF d.path m (inlined clzs d m)) := by
  simp only [methodFindings, h, ↓reduceIte, ofType_append]
  congr 2
  induction m.annos with
  | nil => rfl
  | cons a as ih => simp only [List.flatMap_cons, ofType_append, ih]

theorem annos_none (t : String) (d : DS) (m : Fn) (n : Nat) (h1 : "IgnoreTest" ≠ t) (h2 : "EmptyTest" ≠ t) :
    (m.annos.flatMap fun a => ofType t (ignoreF d.path a) ++ ofType t (emptyF d.path m n a)) = [] := by
  rw [List.flatMap_eq_nil_iff]
  intro a _
  rw [ofType_ne (ignoreF_type d.path a) h1, ofType_ne (emptyF_type d.path m n a) h2]; rfl

theorem flatMap_ite_singleton {α β : Type} (p : α → Bool) (g : α → β) (l : List α) :
    (l.flatMap fun c => if p c then [g c] else []) = (l.filter p).map g := by
  induction l with
  | nil => rfl
  | cons x xs ih =>
    rw [List.flatMap_cons, ih, List.filter_cons]
    cases p x <;> simp

/-- RedundantPrintTest: one per System.out.print/println/printf call, at that call's line -/
theorem print_exact (clzs : List DS) (d : DS) (m : Fn) (h : isJunitTest m = true) :
    ofType "RedundantPrintTest" (methodFindings clzs d m) =
      ((inlined clzs d m).filter fun c => c.fn != "" && (c.node == "System.out" && (c.fn == "println" || c.fn == "printf" || c.fn == "print"))).map
        fun c => { file := d.path, type := "RedundantPrintTest", line := c.pos.startLine } := by
  rw [ofType_methodFindings _ _ _ _ h, annos_none _ _ _ _ (by decide) (by decide),
    ofType_ne (dupF_type _ _ _) (by decide), callLoop_ofType _ _ _ (by decide)]
  simp only [List.nil_append, List.append_nil]
  rw [← flatMap_ite_singleton]
  congr 1; funext c
  have e2 := ofType_ne (sleepF_type d.path c) (t := "RedundantPrintTest") (by decide)
  have e3 := ofType_ne (redundantF_type d.path m c) (t := "RedundantPrintTest") (by decide)
  have e1 := ofType_same (printF_type d.path c)
  simp only [ofType_append, e1, e2, e3, List.append_nil]
  show (if real c = true then printF d.path c else []) =
    if (c.fn != "" && isSystemOutput c.node c.fn) = true then _ else _
  unfold real printF
  generalize (c.fn != "") = b1
  generalize isSystemOutput c.node c.fn = b2
  cases b1 <;> cases b2 <;> rfl

/-- SleepyTest: one per Thread.sleep call, at that call's line -/
theorem sleepy_exact (clzs : List DS) (d : DS) (m : Fn) (h : isJunitTest m = true) :
    ofType "SleepyTest" (methodFindings clzs d m) =
      ((inlined clzs d m).filter fun c => c.fn != "" && (c.fn == "sleep" && c.node == "Thread")).map
        fun c => { file := d.path, type := "SleepyTest", line := c.pos.startLine } := by
  rw [ofType_methodFindings _ _ _ _ h, annos_none _ _ _ _ (by decide) (by decide),
    ofType_ne (dupF_type _ _ _) (by decide), callLoop_ofType _ _ _ (by decide)]
  simp only [List.nil_append, List.append_nil]
  rw [← flatMap_ite_singleton]
  congr 1; funext c
  have e1 := ofType_ne (printF_type d.path c) (t := "SleepyTest") (by decide)
  have e3 := ofType_ne (redundantF_type d.path m c) (t := "SleepyTest") (by decide)
  have e2 := ofType_same (sleepF_type d.path c)
  simp only [ofType_append, e1, e2, e3, List.append_nil, List.nil_append]
  show (if real c = true then sleepF d.path c else []) =
    if (c.fn != "" && isThreadSleep c.node c.fn) = true then _ else _
  unfold real sleepF
  generalize (c.fn != "") = b1
  generalize isThreadSleep c.node c.fn = b2
  cases b1 <;> cases b2 <;> rfl

/-- RedundantAssertionTest: one per two-argument call whose arguments are textually identical -/
theorem redundantAssertion_exact (clzs : List DS) (d : DS) (m : Fn) (h : isJunitTest m = true) :
    ofType "RedundantAssertionTest" (methodFindings clzs d m) =
      ((inlined clzs d m).filter fun c => c.fn != "" &&
          (match c.params with | [a, b] => a.typeValue == b.typeValue | _ => false)).map
        fun _ => { file := d.path, type := "RedundantAssertionTest", line := m.pos.startLine } := by
  rw [ofType_methodFindings _ _ _ _ h, annos_none _ _ _ _ (by decide) (by decide),
    ofType_ne (dupF_type _ _ _) (by decide), callLoop_ofType _ _ _ (by decide)]
  simp only [List.nil_append, List.append_nil]
  rw [← flatMap_ite_singleton]
  congr 1; funext c
  have e1 := ofType_ne (printF_type d.path c) (t := "RedundantAssertionTest") (by decide)
  have e2 := ofType_ne (sleepF_type d.path c) (t := "RedundantAssertionTest") (by decide)
  have e3 := ofType_same (redundantF_type d.path m c)
  simp only [ofType_append, e1, e2, e3, List.nil_append]
  have h2 : (twoParamsCond c.params.length 2 && sameTwoArgs c) = sameTwoArgs c := by
    unfold sameTwoArgs twoParamsCond
    match c.params with
    | [] => rfl
    | [_] => rfl
    | [_, _] => rfl
    | _ :: _ :: _ :: _ => rfl
  show (if real c = true then redundantF d.path m c else []) =
    if (c.fn != "" && sameTwoArgs c) = true then _ else _
  unfold real redundantF
  rw [h2]
  generalize (c.fn != "") = b1
  generalize sameTwoArgs c = b2
  cases b1 <;> cases b2 <;> rfl

/-- UnknownTest: exactly one finding iff the method makes calls but none is an assertion
    (directly or through a helper of the same class: `inlined`), none otherwise -/
theorem unknown_exact (clzs : List DS) (d : DS) (m : Fn) (h : isJunitTest m = true) :
    ofType "UnknownTest" (methodFindings clzs d m) =
      if inlined clzs d m ≠ [] ∧ ((inlined clzs d m).any fun c => c.fn != "" && hasAssertion c) = false then
        [{ file := d.path, type := "UnknownTest", line := m.pos.startLine }] else [] := by
  rw [ofType_methodFindings _ _ _ _ h, annos_none _ _ _ _ (by decide) (by decide),
    ofType_ne (dupF_type _ _ _) (by decide), callLoop_unknown]
  simp [real]

/-- an assertion is a call whose lower-cased name starts with one of the regenerated prefixes -/
theorem assertion_prefixes : assertionList = ["assert", "should", "check", "maynotbe", "is", "spec", "verify"] := rfl

/-- IgnoreTest: one per @Ignore annotation of the method -/
theorem ignore_exact (clzs : List DS) (d : DS) (m : Fn) (h : isJunitTest m = true) :
    ofType "IgnoreTest" (methodFindings clzs d m) =
      (m.annos.filter fun a => a.name == "Ignore").map fun _ => { file := d.path, type := "IgnoreTest", line := 0 } := by
  rw [ofType_methodFindings _ _ _ _ h, ofType_ne (dupF_type _ _ _) (by decide), callLoop_ofType _ _ _ (by decide)]
  have hz : ((inlined clzs d m).flatMap fun c => if real c then
      ofType "IgnoreTest" (printF d.path c ++ sleepF d.path c ++ redundantF d.path m c) else []) = [] := by
    rw [List.flatMap_eq_nil_iff]
    intro c _
    have e1 := ofType_ne (printF_type d.path c) (t := "IgnoreTest") (by decide)
    have e2 := ofType_ne (sleepF_type d.path c) (t := "IgnoreTest") (by decide)
    have e3 := ofType_ne (redundantF_type d.path m c) (t := "IgnoreTest") (by decide)
    simp [ofType_append, e1, e2, e3]
  rw [hz]
  simp only [List.append_nil]
  induction m.annos with
  | nil => rfl
  | cons a as ih =>
    rw [List.flatMap_cons, ih, List.filter_cons, ofType_ne (emptyF_type _ _ _ a) (by decide), ofType_same (ignoreF_type _ a)]
    cases hi : (a.name == "Ignore") <;> simp [ignoreF, isIgnoreAnno, hi]

/-- EmptyTest, as the code behaves: one per @Test annotation iff the (inlined) call list has AT MOST
    ONE call; nothing for an @Ignore-only method -/
theorem emptyTest_characterised (clzs : List DS) (d : DS) (m : Fn) (h : isJunitTest m = true) :
    ofType "EmptyTest" (methodFindings clzs d m) =
      if (inlined clzs d m).length ≤ 1 then
        (m.annos.filter fun a => a.name == "Test").map fun _ => { file := d.path, type := "EmptyTest", line := m.pos.startLine }
      else [] := by
  rw [ofType_methodFindings _ _ _ _ h, ofType_ne (dupF_type _ _ _) (by decide), callLoop_ofType _ _ _ (by decide)]
  have hz : ((inlined clzs d m).flatMap fun c => if real c then
      ofType "EmptyTest" (printF d.path c ++ sleepF d.path c ++ redundantF d.path m c) else []) = [] := by
    rw [List.flatMap_eq_nil_iff]
    intro c _
    have e1 := ofType_ne (printF_type d.path c) (t := "EmptyTest") (by decide)
    have e2 := ofType_ne (sleepF_type d.path c) (t := "EmptyTest") (by decide)
    have e3 := ofType_ne (redundantF_type d.path m c) (t := "EmptyTest") (by decide)
    simp [ofType_append, e1, e2, e3]
  rw [hz]
  simp only [List.append_nil]
  generalize (inlined clzs d m).length = n
  induction m.annos with
  | nil => simp
  | cons a as ih =>
    rw [List.flatMap_cons, ih, List.filter_cons, ofType_ne (ignoreF_type _ a) (by decide), ofType_same (emptyF_type _ _ _ a)]
    cases hi : (a.name == "Test") <;> by_cases hn : n ≤ 1 <;> simp [emptyF, isTestAnno, emptyTestCond, hi, hn]

/-- FULL clause of the statement: a test method gets EmptyTest iff its body makes no call -/
def emptyTest_full : Prop := ∀ (clzs : List DS) (d : DS) (m : Fn), isJunitTest m = true →
  ((∃ f ∈ methodFindings clzs d m, f.type = "EmptyTest") ↔ inlined clzs d m = [])

def oneCallTest : Fn := { name := "t", annos := [{ name := "Test" }], calls := [{ pkg := "p", node := "Svc", fn := "run" }] }

/-- witness (known finding tbs-emptytest-single-call): one call, yet EmptyTest is reported -/
theorem emptyTest_full_fails : ¬ emptyTest_full := by
  intro h
  have := (h [] { node := "OneCallTest", pkg := "p", path := "OneCallTest.java", fns := [oneCallTest] } oneCallTest (by decide)).mp
    ⟨{ file := "OneCallTest.java", type := "EmptyTest", line := 0 }, by decide, rfl⟩
  exact absurd this (by decide)

/-- witness (known finding tbs-ignore-only-empty): @Ignore-only, no call, no EmptyTest -/
theorem ignore_only_empty_witness :
    methodFindings [] { node := "IgnoredTest", path := "IgnoredTest.java" } { name := "t", annos := [{ name := "Ignore" }] } =
      [{ file := "IgnoredTest.java", type := "IgnoreTest", line := 0 }] := by decide

/-- DuplicateAssertTest: reported (once) iff some assertion method is called at least 5 times -/
theorem duplicateAssert_iff (clzs : List DS) (d : DS) (m : Fn) (h : isJunitTest m = true) :
    ofType "DuplicateAssertTest" (methodFindings clzs d m) =
      if isDupAssert (inlined clzs d m) then [{ file := d.path, type := "DuplicateAssertTest", line := m.pos.startLine }] else [] := by
  rw [ofType_methodFindings _ _ _ _ h, annos_none _ _ _ _ (by decide) (by decide), callLoop_ofType _ _ _ (by decide),
    ofType_same (dupF_type _ _ _)]
  have hz : ((inlined clzs d m).flatMap fun c => if real c then
      ofType "DuplicateAssertTest" (printF d.path c ++ sleepF d.path c ++ redundantF d.path m c) else []) = [] := by
    rw [List.flatMap_eq_nil_iff]
    intro c _
    have e1 := ofType_ne (printF_type d.path c) (t := "DuplicateAssertTest") (by decide)
    have e2 := ofType_ne (sleepF_type d.path c) (t := "DuplicateAssertTest") (by decide)
    have e3 := ofType_ne (redundantF_type d.path m c) (t := "DuplicateAssertTest") (by decide)
    simp [ofType_append, e1, e2, e3]
  rw [hz]; simp [dupF]

/-- … where "called at least 5 times" is: some full callee name has ≥ 5 non-creation calls, the
    last of which is an assertion (all calls of a group share the function name) -/
theorem isDupAssert_iff (cs : List Call) : isDupAssert cs = true ↔
    ∃ k ∈ (cs.filter fun c => c.fn != "").map Call.full,
      ((cs.filter fun c => c.fn != "").filter fun c => c.full == k).length ≥ 5 ∧
      ∃ c, ((cs.filter fun c => c.fn != "").filter fun c => c.full == k).getLast? = some c ∧ hasAssertion c = true := by
  unfold isDupAssert
  simp only [List.any_eq_true, GoMap.mem_dedup, Bool.and_eq_true, dupAssertCond, dupAssertLimit]
  constructor
  · rintro ⟨k, hk, hlen, hlast⟩
    refine ⟨k, hk, of_decide_eq_true hlen, ?_⟩
    split at hlast
    · rename_i c hc; exact ⟨c, hc, hlast⟩
    · simp at hlast
  · rintro ⟨k, hk, hlen, c, hc, hl⟩
    refine ⟨k, hk, decide_eq_true hlen, ?_⟩
    rw [hc]; exact hl

/-! ### non-vacuity: concrete test methods meet `isJunitTest m = true`, the hypothesis of the exactness theorems -/
example : isJunitTest oneCallTest = true := by decide
example : isJunitTest { name := "t", annos := [{ name := "Ignore" }, { name := "Test" }] } = true := by decide
example : isJunitTest { name := "helper", annos := [{ name := "Before" }] } = false := by decide

end CocaVerif.Props.C11
