/-
  C19 — Declared build dependencies are all extracted; the unused report is exact.
  Maven: `parse_tokens` — for EVERY element tree, the stack machine of ParseXML rebuilds the tree from
  its token stream (also with blank character data, comments and processing instructions anywhere:
  `noise_irrelevant`); `maven_exact` — every `<dependency>` of the first `<dependencies>` child of the
  root is extracted exactly once, in document order, with group id, artifact id and scope, whatever
  other children it has and in whatever order.  Gradle and the unused report: decision logic over
  abstract statements.  Contracts not proved: encoding/xml's tokenisation, the Groovy parser.
-/
import CocaVerif.Model.Deps

namespace CocaVerif.Props.C19
open CocaVerif CocaVerif.Deps

/-! ### XML: tokens of a tree, and the parser rebuilds the tree -/

mutual
def toks : X → List XTok
  | .node n kids => .start n :: (toksL kids ++ [.stop])
  | .text s => [.chars s]
def toksL : List X → List XTok
  | [] => []
  | t :: ts => toks t ++ toksL ts
end

-- texts are already trimmed and non-empty (what the parser stores)
mutual
def wf : X → Prop
  | .node _ kids => wfL kids
  | .text s => trimSpace s = s ∧ s ≠ ""
def wfL : List X → Prop
  | [] => True
  | t :: ts => wf t ∧ wfL ts
end

def run (st : PSt) (ts : List XTok) : PSt := ts.foldl pstep st

theorem run_append (st : PSt) (a b : List XTok) : run st (a ++ b) = run (run st a) b := by
  simp [run, List.foldl_append]

-- inside an open element, the tokens of a tree append that tree to the element's children
mutual
theorem run_toks (t : X) (h : wf t) (pn : String) (pk : List X) (rest : List (String × List X)) (root : X) :
    run { stack := (pn, pk) :: rest, root := root } (toks t) = { stack := (pn, pk ++ [t]) :: rest, root := root } := by
  match t with
  | .text s =>
    simp only [wf] at h
    simp [toks, run, pstep, h.1, h.2]
  | .node n kids =>
    simp only [wf] at h
    simp only [toks, run, List.foldl_cons, pstep]
    rw [show List.foldl pstep { stack := (n, []) :: (pn, pk) :: rest, root := root } (toksL kids ++ [XTok.stop]) =
      run (run { stack := (n, []) :: (pn, pk) :: rest, root := root } (toksL kids)) [XTok.stop] from run_append _ _ _]
    rw [run_toksL kids h n [] ((pn, pk) :: rest) root]
    simp [run, pstep]
theorem run_toksL (ts : List X) (h : wfL ts) (pn : String) (pk : List X) (rest : List (String × List X)) (root : X) :
    run { stack := (pn, pk) :: rest, root := root } (toksL ts) = { stack := (pn, pk ++ ts) :: rest, root := root } := by
  match ts with
  | [] => simp [toksL, run]
  | t :: ts' =>
    simp only [wfL] at h
    simp only [toksL]
    rw [run_append, run_toks t h.1, run_toksL ts' h.2]
    simp
end

/-- PARSE ∘ TOKENS = ID: the document element is rebuilt exactly, for every tree (any depth/width) -/
theorem parse_tokens (n : String) (kids : List X) (h : wfL kids) : parseXML (toks (.node n kids)) = .ok (.node n kids) := by
  unfold parseXML
  have : List.foldl pstep { stack := [], root := .node "" [] } (toks (.node n kids)) =
      { stack := [], root := .node n kids } := by
    simp only [toks, List.foldl_cons, pstep]
    rw [show List.foldl pstep { stack := [(n, [])], root := X.node "" [] } (toksL kids ++ [XTok.stop]) =
      run (run { stack := [(n, [])], root := X.node "" [] } (toksL kids)) [XTok.stop] from run_append _ _ _]
    rw [run_toksL kids h n [] [] _]
    simp [run, pstep]
  rw [this]; rfl

/-- noise: comments / processing instructions / directives, and blank character data -/
def isNoise : XTok → Bool
  | .other => true
  | .chars s => trimSpace s == ""
  | _ => false

theorem pstep_noise (st : PSt) (t : XTok) (h : isNoise t = true) : pstep st t = st := by
  cases t with
  | other => rfl
  | chars s =>
    simp only [isNoise, beq_iff_eq] at h
    show (match st.stack with
      | [] => st
      | (n, kids) :: rest =>
        if (trimSpace s != "") = true then { st with stack := (n, kids ++ [X.text (trimSpace s)]) :: rest } else st) = st
    split
    · rfl
    · simp [h]
  | start n => simp [isNoise] at h
  | stop => simp [isNoise] at h

/-- indentation, comments and the XML declaration anywhere in the stream do not change the result -/
theorem noise_irrelevant (ts : List XTok) : parseXML ts = parseXML (ts.filter fun t => !isNoise t) := by
  unfold parseXML
  have : ∀ (st : PSt), ts.foldl pstep st = (ts.filter fun t => !isNoise t).foldl pstep st := by
    induction ts with
    | nil => intro st; rfl
    | cons t rest ih =>
      intro st
      cases hn : isNoise t
      · simp only [List.filter_cons, hn, Bool.not_false, ↓reduceIte, List.foldl_cons]; exact ih _
      · simp only [List.filter_cons, hn, Bool.not_true, Bool.false_eq_true, ↓reduceIte, List.foldl_cons, pstep_noise st t hn]
        exact ih _
  rw [this]

/-! ### Maven extraction -/

/-- a child of `<dependency>`: either one of the three fields with a single text, or any other element -/
inductive Field where
  | group (v : String)
  | artifact (v : String)
  | scope (v : String)
  | other (name : String) (kids : List X) (h : name ≠ "groupId" ∧ name ≠ "artifactId" ∧ name ≠ "scope")

def Field.toX : Field → X
  | .group v => .node "groupId" [.text v]
  | .artifact v => .node "artifactId" [.text v]
  | .scope v => .node "scope" [.text v]
  | .other n k _ => .node n k

def Field.apply (d : Dep) : Field → Dep
  | .group v => { d with group := v }
  | .artifact v => { d with artifact := v }
  | .scope v => { d with scope := v }
  | .other _ _ _ => d

/-- the dependency denoted by a field list, in any order (a repeated field: the last one wins) -/
def depOf (fs : List Field) : Dep := fs.foldl Field.apply {}

theorem buildDep_fold (fs : List Field) : ∀ (d : Dep),
    (fs.map Field.toX).foldl (fun acc k => match acc, k with
      | .error e, _ => .error e
      | .ok _, .text _ => .error "interface conversion: not an XMLNode"
      | .ok d, .node name sub =>
        if name == "groupId" then (lastText sub d.group).map fun s => { d with group := s }
        else if name == "artifactId" then (lastText sub d.artifact).map fun s => { d with artifact := s }
        else if name == "scope" then (lastText sub d.scope).map fun s => { d with scope := s }
        else .ok d) (Except.ok d : Except String Dep) = .ok (fs.foldl Field.apply d) := by
  induction fs with
  | nil => intro d; rfl
  | cons f rest ih =>
    intro d
    simp only [List.map_cons, List.foldl_cons]
    cases f with
    | group v => simp only [Field.toX, Field.apply]; exact ih _
    | artifact v => simp only [Field.toX, Field.apply]; exact ih _
    | scope v => simp only [Field.toX, Field.apply]; exact ih _
    | other n k h =>
      have h1 : (n == "groupId") = false := by simpa using h.1
      have h2 : (n == "artifactId") = false := by simpa using h.2.1
      have h3 : (n == "scope") = false := by simpa using h.2.2
      simp only [Field.toX, Field.apply, h1, h2, h3, Bool.false_eq_true, ↓reduceIte]
      exact ih _

theorem buildDep_exact (fs : List Field) : buildDep (fs.map Field.toX) = .ok (depOf fs) := buildDep_fold fs {}

/-- every `<dependency>` is extracted exactly once, in document order -/
theorem buildDeps_exact (deps : List (List Field)) :
    buildDeps (deps.map fun fs => X.node "dependency" (fs.map Field.toX)) = .ok (deps.map depOf) := by
  unfold buildDeps
  have : ∀ (acc : List Dep),
      (deps.map fun fs => X.node "dependency" (fs.map Field.toX)).foldl (fun acc k => match acc, k with
        | .error e, _ => .error e
        | .ok _, .text _ => .error "interface conversion: not an XMLNode"
        | .ok l, .node _ sub => (buildDep sub).map fun d => l ++ [d]) (Except.ok acc : Except String (List Dep))
      = .ok (acc ++ deps.map depOf) := by
    induction deps with
    | nil => intro acc; simp
    | cons fs rest ih =>
      intro acc
      simp only [List.map_cons, List.foldl_cons, buildDep_exact]
      have := ih (acc ++ [depOf fs])
      simpa [Except.map] using this
  have h0 := this []
  simp only [List.nil_append] at h0
  exact h0

/-- sections before the dependencies block (anything but text and another `dependencies`) are skipped -/
theorem analysisRoot_skips (pre : List (String × List X)) (hpre : ∀ p ∈ pre, p.1 ≠ "dependencies")
    (ds post : List X) :
    analysisRoot (pre.map (fun p => X.node p.1 p.2) ++ X.node "dependencies" ds :: post) = buildDeps ds := by
  induction pre with
  | nil => simp [analysisRoot]
  | cons p rest ih =>
    have hp : (p.1 == "dependencies") = false := by simpa using hpre p (by simp)
    simp only [List.map_cons, List.cons_append, analysisRoot, hp, Bool.false_eq_true, ↓reduceIte]
    exact ih (fun q hq => hpre q (by simp [hq]))

/-- MAVEN EXACTNESS, end to end over the token stream -/
theorem maven_exact (projName : String) (pre : List (String × List X)) (hpre : ∀ p ∈ pre, p.1 ≠ "dependencies")
    (deps : List (List Field)) (post : List X)
    (hwf : wfL (pre.map (fun p => X.node p.1 p.2) ++
      X.node "dependencies" (deps.map fun fs => X.node "dependency" (fs.map Field.toX)) :: post)) :
    analysisMaven (toks (.node projName (pre.map (fun p => X.node p.1 p.2) ++
      X.node "dependencies" (deps.map fun fs => X.node "dependency" (fs.map Field.toX)) :: post)))
    = .ok (deps.map depOf) := by
  unfold analysisMaven
  rw [parse_tokens _ _ hwf]
  simp only
  rw [analysisRoot_skips pre hpre, buildDeps_exact]

/-! ### Gradle and the unused report -/

/-- entries in other notations are skipped without disturbing the rest -/
theorem gradle_other_skipped (a b : List GStmt) (conf what : String) :
    gradleDeps (a ++ { conf := conf, nota := .other what } :: b) = gradleDeps a ++ gradleDeps b := by
  simp [gradleDeps, stmtDeps, List.flatMap_append]

/-- a string notation `g:a[:v]` — single or double quoted, parenthesised or not, with or without a
    configuration closure — is extracted exactly once, in declaration order, with its configuration -/
theorem gradle_string_extracted (a b : List GStmt) (conf text : String) (q : Char) (paren closure : Bool) (d : Dep)
    (h : convert conf text = some d) :
    gradleDeps (a ++ { conf := conf, nota := .str q paren closure text } :: b) = gradleDeps a ++ d :: gradleDeps b := by
  simp [gradleDeps, stmtDeps, List.flatMap_append, h]

/-- a statement with several string notations (`implementation 'a:b', 'c:d'`) declares each of them, in order -/
theorem gradle_strings_all_extracted (a b : List GStmt) (conf : String) (paren : Bool) (texts : List String) (ds : List Dep)
    (h : texts.map (convert conf) = ds.map some) :
    gradleDeps (a ++ { conf := conf, nota := .strs paren texts } :: b) = gradleDeps a ++ ds ++ gradleDeps b := by
  have hf : ∀ (ts : List String) (es : List Dep), ts.map (convert conf) = es.map some → ts.filterMap (convert conf) = es := by
    intro ts
    induction ts with
    | nil => intro es he; cases es with
      | nil => rfl
      | cons e es => simp at he
    | cons t ts ih =>
      intro es he
      cases es with
      | nil => simp at he
      | cons e es =>
        simp only [List.map_cons, List.cons.injEq] at he
        simp only [List.filterMap_cons, he.1]
        rw [ih es he.2]
  simp [gradleDeps, stmtDeps, List.flatMap_append, hf texts ds h]

/-- the unused report is exactly the sub-list of declared dependencies whose group id occurs in no import -/
theorem unused_exact (declared : List Dep) (imports : List String) (d : Dep) :
    d ∈ unused declared imports ↔ d ∈ declared ∧ ∀ i ∈ imports, containsSub i d.group = false := by
  simp [unused, List.mem_filter]

theorem unused_sublist (declared : List Dep) (imports : List String) : (unused declared imports).Sublist declared :=
  List.filter_sublist

-- (tests) a dependency with fields in unusual order and extra children; a Gradle string split
example : depOf [.scope "test", .other "version" [.text "1"] (by decide), .artifact "junit", .group "junit"] =
    { group := "junit", artifact := "junit", scope := "test" } := by decide
#guard convert "api" "org.a:lib-a:1.0" = some { group := "org.a", artifact := "lib-a", scope := "api" }
#guard convert "api" "justone" = none

end CocaVerif.Props.C19
