/-
  C07 — A file's analysis result is independent of other files, order and repetition.

  Full pass.  `NewJavaFullListener` + `initClass` re-initialise every package variable the listener of a
  conventional file reads (which ones is regenerated from the source: `Gen.JavaFull.resets*`,
  `unresetGlobals`).  Hence the state the walker starts a file from does not depend on the state the
  previous file left (`newListener_const`), hence for EVERY event list — no well-formedness needed —
  the entries of a file are a function of (events of the file, identifier set, path) only
  (`runFile_independent`), and a run over any list of files is the concatenation of the per-file
  results (`runFiles_eq`).  Order, subsets/supersets with the identifier set fixed, and repetition in
  one process are corollaries (`perm`, `file_in_any_run`, `repetition_same`, `second_run_same`).

  Call graph / reverse call graph: `Analysis` / `NewRCallGraph` reset their traversal globals
  (regenerated), so the graph text does not depend on the incoming process state
  (`call_graph_state_independent`, `rcall_graph_state_independent`) and generating it twice gives the
  same graph (`call_graph_twice`, `rcall_graph_twice`).

  API scan: `C12.file_independent` (re-exported as `api_file_independent`).
  Identifier pass: Props/C01Ident.lean (`ident_file_independent`, `runFiles_eq`); `ident_unreset` pins the
  regenerated fact it rests on.
  Bad-smell pass: its listener is not modelled callback by callback; it is modelled as an ARBITRARY
  deterministic transition function over the package-level variables of its one source file, whose
  constructor re-initialises every variable except those in the regenerated list
  `Gen.Bs.listenerUnreset`.  `bs_unreset` pins that list to [] and `bs_file_independent` derives, for any
  such transition function and any event list, that what the pass reports for a file does not depend on
  the state left by earlier files.  (Trusted: the callbacks touch no other mutable state — the package
  has this one file.)  The runs of C07 execute the real bad-smell app on every order / subset too.
-/
import CocaVerif.Model.JavaFull
import CocaVerif.Model.Call
import CocaVerif.Props.C12
import CocaVerif.Gen.Ident
import CocaVerif.Gen.Bs

namespace CocaVerif.Props.C07
open CocaVerif CocaVerif.JavaFull

/-- the regenerated facts: every table / flag of the listener is assigned by `NewJavaFullListener`, which calls `initClass` -/
theorem listener_facts :
    Gen.JavaFull.resetsMapFields = true ∧ Gen.JavaFull.resetsLocalVars = true ∧ Gen.JavaFull.resetsFormalParameters = true ∧
    Gen.JavaFull.resetsOuterBlocks = true ∧ Gen.JavaFull.resetsCurrentType = true ∧ Gen.JavaFull.resetsHasEnterClass = true ∧
    Gen.JavaFull.newListenerCallsInitClass = true := ⟨rfl, rfl, rfl, rfl, rfl, rfl, rfl⟩

/-- the package variables of java_full_listener.go that neither `NewJavaFullListener` nor `initClass` assigns:
    `clzs` is assigned by `AppendClasses` right after construction; the other two are only touched inside
    anonymous classes (`new T() { … }`), which are not members of a conventional unit -/
theorem full_unreset : Gen.JavaFull.unresetGlobals = ["clzs", "creatorMethodMap", "currentCreatorNode"] := rfl

/-- the start state of a file does not depend on what the previous file left behind -/
theorem newListener_const (st st' : FSt) (ids clzs : List String) (file : String) :
    newListener st ids clzs file = newListener st' ids clzs file := by
  simp [newListener, initClass, Gen.JavaFull.resetsMapFields, Gen.JavaFull.resetsLocalVars, Gen.JavaFull.resetsFormalParameters,
    Gen.JavaFull.resetsOuterBlocks, Gen.JavaFull.resetsCurrentType, Gen.JavaFull.resetsHasEnterClass]

/-- **the model clause of C07, full pass**: for every event list, the state (so the entries) after a file
    depends only on the file, its path and the identifier set -/
theorem runFile_independent (st st' : FSt) (ids clzs : List String) (file : String) (evs : List Ev) :
    runFile st ids clzs file evs = runFile st' ids clzs file evs := by
  unfold runFile; rw [newListener_const st st']

/-- the entries of one file, by itself, in a fresh process -/
def fileResult (ids : List String) (f : String × List Ev) : List DS := (runFile {} ids ids f.1 f.2).classNodes

theorem runFiles_eq (ids : List String) (files : List (String × List Ev)) : ∀ (st : FSt),
    (runFiles st ids files).1 = files.flatMap (fileResult ids) := by
  suffices h : ∀ (files : List (String × List Ev)) (acc : List DS × FSt),
      (files.foldl (fun acc f => let s := runFile acc.2 ids ids f.1 f.2; (acc.1 ++ s.classNodes, s)) acc).1
        = acc.1 ++ files.flatMap (fileResult ids) by
    intro st; simpa [runFiles] using h files ([], st)
  intro files
  induction files with
  | nil => intro acc; simp
  | cons f fs ih =>
    intro acc
    simp only [List.foldl_cons, List.flatMap_cons]
    rw [ih]
    simp only [fileResult, List.append_assoc]
    rw [runFile_independent acc.2 {}]

/-- order: processing the files in another order yields the same entries, in the permuted order -/
theorem perm (ids : List String) (files files' : List (String × List Ev)) (st st' : FSt) (h : files.Perm files') :
    ((runFiles st ids files).1).Perm ((runFiles st' ids files').1) := by
  rw [runFiles_eq, runFiles_eq]; exact h.flatMap_right _

/-- subsets and supersets with the identifier set held fixed: in ANY run that contains the file, from ANY process
    state, the file contributes exactly `fileResult ids f` at its place -/
theorem file_in_any_run (ids : List String) (pre post : List (String × List Ev)) (f : String × List Ev) (st : FSt) :
    (runFiles st ids (pre ++ f :: post)).1
      = (runFiles st ids pre).1 ++ fileResult ids f ++ (runFiles st ids post).1 := by
  simp [runFiles_eq]

/-- repetition inside one run: the second copy of a file gives what the first gave -/
theorem repetition_same (ids : List String) (f : String × List Ev) (st : FSt) :
    (runFiles st ids [f, f]).1 = fileResult ids f ++ fileResult ids f := by
  simp [runFiles_eq]

/-- repetition of the whole analysis in the same process -/
theorem second_run_same (ids : List String) (files : List (String × List Ev)) (st : FSt) :
    (runFiles (runFiles st ids files).2 ids files).1 = (runFiles st ids files).1 := by
  rw [runFiles_eq, runFiles_eq]

/-! ### call graph and reverse call graph, twice in one process -/

theorem graph_facts : Gen.Call.analysisResets = some 0 ∧ Gen.Call.newRCallGraphResetsLoop = some 0 ∧
    Gen.Call.newRCallGraphResetsLast = some "" := ⟨rfl, rfl, rfl⟩

attribute [local irreducible] Call.chain Call.rchain Call.renderAll Call.cfgOf Call.rcfgOf

theorem rcallChain_state_independent (clzs : List DS) (st st' : Call.St) (target : String) :
    (Call.rcallChain clzs st target).1 = (Call.rcallChain clzs st' target).1 := by
  simp [Call.rcallChain, Gen.Call.newRCallGraphResetsLoop, Gen.Call.newRCallGraphResetsLast]

theorem rcall_graph_state_independent (clzs : List DS) (st st' : Call.St) (target : String) :
    (Call.rcallAnalysis clzs st target).1 = (Call.rcallAnalysis clzs st' target).1 := by
  simp only [Call.rcallAnalysis, rcallChain_state_independent clzs st st']

theorem call_graph_state_independent (clzs : List DS) (st st' : Call.St) (root : String) (lookup : Bool) :
    (Call.callAnalysis clzs st root lookup).1 = (Call.callAnalysis clzs st' root lookup).1 := by
  have e : Gen.Call.analysisResets.getD st.callLoop = Gen.Call.analysisResets.getD st'.callLoop := rfl
  unfold Call.callAnalysis Call.callAnalysisItems
  cases lookup
  · simp only [Bool.false_eq_true, if_false]
    rw [e]
  · simp only [if_true]
    rw [e, rcallChain_state_independent clzs _ { st' with callLoop := _ }]

/-- generating the call graph twice in one process yields the same graph both times -/
theorem call_graph_twice (clzs : List DS) (st : Call.St) (root : String) (lookup : Bool) :
    (Call.callAnalysis clzs (Call.callAnalysis clzs st root lookup).2 root lookup).1 = (Call.callAnalysis clzs st root lookup).1 :=
  call_graph_state_independent _ _ _ _ _

theorem rcall_graph_twice (clzs : List DS) (st : Call.St) (target : String) :
    (Call.rcallAnalysis clzs (Call.rcallAnalysis clzs st target).2 target).1 = (Call.rcallAnalysis clzs st target).1 :=
  rcall_graph_state_independent _ _ _ _

/-! ### API scan -/

theorem api_file_independent (f : C12.CFile) (hok : ∀ m ∈ f.members, m.ok) (st1 st2 : Api.ASt) :
    (Api.runFile st1 f.events).toOption.map (·.apis) = (Api.runFile st2 f.events).toOption.map (·.apis) :=
  C12.file_independent f hok st1 st2

/-! ### listeners that are not modelled: the regenerated reset facts are pinned -/

/-- java_identifier_listener.go: every package variable is assigned by `NewJavaIdentifierListener` -/
theorem ident_unreset : Gen.Ident.unresetGlobals = [] := rfl

/-! ### bad-smell pass: a transition system over its package variables, re-initialised per file -/

/-- the constructor of a listener: every package variable gets its initial value, except the listed ones -/
def resetAllBut {V : Type} (unreset : List String) (init s : String → V) : String → V :=
  fun v => if unreset.contains v then s v else init v

/-- bad_smell_listener.go: every package variable is assigned by `NewBadSmellListener` (regenerated) -/
theorem bs_unreset : Gen.Bs.listenerUnreset = [] := rfl

/-- whatever the callbacks do with the variables (`step`), whatever is read off them at the end (`out`): the result
    for a file's events does not depend on the state `s` / `s'` the previous files left behind -/
theorem bs_file_independent {V Ev Out : Type} (init : String → V) (step : (String → V) → Ev → (String → V))
    (out : (String → V) → Out) (evs : List Ev) (s s' : String → V) :
    out (evs.foldl step (resetAllBut Gen.Bs.listenerUnreset init s)) =
      out (evs.foldl step (resetAllBut Gen.Bs.listenerUnreset init s')) := by
  have h : resetAllBut Gen.Bs.listenerUnreset init s = resetAllBut Gen.Bs.listenerUnreset init s' := by
    funext v
    simp [resetAllBut, bs_unreset]
  rw [h]

/-- and it is not true of a constructor that leaves a variable alone (what the code did before the repair): a
    `step` that copies the variable into the result tells the two start states apart -/
example : ∃ (s s' : String → Nat),
    (([()] : List Unit).foldl (fun st _ => st) (resetAllBut ["fields"] (fun _ => 0) s)) "fields" ≠
    (([()] : List Unit).foldl (fun st _ => st) (resetAllBut ["fields"] (fun _ => 0) s')) "fields" :=
  ⟨fun _ => 1, fun _ => 2, by simp [resetAllBut]⟩

/-! ### non-vacuity: two files that reuse the name `svc` with different types, run in both orders -/

def fileA : String × List Ev := ("a/A.java",
  [.pkg "p", .imp "q.T", .enterClass "A" none [], .field (some "T") ["svc"] ⟨3, 4, 3, 12⟩,
   .enterMethod "m" "void" [] [] true 4 9 6, .enterBlock,
   .call "svc" none "run" "run()" [] 5 12 5, .exitBlock, .exitMethod, .exitBody])
def fileB : String × List Ev := ("b/B.java",
  [.pkg "p", .imp "r.U", .enterClass "B" none [],
   .enterMethod "m" "void" [] [("U", "svc")] false 3 9 5, .formalParam "svc" "U", .enterBlock,
   .call "svc" none "run" "run()" [] 4 12 4, .exitBlock, .exitMethod, .exitBody])

-- the receiver `svc` resolves to q.T in A and r.U in B, in either order and when repeated
#guard ((runFiles {} ["p.A", "p.B"] [fileA, fileB]).1.map fun d => d.fns.map fun f => f.calls.map fun c => (c.pkg, c.node))
  == [[[("q", "T")]], [[("r", "U")]]]
#guard ((runFiles {} ["p.A", "p.B"] [fileB, fileA, fileB]).1.map fun d => d.fns.map fun f => f.calls.map fun c => (c.pkg, c.node))
  == [[[("r", "U")]], [[("q", "T")]], [[("r", "U")]]]

end CocaVerif.Props.C07
