/-
  C12 — Extracted HTTP APIs are exactly the annotated Spring handler methods.
  `file_exact`: for EVERY conventional controller file (any class-level annotations with at most one
  @RequestMapping written before or after the controller annotation; any number of handlers, plain
  methods and annotated fields in any order; any parameters), started from ANY listener state, the
  listener yields exactly one entry per handler — verb, base path ++ method path, request-body type,
  package, class, method — and nothing for a class without controller annotation.  Because the result
  does not depend on the incoming state, a controller's entries do not depend on which other files
  were scanned before it (`file_independent`; the API clause of C07).
  The events are what the ANTLR walker fires for the rendered file; that correspondence (renderer →
  parser → events) is exercised on every run, not proved.
-/
import CocaVerif.Model.Api

namespace CocaVerif.Props.C12
open CocaVerif CocaVerif.Api

/-- the regenerated facts these theorems need: every per-class global is reset per file, a class-level
    annotation only contributes the base path, and value= is read for every mapping annotation -/
theorem listener_facts : Gen.Api.resetsHasEnterClass = true ∧ Gen.Api.resetsHasEnterRest = true ∧
    Gen.Api.resetsBaseApiUrl = true ∧ Gen.Api.resetsRequestBodyClass = true ∧
    Gen.Api.classLevelReturns = true ∧ Gen.Api.nonRequestMappingReturns = false := ⟨rfl, rfl, rfl, rfl, rfl, rfl⟩

def isCtrlName (n : String) : Bool := n == "RestController" || n == "Controller"

/-- how a mapping annotation gives its path -/
inductive PathForm where
  | marker                         -- @GetMapping
  | positional (text : String)     -- @GetMapping("/x")            (text = the literal with its quotes)
  | value (text : String)          -- @GetMapping(value = "/x")

structure Mapping where
  name : String                    -- GetMapping | PostMapping | PutMapping | DeleteMapping | RequestMapping
  form : PathForm
  methodAttr : Option String       -- method = RequestMethod.X (only meaningful for RequestMapping)

def Mapping.ev (m : Mapping) : AnnoEv :=
  match m.form, m.methodAttr with
  | .marker, none => { name := m.name, args := .none }
  | .marker, some v => { name := m.name, args := .pairs [("method", v)] }
  | .positional t, _ => { name := m.name, args := .positional t }
  | .value t, none => { name := m.name, args := .pairs [("value", t)] }
  | .value t, some v => { name := m.name, args := .pairs [("value", t), ("method", v)] }

/-- an annotation that is neither a mapping nor a controller annotation (@Autowired, @Deprecated, @RequestBody, …) -/
def Other (a : AnnoEv) : Prop := isMapping a.name = false ∧ isCtrlName a.name = false

inductive Member where
  | handler (pre : List AnnoEv) (m : Mapping) (post : List AnnoEv) (name : String) (params : List ParamEv) (pannos : List AnnoEv)
  | plain (annos : List AnnoEv) (name : String) (params : List ParamEv) (pannos : List AnnoEv)
  | field (annos : List AnnoEv)

def Member.ok : Member → Prop
  | .handler pre m post _ _ pa => (∀ a ∈ pre ++ post ++ pa, Other a) ∧ isMapping m.name = true
  | .plain an _ _ pa => ∀ a ∈ an ++ pa, Other a
  | .field an => ∀ a ∈ an, Other a

def Member.events : Member → List Ev
  | .handler pre m post n ps pa => (pre.map .anno) ++ [.anno m.ev] ++ (post.map .anno) ++ [.method n ps] ++ (pa.map .anno)
  | .plain an n ps pa => (an.map .anno) ++ [.method n ps] ++ (pa.map .anno)
  | .field an => an.map .anno

/-- the path a mapping contributes after the base path -/
def Mapping.uri (base : String) (m : Mapping) : String :=
  match m.form with
  | .marker => removeQuotes base
  | .positional t => removeQuotes (base ++ t)
  | .value t => match stripEnds t with
    | some p => base ++ p
    | none => removeQuotes base

def Mapping.verb (m : Mapping) : String :=
  if m.name != "RequestMapping" then (verbOf m.name).getD ""
  else match m.form, m.methodAttr with
    | .positional _, _ => ""        -- @RequestMapping("/x") has no method attribute
    | _, some v => (verbOf v).getD ""
    | _, none => ""

def bodyType (params : List ParamEv) : String :=
  params.foldl (fun rb p => if p.annos.contains "RequestBody" then p.type else rb) ""

/-- the entry the statement asks for -/
def expectedOf (pkg cls base : String) : Member → List RestAPI
  | .handler _ m _ n ps _ => [{ uri := m.uri base, httpMethod := m.verb, methodName := n, requestBodyClass := bodyType ps, pkg := pkg, cls := cls }]
  | _ => []

/-- state between two members of a class body -/
structure Inv (st : ASt) (ctrl : Bool) (base pkg cls : String) (apis : List RestAPI) : Prop where
  h1 : st.hasEnterClass = true
  h2 : st.isController = ctrl
  h3 : st.hasEnterRest = false
  h4 : st.baseApiUrl = base
  h5 : st.requestBodyClass = ""
  h6 : st.apis = apis
  h7 : st.curPkg = pkg
  h8 : st.curClz = cls

theorem other_anno_inside (st : ASt) (a : AnnoEv) (h : Other a) (hc : st.hasEnterClass = true) : onAnno st a = st := by
  obtain ⟨hm, hk⟩ := h
  have hk' : (a.name == "RestController" || a.name == "Controller") = false := hk
  unfold onAnno
  simp only [hk', Bool.false_eq_true, ↓reduceIte, hc, Bool.not_true, Bool.false_and, hm, Bool.not_false]
  split <;> rfl

def runEvs (st : ASt) (evs : List Ev) : Except String ASt :=
  evs.foldl (fun acc e => match acc with | .error x => .error x | .ok s => onEv s e) (.ok st)

theorem runEvs_append (st : ASt) (a b : List Ev) :
    runEvs st (a ++ b) = match runEvs st a with | .ok s => runEvs s b | .error e => .error e := by
  unfold runEvs
  rw [List.foldl_append]
  cases h : List.foldl (fun acc e => match acc with | .error x => .error x | .ok s => onEv s e) (Except.ok st) a with
  | ok s => rfl
  | error e =>
    simp only
    induction b with
    | nil => rfl
    | cons x xs ih => simpa using ih

theorem others_inside (annos : List AnnoEv) : ∀ (st : ASt), (∀ a ∈ annos, Other a) → st.hasEnterClass = true →
    runEvs st (annos.map .anno) = .ok st := by
  induction annos with
  | nil => intro st _ _; rfl
  | cons a rest ih =>
    intro st h hc
    have : runEvs st ((a :: rest).map .anno) = runEvs (onAnno st a) (rest.map .anno) := rfl
    rw [this, other_anno_inside st a (h a (by simp)) hc]
    exact ih st (fun x hx => h x (by simp [hx])) hc

/-- a mapping annotation inside a controller class opens a pending entry with the right uri and verb -/
theorem mapping_inside (st : ASt) (m : Mapping) (hm : isMapping m.name = true)
    (hc : st.hasEnterClass = true) (hk : st.isController = true) :
    ∃ st', onAnno st m.ev = st' ∧ st'.hasEnterRest = true ∧ st'.current.uri = m.uri st.baseApiUrl ∧
      st'.current.httpMethod = m.verb ∧ st'.hasEnterClass = true ∧ st'.isController = true ∧
      st'.baseApiUrl = st.baseApiUrl ∧ st'.requestBodyClass = st.requestBodyClass ∧ st'.apis = st.apis ∧
      st'.curPkg = st.curPkg ∧ st'.curClz = st.curClz := by
  have hname : (m.ev).name = m.name := by
    unfold Mapping.ev; cases m.form <;> cases m.methodAttr <;> rfl
  have hnc : (m.name == "RestController" || m.name == "Controller") = false := by
    simp only [isMapping, Bool.or_eq_true, beq_iff_eq] at hm
    rcases hm with (((h | h) | h) | h) | h <;> rw [h] <;> decide
  refine ⟨onAnno st m.ev, rfl, ?_⟩
  unfold onAnno
  simp only [hname, hnc, Bool.false_eq_true, ↓reduceIte, hc, Bool.not_true, Bool.false_and, hk, hm, Bool.not_false,
    listener_facts.2.2.2.2.2, Bool.and_false]
  unfold Mapping.ev Mapping.uri Mapping.verb
  by_cases hr : m.name = "RequestMapping"
  · have hr' : (m.name != "RequestMapping") = false := by simp [hr]
    cases hf : m.form <;> cases ha : m.methodAttr <;>
      simp [hr', hr, hf, ha, setVerb, List.foldl, verbOf, hc] <;>
      (try (cases hs : stripEnds _ <;> simp [hs])) <;>
      (try (split <;> simp_all))
  · have hr' : (m.name != "RequestMapping") = true := by simp [hr]
    cases hf : m.form <;> cases ha : m.methodAttr <;>
      simp [hr', hr, hf, ha, setVerb, List.foldl, hc] <;>
      (try (cases hs : stripEnds _ <;> simp [hs])) <;>
      (try (cases hv : verbOf m.name <;> simp [hv]))

theorem mapping_not_controller (st : ASt) (m : Mapping) (hm : isMapping m.name = true)
    (hc : st.hasEnterClass = true) (hk : st.isController = false) : onAnno st m.ev = st := by
  have hname : (m.ev).name = m.name := by
    unfold Mapping.ev; cases m.form <;> cases m.methodAttr <;> rfl
  have hnc : (m.name == "RestController" || m.name == "Controller") = false := by
    simp only [isMapping, Bool.or_eq_true, beq_iff_eq] at hm
    rcases hm with (((h | h) | h) | h) | h <;> rw [h] <;> decide
  unfold onAnno
  simp [hname, hnc, hc, hk]

theorem onMethod_idle (st : ASt) (n : String) (ps : List ParamEv) (h : st.hasEnterRest = false) : onMethod st n ps = st := by
  unfold onMethod; simp [h]

/-- one member of the class body: the invariant is kept and exactly the expected entry is appended -/
theorem member_step (st : ASt) (ctrl : Bool) (base pkg cls : String) (apis : List RestAPI) (mem : Member)
    (hinv : Inv st ctrl base pkg cls apis) (hok : mem.ok) :
    ∃ st', runEvs st mem.events = .ok st' ∧
      Inv st' ctrl base pkg cls (apis ++ (if ctrl then expectedOf pkg cls base mem else [])) := by
  cases mem with
  | field an =>
    refine ⟨st, others_inside an st hok hinv.h1, ?_⟩
    cases ctrl <;> simpa [expectedOf] using hinv
  | plain an n ps pa =>
    simp only [Member.ok, List.mem_append] at hok
    refine ⟨st, ?_, ?_⟩
    · simp only [Member.events]
      rw [runEvs_append, runEvs_append, others_inside an st (fun a ha => hok a (Or.inl ha)) hinv.h1]
      simp only
      have : runEvs st [Ev.method n ps] = .ok st := by
        simp [runEvs, onEv, onMethod_idle st n ps hinv.h3]
      rw [this]
      exact others_inside pa st (fun a ha => hok a (Or.inr ha)) hinv.h1
    · cases ctrl <;> simpa [expectedOf] using hinv
  | handler pre m post n ps pa =>
    simp only [Member.ok, List.mem_append] at hok
    obtain ⟨hoth, hmap⟩ := hok
    simp only [Member.events]
    rw [runEvs_append, runEvs_append, runEvs_append, runEvs_append,
      others_inside pre st (fun a ha => hoth a (Or.inl (Or.inl ha))) hinv.h1]
    simp only
    cases ctrl with
    | false =>
      have h1 : runEvs st [Ev.anno m.ev] = .ok st := by
        simp [runEvs, onEv, mapping_not_controller st m hmap hinv.h1 hinv.h2]
      rw [h1]; simp only
      rw [others_inside post st (fun a ha => hoth a (Or.inl (Or.inr ha))) hinv.h1]
      simp only
      have h2 : runEvs st [Ev.method n ps] = .ok st := by
        simp [runEvs, onEv, onMethod_idle st n ps hinv.h3]
      rw [h2]; simp only
      refine ⟨st, others_inside pa st (fun a ha => hoth a (Or.inr ha)) hinv.h1, ?_⟩
      simpa using hinv
    | true =>
      obtain ⟨st1, he, r1, r2, r3, r4, r5, r6, r7, r8, r9, r10⟩ := mapping_inside st m hmap hinv.h1 hinv.h2
      have h1 : runEvs st [Ev.anno m.ev] = .ok st1 := by simp [runEvs, onEv, he]
      rw [h1]; simp only
      rw [others_inside post st1 (fun a ha => hoth a (Or.inl (Or.inr ha))) r4]
      simp only
      have h2 : runEvs st1 [Ev.method n ps] = .ok (onMethod st1 n ps) := by simp [runEvs, onEv]
      rw [h2]; simp only
      have hrb : st1.requestBodyClass = "" := by rw [r7]; exact hinv.h5
      have hfin : ∃ st2, onMethod st1 n ps = st2 ∧ st2.hasEnterClass = true ∧ st2.isController = true ∧
          st2.hasEnterRest = false ∧ st2.baseApiUrl = base ∧ st2.requestBodyClass = "" ∧
          st2.apis = apis ++ [{ uri := m.uri base, httpMethod := m.verb, methodName := n, requestBodyClass := bodyType ps,
                                pkg := pkg, cls := cls }] ∧ st2.curPkg = pkg ∧ st2.curClz = cls := by
        refine ⟨_, rfl, ?_⟩
        unfold onMethod
        simp only [r1, ↓reduceIte]
        have hb : st.baseApiUrl = base := hinv.h4
        cases hps : ps with
        | nil =>
          simp [r4, r5, r6, hb, r8, hinv.h6, r9, hinv.h7, r10, hinv.h8, r2, r3, hrb, bodyType]
        | cons p rest =>
          simp [r4, r5, r6, hb, r8, hinv.h6, r9, hinv.h7, r10, hinv.h8, r2, r3, hrb, bodyType]
      obtain ⟨st2, e2, q1, q2, q3, q4, q5, q6, q7, q8⟩ := hfin
      rw [e2]
      refine ⟨st2, others_inside pa st2 (fun a ha => hoth a (Or.inr ha)) q1, ?_⟩
      exact ⟨q1, q2, q3, q4, q5, by simpa [expectedOf] using q6, q7, q8⟩

/-- the whole class body -/
theorem body_exact (ctrl : Bool) (base pkg cls : String) : ∀ (mems : List Member) (st : ASt) (apis : List RestAPI),
    Inv st ctrl base pkg cls apis → (∀ m ∈ mems, m.ok) →
    ∃ st', runEvs st (mems.flatMap Member.events) = .ok st' ∧
      Inv st' ctrl base pkg cls (apis ++ (if ctrl then mems.flatMap (expectedOf pkg cls base) else [])) := by
  intro mems
  induction mems with
  | nil => intro st apis h _; exact ⟨st, rfl, by cases ctrl <;> simpa using h⟩
  | cons m rest ih =>
    intro st apis h hok
    obtain ⟨st1, e1, i1⟩ := member_step st ctrl base pkg cls apis m h (hok m (by simp))
    obtain ⟨st2, e2, i2⟩ := ih st1 _ i1 (fun x hx => hok x (by simp [hx]))
    refine ⟨st2, ?_, ?_⟩
    · rw [List.flatMap_cons, runEvs_append, e1]; exact e2
    · cases ctrl <;> simpa [List.flatMap_cons, List.append_assoc] using i2

/-- base path contributed by the class-level annotations, whatever their order -/
def baseAfter (annos : List AnnoEv) (b0 : String) : String :=
  annos.foldl (fun b a => (baseOf { baseApiUrl := b } a).baseApiUrl) b0

def hasCtrl (annos : List AnnoEv) : Bool := annos.any fun a => isCtrlName a.name

def valueStep (s : ASt) (kv : String × String) : ASt :=
  if kv.1 == "value" then (match stripEnds kv.2 with | some t => { s with baseApiUrl := t } | none => s) else s

theorem foldl_value_fields (kvs : List (String × String)) : ∀ (s1 s2 : ASt), s1.baseApiUrl = s2.baseApiUrl →
    (kvs.foldl valueStep s1).baseApiUrl = (kvs.foldl valueStep s2).baseApiUrl ∧
    (kvs.foldl valueStep s1).hasEnterClass = s1.hasEnterClass ∧ (kvs.foldl valueStep s1).isController = s1.isController ∧
    (kvs.foldl valueStep s1).hasEnterRest = s1.hasEnterRest ∧ (kvs.foldl valueStep s1).requestBodyClass = s1.requestBodyClass ∧
    (kvs.foldl valueStep s1).apis = s1.apis ∧ (kvs.foldl valueStep s1).curPkg = s1.curPkg ∧
    (kvs.foldl valueStep s1).curClz = s1.curClz := by
  induction kvs with
  | nil => intro s1 s2 h; simp [h]
  | cons kv rest ih =>
    intro s1 s2 h
    simp only [List.foldl_cons]
    have key : (valueStep s1 kv).baseApiUrl = (valueStep s2 kv).baseApiUrl ∧
        (valueStep s1 kv).hasEnterClass = s1.hasEnterClass ∧ (valueStep s1 kv).isController = s1.isController ∧
        (valueStep s1 kv).hasEnterRest = s1.hasEnterRest ∧ (valueStep s1 kv).requestBodyClass = s1.requestBodyClass ∧
        (valueStep s1 kv).apis = s1.apis ∧ (valueStep s1 kv).curPkg = s1.curPkg ∧ (valueStep s1 kv).curClz = s1.curClz := by
      unfold valueStep
      by_cases hv : (kv.1 == "value") = true
      · simp only [hv, ↓reduceIte]
        cases stripEnds kv.2 <;> simp [h]
      · simp only [hv, Bool.false_eq_true, ↓reduceIte]
        simp [h]
    obtain ⟨k1, k2, k3, k4, k5, k6, k7, k8⟩ := key
    obtain ⟨r1, r2, r3, r4, r5, r6, r7, r8⟩ := ih (valueStep s1 kv) (valueStep s2 kv) k1
    exact ⟨r1, r2.trans k2, r3.trans k3, r4.trans k4, r5.trans k5, r6.trans k6, r7.trans k7, r8.trans k8⟩

theorem baseOf_fields (st : ASt) (a : AnnoEv) :
    (baseOf st a).baseApiUrl = (baseOf { baseApiUrl := st.baseApiUrl } a).baseApiUrl ∧
    (baseOf st a).hasEnterClass = st.hasEnterClass ∧ (baseOf st a).isController = st.isController ∧
    (baseOf st a).hasEnterRest = st.hasEnterRest ∧ (baseOf st a).requestBodyClass = st.requestBodyClass ∧
    (baseOf st a).apis = st.apis ∧ (baseOf st a).curPkg = st.curPkg ∧ (baseOf st a).curClz = st.curClz := by
  unfold baseOf
  split
  · cases a.args with
    | none => simp
    | positional t => simp only; cases stripEnds t <;> simp
    | pairs kvs =>
      simp only
      exact foldl_value_fields kvs st { baseApiUrl := st.baseApiUrl } rfl
  · simp

/-- the class-level annotations: only the controller flag and the base path change -/
theorem class_annos (annos : List AnnoEv) : ∀ (st : ASt), st.hasEnterClass = false →
    ∃ st', runEvs st (annos.map .anno) = .ok st' ∧ st'.hasEnterClass = false ∧
      st'.isController = (st.isController || hasCtrl annos) ∧ st'.baseApiUrl = baseAfter annos st.baseApiUrl ∧
      st'.hasEnterRest = st.hasEnterRest ∧ st'.requestBodyClass = st.requestBodyClass ∧ st'.apis = st.apis ∧
      st'.curPkg = st.curPkg ∧ st'.curClz = st.curClz := by
  induction annos with
  | nil => intro st h; exact ⟨st, rfl, h, by simp [hasCtrl], rfl, rfl, rfl, rfl, rfl, rfl⟩
  | cons a rest ih =>
    intro st h
    have hstep : onAnno st a = baseOf (if isCtrlName a.name then { st with isController := true } else st) a := by
      unfold onAnno
      have : ((if (a.name == "RestController" || a.name == "Controller") = true then { st with isController := true } else st).hasEnterClass) = false := by
        split <;> simpa using h
      simp only [this, Bool.not_false, listener_facts.2.2.2.2.1, Bool.and_self, ↓reduceIte, isCtrlName]
      rfl
    have hrun : runEvs st ((a :: rest).map .anno) = runEvs (onAnno st a) (rest.map .anno) := rfl
    rw [hrun, hstep]
    generalize hst1 : (if isCtrlName a.name then { st with isController := true } else st) = st1
    have f := baseOf_fields st1 a
    have h1 : st1.hasEnterClass = false := by subst hst1; split <;> simpa using h
    obtain ⟨st', e, q1, q2, q3, q4, q5, q6, q7, q8⟩ := ih (baseOf st1 a) (by rw [f.2.1]; exact h1)
    refine ⟨st', e, q1, ?_, ?_, ?_, ?_, ?_, ?_, ?_⟩
    · rw [q2, f.2.2.1]; subst hst1
      cases hc : isCtrlName a.name <;> simp [hc, hasCtrl, List.any_cons, Bool.or_assoc]
    · rw [q3, f.1]; subst hst1
      simp only [baseAfter, List.foldl_cons]
      split <;> rfl
    · rw [q4, f.2.2.2.1]; subst hst1; split <;> rfl
    · rw [q5, f.2.2.2.2.1]; subst hst1; split <;> rfl
    · rw [q6, f.2.2.2.2.2.1]; subst hst1; split <;> rfl
    · rw [q7, f.2.2.2.2.2.2.1]; subst hst1; split <;> rfl
    · rw [q8, f.2.2.2.2.2.2.2]; subst hst1; split <;> rfl

/-- a conventional controller file -/
structure CFile where
  pkg : String
  imports : List String
  classAnnos : List AnnoEv
  name : String
  members : List Member

def CFile.events (f : CFile) : List Ev :=
  [.pkg f.pkg] ++ f.imports.map .imp ++ f.classAnnos.map .anno ++ [.enterClass f.name ""] ++
    f.members.flatMap Member.events ++ [.exitClass]

/-- what the statement asks for: one entry per handler of a controller class, nothing otherwise -/
def CFile.expected (f : CFile) : List RestAPI :=
  if hasCtrl f.classAnnos then f.members.flatMap (expectedOf f.pkg f.name (baseAfter f.classAnnos "")) else []

theorem imports_noop (imps : List String) (st : ASt) : runEvs st (imps.map .imp) = .ok st := by
  induction imps with
  | nil => rfl
  | cons i rest ih => exact ih

/-- FILE EXACTNESS, from any incoming listener state -/
theorem file_exact (f : CFile) (hok : ∀ m ∈ f.members, m.ok) (st0 : ASt) :
    ∃ st', runFile st0 f.events = .ok st' ∧ st'.apis = f.expected := by
  have hfile : runFile st0 f.events = runEvs (newListener st0) f.events := rfl
  rw [hfile]
  simp only [CFile.events]
  rw [runEvs_append, runEvs_append, runEvs_append, runEvs_append, runEvs_append]
  have hpkg : runEvs (newListener st0) [Ev.pkg f.pkg] = .ok { newListener st0 with curPkg := f.pkg } := rfl
  rw [hpkg]; simp only
  rw [imports_noop]; simp only
  have hn : ({ newListener st0 with curPkg := f.pkg } : ASt).hasEnterClass = false := by
    simp [newListener, listener_facts.1]
  obtain ⟨s1, e1, q1, q2, q3, q4, q5, q6, q7, q8⟩ := class_annos f.classAnnos _ hn
  rw [e1]; simp only
  have henter : runEvs s1 [Ev.enterClass f.name ""] = .ok { s1 with hasEnterClass := true, curClz := f.name, curImplements := "" } := rfl
  rw [henter]; simp only
  have hinv : Inv { s1 with hasEnterClass := true, curClz := f.name, curImplements := "" } (hasCtrl f.classAnnos)
      (baseAfter f.classAnnos "") f.pkg f.name [] := by
    refine ⟨rfl, ?_, ?_, ?_, ?_, ?_, ?_, rfl⟩
    · simp [q2, newListener]
    · simp [q4, newListener, listener_facts.2.1]
    · simp [q3, newListener, listener_facts.2.2.1]
    · simp [q5, newListener, listener_facts.2.2.2.1]
    · simp [q6, newListener]
    · simp [q7]
  obtain ⟨s2, e2, i2⟩ := body_exact (hasCtrl f.classAnnos) (baseAfter f.classAnnos "") f.pkg f.name f.members _ [] hinv hok
  rw [e2]; simp only
  refine ⟨{ s2 with hasEnterClass := false }, rfl, ?_⟩
  simp only [CFile.expected]
  rw [i2.h6]
  cases hasCtrl f.classAnnos <;> simp

/-- INDEPENDENCE (API clause of C07): the entries of a file do not depend on the state left behind by
    any files scanned before it -/
theorem file_independent (f : CFile) (hok : ∀ m ∈ f.members, m.ok) (st1 st2 : ASt) :
    (runFile st1 f.events).toOption.map (·.apis) = (runFile st2 f.events).toOption.map (·.apis) := by
  obtain ⟨a, ha, ea⟩ := file_exact f hok st1
  obtain ⟨b, hb, eb⟩ := file_exact f hok st2
  rw [ha, hb]; simp [Except.toOption, ea, eb]

/-- the base path for the three shapes the statement names: no class mapping / positional / value= -/
theorem base_absent (annos : List AnnoEv) (h : ∀ a ∈ annos, a.name ≠ "RequestMapping") : baseAfter annos "" = "" := by
  unfold baseAfter
  induction annos with
  | nil => rfl
  | cons a rest ih =>
    simp only [List.foldl_cons]
    have : (baseOf { baseApiUrl := "" } a).baseApiUrl = "" := by
      have hn : (a.name == "RequestMapping") = false := by simpa using h a (by simp)
      simp [baseOf, hn]
    rw [this]
    exact ih (fun x hx => h x (by simp [hx]))

-- (tests) the listener on a concrete controller, mapping written BEFORE the controller annotation
def demoFile : CFile :=
  CFile.mk "p" [] [{ name := "RequestMapping", args := .positional "\"/api\"" }, { name := "RestController", args := .none }] "C"
    [.handler [] (Mapping.mk "GetMapping" (.value "\"/x\"") none) [] "h" [{ annos := ["RequestBody"], type := "Dto", name := "d" }] [],
     .plain [] "helper" [] []]
#guard (runFile {} demoFile.events).toOption.map (·.apis) =
  some [{ uri := "/api/x", httpMethod := "GET", methodName := "h", requestBodyClass := "Dto", pkg := "p", cls := "C" }]

end CocaVerif.Props.C12
