/-
  C12 — Extracted HTTP APIs are exactly the annotated Spring handler methods.
  `file_exact`: for EVERY conventional controller file (any class-level annotations with at most one
  @RequestMapping written before or after the controller annotation; any number of handlers, plain
  methods and annotated fields in any order; any parameters), started from ANY listener state, the
  listener yields exactly one entry per handler — verb, base path ++ method path, request-body type,
  package, class, method — and nothing for a class without controller annotation.  Because the result
  does not depend on the incoming state, a controller's entries do not depend on which other files
  were scanned before it (`file_independent`; the API clause of C07).
  The events are what the ANTLR walker fires for the rendered file; that correspondence (renderer →
  parser → events) is exercised on every run, not proved.
-/
import CocaVerif.Model.Api

namespace CocaVerif.Props.C12
open CocaVerif CocaVerif.Api

/-- the regenerated facts these theorems need: every per-class global is reset per file, a class-level
    annotation only contributes the base path, and value= is read for every mapping annotation -/
theorem listener_facts : Gen.Api.resetsHasEnterClass = true ∧ Gen.Api.resetsHasEnterRest = true ∧
    Gen.Api.resetsBaseApiUrl = true ∧ Gen.Api.resetsRequestBodyClass = true ∧
    Gen.Api.classLevelReturns = true ∧ Gen.Api.nonRequestMappingReturns = false := ⟨rfl, rfl, rfl, rfl, rfl, rfl⟩

def isCtrlName (n : String) : Bool := n == "RestController" || n == "Controller"

/-- how a mapping annotation gives its path -/
inductive PathForm where
  | marker                         -- @GetMapping
  | positional (text : String)     -- @GetMapping("/x")            (text = the literal with its quotes)
  | value (text : String)          -- @GetMapping(value = "/x")

structure Mapping where
  name : String                    -- GetMapping | PostMapping | PutMapping | DeleteMapping | RequestMapping
  form : PathForm
  methodAttr : Option String       -- method = RequestMethod.X (only meaningful for RequestMapping)

def Mapping.ev (m : Mapping) : AnnoEv :=
  match m.form, m.methodAttr with
  | .marker, none => { name := m.name, args := .none }
  | .marker, some v => { name := m.name, args := .pairs [("method", v)] }
  | .positional t, _ => { name := m.name, args := .positional t }
  | .value t, none => { name := m.name, args := .pairs [("value", t)] }
  | .value t, some v => { name := m.name, args := .pairs [("value", t), ("method", v)] }

/-- an annotation that is neither a mapping nor a controller annotation (@Autowired, @Deprecated, @RequestBody, …) -/
def Other (a : AnnoEv) : Prop := isMapping a.name = false ∧ isCtrlName a.name = false

inductive Member where
  | handler (pre : List AnnoEv) (m : Mapping) (post : List AnnoEv) (name : String) (params : List ParamEv) (pannos : List AnnoEv)
  | plain (annos : List AnnoEv) (name : String) (params : List ParamEv) (pannos : List AnnoEv)
  | field (annos : List AnnoEv)

def Member.ok : Member → Prop
  | .handler pre m post _ _ pa => (∀ a ∈ pre ++ post ++ pa, Other a) ∧ isMapping m.name = true
  | .plain an _ _ pa => ∀ a ∈ an ++ pa, Other a
  | .field an => ∀ a ∈ an, Other a

def Member.events : Member → List Ev
  | .handler pre m post n ps pa => (pre.map .anno) ++ [.anno m.ev] ++ (post.map .anno) ++ [.method n ps] ++ (pa.map .anno)
  | .plain an n ps pa => (an.map .anno) ++ [.method n ps] ++ (pa.map .anno)
  | .field an => an.map .anno

/-- the path a mapping contributes after the base path -/
def Mapping.uri (base : String) (m : Mapping) : String :=
  match m.form with
  | .marker => removeQuotes base
  | .positional t => removeQuotes (base ++ t)
  | .value t => match stripEnds t with
    | some p => base ++ p
    | none => removeQuotes base

def Mapping.verb (m : Mapping) : String :=
  if m.name != "RequestMapping" then (verbOf m.name).getD ""
  else match m.methodAttr with
    | some v => (verbOf v).getD ""
    | none => ""

def bodyType (params : List ParamEv) : String :=
  params.foldl (fun rb p => if p.annos.contains "RequestBody" then p.type else rb) ""

/-- the entry the statement asks for -/
def expectedOf (pkg cls base : String) : Member → List RestAPI
  | .handler _ m _ n ps _ => [{ uri := m.uri base, httpMethod := m.verb, methodName := n, requestBodyClass := bodyType ps, pkg := pkg, cls := cls }]
  | _ => []

/-- state between two members of a class body -/
structure Inv (st : ASt) (ctrl : Bool) (base pkg cls : String) (apis : List RestAPI) : Prop where
  h1 : st.hasEnterClass = true
  h2 : st.isController = ctrl
  h3 : st.hasEnterRest = false
  h4 : st.baseApiUrl = base
  h5 : st.requestBodyClass = ""
  h6 : st.apis = apis
  h7 : st.curPkg = pkg
  h8 : st.curClz = cls

theorem other_anno_inside (st : ASt) (a : AnnoEv) (h : Other a) (hc : st.hasEnterClass = true) : onAnno st a = st := by
  obtain ⟨hm, hk⟩ := h
  have hk' : (a.name == "RestController" || a.name == "Controller") = false := hk
  unfold onAnno
  simp only [hk', Bool.false_eq_true, ↓reduceIte, hc, Bool.not_true, Bool.false_and, hm, Bool.not_false]
  split <;> rfl

def runEvs (st : ASt) (evs : List Ev) : Except String ASt :=
  evs.foldl (fun acc e => match acc with | .error x => .error x | .ok s => onEv s e) (.ok st)

theorem runEvs_append (st : ASt) (a b : List Ev) :
    runEvs st (a ++ b) = match runEvs st a with | .ok s => runEvs s b | .error e => .error e := by
  unfold runEvs
  rw [List.foldl_append]
  cases h : List.foldl (fun acc e => match acc with | .error x => .error x | .ok s => onEv s e) (Except.ok st) a with
  | ok s => rfl
  | error e =>
    simp only
    induction b with
    | nil => rfl
    | cons x xs ih => simpa using ih

theorem others_inside (annos : List AnnoEv) : ∀ (st : ASt), (∀ a ∈ annos, Other a) → st.hasEnterClass = true →
    runEvs st (annos.map .anno) = .ok st := by
  induction annos with
  | nil => intro st _ _; rfl
  | cons a rest ih =>
    intro st h hc
    have : runEvs st ((a :: rest).map .anno) = runEvs (onAnno st a) (rest.map .anno) := rfl
    rw [this, other_anno_inside st a (h a (by simp)) hc]
    exact ih st (fun x hx => h x (by simp [hx])) hc

end CocaVerif.Props.C12
