/-
  C03 — Call graph shows only real calls, all direct callees of the root, and terminates.
  Statements only; helper lemmas live in Proofs/Call.lean.  All theorems are for EVERY model
  (cyclic, dense, duplicate names, unresolved callees), every root, every DI map, every counter value.
-/
import CocaVerif.Proofs.Call

namespace CocaVerif.Props.C03
open CocaVerif.Call

/-- T1: every emitted edge A -> B is a recorded call from A to B (after DI replacement), with A
    reachable from the root. -/
theorem edge_sound (c : Cfg) (fuel lc : Nat) (root : String) :
    ∀ e ∈ edgesOf (chain c fuel lc root).1, Calls c e.1 e.2 ∧ Reach c root e.1 :=
  chain_sound c root fuel lc root (.refl _)

/-- T2: every direct callee of the root is present (whenever the budget test does not fire at entry,
    which is always the case for a counter reset at entry: see `fresh_counter_not_hit`). -/
theorem root_callees_present (c : Cfg) (fuel lc : Nat) (root : String)
    (h : Gen.Call.callBudgetHit lc c.max = false) :
    ∀ ch ∈ c.mm root, (root, c.di ch) ∈ edgesOf (chain c (fuel + 1) lc root).1 := by
  intro ch hch
  have hne : (c.mm root).isEmpty = false := by
    cases hm : c.mm root with
    | nil => simp [hm] at hch
    | cons _ _ => rfl
  unfold chain
  simp only [h, hne, Bool.false_eq_true, ↓reduceIte]
  exact loopWith_all_edges c root (chain c fuel) _ _ ch hch

/-- a counter that has just been reset does not trip the budget test (the budget is positive) -/
theorem fresh_counter_not_hit : Gen.Call.callBudgetHit 0 Gen.Call.maxLoopCount = false := by decide

/-- T3 (termination within the fixed budget): `chain` is a total function, and the global expansion
    counter never exceeds `maxLoopCount + 1`, i.e. at most `maxLoopCount + 1 - lc` expansions happen. -/
theorem expansions_le_budget (c : Cfg) (fuel lc : Nat) (root : String) (h : lc ≤ c.max + 1) :
    (chain c fuel lc root).2.1 ≤ c.max + 1 ∧ lc ≤ (chain c fuel lc root).2.1 :=
  ⟨chain_bound c fuel lc root h, chain_mono c fuel lc root⟩

/-- the fuel used by the entry points is never exhausted: any two sufficient fuels agree -/
theorem fuel_irrelevant (c : Cfg) (n m lc : Nat) (f : String)
    (h1 : c.max + 2 ≤ n + lc) (h2 : c.max + 2 ≤ m + lc) : chain c n lc f = chain c m lc f :=
  chain_fuel_irrelevant c n m lc f h1 h2

/-- T4: whenever the budget test never fired (the reachable call tree fits in the budget), the edge
    set is exactly the reachable call relation: soundness is T1, this is completeness. -/
theorem complete_of_not_truncated (c : Cfg) (fuel lc : Nat) (root : String)
    (h : (chain c fuel lc root).2.2 = false) :
    ∀ a b, Reach c root a → Calls c a b → (a, b) ∈ edgesOf (chain c fuel lc root).1 :=
  chain_complete c fuel lc root h

/-- T7: the chain of one API in `AnalysisByFiles` does not depend on the other APIs (counter reset
    per API): it is `apiChain`, a function of the configuration and that API alone. -/
theorem byFiles_api_independent (clzs : List DS) (di : List (String × String)) (pre post : List Api) (a : Api) (st : St) :
    ∃ head, ((analysisByFiles clzs di (pre ++ a :: post) st).1.2.map (·.size)).drop pre.length
      = splitCount (renderAll (apiChain (cfgOf clzs di) a).1) :: head := by
  simp only [analysisByFiles]
  generalize hstep : (fun (acc : String × List CallApi × Nat) (a : Api) => _) = step
  have key : ∀ (l : List Api) (acc : String × List CallApi × Nat),
      (l.foldl step acc).2.1 = acc.2.1 ++ l.map (fun a => { httpMethod := a.httpMethod, uri := a.uri, caller := a.caller, size := splitCount (renderAll (apiChain (cfgOf clzs di) a).1) : CallApi }) := by
    intro l
    induction l with
    | nil => intro acc; simp
    | cons x xs ih => intro acc; rw [List.foldl_cons, ih]; subst hstep; simp
  rw [key]
  simp

/-- non-vacuity: a cyclic two-method model whose root has a callee, at a fresh counter -/
example : ∃ c : Cfg, Gen.Call.callBudgetHit 0 c.max = false ∧ (c.mm "a").length = 1 ∧ Calls c "a" "b" ∧ Calls c "b" "a" :=
  ⟨{ mm := fun f => if f == "a" then ["b"] else if f == "b" then ["a"] else [], di := id, max := Gen.Call.maxLoopCount },
   by decide, by decide, ⟨"b", by decide, rfl⟩, ⟨"a", by decide, rfl⟩⟩

end CocaVerif.Props.C03
