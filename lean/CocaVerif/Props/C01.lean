/-
  C01 — Every declared Java type and method appears exactly once in the code model (full pass).

  `class_file_exact`: for EVERY conventional class unit — a package, any imports, any class annotations,
  `class N [extends E] [implements I…]`, then any number of fields, constructors and methods in any
  order, each method / constructor with any parameter list and ANY body (any sequence of local
  declarations, block / for / switch scopes, invocations, creations, method references, lambdas'
  parameters, annotations) — started from ANY listener state, the full pass yields exactly ONE entry
  for the unit: its package, name, kind "Class", source path, class annotations, superclass as
  resolved by `buildExtend`, and inside it exactly one function entry per declared constructor and
  method, in declaration order, with its name, return type, ordered (type, name) parameters,
  constructor flag and position — provided only that no two members share (name, first line)
  (the listener keys its method table by package.class.name:line) and names are not empty.
  The calls of each entry are, one for one and in source order, the records of the invocations /
  creations / method references written in that body (`Matches`, used by C02).

  The events are what the ANTLR walker fires for the rendered file; that correspondence (renderer →
  parser → events) is exercised on every run, not proved.  The identifier pass is not modelled: its
  half of C01 is decided on the real code by the statement-level oracle only.
-/
import CocaVerif.Proofs.JavaFull

namespace CocaVerif.Props.C01
open CocaVerif CocaVerif.JavaFull

/-- a declared method or constructor: header, the annotation events fired before it, and its body events -/
structure FnSpec where
  isCtor : Bool
  name : String
  ret : String
  annos : List Anno
  params : List (String × String)
  l1 : Int
  c1 : Int
  l2 : Int
  c2 : Int
  pre : List Anno
  body : List Ev

def FnSpec.enter (s : FnSpec) : Ev :=
  if s.isCtor then .enterCtor s.name s.params s.params.isEmpty ⟨s.l1, s.c1, s.l2, s.c2⟩
  else .enterMethod s.name s.ret s.annos s.params s.params.isEmpty s.l1 s.c1 s.l2

def FnSpec.exit (s : FnSpec) : Ev := if s.isCtor then .exitCtor else .exitMethod

def FnSpec.events (s : FnSpec) : List Ev := s.pre.map .anno ++ [s.enter] ++ s.body ++ [s.exit]

/-- the position the statement asks for: a method's range starts at its name; a constructor's is the declaration's -/
def FnSpec.pos (s : FnSpec) : Pos :=
  if s.isCtor then buildPosition ⟨s.l1, s.c1, s.l2, s.c2⟩ s.name
  else { startLine := s.l1, startCol := s.c1, stopLine := s.l2, stopCol := s.c1 + s.name.length }

def FnSpec.key (pkg clz : String) (s : FnSpec) : String := pkg ++ "." ++ clz ++ "." ++ s.name ++ ":" ++ toString s.l1

def FnSpec.ok (s : FnSpec) : Prop := s.name ≠ "" ∧ ∀ e ∈ s.body, bodyEv e = true

/-- the function entry carries what was declared, and its calls are the records of the body's invocations -/
def Matches (f : Fn) (s : FnSpec) : Prop :=
  f.name = s.name ∧ f.ret = (if s.isCtor then "" else s.ret) ∧ f.isConstructor = s.isCtor ∧
  f.params = s.params.map (fun p => { typeType := p.1, typeValue := p.2 }) ∧ f.pos = s.pos ∧
  AllRec f.calls (s.body.filter isInv)

inductive Member where
  | fn (s : FnSpec)
  | field (pre : List Anno) (typeIdent : Option String) (names : List String) (pos : P)

def Member.events : Member → List Ev
  | .fn s => s.events
  | .field pre ti names pos => pre.map .anno ++ [.field ti names pos]

def Member.spec? : Member → Option FnSpec
  | .fn s => some s
  | .field _ _ _ _ => none

/-- the part of the unit's entry that is fixed once the class header has been entered -/
structure Hdr where
  node : String
  pkg : String
  type : String
  ext : String
  path : String
  annos : List Anno
  impls : List String
  imports : List String
  classNodes : List DS
  deriving DecidableEq

def hdr (st : FSt) : Hdr :=
  { node := st.node.node, pkg := st.node.pkg, type := st.node.type, ext := st.node.ext, path := st.fileName, annos := st.node.annos,
    impls := st.node.impls, imports := st.node.imports, classNodes := st.classNodes }

theorem hdr_of_core (st st' : FSt) (h : core st' = core st) : hdr st' = hdr st := by
  have h1 : st'.node = st.node := congrArg Core.node h
  have h2 : st'.fileName = st.fileName := congrArg Core.fileName h
  have h3 : st'.classNodes = st.classNodes := congrArg Core.classNodes h
  simp [hdr, h1, h2, h3]

/-- between two members of the class body -/
structure Inv (pkg clz : String) (H : Hdr) (st : FSt) (done : List FnSpec) : Prop where
  hpkg : st.pkg = pkg
  hclz : st.clz = clz
  hcur : st.curMethod = {}
  hctype : st.curType = "Class"
  hhec : st.hasEnterClass = true
  hhdr : hdr st = H
  hkeys : GoMap.keys st.methodMap = done.map (FnSpec.key pkg clz)
  hvals : ∀ s ∈ done, ∃ f, GoMap.get? st.methodMap (s.key pkg clz) = some f ∧ Matches f s

theorem annos_inside (as : List Anno) : ∀ (st : FSt), st.hasEnterClass = true →
    ∃ ov, (as.map Ev.anno).foldl onEv st = { st with isOverride := ov } := by
  induction as with
  | nil => intro st _; exact ⟨st.isOverride, rfl⟩
  | cons a as ih =>
    intro st h
    simp only [List.map_cons, List.foldl_cons]
    have e : onEv st (.anno a) = { st with isOverride := a.name == "Override" } := by simp [onEv, h]
    rw [e]
    obtain ⟨ov, hov⟩ := ih { st with isOverride := a.name == "Override" } h
    exact ⟨ov, by rw [hov]⟩

theorem Inv.setOverride {pkg clz : String} {H : Hdr} {st : FSt} {done : List FnSpec} (h : Inv pkg clz H st done) (ov : Bool) :
    Inv pkg clz H { st with isOverride := ov } done :=
  ⟨h.hpkg, h.hclz, h.hcur, h.hctype, h.hhec, h.hhdr, h.hkeys, h.hvals⟩

theorem keyOf_named (st : FSt) (m : Fn) (h : m.name ≠ "") :
    keyOf st m = st.pkg ++ "." ++ st.clz ++ "." ++ m.name ++ ":" ++ toString m.pos.startLine := by
  simp [keyOf, h]

/-- what the state looks like right after the `enter…` event of a declaration -/
structure Entered (pkg clz : String) (H : Hdr) (st S : FSt) (s : FnSpec) : Prop where
  epkg : S.pkg = pkg
  eclz : S.clz = clz
  ectype : S.curType = "Class"
  ehec : S.hasEnterClass = true
  ehdr : hdr S = H
  ecur : keyOf S S.curMethod = s.key pkg clz
  ekeys : GoMap.keys S.methodMap = GoMap.keys st.methodMap ++ [s.key pkg clz]
  others : ∀ q, q ≠ s.key pkg clz → GoMap.get? S.methodMap q = GoMap.get? st.methodMap q
  mine : ∃ f, GoMap.get? S.methodMap (s.key pkg clz) = some f ∧ f.calls = [] ∧ f.name = s.name ∧
    f.ret = (if s.isCtor then "" else s.ret) ∧ f.isConstructor = s.isCtor ∧
    f.params = s.params.map (fun p => { typeType := p.1, typeValue := p.2 }) ∧ f.pos = s.pos

theorem resetMethodScope_class (st : FSt) (h : st.curType = "Class") :
    resetMethodScope st = { st with localVars := [], formalParams := [] } := by
  simp [resetMethodScope, h, Gen.JavaFull.methodScopeResetsLocalVars, Gen.JavaFull.methodScopeResetsFormalParameters]

/-- `updateMethod` for a named method whose key is new / already there -/
theorem updateMethod_fresh (st : FSt) (m : Fn) (hn : m.name ≠ "") (hk : ¬ keyOf st m ∈ GoMap.keys st.methodMap) :
    GoMap.keys (updateMethod st m).methodMap = GoMap.keys st.methodMap ++ [keyOf st m] := by
  have e : keyOf { st with curMethod := m, methodQueue := st.methodQueue ++ [m] } m = keyOf st m := by
    simp [keyOf, hn]
  simp only [updateMethod, e]
  exact GoMap.keys_set_not_mem _ _ _ hk

theorem updateMethod_get (st : FSt) (m : Fn) (hn : m.name ≠ "") (q : String) :
    GoMap.get? (updateMethod st m).methodMap q = if keyOf st m == q then some m else GoMap.get? st.methodMap q := by
  have e : keyOf { st with curMethod := m, methodQueue := st.methodQueue ++ [m] } m = keyOf st m := by
    simp [keyOf, hn]
  simp only [updateMethod, e, GoMap.get?_set]

theorem updateMethod_again (st : FSt) (m : Fn) (hn : m.name ≠ "") (hk : keyOf st m ∈ GoMap.keys st.methodMap) :
    GoMap.keys (updateMethod st m).methodMap = GoMap.keys st.methodMap := by
  have e : keyOf { st with curMethod := m, methodQueue := st.methodQueue ++ [m] } m = keyOf st m := by
    simp [keyOf, hn]
  simp only [updateMethod, e]
  exact GoMap.keys_set_mem _ _ _ hk

theorem updateMethod_frame (st : FSt) (m : Fn) :
    (updateMethod st m).pkg = st.pkg ∧ (updateMethod st m).clz = st.clz ∧ (updateMethod st m).curType = st.curType ∧
    (updateMethod st m).hasEnterClass = st.hasEnterClass ∧ hdr (updateMethod st m) = hdr st ∧ (updateMethod st m).curMethod = m :=
  ⟨rfl, rfl, rfl, rfl, rfl, rfl⟩

/-- entering a method or constructor declaration adds exactly one new entry, with the declared header and no calls -/
theorem enter_spec (pkg clz : String) (H : Hdr) (st : FSt) (done : List FnSpec) (s : FnSpec)
    (hI : Inv pkg clz H st done) (hn : s.name ≠ "") (hfresh : ¬ s.key pkg clz ∈ done.map (FnSpec.key pkg clz)) :
    Entered pkg clz H st (onEv st s.enter) s := by
  have hk0 : ¬ s.key pkg clz ∈ GoMap.keys st.methodMap := by rw [hI.hkeys]; exact hfresh
  -- the generic shape: a named header `m` installed once or twice on a state `s0` that differs from `st` only in scope tables
  have gen : ∀ (s0 : FSt) (m : Fn) (twice : Bool), s0.pkg = pkg → s0.clz = clz → s0.curType = "Class" → s0.hasEnterClass = true →
      hdr s0 = H → s0.methodMap = st.methodMap → m.name = s.name → m.pos.startLine = s.l1 → m.calls = [] →
      m.ret = (if s.isCtor then "" else s.ret) → m.isConstructor = s.isCtor →
      m.params = s.params.map (fun p => { typeType := p.1, typeValue := p.2 }) → m.pos = s.pos →
      Entered pkg clz H st (if twice then updateMethod (updateMethod s0 m) m else updateMethod s0 m) s := by
    intro s0 m twice h1 h2 h3 h4 h5 h6 h7 h8 h9 h10 h11 h12 h13
    have hmn : m.name ≠ "" := by rw [h7]; exact hn
    have hkey : ∀ x : FSt, x.pkg = pkg → x.clz = clz → keyOf x m = s.key pkg clz := by
      intro x hx1 hx2; rw [keyOf_named x m hmn, hx1, hx2, h7, h8]; rfl
    have k0 := hkey s0 h1 h2
    have k1 := hkey (updateMethod s0 m) h1 h2
    have hfr : ¬ keyOf s0 m ∈ GoMap.keys s0.methodMap := by rw [k0, h6]; exact hk0
    have keys1 := updateMethod_fresh s0 m hmn hfr
    cases twice
    · refine ⟨h1, h2, h3, h4, h5, ?_, ?_, ?_, ?_⟩
      · show keyOf (updateMethod s0 m) m = _; exact k1
      · simp only [Bool.false_eq_true, if_false]; rw [keys1, k0, h6]
      · intro q hq
        simp only [Bool.false_eq_true, if_false]; rw [updateMethod_get s0 m hmn, k0, h6]
        have : (s.key pkg clz == q) = false := by simpa using fun h => hq h.symm
        simp [this]
      · refine ⟨m, ?_, h9, h7, h10, h11, h12, h13⟩
        simp only [Bool.false_eq_true, if_false]; rw [updateMethod_get s0 m hmn, k0]; simp
    · have hin : keyOf (updateMethod s0 m) m ∈ GoMap.keys (updateMethod s0 m).methodMap := by
        rw [k1, keys1, k0]; simp
      refine ⟨h1, h2, h3, h4, h5, ?_, ?_, ?_, ?_⟩
      · show keyOf (updateMethod (updateMethod s0 m) m) m = _; exact hkey _ h1 h2
      · simp only [if_true]; rw [updateMethod_again _ m hmn hin, keys1, k0, h6]
      · intro q hq
        have : (s.key pkg clz == q) = false := by simpa using fun h => hq h.symm
        simp only [if_true]; rw [updateMethod_get _ m hmn, k1, updateMethod_get s0 m hmn, k0, h6]
        simp [this]
      · refine ⟨m, ?_, h9, h7, h10, h11, h12, h13⟩
        simp only [if_true]; rw [updateMethod_get _ m hmn, k1]; simp
  have hct := hI.hctype
  by_cases hc : s.isCtor = true
  · by_cases he : s.params.isEmpty = true
    · have := gen { st with localVars := [], formalParams := [] }
        { name := s.name, ret := "", override := st.isOverride, annos := st.curMethod.annos, isConstructor := true,
          pos := buildPosition ⟨s.l1, s.c1, s.l2, s.c2⟩ s.name } false
        hI.hpkg hI.hclz hct hI.hhec hI.hhdr rfl rfl rfl rfl (by simp [hc]) (by simp [hc]) (by simpa using he) (by simp [FnSpec.pos, hc])
      simpa [FnSpec.enter, hc, he, onEv, setParams, Gen.JavaFull.ctorEntryResetsScope, resetMethodScope_class st hct] using this
    · have := gen { st with formalParams := [], localVars := s.params.foldl (fun lv p => GoMap.set lv p.2 p.1) [] }
        { name := s.name, ret := "", override := st.isOverride, annos := st.curMethod.annos, isConstructor := true,
          pos := buildPosition ⟨s.l1, s.c1, s.l2, s.c2⟩ s.name,
          params := s.params.map fun p => { typeType := p.1, typeValue := p.2 } } true
        hI.hpkg hI.hclz hct hI.hhec hI.hhdr rfl rfl rfl rfl (by simp [hc]) (by simp [hc]) rfl (by simp [FnSpec.pos, hc])
      simpa [FnSpec.enter, hc, he, onEv, setParams, Gen.JavaFull.ctorEntryResetsScope, resetMethodScope_class st hct, updateMethod_frame] using this
  · have hc' : s.isCtor = false := by simpa using hc
    have hct1 : ({ st with curMethod := { st.curMethod with annos := st.curMethod.annos ++ s.annos } } : FSt).curType = "Class" := hct
    by_cases he : s.params.isEmpty = true
    · have := gen { st with curMethod := { st.curMethod with annos := st.curMethod.annos ++ s.annos }, localVars := [], formalParams := [] }
        { name := s.name, ret := s.ret, annos := st.curMethod.annos ++ s.annos, override := st.isOverride,
          pos := { startLine := s.l1, startCol := s.c1, stopLine := s.l2, stopCol := s.c1 + s.name.length } } false
        hI.hpkg hI.hclz hct hI.hhec hI.hhdr rfl rfl rfl rfl (by simp [hc']) (by simp [hc']) (by simpa using he) (by simp [FnSpec.pos, hc'])
      simpa [FnSpec.enter, hc', he, onEv, setParams, Gen.JavaFull.methodEntryResetsScope, resetMethodScope_class _ hct1, width_method] using this
    · have := gen { st with curMethod := { st.curMethod with annos := st.curMethod.annos ++ s.annos }, formalParams := [],
                            localVars := s.params.foldl (fun lv p => GoMap.set lv p.2 p.1) [] }
        { name := s.name, ret := s.ret, annos := st.curMethod.annos ++ s.annos, override := st.isOverride,
          pos := { startLine := s.l1, startCol := s.c1, stopLine := s.l2, stopCol := s.c1 + s.name.length },
          params := s.params.map fun p => { typeType := p.1, typeValue := p.2 } } true
        hI.hpkg hI.hclz hct hI.hhec hI.hhdr rfl rfl rfl rfl (by simp [hc']) (by simp [hc']) rfl (by simp [FnSpec.pos, hc'])
      simpa [FnSpec.enter, hc', he, onEv, setParams, Gen.JavaFull.methodEntryResetsScope, resetMethodScope_class _ hct1, updateMethod_frame, width_method] using this


/-- one declared method or constructor: the table gains exactly its entry, matching the declaration -/
theorem fn_step (pkg clz : String) (H : Hdr) (st : FSt) (done : List FnSpec) (s : FnSpec)
    (hI : Inv pkg clz H st done) (hok : s.ok) (hfresh : ¬ s.key pkg clz ∈ done.map (FnSpec.key pkg clz)) :
    Inv pkg clz H (s.events.foldl onEv st) (done ++ [s]) := by
  obtain ⟨hn, hb⟩ := hok
  simp only [FnSpec.events, List.foldl_append, List.foldl_cons, List.foldl_nil]
  obtain ⟨ov, hov⟩ := annos_inside s.pre st hI.hhec
  rw [hov]
  have E := enter_spec pkg clz H _ done s (hI.setOverride ov) hn hfresh
  generalize onEv { st with isOverride := ov } s.enter = S at E
  obtain ⟨f, hf, hcalls, hname, hret, hctor, hparams, hpos⟩ := E.mine
  obtain ⟨cs, eff, hrec⟩ := body_run s.body S f hb E.ehec (by rw [E.ecur]; exact hf)
  rw [E.ecur] at eff
  generalize s.body.foldl onEv S = S' at eff
  have hx : ∃ ov', onEv S' s.exit = { S' with curMethod := {}, isOverride := ov' } := by
    unfold FnSpec.exit; split
    · exact ⟨false, rfl⟩
    · exact ⟨S'.isOverride, rfl⟩
  obtain ⟨ov', hx⟩ := hx
  rw [hx]
  have c1 : S'.pkg = S.pkg := congrArg Core.pkg eff.hcore
  have c2 : S'.clz = S.clz := congrArg Core.clz eff.hcore
  have c3 : S'.curType = S.curType := congrArg Core.curType eff.hcore
  have c4 : S'.hasEnterClass = S.hasEnterClass := congrArg Core.hasEnterClass eff.hcore
  refine ⟨c1.trans E.epkg, c2.trans E.eclz, rfl, c3.trans E.ectype, c4.trans E.ehec, ?_, ?_, ?_⟩
  · exact (hdr_of_core _ _ eff.hcore).trans E.ehdr
  · show GoMap.keys S'.methodMap = _
    rw [eff.keys, E.ekeys]
    have := hI.hkeys
    simp only [this, List.map_append, List.map_cons, List.map_nil]
  · intro x hx
    rcases List.mem_append.mp hx with hx | hx
    · have hne : x.key pkg clz ≠ s.key pkg clz := by
        intro h; exact hfresh (h ▸ List.mem_map_of_mem hx)
      obtain ⟨g, hg, hm⟩ := hI.hvals x hx
      refine ⟨g, ?_, hm⟩
      show GoMap.get? S'.methodMap _ = _
      rw [eff.others _ hne, E.others _ hne]; exact hg
    · have : x = s := by simpa using hx
      subst this
      refine ⟨_, eff.mine, hname, hret, hctor, hparams, hpos, ?_⟩
      simpa [hcalls] using hrec

/-- a field declaration leaves the method table and the unit's header alone -/
theorem field_frame (ti : Option String) (names : List String) (pos : P) (st : FSt) :
    let st' := onEv st (.field ti names pos)
    st'.pkg = st.pkg ∧ st'.clz = st.clz ∧ st'.curMethod = st.curMethod ∧ st'.curType = st.curType ∧
    st'.hasEnterClass = st.hasEnterClass ∧ hdr st' = hdr st ∧ st'.methodMap = st.methodMap := by
  cases ti with
  | none => simp [onEv]
  | some t =>
    simp only [onEv]
    suffices h : ∀ (names : List String) (s0 : FSt),
        let s' := names.foldl (fun s n =>
          let s1 := { s with mapFields := GoMap.set s.mapFields n t, fields := s.fields ++ [{ typeType := t, typeValue := n }] }
          let target := (warp s1 t).1
          if target != "" then
            { s1 with node := { s1.node with calls := s1.node.calls ++
                [{ pkg := removeTarget target, type := "field", node := t, pos := buildPosition pos target }] } }
          else s1) s0
        s'.pkg = s0.pkg ∧ s'.clz = s0.clz ∧ s'.curMethod = s0.curMethod ∧ s'.curType = s0.curType ∧
        s'.hasEnterClass = s0.hasEnterClass ∧ hdr s' = hdr s0 ∧ s'.methodMap = s0.methodMap from h names st
    intro names
    induction names with
    | nil => intro s0; simp
    | cons n ns ih =>
      intro s0
      simp only [List.foldl_cons]
      split
      · obtain ⟨a, b, c, d, e, f, g⟩ := ih _
        exact ⟨a, b, c, d, e, f, g⟩
      · obtain ⟨a, b, c, d, e, f, g⟩ := ih _
        exact ⟨a, b, c, d, e, f, g⟩

theorem field_step (pkg clz : String) (H : Hdr) (st : FSt) (done : List FnSpec) (pre : List Anno) (ti : Option String)
    (names : List String) (pos : P) (hI : Inv pkg clz H st done) :
    Inv pkg clz H ((Member.field pre ti names pos).events.foldl onEv st) done := by
  simp only [Member.events, List.foldl_append, List.foldl_cons, List.foldl_nil]
  obtain ⟨ov, hov⟩ := annos_inside pre st hI.hhec
  rw [hov]
  have hI' := hI.setOverride ov
  obtain ⟨a, b, c, d, e, f, g⟩ := field_frame ti names pos { st with isOverride := ov }
  exact ⟨a.trans hI'.hpkg, b.trans hI'.hclz, c.trans hI'.hcur, d.trans hI'.hctype, e.trans hI'.hhec, f.trans hI'.hhdr,
    by rw [g]; exact hI'.hkeys, fun x hx => by rw [g]; exact hI'.hvals x hx⟩

def specs (ms : List Member) : List FnSpec := ms.filterMap Member.spec?

/-- the whole class body -/
theorem members_run (pkg clz : String) (H : Hdr) : ∀ (ms : List Member) (st : FSt) (done : List FnSpec),
    Inv pkg clz H st done → (∀ s ∈ specs ms, s.ok) → ((done ++ specs ms).map (FnSpec.key pkg clz)).Nodup →
    Inv pkg clz H ((ms.flatMap Member.events).foldl onEv st) (done ++ specs ms) := by
  intro ms
  induction ms with
  | nil => intro st done hI _ _; simpa [specs] using hI
  | cons m ms ih =>
    intro st done hI hok hnd
    simp only [List.flatMap_cons, List.foldl_append]
    cases m with
    | field pre ti names pos =>
      have h1 := field_step pkg clz H st done pre ti names pos hI
      have : specs (Member.field pre ti names pos :: ms) = specs ms := by
        show List.filterMap Member.spec? (_ :: ms) = _
        rw [List.filterMap_cons]; rfl
      rw [this] at hok hnd ⊢
      exact ih _ done h1 hok hnd
    | fn s =>
      have e : specs (Member.fn s :: ms) = s :: specs ms := by
        show List.filterMap Member.spec? (_ :: ms) = _
        rw [List.filterMap_cons]; rfl
      rw [e] at hok hnd ⊢
      have hfresh : ¬ s.key pkg clz ∈ done.map (FnSpec.key pkg clz) := by
        intro hmem
        rw [List.map_append, List.map_cons] at hnd
        have := (List.nodup_append.mp hnd).2.2 _ hmem _ (List.mem_cons_self)
        exact this rfl
      have h1 := fn_step pkg clz H st done s hI (hok s (by simp)) hfresh
      have := ih _ (done ++ [s]) h1 (fun x hx => hok x (by simp [hx])) (by simpa [List.append_assoc] using hnd)
      simpa [Member.events, List.append_assoc] using this


/-! ### the unit -/

structure ClassUnit where
  pkg : String
  imports : List String
  annos : List Anno
  name : String
  ext : Option String
  impls : List String
  members : List Member

def ClassUnit.events (u : ClassUnit) : List Ev :=
  [.pkg u.pkg] ++ u.imports.map .imp ++ u.annos.map .anno ++ [.enterClass u.name u.ext u.impls] ++
    u.members.flatMap Member.events ++ [.exitBody]

/-- conventional: the class and its members are named, bodies contain body events only, and no two
    methods / constructors share (name, first line) -/
def ClassUnit.ok (u : ClassUnit) : Prop :=
  u.name ≠ "" ∧ (∀ s ∈ specs u.members, s.ok) ∧ ((specs u.members).map (FnSpec.key u.pkg u.name)).Nodup

/-- the only parts of the state that type resolution (`WarpTargetFullType`) reads -/
def resolveCtx (pkg name : String) (imps clzs ids : List String) (ext : String) : FSt :=
  { pkg := pkg, clz := name, clzExtend := ext, imports := imps, clzs := clzs, identKeys := ids }

theorem warp_ctx (st : FSt) (t : String) :
    warp st t = warp (resolveCtx st.pkg st.clz st.imports st.clzs st.identKeys st.clzExtend) t := rfl

/-- the superclass entry the statement allows: the name as written, qualified by `WarpTargetFullType` when it resolves -/
def expectedExt (u : ClassUnit) (clzs ids : List String) : String :=
  match u.ext with
  | none => ""
  | some e => buildExtend (resolveCtx u.pkg u.name u.imports clzs ids e) e

inductive All2 {α β : Type} (R : α → β → Prop) : List α → List β → Prop
  | nil : All2 R [] []
  | cons {a : α} {b : β} {as : List α} {bs : List β} : R a b → All2 R as bs → All2 R (a :: as) (b :: bs)

theorem All2.length {α β : Type} {R : α → β → Prop} {as : List α} {bs : List β} (h : All2 R as bs) : as.length = bs.length := by
  induction h with
  | nil => rfl
  | cons _ _ ih => simp [ih]

theorem All2.imp {α β : Type} {R Q : α → β → Prop} (h : ∀ a b, R a b → Q a b) {as : List α} {bs : List β}
    (hr : All2 R as bs) : All2 Q as bs := by
  induction hr with
  | nil => exact All2.nil
  | cons h1 _ ih => exact All2.cons (h _ _ h1) ih

/-- a Go map whose keys are `L.map key` and whose value at `key x` is related to `x`: its entries, in first-insertion order, pair off with `L` -/
theorem entries_all2 {β : Type} (R : Fn → β → Prop) (key : β → String) (m : List (String × Fn)) (L : List β)
    (hk : GoMap.keys m = L.map key) (hv : ∀ x ∈ L, ∃ f, GoMap.get? m (key x) = some f ∧ R f x) :
    All2 R ((GoMap.entries m).map (·.2)) L := by
  unfold GoMap.entries
  rw [hk]
  clear hk
  induction L with
  | nil => exact All2.nil
  | cons x xs ih =>
    obtain ⟨f, hf, hr⟩ := hv x (by simp)
    simp only [List.map_cons, List.filterMap_cons, hf, Option.map_some]
    exact All2.cons hr (ih fun y hy => hv y (by simp [hy]))

theorem imports_run (imps : List String) : ∀ (st : FSt), (imps.map Ev.imp).foldl onEv st =
    { st with imports := st.imports ++ imps, node := { st.node with imports := st.node.imports ++ imps } } := by
  induction imps with
  | nil => intro st; simp
  | cons i is ih => intro st; simp only [List.map_cons, List.foldl_cons, onEv, ih, List.append_assoc, List.singleton_append]

theorem annos_outside (as : List Anno) : ∀ (st : FSt), st.hasEnterClass = false →
    ∃ ov, (as.map Ev.anno).foldl onEv st = { st with isOverride := ov, node := { st.node with annos := st.node.annos ++ as } } := by
  induction as with
  | nil => intro st _; exact ⟨st.isOverride, by simp⟩
  | cons a as ih =>
    intro st h
    simp only [List.map_cons, List.foldl_cons]
    have e : onEv st (.anno a) = { st with isOverride := a.name == "Override", node := { st.node with annos := st.node.annos ++ [a] } } := by
      simp [onEv, h]
    rw [e]
    obtain ⟨ov, hov⟩ := ih { st with isOverride := a.name == "Override", node := { st.node with annos := st.node.annos ++ [a] } } h
    exact ⟨ov, by rw [hov]; simp [List.append_assoc]⟩

/-- everything the class header fixes, except `node.impls` -/
structure SameBut (s' s0 : FSt) : Prop where
  pkg : s'.pkg = s0.pkg
  clz : s'.clz = s0.clz
  cur : s'.curMethod = s0.curMethod
  ctype : s'.curType = s0.curType
  hec : s'.hasEnterClass = s0.hasEnterClass
  mm : s'.methodMap = s0.methodMap
  file : s'.fileName = s0.fileName
  cns : s'.classNodes = s0.classNodes
  nnode : s'.node.node = s0.node.node
  npkg : s'.node.pkg = s0.node.pkg
  ntype : s'.node.type = s0.node.type
  nannos : s'.node.annos = s0.node.annos
  nimports : s'.node.imports = s0.node.imports
  next : s'.node.ext = s0.node.ext

theorem impls_same (impls : List String) : ∀ (s0 : FSt), SameBut (addImpls s0 impls) s0 := by
  unfold addImpls
  induction impls with
  | nil => intro s0; exact ⟨rfl, rfl, rfl, rfl, rfl, rfl, rfl, rfl, rfl, rfl, rfl, rfl, rfl, rfl⟩
  | cons i is ih =>
    intro s0
    have h := ih { s0 with node := { s0.node with impls := s0.node.impls ++ [(warp s0 i).1] } }
    exact ⟨h.pkg, h.clz, h.cur, h.ctype, h.hec, h.mm, h.file, h.cns, h.nnode, h.npkg, h.ntype, h.nannos, h.nimports, h.next⟩

theorem buildExtend_ctx (st : FSt) (e : String) :
    buildExtend st e = buildExtend (resolveCtx st.pkg st.clz st.imports st.clzs st.identKeys st.clzExtend) e := rfl

theorem enterClass_spec (st : FSt) (name : String) (ext : Option String) (impls : List String) :
    let S := onEv st (.enterClass name ext impls)
    S.pkg = st.pkg ∧ S.clz = name ∧ S.curMethod = st.curMethod ∧ S.curType = "Class" ∧ S.hasEnterClass = true ∧
    S.methodMap = st.methodMap ∧ S.fileName = st.fileName ∧ S.classNodes = st.classNodes ∧ S.node.node = name ∧
    S.node.pkg = st.node.pkg ∧ S.node.type = "Class" ∧ S.node.annos = st.node.annos ∧ S.node.imports = st.node.imports ∧
    S.node.ext = (match ext with
      | none => st.node.ext
      | some e => buildExtend (resolveCtx st.pkg name st.imports st.clzs st.identKeys e) e) := by
  have h := impls_same impls (classHeader st name ext)
  refine ⟨h.pkg.trans ?_, h.clz.trans ?_, h.cur.trans ?_, h.ctype.trans ?_, h.hec.trans ?_, h.mm.trans ?_, h.file.trans ?_,
    h.cns.trans ?_, h.nnode.trans ?_, h.npkg.trans ?_, rfl, h.nannos.trans ?_, h.nimports.trans ?_, h.next.trans ?_⟩
  all_goals (cases ext <;> first | rfl | exact buildExtend_ctx _ _)

theorem newListener_eq (st : FSt) (ids clzs : List String) (path : String) :
    newListener st ids clzs path = { identKeys := ids, clzs := clzs, fileName := path } := by
  simp [newListener, initClass, Gen.JavaFull.resetsMapFields, Gen.JavaFull.resetsLocalVars, Gen.JavaFull.resetsFormalParameters,
    Gen.JavaFull.resetsOuterBlocks, Gen.JavaFull.resetsCurrentType, Gen.JavaFull.resetsHasEnterClass]

/-- the state after package, imports and class annotations -/
structure AtClass (u : ClassUnit) (ids clzs : List String) (path : String) (A : FSt) : Prop where
  a1 : A.pkg = u.pkg
  a2 : A.curMethod = {}
  a3 : A.methodMap = []
  a4 : A.fileName = path
  a5 : A.classNodes = []
  a6 : A.node.pkg = u.pkg
  a7 : A.node.annos = u.annos
  a8 : A.node.imports = u.imports
  a9 : A.imports = u.imports
  a10 : A.clzs = clzs
  a11 : A.identKeys = ids
  a12 : A.node.ext = ""
  a13 : A.clz = ""

theorem prefix_spec (u : ClassUnit) (st0 : FSt) (ids clzs : List String) (path : String) :
    AtClass u ids clzs path
      (List.foldl onEv (List.foldl onEv (onEv (newListener st0 ids clzs path) (Ev.pkg u.pkg)) (List.map Ev.imp u.imports))
        (List.map Ev.anno u.annos)) := by
  rw [newListener_eq, imports_run]
  obtain ⟨ov, hov⟩ := annos_outside u.annos
    { onEv { identKeys := ids, clzs := clzs, fileName := path } (Ev.pkg u.pkg) with
        imports := (onEv { identKeys := ids, clzs := clzs, fileName := path } (Ev.pkg u.pkg)).imports ++ u.imports,
        node := { (onEv { identKeys := ids, clzs := clzs, fileName := path } (Ev.pkg u.pkg)).node with
          imports := (onEv { identKeys := ids, clzs := clzs, fileName := path } (Ev.pkg u.pkg)).node.imports ++ u.imports } } rfl
  rw [hov]
  exact ⟨rfl, rfl, rfl, rfl, rfl, rfl, by simp [onEv], by simp [onEv], by simp [onEv], rfl, rfl, rfl, rfl⟩

/-- **C01, full pass, class units** -/
theorem class_file_exact (u : ClassUnit) (hok : u.ok) (st0 : FSt) (ids clzs : List String) (path : String) :
    ∃ d, (runFile st0 ids clzs path u.events).classNodes = [d] ∧ d.pkg = u.pkg ∧ d.node = u.name ∧ d.type = "Class" ∧
      d.path = path ∧ d.annos = u.annos ∧ d.imports = u.imports ∧ d.ext = expectedExt u clzs ids ∧
      All2 Matches d.fns (specs u.members) := by
  obtain ⟨hname, hsok, hnd⟩ := hok
  unfold runFile ClassUnit.events
  simp only [List.foldl_append, List.foldl_cons, List.foldl_nil]
  have hA := prefix_spec u st0 ids clzs path
  generalize (List.foldl onEv (List.foldl onEv (onEv (newListener st0 ids clzs path) (Ev.pkg u.pkg)) (List.map Ev.imp u.imports))
        (List.map Ev.anno u.annos)) = A at hA ⊢
  obtain ⟨a1, a2, a3, a4, a5, a6, a7, a8, a9, a10, a11, a12, _⟩ := hA
  obtain ⟨s1, s2, s3, s4, s5, s6, s7, s8, s9, s10, s11, s12, s13, s14⟩ := enterClass_spec A u.name u.ext u.impls
  generalize onEv A (.enterClass u.name u.ext u.impls) = S at *
  have hI : Inv u.pkg u.name (hdr S) S [] :=
    ⟨s1.trans a1, s2, s3.trans a2, s4, s5, rfl, by rw [s6, a3]; rfl, fun _ h => by simp at h⟩
  have hF := members_run u.pkg u.name (hdr S) u.members S [] hI hsok (by simpa using hnd)
  generalize (u.members.flatMap Member.events).foldl onEv S = F at hF ⊢
  simp only [List.nil_append] at hF
  have hnn : F.node.node = u.name := by
    have := congrArg Hdr.node hF.hhdr; simpa [hdr, s9] using this
  have hne : (F.node.node == "") = false := by rw [hnn]; simpa using hname
  refine ⟨{ F.node with fields := F.fields, path := F.fileName, fns := (GoMap.entries F.methodMap).map (·.2) }, ?_, ?_, ?_, ?_, ?_, ?_, ?_, ?_, ?_⟩
  · have c : F.classNodes = [] := by
      have := congrArg Hdr.classNodes hF.hhdr; simpa [hdr, s8, a5] using this
    simp [onEv, hne, initClass, c]
  · have := congrArg Hdr.pkg hF.hhdr; simpa [hdr, s10, a6] using this
  · exact hnn
  · have := congrArg Hdr.type hF.hhdr; simpa [hdr, s11] using this
  · have := congrArg Hdr.path hF.hhdr; simpa [hdr, s7, a4] using this
  · have := congrArg Hdr.annos hF.hhdr; simpa [hdr, s12, a7] using this
  · have := congrArg Hdr.imports hF.hhdr; simpa [hdr, s13, a8] using this
  · have := congrArg Hdr.ext hF.hhdr
    simp only [hdr] at this
    show F.node.ext = _
    rw [this, s14, expectedExt, a1, a9, a10, a11, a12]
  · exact entries_all2 Matches (FnSpec.key u.pkg u.name) F.methodMap (specs u.members) hF.hkeys hF.hvals

/-! ### non-vacuity: a concrete conventional unit meets the hypothesis, and the model run on it gives what the theorem says -/

def demoUnit : ClassUnit :=
  { pkg := "p", imports := ["q.T"], annos := [], name := "A", ext := some "T", impls := [],
    members := [
      .field [] (some "T") ["svc"] ⟨3, 4, 3, 12⟩,
      .fn { isCtor := true, name := "A", ret := "", annos := [], params := [], l1 := 4, c1 := 11, l2 := 4, c2 := 16, pre := [], body := [] },
      .fn { isCtor := false, name := "run", ret := "void", annos := [], params := [("T", "x")], l1 := 5, c1 := 16, l2 := 7, c2 := 4, pre := [],
            body := [.formalParam "x" "T", .enterBlock, .call "svc" none "go" "go()" [] 6 12 6, .exitBlock] },
      .fn { isCtor := false, name := "run", ret := "int", annos := [], params := [], l1 := 9, c1 := 15, l2 := 9, c2 := 22, pre := [], body := [] }] }

example : demoUnit.ok := by
  refine ⟨by decide, ?_, by decide⟩
  intro s hs
  simp only [demoUnit, specs, List.filterMap_cons, Member.spec?, List.filterMap_nil, List.mem_cons, List.not_mem_nil, or_false] at hs
  rcases hs with rfl | rfl | rfl
  · exact ⟨by decide, by simp⟩
  · exact ⟨by decide, by simp [bodyEv]⟩
  · exact ⟨by decide, by simp⟩

-- the model, run on it from the empty state: one class entry with the constructor and the two overloads of `run` (a test, not a proof)
#guard ((runFile {} [] [] "A.java" demoUnit.events).classNodes.map fun d => (d.node, d.fns.map (·.name))) == [("A", ["A", "run", "run"])]

end CocaVerif.Props.C01
