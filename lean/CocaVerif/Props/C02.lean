/-
  C02 — Recorded call sites are exactly the invocations written in the source (full-pass model).

  * `calls_exact` (from `C01.class_file_exact`): for every conventional class unit, from any listener
    state, the calls of each function entry are, one for one and in source order, records of the
    invocations / creations / method references written in that body: an invocation carries the callee
    name, the arguments and the position (line, column, column + length of the callee); a creation
    carries the created type.  Nothing is lost, duplicated or attached to a neighbouring method.
  * receiver resolution, stated outright on the model of `ParseTargetType` / `WarpTargetFullType` /
    `BuildMethodCallMethod`: a local variable or parameter hides a field (`receiver_local`,
    `receiver_formal`, `receiver_field`; the order is regenerated from the code's if-chain); a declared
    plain type that is imported resolves to the import, whole last segment (`warp_import`), otherwise
    to the project type of the current package before any other (`warp_same_package`); the call is then
    recorded against that simple name and the package of the full type (`call_resolved`); an
    unqualified call is recorded against the class itself (`call_implicit`).
  * scoping: a method or constructor starts with no locals or parameters of an earlier one
    (`method_entry_scope`, `ctor_entry_scope`); what a block, for or switch statement declares is
    forgotten at its end (`scoped_restores`), for every well-bracketed body.
-/
import CocaVerif.Props.C01

namespace CocaVerif.Props.C02
open CocaVerif CocaVerif.JavaFull CocaVerif.Props.C01

/-- **calls, in source order, exactly the written ones** -/
theorem calls_exact (u : ClassUnit) (hok : u.ok) (st0 : FSt) (ids clzs : List String) (path : String) :
    ∃ d, (runFile st0 ids clzs path u.events).classNodes = [d] ∧
      All2 (fun f s => f.name = s.name ∧ AllRec f.calls (s.body.filter isInv)) d.fns (specs u.members) := by
  obtain ⟨d, h1, _, _, _, _, _, _, _, hm⟩ := class_file_exact u hok st0 ids clzs path
  exact ⟨d, h1, hm.imp fun _ _ h => ⟨h.1, h.2.2.2.2.2⟩⟩

/-- as many recorded calls as written invocations, for every function -/
theorem call_count (f : Fn) (s : FnSpec) (h : Matches f s) : f.calls.length = (s.body.filter isInv).length :=
  h.2.2.2.2.2.length

/-! ### receiver resolution -/

theorem precedence_fact : Gen.JavaFull.receiverPrecedence = ["localVarType != \"\"", "formalType != \"\"", "fieldType != \"\""] := rfl

theorem receiver_local (st : FSt) (x t : String) (h : lookup st.localVars x = t) (ht : t ≠ "") : parseTargetType st x = t := by
  simp [parseTargetType, Gen.JavaFull.receiverPrecedence, precLookup, h, ht]

theorem receiver_formal (st : FSt) (x t : String) (hl : lookup st.localVars x = "") (h : lookup st.formalParams x = t) (ht : t ≠ "") :
    parseTargetType st x = t := by
  simp [parseTargetType, Gen.JavaFull.receiverPrecedence, precLookup, hl, h, ht]

theorem receiver_field (st : FSt) (x t : String) (hl : lookup st.localVars x = "") (hf : lookup st.formalParams x = "")
    (h : lookup st.mapFields x = t) (ht : t ≠ "") : parseTargetType st x = t := by
  simp [parseTargetType, Gen.JavaFull.receiverPrecedence, precLookup, hl, hf, h, ht]

theorem receiver_unknown (st : FSt) (x : String) (hl : lookup st.localVars x = "") (hf : lookup st.formalParams x = "")
    (h : lookup st.mapFields x = "") : parseTargetType st x = x := by
  simp [parseTargetType, Gen.JavaFull.receiverPrecedence, precLookup, hl, hf, h]

/-- an imported type resolves to the FIRST import whose last segment is the whole name -/
theorem warp_import (st : FSt) (t imp : String) (hself : equalFold st.clz t = false) (hp : pureOf t ≠ "")
    (h : st.imports.find? (fun i => i.endsWith ("." ++ pureOf t)) = some imp) : warp st t = (imp, "chain") := by
  simp only [warp, hself, Bool.false_eq_true, if_false, Gen.JavaFull.importMatches]
  generalize pureOf t = p at hp h
  have : (p != "") = true := by simpa using hp
  simp only [this, if_true]
  simp only [h]

theorem find_eq_mem (l : List String) (k : String) (h : k ∈ l) : l.find? (fun c => c == k) = some k := by
  induction l with
  | nil => simp at h
  | cons c cs ih =>
    simp only [List.find?_cons]
    by_cases hc : c = k
    · simp [hc]
    · have : (c == k) = false := by simpa using hc
      simp only [this]
      exact ih (by simpa [Ne.symm hc] using h)

/-- not imported: the project type of that name in the CURRENT package wins over any other package -/
theorem warp_same_package (st : FSt) (t : String) (hself : equalFold st.clz t = false)
    (hi : st.imports.find? (fun i => i.endsWith ("." ++ pureOf t)) = none)
    (h : (st.pkg ++ "." ++ pureOf t) ∈ st.clzs) : warp st t = (st.pkg ++ "." ++ pureOf t, "same package") := by
  simp only [warp, hself, Bool.false_eq_true, if_false, Gen.JavaFull.importMatches, Gen.JavaFull.samePackageMatches]
  generalize pureOf t = p at hi h
  have hf := find_eq_mem st.clzs _ h
  have e1 : (if (p != "") = true then st.imports.find? (fun imp => imp.endsWith ("." ++ p)) else none) = none := by
    split
    · exact hi
    · rfl
  simp only [e1, hf]

/-- not imported by name and not in the current package, but visible through an on-demand import (`import p.*;` is
    recorded as `p`): the class `p.Name` of the FIRST such import that is a known class wins over a class of that name in any
    other package (the repair 002f493) -/
theorem warp_on_demand (st : FSt) (t c : String) (hself : equalFold st.clz t = false)
    (hi : st.imports.find? (fun i => i.endsWith ("." ++ pureOf t)) = none)
    (hs : st.clzs.find? (fun c => c == st.pkg ++ "." ++ pureOf t) = none)
    (h : st.imports.findSome? (fun imp => st.clzs.find? (fun c => c == imp ++ "." ++ pureOf t)) = some c) :
    warp st t = (c, "same package") := by
  simp only [warp, hself, Bool.false_eq_true, if_false, Gen.JavaFull.importMatches, Gen.JavaFull.samePackageMatches,
    Gen.JavaFull.onDemandMatches]
  generalize pureOf t = p at hi hs h
  have e1 : (if (p != "") = true then st.imports.find? (fun imp => imp.endsWith ("." ++ p)) else none) = none := by
    split
    · exact hi
    · rfl
  simp only [e1, hs, h]

-- non-vacuity (a test, evaluated by the compiler): `Helper` in package com.shop, seen through `import com.shop.user.*;`, with
-- another Helper in com.shop.order that comes first in the list of known classes
#guard warp { pkg := "com.shop", clz := "Order", imports := ["java.util.List", "com.shop.user"],
              clzs := ["com.shop.order.Helper", "com.shop.user.Helper", "com.shop.Order"] } "Helper" ==
    ("com.shop.user.Helper", "same package")

/-- a call on a receiver whose type resolves: recorded against the simple name and the package of the full type -/
theorem call_resolved (st : FSt) (x callee ctx : String) (args : List String) (sl sc el : Int) (full : String)
    (hw : (warp st (parseTargetType st x)).1 = full) (hfull : full ≠ "")
    (hs : parseTargetType st x ≠ "super") (hc : callee ≠ "super") (hch : isChainCall (parseTargetType st x) = false) :
    ∃ c, onEv st (.call x none callee ctx args sl sc el) = addCall st c ∧ c.node = parseTargetType st x ∧
      c.pkg = removeTarget full ∧ c.fn = callee := by
  refine ⟨_, rfl, ?_, ?_, rfl⟩
  · simp [hw, hfull, hs, hc, hch]
  · simp [hw, hfull, hs, hc]

/-- an unqualified call `m(..)` (no table entry, no type and no static import of that name): recorded against the class itself -/
theorem call_implicit (st : FSt) (callee text : String) (args : List String) (sl sc el : Int)
    (hp : parseTargetType st text = text) (hw : (warp st text).1 = "") (hs : text ≠ "super") (hc : callee ≠ "super")
    (hi : ∀ imp ∈ st.imports, imp.endsWith ("." ++ callee) = false) (hch : isChainCall st.clz = false) :
    ∃ c, onEv st (.call text none callee text args sl sc el) = addCall st c ∧ c.node = st.clz ∧ c.pkg = st.pkg ∧ c.fn = callee := by
  have hfold : ∀ (l : List String) (acc : String × String), (∀ imp ∈ l, imp.endsWith ("." ++ callee) = false) →
      l.foldl (fun (acc : String × String) imp => if imp.endsWith ("." ++ callee) then (imp, "") else acc) acc = acc := by
    intro l
    induction l with
    | nil => intro acc _; rfl
    | cons a l ih =>
      intro acc h
      simp only [List.foldl_cons, h a (by simp), Bool.false_eq_true, if_false]
      exact ih acc fun i hi' => h i (by simp [hi'])
  refine ⟨_, rfl, ?_, ?_, rfl⟩
  · simp [hp, hw, hs, hc, handleEmpty, hfold st.imports _ hi, hch]
  · simp [hp, hw, hs, hc, handleEmpty, hfold st.imports _ hi]

/-! ### scoping -/

theorem method_entry_scope (st : FSt) (name ret : String) (annos : List Anno) (params : List (String × String)) (sl nc el : Int)
    (h : st.curType = "Class") :
    let S := onEv st (.enterMethod name ret annos params params.isEmpty sl nc el)
    S.formalParams = [] ∧ S.localVars = params.foldl (fun lv p => GoMap.set lv p.2 p.1) [] := by
  have h1 : ({ st with curMethod := { st.curMethod with annos := st.curMethod.annos ++ annos } } : FSt).curType = "Class" := h
  by_cases he : params.isEmpty = true
  · have : params = [] := by simpa using he
    subst this
    simp [onEv, setParams, Gen.JavaFull.methodEntryResetsScope, resetMethodScope_class _ h1, updateMethod]
  · simp [onEv, setParams, he, Gen.JavaFull.methodEntryResetsScope, resetMethodScope_class _ h1, updateMethod]

theorem ctor_entry_scope (st : FSt) (name : String) (params : List (String × String)) (pos : P) (h : st.curType = "Class") :
    let S := onEv st (.enterCtor name params params.isEmpty pos)
    S.formalParams = [] ∧ S.localVars = params.foldl (fun lv p => GoMap.set lv p.2 p.1) [] := by
  by_cases he : params.isEmpty = true
  · have : params = [] := by simpa using he
    subst this
    simp [onEv, setParams, Gen.JavaFull.ctorEntryResetsScope, resetMethodScope_class _ h, updateMethod]
  · simp [onEv, setParams, he, Gen.JavaFull.ctorEntryResetsScope, resetMethodScope_class _ h, updateMethod]

/-- body events that neither open nor close a scope -/
def plainEv : Ev → Bool
  | .localVar _ _ | .creator _ _ _ _ | .call _ _ _ _ _ _ _ _ | .mref _ _ _ | .forVar _ _ | .formalParam _ _ | .anno _ => true
  | _ => false

/-- well-bracketed bodies: blocks and for / switch statements nest -/
inductive Balanced : List Ev → Prop
  | nil : Balanced []
  | plain {e : Ev} {rest : List Ev} : plainEv e = true → Balanced rest → Balanced (e :: rest)
  | block {inner rest : List Ev} : Balanced inner → Balanced rest → Balanced (.enterBlock :: (inner ++ .exitBlock :: rest))
  | stmt {inner rest : List Ev} : Balanced inner → Balanced rest → Balanced (.enterStmtScope :: (inner ++ .exitStmtScope :: rest))

theorem plain_outer (st : FSt) (e : Ev) (h : plainEv e = true) : (onEv st e).outerLocals = st.outerLocals := by
  cases e <;> simp [plainEv] at h
  case localVar t n => cases n <;> rfl
  case creator v av ids pos =>
    cases ids with
    | nil => rfl
    | cons i r => simp only [onEv, addCall]; split <;> (try split) <;> rfl
  case call => rfl
  case mref => rfl
  case forVar => simp only [onEv]; split <;> rfl
  case formalParam => rfl
  case anno a => simp only [onEv]; split <;> rfl

theorem save_restore_facts : Gen.JavaFull.blockSavesLocals = true ∧ Gen.JavaFull.blockRestoresLocals = true ∧
    Gen.JavaFull.forSavesLocals = true ∧ Gen.JavaFull.forRestoresLocals = true ∧ Gen.JavaFull.saveAppends = true ∧
    Gen.JavaFull.restoreAssigns = true ∧ Gen.JavaFull.stmtSaveOnlyForSwitch = true ∧ Gen.JavaFull.stmtRestoreOnlyForSwitch = true ∧
    Gen.JavaFull.forVarRecorded = true := ⟨rfl, rfl, rfl, rfl, rfl, rfl, rfl, rfl, rfl⟩

/-- a well-bracketed run leaves the stack of saved tables as it found it … -/
theorem balanced_outer {b : List Ev} (hb : Balanced b) : ∀ (st : FSt), (b.foldl onEv st).outerLocals = st.outerLocals := by
  induction hb with
  | nil => intro st; rfl
  | plain hp _ ih => intro st; simp only [List.foldl_cons]; rw [ih, plain_outer st _ hp]
  | block _ _ ih1 ih2 =>
    intro st
    simp only [List.foldl_cons, List.foldl_append]
    rw [ih2]
    simp only [onEv, Gen.JavaFull.blockSavesLocals, Gen.JavaFull.blockRestoresLocals, if_true, saveLocalVars, restoreLocalVars,
      Gen.JavaFull.saveAppends, Gen.JavaFull.restoreAssigns]
    rw [ih1]
    simp
  | stmt _ _ ih1 ih2 =>
    intro st
    simp only [List.foldl_cons, List.foldl_append]
    rw [ih2]
    simp only [onEv, Gen.JavaFull.forSavesLocals, Gen.JavaFull.forRestoresLocals, if_true, saveLocalVars, restoreLocalVars,
      Gen.JavaFull.saveAppends, Gen.JavaFull.restoreAssigns]
    rw [ih1]
    simp

/-- … and a block / for / switch statement, whatever it declares inside, gives back the local-variable table it started with -/
theorem scoped_restores {inner : List Ev} (hb : Balanced inner) (st : FSt) :
    ((Ev.enterBlock :: (inner ++ [Ev.exitBlock])).foldl onEv st).localVars = st.localVars ∧
    ((Ev.enterStmtScope :: (inner ++ [Ev.exitStmtScope])).foldl onEv st).localVars = st.localVars := by
  constructor
  · simp only [List.foldl_cons, List.foldl_append, List.foldl_nil]
    simp only [onEv, Gen.JavaFull.blockSavesLocals, Gen.JavaFull.blockRestoresLocals, if_true, saveLocalVars, restoreLocalVars,
      Gen.JavaFull.saveAppends, Gen.JavaFull.restoreAssigns]
    rw [balanced_outer hb]
    simp
  · simp only [List.foldl_cons, List.foldl_append, List.foldl_nil]
    simp only [onEv, Gen.JavaFull.forSavesLocals, Gen.JavaFull.forRestoresLocals, if_true, saveLocalVars, restoreLocalVars,
      Gen.JavaFull.saveAppends, Gen.JavaFull.restoreAssigns]
    rw [balanced_outer hb]
    simp

/-! ### non-vacuity: a unit with a field hidden by a parameter and by a block-local -/

def demo : ClassUnit :=
  { pkg := "com.shop", imports := ["org.lib.Tool", "com.shop.order.MyOrder"], annos := [⟨"Service", []⟩], name := "A", ext := none, impls := [],
    members := [
      .field [] (some "Tool") ["svc"] ⟨5, 4, 5, 20⟩,
      .fn { isCtor := false, name := "run", ret := "void", annos := [], params := [("Order", "svc")], l1 := 6, c1 := 16, l2 := 12, c2 := 0,
            pre := [],
            body := [.formalParam "svc" "Order", .enterBlock,
                     .call "svc" none "save" "save()" [] 7 12 7,                     -- parameter `Order svc` hides the field
                     .enterBlock, .localVar "MyOrder" (some "svc"), .call "svc" none "find" "find()" [] 9 16 9, .exitBlock,
                     .call "svc" none "of" "of()" [] 11 12 11,                       -- the block-local is gone again
                     .call "process()" none "process" "process()" [] 11 30 11,
                     .exitBlock] }] }

-- (package, receiver type, callee, column range) of the recorded calls: Order (same package), MyOrder (import,
-- not Order's import: whole segment), Order again, then the class itself for the unqualified call
#guard ((runFile {} ["com.shop.A", "com.shop.Order", "com.other.Order"] ["com.other.Order", "com.shop.A", "com.shop.Order"] "A.java" demo.events).classNodes.map
    fun d => d.fns.map fun f => f.calls.map fun c => (c.pkg, c.node, c.fn, c.pos.startCol, c.pos.stopCol))
  == [[[("com.shop", "Order", "save", 12, 16), ("com.shop.order", "MyOrder", "find", 16, 20), ("com.shop", "Order", "of", 12, 14),
        ("com.shop", "A", "process", 30, 37)]]]

end CocaVerif.Props.C02
