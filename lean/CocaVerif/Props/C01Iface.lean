/-
  C01, full pass, interface units: `iface_file_exact` — for EVERY conventional interface unit (package,
  imports, annotations, `interface N [extends …]`, any number of method declarations with any
  annotations and parameter lists), from ANY listener state, exactly one entry with package, name, kind
  "Interface", path, annotations, imports, and exactly one function entry per declared method in
  declaration order with name, return type, ordered (type, name) parameters and position, no calls —
  provided no two methods share (name, first line).
-/
import CocaVerif.Props.C01

namespace CocaVerif.Props.C01Iface
open CocaVerif CocaVerif.JavaFull CocaVerif.Props.C01

structure IMethod where
  name : String
  ret : String
  annos : List Anno
  params : List (String × String)
  l1 : Int
  c1 : Int
  l2 : Int
  c2 : Int
  pre : List Anno
  tail : List Ev          -- formal parameters and their annotations

def IMethod.events (m : IMethod) : List Ev :=
  [.interfaceBodyDecl] ++ m.pre.map .anno ++ [.interfaceMethod m.name m.ret m.annos m.params m.params.isEmpty ⟨m.l1, m.c1, m.l2, m.c2⟩] ++ m.tail

def IMethod.key (pkg : String) (m : IMethod) : String := pkg ++ "." ++ "" ++ "." ++ m.name ++ ":" ++ toString m.l1

def IMethod.ok (m : IMethod) : Prop := m.name ≠ "" ∧ ∀ e ∈ m.tail, bodyEv e = true ∧ isInv e = false

def IMatch (f : Fn) (m : IMethod) : Prop :=
  f.name = m.name ∧ f.ret = m.ret ∧ f.params = m.params.map (fun p => { typeType := p.1, typeValue := p.2 }) ∧
  f.pos = buildPosition ⟨m.l1, m.c1, m.l2, m.c2⟩ m.name ∧ f.calls = [] ∧ f.isConstructor = false

structure IInv (pkg : String) (H : Hdr) (st : FSt) (done : List IMethod) : Prop where
  hpkg : st.pkg = pkg
  hclz : st.clz = ""
  hctype : st.curType = "Interface"
  hhec : st.hasEnterClass = true
  hhdr : hdr st = H
  hkeys : GoMap.keys st.methodMap = done.map (IMethod.key pkg)
  hvals : ∀ s ∈ done, ∃ f, GoMap.get? st.methodMap (s.key pkg) = some f ∧ IMatch f s

theorem resetMethodScope_iface (st : FSt) (h : st.curType = "Interface") :
    resetMethodScope st = { st with localVars := [], formalParams := [] } := by
  simp [resetMethodScope, h, Gen.JavaFull.methodScopeResetsLocalVars, Gen.JavaFull.methodScopeResetsFormalParameters]

/-- a named header installed once or twice on a state whose method table is `M` -/
theorem install_spec (s0 : FSt) (m : Fn) (twice : Bool) (hn : m.name ≠ "") (hfresh : ¬ keyOf s0 m ∈ GoMap.keys s0.methodMap) :
    let S := if twice then updateMethod (updateMethod s0 m) m else updateMethod s0 m
    S.pkg = s0.pkg ∧ S.clz = s0.clz ∧ S.curType = s0.curType ∧ S.hasEnterClass = s0.hasEnterClass ∧ hdr S = hdr s0 ∧
    S.curMethod = m ∧ keyOf S m = keyOf s0 m ∧
    GoMap.keys S.methodMap = GoMap.keys s0.methodMap ++ [keyOf s0 m] ∧
    GoMap.get? S.methodMap (keyOf s0 m) = some m ∧
    ∀ q, q ≠ keyOf s0 m → GoMap.get? S.methodMap q = GoMap.get? s0.methodMap q := by
  have kk : ∀ x : FSt, x.pkg = s0.pkg → x.clz = s0.clz → keyOf x m = keyOf s0 m := by
    intro x h1 h2; rw [keyOf_named x m hn, keyOf_named s0 m hn, h1, h2]
  have k1 := kk (updateMethod s0 m) rfl rfl
  have keys1 := updateMethod_fresh s0 m hn hfresh
  cases twice
  · simp only [Bool.false_eq_true, if_false]
    refine ⟨rfl, rfl, rfl, rfl, rfl, rfl, k1, keys1, ?_, ?_⟩
    · rw [updateMethod_get s0 m hn]; simp
    · intro q hq
      rw [updateMethod_get s0 m hn]
      have : (keyOf s0 m == q) = false := beq_false_of_ne (fun h => hq h.symm)
      simp [this]
  · simp only [if_true]
    have hin : keyOf (updateMethod s0 m) m ∈ GoMap.keys (updateMethod s0 m).methodMap := by rw [k1, keys1]; simp
    refine ⟨rfl, rfl, rfl, rfl, rfl, rfl, kk _ rfl rfl, ?_, ?_, ?_⟩
    · rw [updateMethod_again _ m hn hin, keys1]
    · rw [updateMethod_get _ m hn, k1]; simp
    · intro q hq
      have : (keyOf s0 m == q) = false := beq_false_of_ne (fun h => hq h.symm)
      rw [updateMethod_get _ m hn, k1, updateMethod_get s0 m hn]
      simp [this]

theorem allRec_nil (cs : List Call) (h : AllRec cs []) : cs = [] := by
  cases h; rfl

theorem filter_none (l : List Ev) (h : ∀ e ∈ l, bodyEv e = true ∧ isInv e = false) : l.filter isInv = [] := by
  apply List.filter_eq_nil_iff.mpr
  intro e he
  rw [(h e he).2]; simp

theorem imethod_step (pkg : String) (H : Hdr) (st : FSt) (done : List IMethod) (m : IMethod)
    (hI : IInv pkg H st done) (hok : m.ok) (hfresh : ¬ m.key pkg ∈ done.map (IMethod.key pkg)) :
    IInv pkg H (m.events.foldl onEv st) (done ++ [m]) := by
  obtain ⟨hn, htail⟩ := hok
  simp only [IMethod.events, List.foldl_append, List.foldl_cons, List.foldl_nil]
  -- interfaceBodyDecl, then the annotations in front
  have e0 : onEv st .interfaceBodyDecl = { st with hasEnterClass := true } := rfl
  rw [e0]
  obtain ⟨ov, hov⟩ := annos_inside m.pre { st with hasEnterClass := true } rfl
  rw [hov]
  -- the header
  let fn : Fn := { name := m.name, ret := m.ret, pos := buildPosition ⟨m.l1, m.c1, m.l2, m.c2⟩ m.name }
  let fnp : Fn := { fn with params := m.params.map fun p => { typeType := p.1, typeValue := p.2 } }
  have hkfresh : ∀ (s0 : FSt) (f : Fn), s0.pkg = pkg → s0.clz = "" → s0.methodMap = st.methodMap → f.name = m.name →
      f.pos.startLine = m.l1 → keyOf s0 f = m.key pkg ∧ ¬ keyOf s0 f ∈ GoMap.keys s0.methodMap := by
    intro s0 f h1 h2 h3 h4 h5
    have hfn : f.name ≠ "" := by rw [h4]; exact hn
    have : keyOf s0 f = m.key pkg := by rw [keyOf_named s0 f hfn, h1, h2, h4, h5]; rfl
    exact ⟨this, by rw [this, h3, hI.hkeys]; exact hfresh⟩
  have hS : ∃ (S : FSt) (f : Fn), onEv { ({ st with hasEnterClass := true } : FSt) with isOverride := ov }
        (.interfaceMethod m.name m.ret m.annos m.params m.params.isEmpty ⟨m.l1, m.c1, m.l2, m.c2⟩) = S ∧
      S.pkg = pkg ∧ S.clz = "" ∧ S.curType = "Interface" ∧ S.hasEnterClass = true ∧ hdr S = H ∧ S.curMethod = f ∧
      keyOf S f = m.key pkg ∧ GoMap.keys S.methodMap = GoMap.keys st.methodMap ++ [m.key pkg] ∧
      GoMap.get? S.methodMap (m.key pkg) = some f ∧ (∀ q, q ≠ m.key pkg → GoMap.get? S.methodMap q = GoMap.get? st.methodMap q) ∧
      f.name = m.name ∧ f.ret = m.ret ∧ f.params = m.params.map (fun p => { typeType := p.1, typeValue := p.2 }) ∧
      f.pos = buildPosition ⟨m.l1, m.c1, m.l2, m.c2⟩ m.name ∧ f.calls = [] ∧ f.isConstructor = false := by
    have hct1 : ({ ({ ({ st with hasEnterClass := true } : FSt) with isOverride := ov } : FSt) with
        curMethod := { st.curMethod with annos := st.curMethod.annos ++ m.annos } } : FSt).curType = "Interface" := hI.hctype
    by_cases he : m.params.isEmpty = true
    · have hp : m.params = [] := by simpa using he
      let s0 : FSt := { ({ ({ ({ st with hasEnterClass := true } : FSt) with isOverride := ov } : FSt) with
        curMethod := { st.curMethod with annos := st.curMethod.annos ++ m.annos } } : FSt) with localVars := [], formalParams := [] }
      obtain ⟨k, kf⟩ := hkfresh s0 fn hI.hpkg hI.hclz rfl rfl rfl
      have I := install_spec s0 fn false hn kf
      simp only [Bool.false_eq_true, if_false] at I
      obtain ⟨i1, i2, i3, i4, i5, i6, i7, i8, i9, i10⟩ := I
      refine ⟨updateMethod s0 fn, fn, ?_, i1.trans hI.hpkg, i2.trans hI.hclz, i3.trans hI.hctype, i4, i5.trans hI.hhdr, i6, i7.trans k,
        by rw [i8, k], by rw [← k]; exact i9, fun q hq => i10 q (by rw [k]; exact hq), rfl, rfl, by simp [fn, hp], rfl, rfl, rfl⟩
      simp [onEv, setParams, he, Gen.JavaFull.interfaceMethodEntryResetsScope, resetMethodScope_iface _ hct1, s0, fn]
    · let s0 : FSt := { ({ ({ ({ st with hasEnterClass := true } : FSt) with isOverride := ov } : FSt) with
        curMethod := { st.curMethod with annos := st.curMethod.annos ++ m.annos } } : FSt) with
          formalParams := [], localVars := m.params.foldl (fun lv p => GoMap.set lv p.2 p.1) [] }
      obtain ⟨k, kf⟩ := hkfresh s0 fnp hI.hpkg hI.hclz rfl rfl rfl
      have I := install_spec s0 fnp true hn kf
      simp only [if_true] at I
      obtain ⟨i1, i2, i3, i4, i5, i6, i7, i8, i9, i10⟩ := I
      refine ⟨updateMethod (updateMethod s0 fnp) fnp, fnp, ?_, i1.trans hI.hpkg, i2.trans hI.hclz, i3.trans hI.hctype, i4, i5.trans hI.hhdr, i6,
        i7.trans k, by rw [i8, k], by rw [← k]; exact i9, fun q hq => i10 q (by rw [k]; exact hq), rfl, rfl, rfl, rfl, rfl, rfl⟩
      simp [onEv, setParams, he, Gen.JavaFull.interfaceMethodEntryResetsScope, resetMethodScope_iface _ hct1, s0, fnp, fn, updateMethod_frame]
  obtain ⟨S, f, hSe, p1, p2, p3, p4, p5, p6, p7, p8, p9, p10, q1, q2, q3, q4, q5, q6⟩ := hS
  rw [hSe]
  -- the parameter events after the header record nothing
  obtain ⟨cs, eff, hrec⟩ := body_run m.tail S f (fun e he => (htail e he).1) p4 (by rw [p6, p7]; exact p9)
  rw [p6, p7] at eff
  rw [filter_none m.tail htail] at hrec
  have hcs := allRec_nil cs hrec
  subst hcs
  generalize m.tail.foldl onEv S = S' at eff
  have c1 : S'.pkg = S.pkg := congrArg Core.pkg eff.hcore
  have c2 : S'.clz = S.clz := congrArg Core.clz eff.hcore
  have c3 : S'.curType = S.curType := congrArg Core.curType eff.hcore
  have c4 : S'.hasEnterClass = S.hasEnterClass := congrArg Core.hasEnterClass eff.hcore
  refine ⟨c1.trans p1, c2.trans p2, c3.trans p3, c4.trans p4, (hdr_of_core _ _ eff.hcore).trans p5, ?_, ?_⟩
  · rw [eff.keys, p8, hI.hkeys]; simp
  · intro x hx
    rcases List.mem_append.mp hx with hx | hx
    · have hne : x.key pkg ≠ m.key pkg := fun h => hfresh (h ▸ List.mem_map_of_mem hx)
      obtain ⟨g, hg, hm⟩ := hI.hvals x hx
      exact ⟨g, by rw [eff.others _ hne, p10 _ hne]; exact hg, hm⟩
    · have : x = m := by simpa using hx
      subst this
      exact ⟨_, eff.mine, q1, q2, q3, q4, by simp [q5], q6⟩

theorem imethods_run (pkg : String) (H : Hdr) : ∀ (ms : List IMethod) (st : FSt) (done : List IMethod),
    IInv pkg H st done → (∀ m ∈ ms, m.ok) → ((done ++ ms).map (IMethod.key pkg)).Nodup →
    IInv pkg H ((ms.flatMap IMethod.events).foldl onEv st) (done ++ ms) := by
  intro ms
  induction ms with
  | nil => intro st done hI _ _; simpa using hI
  | cons m ms ih =>
    intro st done hI hok hnd
    simp only [List.flatMap_cons, List.foldl_append]
    have hfresh : ¬ m.key pkg ∈ done.map (IMethod.key pkg) := by
      intro hmem
      rw [List.map_append, List.map_cons] at hnd
      exact (List.nodup_append.mp hnd).2.2 _ hmem _ (List.mem_cons_self) rfl
    have h1 := imethod_step pkg H st done m hI (hok m (by simp)) hfresh
    have := ih _ (done ++ [m]) h1 (fun x hx => hok x (by simp [hx])) (by simpa [List.append_assoc] using hnd)
    simpa [List.append_assoc] using this

structure IfaceUnit where
  pkg : String
  imports : List String
  annos : List Anno
  name : String
  exts : List String
  methods : List IMethod

def IfaceUnit.events (u : IfaceUnit) : List Ev :=
  [.pkg u.pkg] ++ u.imports.map .imp ++ u.annos.map .anno ++ [.enterInterface u.name u.exts] ++
    u.methods.flatMap IMethod.events ++ [.exitBody]

def IfaceUnit.ok (u : IfaceUnit) : Prop :=
  u.name ≠ "" ∧ (∀ m ∈ u.methods, m.ok) ∧ (u.methods.map (IMethod.key u.pkg)).Nodup

/-- the `extends` list of an interface, as `EnterInterfaceDeclaration` folds it -/
def extsFold (s0 : FSt) (exts : List String) : FSt :=
  exts.foldl (fun (s : FSt) e => { s with node := { s.node with ext := buildExtend s e } }) s0

/-- `extends A, B` only touches `node.ext` -/
theorem exts_same (exts : List String) : ∀ (s0 : FSt),
    let s' := extsFold s0 exts
    s'.pkg = s0.pkg ∧ s'.clz = s0.clz ∧ s'.curType = s0.curType ∧ s'.hasEnterClass = s0.hasEnterClass ∧ s'.methodMap = s0.methodMap ∧
    s'.fileName = s0.fileName ∧ s'.classNodes = s0.classNodes ∧ s'.node.node = s0.node.node ∧ s'.node.pkg = s0.node.pkg ∧
    s'.node.annos = s0.node.annos ∧ s'.node.imports = s0.node.imports := by
  unfold extsFold
  induction exts with
  | nil => intro s0; exact ⟨rfl, rfl, rfl, rfl, rfl, rfl, rfl, rfl, rfl, rfl, rfl⟩
  | cons e es ih => intro s0; exact ih _

/-- **C01, full pass, interface units** -/
theorem iface_file_exact (u : IfaceUnit) (hok : u.ok) (st0 : FSt) (ids clzs : List String) (path : String) :
    ∃ d, (runFile st0 ids clzs path u.events).classNodes = [d] ∧ d.pkg = u.pkg ∧ d.node = u.name ∧ d.type = "Interface" ∧
      d.path = path ∧ d.annos = u.annos ∧ d.imports = u.imports ∧ All2 IMatch d.fns u.methods := by
  obtain ⟨hname, hsok, hnd⟩ := hok
  unfold runFile IfaceUnit.events
  simp only [List.foldl_append, List.foldl_cons, List.foldl_nil]
  have hA := prefix_spec ⟨u.pkg, u.imports, u.annos, u.name, none, [], []⟩ st0 ids clzs path
  simp only at hA
  generalize (List.foldl onEv (List.foldl onEv (onEv (newListener st0 ids clzs path) (Ev.pkg u.pkg)) (List.map Ev.imp u.imports))
        (List.map Ev.anno u.annos)) = A at hA ⊢
  obtain ⟨a1, _, a3, a4, a5, a6, a7, a8, _, _, _, _, a13⟩ := hA
  -- the interface header
  obtain ⟨e1, e2, e3, e4, e5, e6, e7, e8, e9, e10, e11⟩ := exts_same u.exts
    { A with hasEnterClass := true, curType := "Interface", node := { A.node with node := u.name } }
  have hS : onEv A (.enterInterface u.name u.exts) =
      { (extsFold { A with hasEnterClass := true, curType := "Interface", node := { A.node with node := u.name } } u.exts) with
        node := { (extsFold { A with hasEnterClass := true, curType := "Interface", node := { A.node with node := u.name } } u.exts).node with
          type := "Interface" } } := rfl
  rw [hS]
  generalize extsFold { A with hasEnterClass := true, curType := "Interface", node := { A.node with node := u.name } } u.exts = X
    at e1 e2 e3 e4 e5 e6 e7 e8 e9 e10 e11 ⊢
  have hI : IInv u.pkg (hdr { X with node := { X.node with type := "Interface" } }) { X with node := { X.node with type := "Interface" } } [] :=
    ⟨e1.trans a1, e2.trans a13, e3, e4, rfl, by show GoMap.keys X.methodMap = _; rw [e5, a3]; rfl, fun _ h => by simp at h⟩
  have hF := imethods_run u.pkg _ u.methods _ [] hI hsok (by simpa using hnd)
  generalize (u.methods.flatMap IMethod.events).foldl onEv { X with node := { X.node with type := "Interface" } } = F at hF ⊢
  simp only [List.nil_append] at hF
  have hh := hF.hhdr
  have hnn : F.node.node = u.name := by
    have := congrArg Hdr.node hh; simpa [hdr, e8] using this
  have hne : (F.node.node == "") = false := by rw [hnn]; simpa using hname
  refine ⟨{ F.node with fields := F.fields, path := F.fileName, fns := (GoMap.entries F.methodMap).map (·.2) }, ?_, ?_, hnn, ?_, ?_, ?_, ?_, ?_⟩
  · have c : F.classNodes = [] := by
      have := congrArg Hdr.classNodes hh; simpa [hdr, e7, a5] using this
    simp [onEv, hne, initClass, c]
  · have := congrArg Hdr.pkg hh; simpa [hdr, e9, a6] using this
  · have := congrArg Hdr.type hh; simpa [hdr] using this
  · have := congrArg Hdr.path hh; simpa [hdr, e6, a4] using this
  · have := congrArg Hdr.annos hh; simpa [hdr, e10, a7] using this
  · have := congrArg Hdr.imports hh; simpa [hdr, e11, a8] using this
  · exact entries_all2 IMatch (IMethod.key u.pkg) F.methodMap u.methods hF.hkeys hF.hvals

/-! ### non-vacuity: a concrete interface unit with two methods, one with parameters -/

def demoIface : IfaceUnit :=
  { pkg := "p", imports := ["q.T"], annos := [], name := "Repo", exts := ["Base"],
    methods := [
      { name := "find", ret := "T", annos := [], params := [("long", "id")], l1 := 5, c1 := 4, l2 := 5, c2 := 20, pre := [],
        tail := [.formalParam "id" "long"] },
      { name := "all", ret := "List<T>", annos := [], params := [], l1 := 6, c1 := 4, l2 := 6, c2 := 17, pre := [], tail := [] }] }

example : demoIface.ok := by
  refine ⟨by decide, ?_, by decide⟩
  intro m hm
  simp only [demoIface, List.mem_cons, List.not_mem_nil, or_false] at hm
  rcases hm with rfl | rfl <;> exact ⟨by decide, by simp [bodyEv, isInv]⟩

-- the model run on it (a test, not a proof)
#guard ((runFile {} [] [] "Repo.java" demoIface.events).classNodes.map fun d => (d.node, d.type, d.fns.map (·.name))) == [("Repo", "Interface", ["find", "all"])]

end CocaVerif.Props.C01Iface
