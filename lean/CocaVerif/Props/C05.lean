/-
  C05 — Method rename rewrites only the renamed identifier tokens (rewrite layer).

  The sites come from the code model: C01 (`FnSpec.pos`) and C02 (`Rec`) prove that a declaration is
  positioned at its name and a call at its callee, [column, column + length).  This file proves what
  `startParse` / `updateSelfRefs` do with such sites, for EVERY line, every number of sites on it,
  every old and new length:
  * `spliceAll_exact` — splicing the sites of one line from the right to the left yields exactly: the
    text before the first site, the new name, the text between the sites, …, the text after the last
    one (`rebuilt`), provided the ranges are ascending, disjoint and inside the line — so every character
    outside the ranges is unchanged and positions never go stale;
  * `group_exact` — in the file, the line of the sites becomes that, every other line and the number of
    lines is unchanged (`applySite_frame`);
  * `sorted_rightmost_first` — the order the code sorts into puts, on one line, larger columns first
    (the comparator is regenerated from the source), and a site is applied once (`dedup_repeated`);
  * `stale_positions_witness` — what the theorem excludes: left-to-right splicing with a longer name
    damages the second site (the defect that was repaired).
  Characters are runes (the code splices `[]rune(line)`; regenerated fact `spliceByRunes`).
-/
import CocaVerif.Model.Refactor

namespace CocaVerif.Props.C05
open CocaVerif CocaVerif.Refactor

theorem code_facts : Gen.Refactor.renameSortsEdits = true ∧ Gen.Refactor.renameSkipsRepeatedSite = true ∧
    Gen.Refactor.renameComparesLines = true ∧ Gen.Refactor.spliceByRunes = true := ⟨rfl, rfl, rfl, rfl⟩

/-- ascending, pairwise disjoint ranges inside a line of length `len`, all at or after `p` -/
def Ranges (len : Nat) : Nat → List (Nat × Nat) → Prop
  | _, [] => True
  | p, (s, e) :: rs => p ≤ s ∧ s ≤ e ∧ e ≤ len ∧ Ranges len e rs

/-- the line from position `p` on, with every range replaced by `new` and everything else kept -/
def rebuilt (new line : List Char) : Nat → List (Nat × Nat) → List Char
  | p, [] => line.drop p
  | p, (s, e) :: rs => (line.drop p).take (s - p) ++ new ++ rebuilt new line e rs

/-- splice the ranges in the given order -/
def spliceAll (new : List Char) (line : List Char) (rs : List (Nat × Nat)) : Option (List Char) :=
  rs.foldlM (fun l r => splice l r.1 r.2 new) line

theorem take_split (l : List Char) (p s : Nat) (h : p ≤ s) : l.take s = l.take p ++ (l.drop p).take (s - p) := by
  have : s = p + (s - p) := by omega
  conv => lhs; rw [this]
  rw [List.take_add]

/-- **rightmost first is exact**: for every line, every list of ascending disjoint ranges, every replacement -/
theorem spliceAll_exact (new line : List Char) : ∀ (rs : List (Nat × Nat)) (p : Nat), Ranges line.length p rs →
    spliceAll new line rs.reverse = some (line.take p ++ rebuilt new line p rs) := by
  intro rs
  induction rs with
  | nil => intro p _; simp [spliceAll, rebuilt]
  | cons r rs ih =>
    intro p h
    obtain ⟨s, e⟩ := r
    obtain ⟨h1, h2, h3, h4⟩ := h
    have := ih e h4
    simp only [spliceAll, List.reverse_cons, List.foldlM_append, List.foldlM_cons, List.foldlM_nil] at this ⊢
    rw [this]
    have hl : (List.take e line).length = e := by simp; omega
    have hs : s ≤ (List.take e line ++ rebuilt new line e rs).length := by simp; omega
    have he : e ≤ (List.take e line ++ rebuilt new line e rs).length := by simp; omega
    simp only [Option.bind_some, Option.pure_def, bind, splice, hs, he, and_self, if_true, rebuilt]
    congr 1
    have t1 : List.take s (List.take e line ++ rebuilt new line e rs) = List.take s line := by
      rw [List.take_append_of_le_length (by omega), List.take_take]; congr 1; omega
    have t2 : List.drop e (List.take e line ++ rebuilt new line e rs) = rebuilt new line e rs := by
      rw [List.drop_append_of_le_length (by omega)]
      simp [List.drop_eq_nil_of_le (Nat.le_of_eq hl)]
    rw [t1, t2, take_split line p s h1]
    simp [List.append_assoc]

/-- one site: the other lines and the number of lines stay -/
theorem applySite_frame (new : List Char) (lines lines' : List (List Char)) (site : Site)
    (h : applySite new lines site = some lines') :
    lines'.length = lines.length ∧ ∀ j, j + 1 ≠ site.line → lines'.getD j [] = lines.getD j [] := by
  unfold applySite at h
  split at h
  · cases h; exact ⟨rfl, fun _ _ => rfl⟩
  · split at h
    · cases h
      refine ⟨by simp, ?_⟩
      intro j hj
      simp only [List.getD_eq_getElem?_getD]
      rw [List.getElem?_set_ne (by omega)]
    · cases h

/-- all the sites of ONE line `k`, rightmost first: that line becomes `rebuilt`, nothing else moves -/
theorem group_exact (new : List Char) (k : Nat) (lines : List (List Char)) (hk : 1 ≤ k ∧ k ≤ lines.length) :
    ∀ (rs : List (Nat × Nat)), Ranges (lines.getD (k - 1) []).length 0 rs →
    applySites new lines (rs.reverse.map fun r => ⟨k, r.1, r.2⟩) =
      some (lines.set (k - 1) (rebuilt new (lines.getD (k - 1) []) 0 rs)) := by
  intro rs hr
  have key : ∀ (xs : List (Nat × Nat)) (ls : List (List Char)) (cur : List Char), 1 ≤ k ∧ k ≤ ls.length →
      spliceAll new (ls.getD (k - 1) []) xs = some cur →
      applySites new ls (xs.map fun r => ⟨k, r.1, r.2⟩) = some (ls.set (k - 1) cur) := by
    intro xs
    induction xs with
    | nil =>
      intro ls cur hk' h
      simp only [spliceAll, List.foldlM_nil, Option.pure_def, Option.some.injEq] at h
      subst h
      simp only [applySites, List.map_nil, List.foldlM_nil, Option.pure_def, Option.some.injEq]
      rw [List.getD_eq_getElem?_getD, List.getElem?_eq_getElem (by omega)]
      simp
    | cons x xs ih =>
      intro ls cur hk' h
      simp only [spliceAll, List.foldlM_cons] at h
      cases hs : splice (ls.getD (k - 1) []) x.1 x.2 new with
      | none => rw [hs] at h; simp [bind] at h
      | some mid =>
        rw [hs] at h
        simp only [Option.bind_some, bind] at h
        have c1 : ¬ (k = 0 ∨ ls.length < k) := by omega
        have hl : (ls.set (k - 1) mid).length = ls.length := by simp
        have c2 : (ls.set (k - 1) mid).getD (k - 1) [] = mid := by
          rw [List.getD_eq_getElem?_getD, List.getElem?_set_self (by omega)]; rfl
        have := ih (ls.set (k - 1) mid) cur (by omega) (by rw [c2]; exact h)
        simp only [applySites, List.map_cons, List.foldlM_cons, applySite, c1, if_false, hs, Option.bind_some, bind] at this ⊢
        rw [this]
        simp [List.set_set]
  have h0 := spliceAll_exact new (lines.getD (k - 1) []) rs 0 hr
  simp only [List.take_zero, List.nil_append] at h0
  have := key rs.reverse lines _ hk h0
  simpa [List.map_reverse] using this

/-- on one line the sort order is "larger column first" (comparator regenerated from the code) -/
theorem sorted_rightmost_first (a b : Site) (h : a.line = b.line) : siteLt a b = decide (a.s > b.s) := by
  simp [siteLt, h, Gen.Refactor.rightmostFirst]

theorem sorted_later_line_first (a b : Site) (h : a.line ≠ b.line) : siteLt a b = decide (a.line > b.line) := by
  simp [siteLt, h, Gen.Refactor.laterLineFirst]

/-- a site that the model lists twice (e.g. through two rename lines naming the same method) is applied once -/
theorem dedup_repeated (a : Site) (r : List Site) : dedupAdjacent (a :: a :: r) = dedupAdjacent (a :: r) := by
  rw [dedupAdjacent]; simp

/-! ### non-vacuity and the excluded behaviour -/

-- two calls on one line, a longer name, a multi-byte comment in front: exactly the two identifiers change
#guard (renameFile "fetchAll".toList ["x".toList, "  /* é */ a.of(b.of());".toList] [⟨2, 12, 14⟩, ⟨2, 17, 19⟩, ⟨2, 12, 14⟩]).map (·.map String.ofList)
  == some ["x", "  /* é */ a.fetchAll(b.fetchAll());"]

/-- left to right with stale columns (the repaired defect): the second splice lands inside the new name's shadow -/
theorem stale_positions_witness :
    spliceAll "fetchAll".toList "a.of(b.of());".toList [(2, 4), (7, 9)] ≠ spliceAll "fetchAll".toList "a.of(b.of());".toList [(7, 9), (2, 4)] := by
  decide

end CocaVerif.Props.C05
