/-
  C01, identifier pass (second half of the statement) and the identifier clause of C07.

  `ident_class_exact`: for EVERY conventional class unit — package, imports, class annotations, class header,
  then fields, constructors and methods in any order, each with any annotations on it, on its parameters
  and inside its body, any `return` statements — started from ANY listener state, the identifier pass
  yields exactly ONE entry with package, name, kind "Class", the superclass as written, the class
  annotations, and exactly one function entry per declared constructor / method, in declaration order,
  with its name, return type, constructor flag and position.  (Parameters are NOT carried by this pass:
  known finding c01-ident-params.)  Its last conjunct is the front-end clause of C18 ("equal the values
  derivable from the source"): each function entry carries exactly the annotations and modifiers declared
  on THAT member — nothing is inherited from the member before it — and its "returns null" flag is set
  iff one of the `return` statements of its body mentions the null literal, whichever of them it is
  (`expectedFacts`, `returnsNull`; the flag is only ever set, `inner_run_facts`).
  `ident_iface_exact`: the same for EVERY conventional interface unit: one entry of kind "Interface", one function entry
  per declared method with its name, return type, position, exactly its own annotations and modifiers (`static`,
  `default`, also those written behind `default`) and its returns-null flag.
  `ident_file_independent`: `NewJavaIdentifierListener` assigns every package variable of the listener
  (regenerated: `Gen.Ident.unresetGlobals = []`), so a file's entries do not depend on the files before it.
-/
import CocaVerif.Model.JavaIdent

namespace CocaVerif.Props.C01Ident
open CocaVerif CocaVerif.JavaIdent

theorem reset_fact : Gen.Ident.unresetGlobals = [] := rfl

/-- the start state of a file does not depend on the previous file -/
theorem newListener_const (st st' : ISt) : newListener st = newListener st' := by
  simp [newListener, Gen.Ident.unresetGlobals]

theorem ident_file_independent (st st' : ISt) (evs : List IEv) : runFile st evs = runFile st' evs := by
  unfold runFile; rw [newListener_const st st']

theorem runFiles_eq (files : List (List IEv)) : ∀ (st : ISt),
    (runFiles st files).1 = files.flatMap fun f => (runFile {} f).nodes := by
  suffices h : ∀ (files : List (List IEv)) (acc : List DS × ISt),
      (files.foldl (fun acc f => let s := runFile acc.2 f; (acc.1 ++ s.nodes, s)) acc).1
        = acc.1 ++ files.flatMap fun f => (runFile {} f).nodes by
    intro st; simpa [runFiles] using h files ([], st)
  intro files
  induction files with
  | nil => intro acc; simp
  | cons f fs ih =>
    intro acc
    simp only [List.foldl_cons, List.flatMap_cons]
    rw [ih]
    simp only [List.append_assoc]
    rw [ident_file_independent acc.2 {}]

/-- events that occur between (and inside) member declarations without declaring anything: annotations and `return` expressions -/
def inner : IEv → Bool
  | .anno _ | .returnExpr _ => true
  | _ => false

/-- the part of a function entry the statement names -/
def sig (f : Fn) : String × String × Bool × Pos := (f.name, f.ret, f.isConstructor, f.pos)

/-- what inner events leave alone -/
structure Same (s s' : ISt) : Prop where
  node : s'.node = s.node
  nodes : s'.nodes = s.nodes
  hec : s'.hasEnterClass = s.hasEnterClass
  csig : sig s'.cur = sig s.cur

theorem inner_step (st : ISt) (e : IEv) (hi : inner e = true) (hc : st.hasEnterClass = true) : Same st (onEv st e) := by
  cases e with
  | anno a =>
    have e : onEv st (.anno a) = { st with isOverride := if a.name == "Override" then true else st.isOverride } := by
      simp only [onEv]
      split
      · have : ({ st with isOverride := true } : ISt).hasEnterClass = true := hc
        rw [show (!({ st with isOverride := true } : ISt).hasEnterClass) = false by rw [this]; rfl]
        simp
      · rw [show (!st.hasEnterClass) = false by rw [hc]; rfl]
        simp
    rw [e]; exact ⟨rfl, rfl, rfl, rfl⟩
  | returnExpr t => exact ⟨rfl, rfl, rfl, rfl⟩
  | pkg _ => simp [inner] at hi
  | imp _ => simp [inner] at hi
  | enterClass _ _ _ => simp [inner] at hi
  | enterInterface _ => simp [inner] at hi
  | enterCtor _ _ => simp [inner] at hi
  | exitCtor => simp [inner] at hi
  | enterMethod _ _ _ _ _ => simp [inner] at hi
  | exitMethod => simp [inner] at hi
  | interfaceMethod _ _ _ _ _ => simp [inner] at hi
  | exitInterfaceMethod => simp [inner] at hi
  | exitType => simp [inner] at hi

theorem inner_run (evs : List IEv) : ∀ (st : ISt), (∀ e ∈ evs, inner e = true) → st.hasEnterClass = true →
    Same st (evs.foldl onEv st) := by
  induction evs with
  | nil => intro st _ _; exact ⟨rfl, rfl, rfl, rfl⟩
  | cons e evs ih =>
    intro st h hc
    have s1 := inner_step st e (h e (by simp)) hc
    have s2 := ih (onEv st e) (fun x hx => h x (by simp [hx])) (by rw [s1.hec]; exact hc)
    exact ⟨s2.node.trans s1.node, s2.nodes.trans s1.nodes, s2.hec.trans s1.hec, s2.csig.trans s1.csig⟩

/-- a declared member as the identifier pass sees it -/
inductive IMember where
  | method (pre : List IEv) (name ret : String) (annos : List Anno) (mods : List String) (pos : IP) (body : List IEv)
  | ctor (pre : List IEv) (name : String) (pos : IP) (body : List IEv)
  | field (pre : List IEv)

def IMember.events : IMember → List IEv
  | .method pre name ret fa mods pos body => pre ++ [.enterMethod name ret fa mods pos] ++ body ++ [.exitMethod]
  | .ctor pre name pos body => pre ++ [.enterCtor name pos] ++ body ++ [.exitCtor]
  | .field pre => pre

def IMember.ok : IMember → Prop
  | .method pre _ _ _ _ _ body => (∀ e ∈ pre, inner e = true) ∧ ∀ e ∈ body, inner e = true
  | .ctor pre _ _ body => (∀ e ∈ pre, inner e = true) ∧ ∀ e ∈ body, inner e = true
  | .field pre => ∀ e ∈ pre, inner e = true

/-- the expected (name, return type, constructor flag, position) of the members that declare a function -/
def expected : List IMember → List (String × String × Bool × Pos)
  | [] => []
  | .method _ name ret _ _ pos _ :: r => (name, ret, false, posOf pos) :: expected r
  | .ctor _ name pos _ :: r => (name, "", true, posOf pos) :: expected r
  | .field _ :: r => expected r

theorem member_step (m : IMember) (hok : m.ok) (st : ISt) (hc : st.hasEnterClass = true) :
    let st' := m.events.foldl onEv st
    st'.hasEnterClass = true ∧ st'.nodes = st.nodes ∧
    { st'.node with fns := [] } = { st.node with fns := [] } ∧
    st'.node.fns.map sig = st.node.fns.map sig ++ expected [m] := by
  cases m with
  | field pre =>
    have s := inner_run pre st hok hc
    simp only [IMember.events, expected, List.append_nil]
    exact ⟨by rw [s.hec]; exact hc, s.nodes, by rw [s.node], by rw [s.node]⟩
  | method pre name ret fa mods pos body =>
    obtain ⟨h1, h2⟩ := hok
    simp only [IMember.events, List.foldl_append, List.foldl_cons, List.foldl_nil]
    have s1 := inner_run pre st h1 hc
    generalize pre.foldl onEv st = a at s1
    have hca : a.hasEnterClass = true := by rw [s1.hec]; exact hc
    have s2 := inner_run body (onEv a (.enterMethod name ret fa mods pos)) h2 rfl
    generalize body.foldl onEv (onEv a (.enterMethod name ret fa mods pos)) = b at s2
    have hb : b.node = st.node := by rw [s2.node]; exact s1.node
    refine ⟨?_, ?_, ?_, ?_⟩
    · simp only [onEv]; rw [s2.hec]; rfl
    · simp only [onEv]; rw [s2.nodes]; exact s1.nodes
    · simp only [onEv, hb]
    · simp only [onEv, List.map_append, List.map_cons, List.map_nil, hb, expected]
      congr 2
      exact s2.csig
  | ctor pre name pos body =>
    obtain ⟨h1, h2⟩ := hok
    simp only [IMember.events, List.foldl_append, List.foldl_cons, List.foldl_nil]
    have s1 := inner_run pre st h1 hc
    generalize pre.foldl onEv st = a at s1
    have hca : a.hasEnterClass = true := by rw [s1.hec]; exact hc
    have s2 := inner_run body (onEv a (.enterCtor name pos)) h2 hca
    generalize body.foldl onEv (onEv a (.enterCtor name pos)) = b at s2
    have hb : b.node = st.node := by rw [s2.node]; exact s1.node
    refine ⟨?_, ?_, ?_, ?_⟩
    · simp only [onEv]; rw [s2.hec]; exact hca
    · simp only [onEv]; rw [s2.nodes]; exact s1.nodes
    · simp only [onEv, hb]
    · simp only [onEv, List.map_append, List.map_cons, List.map_nil, hb, expected]
      congr 2
      exact s2.csig

/-! ### the facts the evaluation (C18) reads of a function entry: annotations, modifiers, "returns null" -/

/-- what `coca evaluate` reads of a function entry -/
def facts (f : Fn) : List Anno × List String × Bool := (f.annos, f.modifiers, f.isReturnNull)

/-- some `return` statement among these events mentions the null literal -/
def returnsNull : List IEv → Bool
  | [] => false
  | .returnExpr b :: r => b || returnsNull r
  | _ :: r => returnsNull r

/-- inner events leave the annotations and modifiers of the entry under construction alone, and only ever SET its
    "returns null" flag (a later `return x;` does not clear it) -/
theorem inner_run_facts (evs : List IEv) : ∀ (st : ISt), (∀ e ∈ evs, inner e = true) →
    let st' := evs.foldl onEv st
    st'.cur.annos = st.cur.annos ∧ st'.cur.modifiers = st.cur.modifiers ∧
    st'.cur.isReturnNull = (st.cur.isReturnNull || returnsNull evs) := by
  induction evs with
  | nil => intro st _; simp [returnsNull]
  | cons e evs ih =>
    intro st h
    have he := h e (by simp)
    obtain ⟨i1, i2, i3⟩ := ih (onEv st e) (fun x hx => h x (by simp [hx]))
    simp only [List.foldl_cons]
    cases e with
    | anno a =>
      have hcur : (onEv st (.anno a)).cur = st.cur := by
        simp only [onEv]; split <;> split <;> rfl
      rw [hcur] at i1 i2 i3
      exact ⟨i1, i2, by rw [i3]; simp [returnsNull]⟩
    | returnExpr b =>
      refine ⟨i1, i2, ?_⟩
      rw [i3]; simp [onEv, returnsNull, Bool.or_assoc]
    | pkg _ => simp [inner] at he
    | imp _ => simp [inner] at he
    | enterClass _ _ _ => simp [inner] at he
    | enterInterface _ => simp [inner] at he
    | enterCtor _ _ => simp [inner] at he
    | exitCtor => simp [inner] at he
    | enterMethod _ _ _ _ _ => simp [inner] at he
    | exitMethod => simp [inner] at he
    | interfaceMethod _ _ _ _ _ => simp [inner] at he
    | exitInterfaceMethod => simp [inner] at he
    | exitType => simp [inner] at he

/-- the expected (annotations, modifiers, returns-null) of the members that declare a function: exactly the declared
    annotations and modifiers of THAT member (nothing inherited from the member before it), and "returns null" iff one of
    the `return` statements of its body mentions the null literal, whichever it is -/
def expectedFacts : List IMember → List (List Anno × List String × Bool)
  | [] => []
  | .method _ _ _ annos mods _ body :: r => (annos, mods, returnsNull body) :: expectedFacts r
  | .ctor _ _ _ body :: r => ([], [], returnsNull body) :: expectedFacts r
  | .field _ :: r => expectedFacts r

theorem member_step_facts (m : IMember) (hok : m.ok) (st : ISt) (hc : st.hasEnterClass = true) (ha : st.cur.annos = []) :
    let st' := m.events.foldl onEv st
    st'.cur.annos = [] ∧ st'.node.fns.map facts = st.node.fns.map facts ++ expectedFacts [m] := by
  cases m with
  | field pre =>
    have s := inner_run pre st hok hc
    obtain ⟨f1, _, _⟩ := inner_run_facts pre st hok
    simp only [IMember.events, expectedFacts, List.append_nil]
    exact ⟨by rw [f1]; exact ha, by rw [s.node]⟩
  | method pre name ret annos mods pos body =>
    obtain ⟨h1, h2⟩ := hok
    simp only [IMember.events, List.foldl_append, List.foldl_cons, List.foldl_nil]
    have s1 := inner_run pre st h1 hc
    obtain ⟨f1, _, _⟩ := inner_run_facts pre st h1
    generalize pre.foldl onEv st = a at s1 f1
    have s2 := inner_run body (onEv a (.enterMethod name ret annos mods pos)) h2 rfl
    obtain ⟨g1, g2, g3⟩ := inner_run_facts body (onEv a (.enterMethod name ret annos mods pos)) h2
    generalize body.foldl onEv (onEv a (.enterMethod name ret annos mods pos)) = b at s2 g1 g2 g3
    have hb : b.node = st.node := by rw [s2.node]; exact s1.node
    refine ⟨rfl, ?_⟩
    simp only [onEv, List.map_append, List.map_cons, List.map_nil, hb, expectedFacts]
    congr 2
    simp only [onEv] at g1 g2 g3
    simp only [facts, g1, g2, g3, f1, ha, List.nil_append, Bool.false_or]
  | ctor pre name pos body =>
    obtain ⟨h1, h2⟩ := hok
    simp only [IMember.events, List.foldl_append, List.foldl_cons, List.foldl_nil]
    have s1 := inner_run pre st h1 hc
    obtain ⟨f1, _, _⟩ := inner_run_facts pre st h1
    generalize pre.foldl onEv st = a at s1 f1
    have hca : a.hasEnterClass = true := by rw [s1.hec]; exact hc
    have s2 := inner_run body (onEv a (.enterCtor name pos)) h2 hca
    obtain ⟨g1, g2, g3⟩ := inner_run_facts body (onEv a (.enterCtor name pos)) h2
    generalize body.foldl onEv (onEv a (.enterCtor name pos)) = b at s2 g1 g2 g3
    have hb : b.node = st.node := by rw [s2.node]; exact s1.node
    simp only [onEv] at g1 g2 g3
    refine ⟨?_, ?_⟩
    · simp only [onEv]; rw [g1, f1]; exact ha
    · simp only [onEv, List.map_append, List.map_cons, List.map_nil, hb, expectedFacts]
      congr 2
      simp only [facts, g1, g2, g3, f1, ha, Bool.false_or]

theorem expectedFacts_cons (m : IMember) (ms : List IMember) : expectedFacts (m :: ms) = expectedFacts [m] ++ expectedFacts ms := by
  cases m <;> simp [expectedFacts]

theorem members_run_facts : ∀ (ms : List IMember) (st : ISt), (∀ m ∈ ms, m.ok) → st.hasEnterClass = true → st.cur.annos = [] →
    let st' := (ms.flatMap IMember.events).foldl onEv st
    st'.node.fns.map facts = st.node.fns.map facts ++ expectedFacts ms := by
  intro ms
  induction ms with
  | nil => intro st _ _ _; simp [expectedFacts]
  | cons m ms ih =>
    intro st hok hc ha
    simp only [List.flatMap_cons, List.foldl_append]
    obtain ⟨a1, _, _, _⟩ := member_step m (hok m (by simp)) st hc
    obtain ⟨c1, c2⟩ := member_step_facts m (hok m (by simp)) st hc ha
    have b := ih _ (fun x hx => hok x (by simp [hx])) a1 c1
    rw [b, c2, expectedFacts_cons m ms, List.append_assoc]

theorem expected_cons (m : IMember) (ms : List IMember) : expected (m :: ms) = expected [m] ++ expected ms := by
  cases m <;> simp [expected]

theorem members_run : ∀ (ms : List IMember) (st : ISt), (∀ m ∈ ms, m.ok) → st.hasEnterClass = true →
    let st' := (ms.flatMap IMember.events).foldl onEv st
    st'.hasEnterClass = true ∧ st'.nodes = st.nodes ∧ { st'.node with fns := [] } = { st.node with fns := [] } ∧
    st'.node.fns.map sig = st.node.fns.map sig ++ expected ms := by
  intro ms
  induction ms with
  | nil => intro st _ hc; exact ⟨hc, rfl, rfl, by simp [expected]⟩
  | cons m ms ih =>
    intro st hok hc
    simp only [List.flatMap_cons, List.foldl_append]
    obtain ⟨a1, a2, a3, a4⟩ := member_step m (hok m (by simp)) st hc
    obtain ⟨b1, b2, b3, b4⟩ := ih _ (fun x hx => hok x (by simp [hx])) a1
    exact ⟨b1, b2.trans a2, b3.trans a3, by rw [b4, a4, expected_cons m ms, List.append_assoc]⟩

/-- the unit -/
structure IUnit where
  pkg : String
  imports : List String
  annos : List Anno
  name : String
  ext : Option String
  impls : List String
  members : List IMember

def IUnit.events (u : IUnit) : List IEv :=
  [.pkg u.pkg] ++ u.imports.map .imp ++ u.annos.map .anno ++ [.enterClass u.name u.ext u.impls] ++
    u.members.flatMap IMember.events ++ [.exitType]

theorem imports_run (imps : List String) : ∀ (st : ISt), (imps.map IEv.imp).foldl onEv st = { st with imports := st.imports ++ imps } := by
  induction imps with
  | nil => intro st; simp
  | cons i is ih => intro st; simp only [List.map_cons, List.foldl_cons, onEv, ih, List.append_assoc, List.singleton_append]

theorem annos_outside (as : List Anno) : ∀ (st : ISt), st.hasEnterClass = false →
    ∃ ov, (as.map IEv.anno).foldl onEv st = { st with isOverride := ov, node := { st.node with annos := st.node.annos ++ as } } := by
  induction as with
  | nil => intro st _; exact ⟨st.isOverride, by simp⟩
  | cons a as ih =>
    intro st h
    simp only [List.map_cons, List.foldl_cons]
    have e : ∃ ov, onEv st (.anno a) = { st with isOverride := ov, node := { st.node with annos := st.node.annos ++ [a] } } := by
      simp only [onEv]
      split <;> simp only [h, Bool.not_false, if_true] <;> exact ⟨_, rfl⟩
    obtain ⟨ov0, e⟩ := e
    rw [e]
    obtain ⟨ov, hov⟩ := ih { st with isOverride := ov0, node := { st.node with annos := st.node.annos ++ [a] } } h
    exact ⟨ov, by rw [hov]; simp [List.append_assoc]⟩

/-- **C01, identifier pass, class units** -/
theorem ident_class_exact (u : IUnit) (hname : u.name ≠ "") (hok : ∀ m ∈ u.members, m.ok) (st0 : ISt) :
    ∃ d, (runFile st0 u.events).nodes = [d] ∧ d.pkg = u.pkg ∧ d.node = u.name ∧ d.type = "Class" ∧ d.annos = u.annos ∧
      d.ext = u.ext.getD "" ∧ d.fns.map sig = expected u.members ∧ d.fns.map facts = expectedFacts u.members := by
  unfold runFile IUnit.events
  simp only [List.foldl_append, List.foldl_cons, List.foldl_nil]
  have hN : newListener st0 = {} := by simp [newListener, Gen.Ident.unresetGlobals]
  rw [hN, imports_run]
  obtain ⟨ov, hov⟩ := annos_outside u.annos { onEv {} (.pkg u.pkg) with imports := (onEv {} (.pkg u.pkg)).imports ++ u.imports } rfl
  rw [hov]
  -- the class header
  generalize hA : ({ ({ onEv {} (.pkg u.pkg) with imports := (onEv {} (.pkg u.pkg)).imports ++ u.imports } : ISt) with
      isOverride := ov, node := _ } : ISt) = A
  have a1 : A.node.pkg = u.pkg := by rw [← hA]; rfl
  have a2 : A.node.annos = u.annos := by rw [← hA]; simp [onEv]
  have a3 : A.nodes = [] := by rw [← hA]; rfl
  have a4 : A.node.fns = [] := by rw [← hA]; rfl
  have a5 : A.node.ext = "" := by rw [← hA]; rfl
  -- enterClass: only type, name, ext and impls of the node change
  have hfold : ∀ (impls : List String) (d : DS),
      let d' := impls.foldl (fun (d : DS) t => A.imports.foldl (fun d imp => if imp.endsWith ("." ++ t) then { d with impls := d.impls ++ [imp] } else d) d) d
      { d' with impls := [] } = { d with impls := [] } := by
    intro impls
    induction impls with
    | nil => intro d; rfl
    | cons t ts ih =>
      intro d
      simp only [List.foldl_cons]
      have inner : ∀ (imps : List String) (d : DS),
          { (imps.foldl (fun d imp => if imp.endsWith ("." ++ t) then { d with impls := d.impls ++ [imp] } else d) d) with impls := [] } = { d with impls := [] } := by
        intro imps
        induction imps with
        | nil => intro d; rfl
        | cons i is ih2 => intro d; simp only [List.foldl_cons]; rw [ih2]; split <;> rfl
      rw [ih]; exact inner _ d
  generalize hS : onEv A (.enterClass u.name u.ext u.impls) = S
  have hSn : { S.node with impls := [] } = { A.node with type := "Class", node := u.name, ext := u.ext.getD A.node.ext, impls := [] } := by
    rw [← hS]
    simp only [onEv]
    rw [hfold]
    cases u.ext <;> rfl
  have s1 : S.hasEnterClass = true := by rw [← hS]; rfl
  have s2 : S.nodes = [] := by rw [← hS]; exact a3
  have s3 : S.cur.annos = [] := by rw [← hS]; rfl
  obtain ⟨m1, m2, m3, m4⟩ := members_run u.members S hok s1
  have m5 := members_run_facts u.members S hok s1 s3
  generalize (u.members.flatMap IMember.events).foldl onEv S = F at m1 m2 m3 m4 m5
  have hSf : S.node.fns = [] := by
    have := congrArg DS.fns hSn; simpa [a4] using this
  have hFn : F.node.node = u.name := by
    have h1 := congrArg DS.node m3
    have h2 := congrArg DS.node hSn
    simp only at h1 h2
    rw [h1, h2]
  have hne : (F.node.node != "") = true := by rw [hFn]; simpa using hname
  refine ⟨F.node, ?_, ?_, hFn, ?_, ?_, ?_, ?_, ?_⟩
  · simp only [onEv, pushNode, hne, if_true, m2, s2, List.nil_append]
  · have h1 := congrArg DS.pkg m3; have h2 := congrArg DS.pkg hSn; simp only at h1 h2; rw [h1, h2, a1]
  · have h1 := congrArg DS.type m3; have h2 := congrArg DS.type hSn; simp only at h1 h2; rw [h1, h2]
  · have h1 := congrArg DS.annos m3; have h2 := congrArg DS.annos hSn; simp only at h1 h2; rw [h1, h2, a2]
  · have h1 := congrArg DS.ext m3; have h2 := congrArg DS.ext hSn; simp only at h1 h2; rw [h1, h2, a5]
  · rw [m4, hSf]; rfl
  · rw [m5, hSf]; rfl

/-! ### non-vacuity: a concrete unit with an annotated method, a constructor, a field and a `return null` -/

def demoUnit : IUnit :=
  { pkg := "p", imports := ["q.T"], annos := [], name := "A", ext := none, impls := [],
    members := [
      .field [.anno { name := "Inject" }],
      .ctor [] "A" ⟨4, 11, 4, 16⟩ [],
      .method [.anno { name := "Override" }] "run" "T" [{ name := "Override" }] ["public"] ⟨6, 11, 8, 4⟩ [.returnExpr true]] }

example : demoUnit.name ≠ "" ∧ ∀ m ∈ demoUnit.members, m.ok := by
  refine ⟨by decide, ?_⟩
  intro m hm
  simp only [demoUnit, List.mem_cons, List.not_mem_nil, or_false] at hm
  rcases hm with rfl | rfl | rfl <;> simp [IMember.ok, inner]

-- the model run on it (a test, not a proof): one entry with the constructor and the method
#guard ((runFile {} demoUnit.events).nodes.map fun d => (d.node, d.fns.map (·.name))) == [("A", ["A", "run"])]

/-- C18 front-end, non-vacuity: a `@Nullable` method followed by an un-annotated one; `return null` before `return x` -/
def demoNullable : IUnit :=
  { pkg := "p", imports := [], annos := [], name := "Repo", ext := none, impls := [],
    members := [
      .method [.anno { name := "Nullable" }] "find" "T" [{ name := "Nullable" }] ["public", "static"] ⟨4, 4, 6, 4⟩ [.returnExpr false],
      .method [] "load" "T" [] ["static", "final"] ⟨8, 4, 13, 4⟩ [.returnExpr true, .returnExpr false],
      .ctor [] "Repo" ⟨15, 4, 16, 4⟩ [],
      .method [] "name" "String" [] [] ⟨18, 4, 20, 4⟩ [.returnExpr false]] }

example : demoNullable.name ≠ "" ∧ ∀ m ∈ demoNullable.members, m.ok := by
  refine ⟨by decide, ?_⟩
  intro m hm
  simp only [demoNullable, List.mem_cons, List.not_mem_nil, or_false] at hm
  rcases hm with rfl | rfl | rfl | rfl <;> simp [IMember.ok, inner]

-- (tests) what the theorem promises for it, and the model run on it
#guard (expectedFacts demoNullable.members).map (fun x => (x.1.map (·.name), x.2.1, x.2.2)) ==
  [(["Nullable"], ["public", "static"], false), ([], ["static", "final"], true), ([], [], false), ([], [], false)]
#guard ((runFile {} demoNullable.events).nodes.map fun d => d.fns.map fun f => (f.annos.map (·.name), f.modifiers, f.isReturnNull)) ==
  [[(["Nullable"], ["public", "static"], false), ([], ["static", "final"], true), ([], [], false), ([], [], false)]]

/-! ### interface units -/

/-- a declared interface method as the identifier pass sees it: the annotations before it, the declaration (with all its
    annotation modifiers and its other modifiers, those behind `default` included), the events of its body if it has one -/
structure IfMethod where
  pre : List IEv
  name : String
  ret : String
  annos : List Anno
  mods : List String
  pos : IP
  body : List IEv

def IfMethod.events (m : IfMethod) : List IEv :=
  m.pre ++ [.interfaceMethod m.name m.ret m.annos m.mods m.pos] ++ m.body ++ [.exitInterfaceMethod]

def IfMethod.ok (m : IfMethod) : Prop := (∀ e ∈ m.pre, inner e = true) ∧ ∀ e ∈ m.body, inner e = true

theorem ifmethod_step (m : IfMethod) (hok : m.ok) (st : ISt) (hc : st.hasEnterClass = true) (ha : st.cur.annos = []) :
    let st' := m.events.foldl onEv st
    st'.hasEnterClass = true ∧ st'.nodes = st.nodes ∧ st'.cur.annos = [] ∧
    { st'.node with fns := [] } = { st.node with fns := [] } ∧
    st'.node.fns.map sig = st.node.fns.map sig ++ [(m.name, m.ret, false, posOf m.pos)] ∧
    st'.node.fns.map facts = st.node.fns.map facts ++ [(m.annos, m.mods, returnsNull m.body)] := by
  obtain ⟨h1, h2⟩ := hok
  simp only [IfMethod.events, List.foldl_append, List.foldl_cons, List.foldl_nil]
  have s1 := inner_run m.pre st h1 hc
  obtain ⟨f1, _, _⟩ := inner_run_facts m.pre st h1
  generalize m.pre.foldl onEv st = a at s1 f1
  have hca : a.hasEnterClass = true := by rw [s1.hec]; exact hc
  have s2 := inner_run m.body (onEv a (.interfaceMethod m.name m.ret m.annos m.mods m.pos)) h2 hca
  obtain ⟨g1, g2, g3⟩ := inner_run_facts m.body (onEv a (.interfaceMethod m.name m.ret m.annos m.mods m.pos)) h2
  generalize m.body.foldl onEv (onEv a (.interfaceMethod m.name m.ret m.annos m.mods m.pos)) = b at s2 g1 g2 g3
  have hb : b.node = st.node := by rw [s2.node]; exact s1.node
  simp only [onEv] at g1 g2 g3
  refine ⟨?_, ?_, rfl, ?_, ?_, ?_⟩
  · simp only [onEv]; rw [s2.hec]; exact hca
  · simp only [onEv]; rw [s2.nodes]; exact s1.nodes
  · simp only [onEv, hb]
  · simp only [onEv, List.map_append, List.map_cons, List.map_nil, hb]
    congr 2
    exact s2.csig
  · simp only [onEv, List.map_append, List.map_cons, List.map_nil, hb]
    congr 2
    simp only [facts, g1, g2, g3, f1, ha, List.nil_append, Bool.false_or]

theorem ifmethods_run : ∀ (ms : List IfMethod) (st : ISt), (∀ m ∈ ms, m.ok) → st.hasEnterClass = true → st.cur.annos = [] →
    let st' := (ms.flatMap IfMethod.events).foldl onEv st
    st'.nodes = st.nodes ∧ { st'.node with fns := [] } = { st.node with fns := [] } ∧
    st'.node.fns.map sig = st.node.fns.map sig ++ ms.map (fun m => (m.name, m.ret, false, posOf m.pos)) ∧
    st'.node.fns.map facts = st.node.fns.map facts ++ ms.map (fun m => (m.annos, m.mods, returnsNull m.body)) := by
  intro ms
  induction ms with
  | nil => intro st _ _ _; simp
  | cons m ms ih =>
    intro st hok hc ha
    simp only [List.flatMap_cons, List.foldl_append]
    obtain ⟨a1, a2, a3, a4, a5, a6⟩ := ifmethod_step m (hok m (by simp)) st hc ha
    obtain ⟨b2, b4, b5, b6⟩ := ih _ (fun x hx => hok x (by simp [hx])) a1 a3
    exact ⟨b2.trans a2, b4.trans a4, by rw [b5, a5]; simp, by rw [b6, a6]; simp⟩

structure IfUnit where
  pkg : String
  imports : List String
  annos : List Anno
  name : String
  methods : List IfMethod

def IfUnit.events (u : IfUnit) : List IEv :=
  [.pkg u.pkg] ++ u.imports.map .imp ++ u.annos.map .anno ++ [.enterInterface u.name] ++
    u.methods.flatMap IfMethod.events ++ [.exitType]

/-- **C01 / C18, identifier pass, interface units**: from ANY listener state, exactly one entry of kind "Interface" with the
    package, name and annotations of the unit, and exactly one function entry per declared method, in declaration order, with
    its name, return type and position, exactly its own annotations and modifiers (`static`, `default`, … - what the evaluation
    counts), and "returns null" iff a `return` statement of its body mentions the null literal -/
theorem ident_iface_exact (u : IfUnit) (hname : u.name ≠ "") (hok : ∀ m ∈ u.methods, m.ok) (st0 : ISt) :
    ∃ d, (runFile st0 u.events).nodes = [d] ∧ d.pkg = u.pkg ∧ d.node = u.name ∧ d.type = "Interface" ∧ d.annos = u.annos ∧
      d.fns.map sig = u.methods.map (fun m => (m.name, m.ret, false, posOf m.pos)) ∧
      d.fns.map facts = u.methods.map (fun m => (m.annos, m.mods, returnsNull m.body)) := by
  unfold runFile IfUnit.events
  simp only [List.foldl_append, List.foldl_cons, List.foldl_nil]
  have hN : newListener st0 = {} := by simp [newListener, Gen.Ident.unresetGlobals]
  rw [hN, imports_run]
  obtain ⟨ov, hov⟩ := annos_outside u.annos { onEv {} (.pkg u.pkg) with imports := (onEv {} (.pkg u.pkg)).imports ++ u.imports } rfl
  rw [hov]
  generalize hA : ({ ({ onEv {} (.pkg u.pkg) with imports := (onEv {} (.pkg u.pkg)).imports ++ u.imports } : ISt) with
      isOverride := ov, node := _ } : ISt) = A
  have a1 : A.node.pkg = u.pkg := by rw [← hA]; rfl
  have a2 : A.node.annos = u.annos := by rw [← hA]; simp [onEv]
  have a3 : A.nodes = [] := by rw [← hA]; rfl
  have a4 : A.node.fns = [] := by rw [← hA]; rfl
  have a6 : A.cur.annos = [] := by rw [← hA]; rfl
  generalize hS : onEv A (.enterInterface u.name) = S
  have hSn : S.node = { A.node with type := "Interface", node := u.name } := by rw [← hS]; rfl
  have s1 : S.hasEnterClass = true := by rw [← hS]; rfl
  have s2 : S.nodes = [] := by rw [← hS]; exact a3
  have s3 : S.cur.annos = [] := by rw [← hS]; exact a6
  obtain ⟨m2, m3, m4, m5⟩ := ifmethods_run u.methods S hok s1 s3
  generalize (u.methods.flatMap IfMethod.events).foldl onEv S = F at m2 m3 m4 m5
  have hSf : S.node.fns = [] := by rw [hSn]; exact a4
  have hFn : F.node.node = u.name := by
    have h1 := congrArg DS.node m3
    simp only at h1
    rw [h1, hSn]
  have hne : (F.node.node != "") = true := by rw [hFn]; simpa using hname
  refine ⟨F.node, ?_, ?_, hFn, ?_, ?_, ?_, ?_⟩
  · simp only [onEv, pushNode, hne, if_true, m2, s2, List.nil_append]
  · have h1 := congrArg DS.pkg m3; simp only at h1; rw [h1, hSn]; exact a1
  · have h1 := congrArg DS.type m3; simp only at h1; rw [h1, hSn]
  · have h1 := congrArg DS.annos m3; simp only at h1; rw [h1, hSn]; exact a2
  · rw [m4, hSf]; rfl
  · rw [m5, hSf]; rfl

/-- non-vacuity: an interface with an abstract `@Nullable` method, a static method and a default method returning null -/
def demoIface : IfUnit :=
  { pkg := "p", imports := [], annos := [], name := "Finder",
    methods := [
      ⟨[.anno { name := "Nullable" }], "find", "T", [{ name := "Nullable" }], [], ⟨4, 4, 4, 20⟩, []⟩,
      ⟨[], "of", "Finder", [], ["public", "static"], ⟨6, 4, 8, 4⟩, [.returnExpr false]⟩,
      ⟨[.anno { name := "Deprecated" }], "first", "T", [{ name := "Deprecated" }], ["default"], ⟨10, 4, 15, 4⟩, [.returnExpr true, .returnExpr false]⟩] }

example : demoIface.name ≠ "" ∧ ∀ m ∈ demoIface.methods, m.ok := by
  refine ⟨by decide, ?_⟩
  intro m hm
  simp only [demoIface, List.mem_cons, List.not_mem_nil, or_false] at hm
  rcases hm with rfl | rfl | rfl <;> simp [IfMethod.ok, inner]

#guard ((runFile {} demoIface.events).nodes.map fun d => (d.type, d.fns.map fun f => (f.name, f.annos.map (·.name), f.modifiers, f.isReturnNull))) ==
  [("Interface", [("find", ["Nullable"], [], false), ("of", [], ["public", "static"], false), ("first", ["Deprecated"], ["default"], true)])]

end CocaVerif.Props.C01Ident
