/-
  C10, front-end shape: which top-level statements the bad-smell listener counts as an `if` / a `switch`.

  The listener does not look for "an if statement"; it looks at a statement node and tests (conditions regenerated from
  bad_smell_listener.go: `Gen.Bs.skipFewKids`, `secondIsPar`, `firstIsIf`, `firstIsSwitch`): at least 3 children, the second
  child a `*parser.ParExpressionContext`, the first child spelled `if` / `switch`.  Over the regenerated grammar
  (`Gen.JavaGrammar`, from JavaParser.g4 / JavaLexer.g4) it is PROVED here, for every children word of the rule `statement`
  (every error-free parse, any nesting below it):
    * `if_statement_counted` / `counted_is_if` — the test holds exactly for the statements that begin with the token IF;
    * `switch_statement_counted` / `counted_is_switch` — likewise for the statements that begin with the token SWITCH;
    * `arrow_switch_short` — a statement that begins with a `switchExpression` (the arrow form `switch (x) { case 1 -> …; }`)
      has at most 2 children: the 3-children test alone skips it, which is why the listener needs (and, since f48d426, has)
      a separate test for it;
    * `rule_headed_statements` — the alternatives whose first child is a rule, not a token: for them the text test relies
      on `if` / `switch` being reserved words of the lexer (no rule subtree is spelled `if`), stated as a hypothesis.
  A change of the grammar's `statement` rule or of one of the listener's conditions breaks these theorems.
-/
import CocaVerif.Base.NavTree
import CocaVerif.Gen.JavaGrammar
import CocaVerif.Gen.Bs

namespace CocaVerif.Props.C10Shape
open CocaVerif CocaVerif.Rx CocaVerif.NavTree CocaVerif.Gen

def capitalize (s : String) : String :=
  match s.toList with
  | c :: cs => String.ofList (c.toUpper :: cs)
  | [] => s

/-- what `reflect.TypeOf(child).String()` prints for a child with this grammar symbol -/
def goType (sym : String) : String :=
  if JavaGrammar.ruleNames.contains sym then "*parser." ++ capitalize sym ++ "Context" else "*antlr.TerminalNodeImpl"

/-- the listener's tests on a statement node: the symbols of its children, the text of its first child -/
def countsAsIf (w : List String) (firstText : String) : Bool :=
  !Bs.skipFewKids w.length && Bs.secondIsPar (goType (w[1]?.getD "")) && Bs.firstIsIf firstText

def countsAsSwitch (w : List String) (firstText : String) : Bool :=
  !Bs.skipFewKids w.length && Bs.secondIsPar (goType (w[1]?.getD "")) && Bs.firstIsSwitch firstText

def stmt : Rx := JavaGrammar.rhs "statement"

/-- after IF / SWITCH: a parExpression, and at least one more child -/
def parThenMore (ts : List Rx) : Bool :=
  (symsAt 0 (seqOf ts)).1 == ["parExpression"] && !(symsAt 0 (seqOf ts)).2 && !(symsAt 1 (seqOf ts)).2

theorem if_tails_shape : (tailsOf "IF" stmt).all parThenMore = true := by decide +kernel
theorem switch_tails_shape : (tailsOf "SWITCH" stmt).all parThenMore = true := by decide +kernel
theorem if_exists : tailsOf "IF" stmt ≠ [] := by decide +kernel
theorem switch_exists : tailsOf "SWITCH" stmt ≠ [] := by decide +kernel

theorem par_type : goType "parExpression" = "*parser.ParExpressionContext" := by decide +kernel

/-- the shape of every statement that begins with the token `tk`, when all its continuations satisfy `parThenMore` -/
theorem shape_of (tk : String) (hall : (tailsOf tk stmt).all parThenMore = true) (w t : List String) (hm : Matches stmt w)
    (hw : w = tk :: t) : 3 ≤ w.length ∧ w[1]? = some "parExpression" := by
  obtain ⟨ts, hts, hseq⟩ := tailsOf_sound tk hm t hw
  have hp := (List.all_eq_true.mp hall) ts hts
  simp only [parThenMore, Bool.and_eq_true, Bool.not_eq_true', beq_iff_eq] at hp
  obtain ⟨⟨h0s, h0n⟩, h1n⟩ := hp
  have s0 := symsAt_sound 0 (seqOf_sound hseq)
  have s1 := symsAt_sound 1 (seqOf_sound hseq)
  have ht0 : ∃ a, t[0]? = some a := by
    cases h : t[0]? with
    | none => have := s0.2 h; rw [h0n] at this; cases this
    | some a => exact ⟨a, rfl⟩
  have ht1 : ∃ b, t[1]? = some b := by
    cases h : t[1]? with
    | none => have := s1.2 h; rw [h1n] at this; cases this
    | some b => exact ⟨b, rfl⟩
  obtain ⟨a, ha⟩ := ht0
  obtain ⟨b, hb⟩ := ht1
  have hmem := s0.1 a ha
  rw [h0s] at hmem
  have ha' : a = "parExpression" := by simpa using hmem
  subst hw
  refine ⟨?_, by simpa [ha'] using ha⟩
  have : 1 < t.length := by
    rcases List.getElem?_eq_some_iff.mp hb with ⟨h, _⟩
    exact h
  simp only [List.length_cons]; omega

/-- **every statement that begins with IF is counted as an if** -/
theorem if_statement_counted (w t : List String) (hm : Matches stmt w) (hw : w = "IF" :: t) : countsAsIf w "if" = true := by
  obtain ⟨hlen, hsec⟩ := shape_of "IF" if_tails_shape w t hm hw
  have h3 : Bs.skipFewKids w.length = false := by simp [Bs.skipFewKids]; omega
  simp only [countsAsIf, h3, hsec, Option.getD_some, par_type, Bool.not_false, Bool.true_and]
  decide

/-- **every statement that begins with SWITCH is counted as a switch** -/
theorem switch_statement_counted (w t : List String) (hm : Matches stmt w) (hw : w = "SWITCH" :: t) : countsAsSwitch w "switch" = true := by
  obtain ⟨hlen, hsec⟩ := shape_of "SWITCH" switch_tails_shape w t hm hw
  have h3 : Bs.skipFewKids w.length = false := by simp [Bs.skipFewKids]; omega
  simp only [countsAsSwitch, h3, hsec, Option.getD_some, par_type, Bool.not_false, Bool.true_and]
  decide

/-- the only token spelled `if` is IF, the only one spelled `switch` is SWITCH -/
theorem if_token_unique : JavaGrammar.tokenTable.all (fun p => p.2 != "if" || p.1 == "IF") = true := by decide +kernel
theorem switch_token_unique : JavaGrammar.tokenTable.all (fun p => p.2 != "switch" || p.1 == "SWITCH") = true := by decide +kernel

theorem token_named (h text : String) (ht : JavaGrammar.tokenText h = some text) : (h, text) ∈ JavaGrammar.tokenTable := by
  unfold JavaGrammar.tokenText at ht
  cases hf : JavaGrammar.tokenTable.find? (fun p => p.1 == h) with
  | none => rw [hf] at ht; cases ht
  | some p =>
    rw [hf] at ht
    simp only [Option.map_some, Option.some.injEq] at ht
    have hm := List.mem_of_find?_eq_some hf
    have hp := List.find?_some hf
    have : p.1 = h := by simpa using hp
    have e : p = (h, text) := by cases p; simp_all
    rw [← e]; exact hm

/-- **what is counted as an if begins with IF** (when the first child is a token) -/
theorem counted_is_if (w : List String) (h text : String) (ht : JavaGrammar.tokenText h = some text)
    (hc : countsAsIf w text = true) : h = "IF" := by
  simp only [countsAsIf, Bool.and_eq_true, Bs.firstIsIf, beq_iff_eq] at hc
  have htext : text = "if" := hc.2
  subst htext
  have hm := token_named h "if" ht
  have := (List.all_eq_true.mp if_token_unique) _ hm
  simpa using this

theorem counted_is_switch (w : List String) (h text : String) (ht : JavaGrammar.tokenText h = some text)
    (hc : countsAsSwitch w text = true) : h = "SWITCH" := by
  simp only [countsAsSwitch, Bool.and_eq_true, Bs.firstIsSwitch, beq_iff_eq] at hc
  have htext : text = "switch" := hc.2
  subst htext
  have hm := token_named h "switch" ht
  have := (List.all_eq_true.mp switch_token_unique) _ hm
  simpa using this

/-- the alternatives of `statement` whose first child is a rule (their text is not a token's) -/
theorem rule_headed_statements :
    ((heads stmt).filter fun s => JavaGrammar.ruleNames.contains s).eraseDups = ["block", "expression", "switchExpression", "identifier"] := by
  decide +kernel

/-- a statement that begins with a switch expression (the arrow form) has at most two children -/
theorem arrow_switch_tails : (tailsOf "switchExpression" stmt).all (fun ts => (symsAt 1 (seqOf ts)).1 == []) = true := by decide +kernel

theorem arrow_switch_short (w t : List String) (hm : Matches stmt w) (hw : w = "switchExpression" :: t) : w.length ≤ 2 := by
  obtain ⟨ts, hts, hseq⟩ := tailsOf_sound "switchExpression" hm t hw
  have hp := (List.all_eq_true.mp arrow_switch_tails) ts hts
  have s1 := symsAt_sound 1 (seqOf_sound hseq)
  have : t[1]? = none := by
    cases h : t[1]? with
    | none => rfl
    | some b =>
      have hb := s1.1 b h
      have e : (symsAt 1 (seqOf ts)).1 = [] := by simpa using hp
      rw [e] at hb; cases hb
  subst hw
  have := List.getElem?_eq_none_iff.mp this
  simp only [List.length_cons]; omega

/-- so it is skipped by the children-count test (and must be recognised separately) -/
theorem arrow_switch_skipped (w t : List String) (hm : Matches stmt w) (hw : w = "switchExpression" :: t) : Bs.skipFewKids w.length = true := by
  have := arrow_switch_short w t hm hw
  simp [Bs.skipFewKids]; omega

/-! ### non-vacuity -/
example : Matches (.seq (.sym "IF") (.seq (.sym "parExpression") (.sym "statement"))) ["IF", "parExpression", "statement"] :=
  Matches.seq (Matches.sym _) (Matches.seq (Matches.sym _) (Matches.sym _))
example : countsAsIf ["IF", "parExpression", "statement"] "if" = true := by decide +kernel
example : countsAsIf ["WHILE", "parExpression", "statement"] "while" = false := by decide +kernel
example : countsAsSwitch ["switchExpression", "SEMI"] "switch(x){}" = false := by decide +kernel

end CocaVerif.Props.C10Shape
