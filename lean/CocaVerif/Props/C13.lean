/-
  C13 — Architecture graph edges are exactly the type dependencies in the model.
  For EVERY code model, identifier set, merge function and filter.  Relations are keyed by the pair
  (from, to) in the model (the Go code keys them by `from + "->" + to`, which determines the pair for
  names without "->": stated assumption, exercised by the correspondence incl. colliding short names).
  DOT well-formedness is the gographviz printer's contract, checked on every run by re-parsing.
-/
import CocaVerif.Model.Arch
import CocaVerif.Proofs.GoMapLemmas

namespace CocaVerif.Props.C13
open CocaVerif CocaVerif.Arch

theorem get?_insertAll {κ : Type} [BEq κ] [LawfulBEq κ] (q : κ) : ∀ (ks : List κ) (m0 : List (κ × Unit)),
    GoMap.get? (ks.foldl (fun m k => GoMap.set m k ()) m0) q = if q ∈ ks then some () else GoMap.get? m0 q := by
  intro ks
  induction ks with
  | nil => intro m0; simp
  | cons k rest ih =>
    intro m0
    rw [List.foldl_cons, ih, GoMap.get?_set]
    by_cases h1 : q ∈ rest
    · simp [h1]
    · by_cases h2 : k = q
      · subst h2; simp [h1]
      · have : ¬ q = k := fun e => h2 e.symm
        have hb : (k == q) = false := by simpa using h2
        simp [h1, this, hb]

/-- the key set of a map built by inserting `ks` is exactly `ks` (each key once) -/
theorem mem_keys_insertAll {κ : Type} [BEq κ] [LawfulBEq κ] (ks : List κ) (q : κ) :
    q ∈ GoMap.keys (insertAll ks) ↔ q ∈ ks := by
  rw [← GoMap.get?_isSome_iff_mem_keys]
  unfold insertAll
  rw [get?_insertAll]
  by_cases h : q ∈ ks <;> simp [h, GoMap.get?]

/-- one node per project type, the entry class `Main` excluded -/
theorem nodes_exact (deps : List DS) (ik : List String) (n : String) :
    n ∈ GoMap.keys (analysis deps ik).nodes ↔ ∃ c ∈ deps, c.node ≠ "Main" ∧ n = c.pkg ++ "." ++ c.node := by
  simp only [analysis, mem_keys_insertAll, List.mem_map, List.mem_filter, included, bne_iff_ne, ne_eq]
  constructor
  · rintro ⟨c, ⟨hc, hm⟩, rfl⟩; exact ⟨c, hc, hm, rfl⟩
  · rintro ⟨c, hc, hm, rfl⟩; exact ⟨c, ⟨hc, hm⟩, rfl⟩

/-- each project type appears once -/
theorem nodes_once (deps : List DS) (ik : List String) : (GoMap.keys (analysis deps ik).nodes).Nodup :=
  GoMap.keys_nodup _

/-- an edge A -> B exists exactly when A is a project type (not Main) and A implements B, has a
    field of type B, extends B, or a method of A other than `main` calls a method of a project type
    B different from A -/
theorem edge_iff (deps : List DS) (ik : List String) (a b : String) :
    (a, b) ∈ GoMap.keys (analysis deps ik).rels ↔
      ∃ c ∈ deps, c.node ≠ "Main" ∧ a = c.pkg ++ "." ++ c.node ∧
        (b ∈ c.impls ∨ (∃ f ∈ c.calls, b = f.pkg ++ "." ++ f.node) ∨ (c.ext ≠ "" ∧ b = c.ext) ∨
         (∃ m ∈ c.fns, m.name ≠ "main" ∧ ∃ call ∈ m.calls, b = call.pkg ++ "." ++ call.node ∧ a ≠ b ∧ b ∈ ik)) := by
  simp only [analysis, mem_keys_insertAll, List.mem_flatMap, List.mem_filter, included, bne_iff_ne, ne_eq]
  constructor
  · rintro ⟨c, ⟨hc, hm⟩, hp⟩
    refine ⟨c, hc, hm, ?_⟩
    simp only [relPairs, List.mem_append, List.mem_map, List.mem_flatMap, List.mem_filter, Prod.mk.injEq,
      Bool.and_eq_true, bne_iff_ne, ne_eq, List.contains_iff_mem] at hp
    rcases hp with ((⟨i, hi, rfl, rfl⟩ | ⟨f, hf, rfl, rfl⟩) | hp) | ⟨m, ⟨hm1, hm2⟩, call, ⟨hcall, hne, hik⟩, rfl, rfl⟩
    · exact ⟨rfl, Or.inl hi⟩
    · exact ⟨rfl, Or.inr (Or.inl ⟨f, hf, rfl⟩)⟩
    · split at hp
      · simp only [List.mem_singleton, Prod.mk.injEq] at hp
        rename_i he
        exact ⟨hp.1, Or.inr (Or.inr (Or.inl ⟨by simpa using he, hp.2⟩))⟩
      · simp at hp
    · exact ⟨rfl, Or.inr (Or.inr (Or.inr ⟨m, hm1, hm2, call, hcall, rfl, hne, hik⟩))⟩
  · rintro ⟨c, hc, hm, rfl, h⟩
    refine ⟨c, ⟨hc, hm⟩, ?_⟩
    unfold relPairs
    simp only [List.mem_append]
    rcases h with hi | ⟨f, hf, rfl⟩ | ⟨he, rfl⟩ | ⟨m, hm1, hm2, call, hcall, rfl, hne, hik⟩
    · exact Or.inl (Or.inl (Or.inl (List.mem_map.mpr ⟨b, hi, rfl⟩)))
    · exact Or.inl (Or.inl (Or.inr (List.mem_map.mpr ⟨f, hf, rfl⟩)))
    · refine Or.inl (Or.inr ?_)
      have : (c.ext != "") = true := by simpa using he
      rw [if_pos this]; simp
    · refine Or.inr (List.mem_flatMap.mpr ⟨m, List.mem_filter.mpr ⟨hm1, by simpa using hm2⟩,
        List.mem_map.mpr ⟨call, List.mem_filter.mpr ⟨hcall, ?_⟩, rfl⟩⟩)
      simp only [Bool.and_eq_true, bne_iff_ne, ne_eq, List.contains_iff_mem]
      exact ⟨hne, hik⟩

/-- merging yields exactly the quotient of the graph by the merge function, without self-loops -/
theorem merge_is_quotient (merge : String → String) (g : Graph) (x y : String) :
    (x, y) ∈ GoMap.keys (mergeGraph merge g).rels ↔
      ∃ p ∈ GoMap.keys g.rels, merge p.1 = x ∧ merge p.2 = y ∧ x ≠ y := by
  simp only [mergeGraph, mem_keys_insertAll, List.mem_filterMap]
  constructor
  · rintro ⟨p, hp, h⟩
    split at h
    · rename_i hne
      simp only [Option.some.injEq, Prod.mk.injEq] at h
      refine ⟨p, hp, h.1, h.2, ?_⟩
      rw [← h.1, ← h.2]; simpa using hne
    · simp at h
  · rintro ⟨p, hp, rfl, rfl, hne⟩
    refine ⟨p, hp, ?_⟩
    have : (merge p.1 != merge p.2) = true := by simpa using hne
    simp [this]

theorem merge_nodes (merge : String → String) (g : Graph) (x : String) :
    x ∈ GoMap.keys (mergeGraph merge g).nodes ↔ ∃ n ∈ GoMap.keys g.nodes, merge n = x := by
  simp only [mergeGraph, mem_keys_insertAll, List.mem_map]

/-- the layout shows each selected type once … -/
theorem display_nodes_once (filters : List String) (g : Graph) : (display filters g).1.Nodup := by
  unfold display leaves selectKeys
  exact ((GoMap.keys_nodup g.nodes).sublist List.filter_sublist).sublist List.filter_sublist

/-- … and draws an edge exactly for the relations between two displayed nodes -/
theorem display_edges_iff (filters : List String) (g : Graph) (e : Pair) :
    e ∈ (display filters g).2 ↔ e ∈ GoMap.keys g.rels ∧ e.1 ∈ (display filters g).1 ∧ e.2 ∈ (display filters g).1 := by
  simp [display, List.mem_filter]

-- (test) the two merge functions: drop the type name / keep the top-level package
#guard mergeHeader "com.a.b.Foo" = "com.a.b" ∧ mergeHeader "Foo" = "Foo" ∧
    mergePackage "com.a.b.Foo" = "com" ∧ mergePackage "Foo" = "main"

-- (test) non-vacuity: a two-type model with an implements edge and a call edge, merged by package
#guard GoMap.keys (mergeGraph mergeHeader (analysis
    [{ pkg := "p.a", node := "A", impls := ["p.b.I"], fns := [{ name := "run", calls := [{ pkg := "p.b", node := "B", fn := "x" }] }] },
     { pkg := "p.b", node := "B" }] ["p.a.A", "p.b.B"])).rels = [("p.a", "p.b")]

end CocaVerif.Props.C13
