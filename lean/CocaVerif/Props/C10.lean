/-
  C10 — Bad-smell findings match the documented thresholds exactly (decision layer).
  Each theorem characterises, for EVERY list of analysed types, the exact sub-list of findings of
  one kind, using the numbers of the property statement (30, 5, 20, 8, 4 lines); the model uses the
  constants and comparisons regenerated from bs_app.go, so a changed constant/comparison breaks these.
-/
import CocaVerif.Proofs.Bs

namespace CocaVerif.Props.C10
open CocaVerif.Bs CocaVerif.Gen.Bs

def ofKind (k : String) (l : List Finding) : List Finding := l.filter (fun f => f.bs == k)

/-- the findings of kind `k` are gathered node by node, method by method -/
theorem ofKind_analysis (k : String) (nodes : List BSNode) :
    ofKind k (analysis nodes) = nodes.flatMap fun n =>
      ofKind k (lazyF n) ++ (n.fns.flatMap fun m =>
        ofKind k (longMethodF n m) ++ ofKind k (longParamsF n m) ++ ofKind k (repeatedIfF n m) ++
        ofKind k (repeatedSwitchF n m) ++ ofKind k (complexIfF n m)) ++ ofKind k (dataClassF n) ++ ofKind k (largeClassF n) := by
  unfold ofKind analysis
  rw [filter_flatMap']
  congr 1; funext n
  simp only [nodeFindings, List.filter_append, filter_flatMap', fnFindings]

/-- longMethod exactly for methods whose last line lies more than 30 lines below their start line;
    names the file, the start line and the length -/
theorem longMethod_exact (nodes : List BSNode) :
    ofKind "longMethod" (analysis nodes) = nodes.flatMap fun n => n.fns.flatMap fun m =>
      if m.stopLine - m.startLine > 30 then
        [{ file := n.path, line := itoa m.startLine, bs := "longMethod",
           desc := "method length: " ++ itoa (m.stopLine - m.startLine), size := m.stopLine - m.startLine }]
      else [] := by
  rw [ofKind_analysis]
  congr 1; funext n
  have e1 := filter_all_kind (lazyF_kind n) (k' := "longMethod") (by decide)
  have e2 := filter_all_kind (dataClassF_kind n) (k' := "longMethod") (by decide)
  have e3 := filter_all_kind (largeClassF_kind n) (k' := "longMethod") (by decide)
  simp only [ofKind, e1, e2, e3, List.nil_append, List.append_nil]
  congr 1; funext m
  have f1 := filter_same_kind (longMethodF_kind n m)
  have f2 := filter_all_kind (longParamsF_kind n m) (k' := "longMethod") (by decide)
  have f3 := filter_all_kind (repeatedIfF_kind n m) (k' := "longMethod") (by decide)
  have f4 := filter_all_kind (repeatedSwitchF_kind n m) (k' := "longMethod") (by decide)
  have f5 := filter_all_kind (complexIfF_kind n m) (k' := "longMethod") (by decide)
  simp only [f1, f2, f3, f4, f5, List.append_nil]
  simp [longMethodF, longMethodCond, BS_METHOD_LENGTH, SMELL_LONG_METHOD]

/-- longParameterList exactly for methods with more than 5 parameters -/
theorem longParameterList_exact (nodes : List BSNode) :
    ofKind "longParameterList" (analysis nodes) = nodes.flatMap fun n => n.fns.flatMap fun m =>
      if m.nParams > 5 then
        [{ file := n.path, line := itoa m.startLine, bs := "longParameterList", desc := "<params json>", size := m.nParams }]
      else [] := by
  rw [ofKind_analysis]
  congr 1; funext n
  have e1 := filter_all_kind (lazyF_kind n) (k' := "longParameterList") (by decide)
  have e2 := filter_all_kind (dataClassF_kind n) (k' := "longParameterList") (by decide)
  have e3 := filter_all_kind (largeClassF_kind n) (k' := "longParameterList") (by decide)
  simp only [ofKind, e1, e2, e3, List.nil_append, List.append_nil]
  congr 1; funext m
  have f1 := filter_all_kind (longMethodF_kind n m) (k' := "longParameterList") (by decide)
  have f2 := filter_same_kind (longParamsF_kind n m)
  have f3 := filter_all_kind (repeatedIfF_kind n m) (k' := "longParameterList") (by decide)
  have f4 := filter_all_kind (repeatedSwitchF_kind n m) (k' := "longParameterList") (by decide)
  have f5 := filter_all_kind (complexIfF_kind n m) (k' := "longParameterList") (by decide)
  simp only [f1, f2, f3, f4, f5, List.append_nil, List.nil_append]
  simp [longParamsF, longParamsCond, BS_LONG_PARAS_LENGTH, SMELL_LONG_PARAMETER_LIST]

/-- repeatedSwitches exactly for methods with at least 8 top-level ifs, or at least 8 top-level
    switches (one finding each), naming the method's start line and the count -/
theorem repeatedSwitches_exact (nodes : List BSNode) :
    ofKind "repeatedSwitches" (analysis nodes) = nodes.flatMap fun n => n.fns.flatMap fun m =>
      (if m.ifSize ≥ 8 then
        [{ file := n.path, line := itoa m.startLine, bs := "repeatedSwitches", desc := "ifSize", size := m.ifSize }] else []) ++
      (if m.switchSize ≥ 8 then
        [{ file := n.path, line := itoa m.startLine, bs := "repeatedSwitches", desc := "switchSize", size := m.switchSize }] else []) := by
  rw [ofKind_analysis]
  congr 1; funext n
  have e1 := filter_all_kind (lazyF_kind n) (k' := "repeatedSwitches") (by decide)
  have e2 := filter_all_kind (dataClassF_kind n) (k' := "repeatedSwitches") (by decide)
  have e3 := filter_all_kind (largeClassF_kind n) (k' := "repeatedSwitches") (by decide)
  simp only [ofKind, e1, e2, e3, List.nil_append, List.append_nil]
  congr 1; funext m
  have f1 := filter_all_kind (longMethodF_kind n m) (k' := "repeatedSwitches") (by decide)
  have f2 := filter_all_kind (longParamsF_kind n m) (k' := "repeatedSwitches") (by decide)
  have f3 := filter_same_kind (repeatedIfF_kind n m)
  have f4 := filter_same_kind (repeatedSwitchF_kind n m)
  have f5 := filter_all_kind (complexIfF_kind n m) (k' := "repeatedSwitches") (by decide)
  simp only [f1, f2, f3, f4, f5, List.append_nil, List.nil_append]
  simp [repeatedIfF, repeatedSwitchF, repeatedIfCond, repeatedSwitchCond, BS_IF_SWITCH_LENGTH, SMELL_REPEATED_SWITCHES]

/-- complexCondition exactly for top-level if conditions spanning at least 4 lines
    (`endLine - startLine + 1 ≥ 4`), naming the condition's start line -/
theorem complexCondition_exact (nodes : List BSNode) :
    ofKind "complexCondition" (analysis nodes) = nodes.flatMap fun n => n.fns.flatMap fun m => m.ifs.flatMap fun i =>
      if i.endLine - i.startLine + 1 ≥ 4 then
        [{ file := n.path, line := itoa i.startLine, bs := "complexCondition", desc := "complexCondition" }]
      else [] := by
  rw [ofKind_analysis]
  congr 1; funext n
  have e1 := filter_all_kind (lazyF_kind n) (k' := "complexCondition") (by decide)
  have e2 := filter_all_kind (dataClassF_kind n) (k' := "complexCondition") (by decide)
  have e3 := filter_all_kind (largeClassF_kind n) (k' := "complexCondition") (by decide)
  simp only [ofKind, e1, e2, e3, List.nil_append, List.append_nil]
  congr 1; funext m
  have f1 := filter_all_kind (longMethodF_kind n m) (k' := "complexCondition") (by decide)
  have f2 := filter_all_kind (longParamsF_kind n m) (k' := "complexCondition") (by decide)
  have f3 := filter_all_kind (repeatedIfF_kind n m) (k' := "complexCondition") (by decide)
  have f4 := filter_all_kind (repeatedSwitchF_kind n m) (k' := "complexCondition") (by decide)
  have f5 := filter_same_kind (complexIfF_kind n m)
  simp only [f1, f2, f3, f4, f5, List.nil_append]
  unfold complexIfF
  congr 1; funext i
  have : (i.endLine - i.startLine + 1 ≥ 4) ↔ (i.endLine - i.startLine ≥ 3) := by omega
  simp [complexIfCond, BS_IF_LINES_LENGTH, SMELL_COMPLEX_CONDITION, this]

/-- lazyElement exactly for classes without methods -/
theorem lazyElement_exact (nodes : List BSNode) :
    ofKind "lazyElement" (analysis nodes) = nodes.flatMap fun n =>
      if n.type = "Class" ∧ n.fns.length = 0 then [{ file := n.path, bs := "lazyElement" }] else [] := by
  rw [ofKind_analysis]
  congr 1; funext n
  have e1 := filter_same_kind (lazyF_kind n)
  have e2 := filter_all_kind (dataClassF_kind n) (k' := "lazyElement") (by decide)
  have e3 := filter_all_kind (largeClassF_kind n) (k' := "lazyElement") (by decide)
  have hm : (n.fns.flatMap fun m =>
        ofKind "lazyElement" (longMethodF n m) ++ ofKind "lazyElement" (longParamsF n m) ++ ofKind "lazyElement" (repeatedIfF n m) ++
        ofKind "lazyElement" (repeatedSwitchF n m) ++ ofKind "lazyElement" (complexIfF n m)) = [] := by
    rw [List.flatMap_eq_nil_iff]
    intro m _
    have f1 := filter_all_kind (longMethodF_kind n m) (k' := "lazyElement") (by decide)
    have f2 := filter_all_kind (longParamsF_kind n m) (k' := "lazyElement") (by decide)
    have f3 := filter_all_kind (repeatedIfF_kind n m) (k' := "lazyElement") (by decide)
    have f4 := filter_all_kind (repeatedSwitchF_kind n m) (k' := "lazyElement") (by decide)
    have f5 := filter_all_kind (complexIfF_kind n m) (k' := "lazyElement") (by decide)
    simp only [ofKind, f1, f2, f3, f4, f5, List.append_nil]
  rw [hm]
  simp only [ofKind, e1, e2, e3, List.append_nil]
  simp [lazyF, lazyCond, SMELL_LAZY_ELEMENT]

/-- dataClass exactly for classes that have methods and only getters/setters; sized by the method count -/
theorem dataClass_exact (nodes : List BSNode) :
    ofKind "dataClass" (analysis nodes) = nodes.flatMap fun n =>
      if n.type = "Class" ∧ n.fns.length > 0 ∧ (∀ m ∈ n.fns, m.name.startsWith "set" ∨ m.name.startsWith "get") then
        [{ file := n.path, bs := "dataClass", size := n.fns.length }] else [] := by
  rw [ofKind_analysis]
  congr 1; funext n
  have e1 := filter_all_kind (lazyF_kind n) (k' := "dataClass") (by decide)
  have e2 := filter_same_kind (dataClassF_kind n)
  have e3 := filter_all_kind (largeClassF_kind n) (k' := "dataClass") (by decide)
  have hm : (n.fns.flatMap fun m =>
        ofKind "dataClass" (longMethodF n m) ++ ofKind "dataClass" (longParamsF n m) ++ ofKind "dataClass" (repeatedIfF n m) ++
        ofKind "dataClass" (repeatedSwitchF n m) ++ ofKind "dataClass" (complexIfF n m)) = [] := by
    rw [List.flatMap_eq_nil_iff]
    intro m _
    have f1 := filter_all_kind (longMethodF_kind n m) (k' := "dataClass") (by decide)
    have f2 := filter_all_kind (longParamsF_kind n m) (k' := "dataClass") (by decide)
    have f3 := filter_all_kind (repeatedIfF_kind n m) (k' := "dataClass") (by decide)
    have f4 := filter_all_kind (repeatedSwitchF_kind n m) (k' := "dataClass") (by decide)
    have f5 := filter_all_kind (complexIfF_kind n m) (k' := "dataClass") (by decide)
    simp only [ofKind, f1, f2, f3, f4, f5, List.append_nil]
  rw [hm]
  simp only [ofKind, e1, e2, e3, List.append_nil, List.nil_append]
  simp only [dataClassF, dataClassCond, onlyGetSet, isGetterSetter, SMELL_DATA_CLASS]
  by_cases h1 : n.type = "Class" <;> by_cases h2 : n.fns.length > 0 <;>
    by_cases h3 : (∀ m ∈ n.fns, m.name.startsWith "set" ∨ m.name.startsWith "get") <;>
    simp [h1, h2, h3]
  all_goals (first | omega | (intro; omega) | skip)

/-- largeClass exactly for classes with at least 20 methods that are not getters/setters -/
theorem largeClass_exact (nodes : List BSNode) :
    ofKind "largeClass" (analysis nodes) = nodes.flatMap fun n =>
      if n.type = "Class" ∧ (n.fns.filter fun m => !(m.name.startsWith "set" || m.name.startsWith "get")).length ≥ 20 then
        [{ file := n.path, bs := "largeClass",
           desc := "methods number (without getter/setter): " ++ toString (normalLen n), size := normalLen n }] else [] := by
  rw [ofKind_analysis]
  congr 1; funext n
  have e1 := filter_all_kind (lazyF_kind n) (k' := "largeClass") (by decide)
  have e2 := filter_all_kind (dataClassF_kind n) (k' := "largeClass") (by decide)
  have e3 := filter_same_kind (largeClassF_kind n)
  have hm : (n.fns.flatMap fun m =>
        ofKind "largeClass" (longMethodF n m) ++ ofKind "largeClass" (longParamsF n m) ++ ofKind "largeClass" (repeatedIfF n m) ++
        ofKind "largeClass" (repeatedSwitchF n m) ++ ofKind "largeClass" (complexIfF n m)) = [] := by
    rw [List.flatMap_eq_nil_iff]
    intro m _
    have f1 := filter_all_kind (longMethodF_kind n m) (k' := "largeClass") (by decide)
    have f2 := filter_all_kind (longParamsF_kind n m) (k' := "largeClass") (by decide)
    have f3 := filter_all_kind (repeatedIfF_kind n m) (k' := "largeClass") (by decide)
    have f4 := filter_all_kind (repeatedSwitchF_kind n m) (k' := "largeClass") (by decide)
    have f5 := filter_all_kind (complexIfF_kind n m) (k' := "largeClass") (by decide)
    simp only [ofKind, f1, f2, f3, f4, f5, List.append_nil]
  rw [hm]
  simp only [ofKind, e1, e2, e3, List.append_nil, List.nil_append]
  simp [largeClassF, largeClassCond, normalLen, isGetterSetter, BS_LARGE_LENGTH, SMELL_LARGE_CLASS]

/-- every finding has one of the seven kinds: nothing else is reported by this layer -/
theorem kinds_closed (nodes : List BSNode) : ∀ f ∈ analysis nodes,
    f.bs ∈ ["lazyElement", "longMethod", "longParameterList", "repeatedSwitches", "complexCondition", "dataClass", "largeClass"] := by
  intro f hf
  simp only [analysis, nodeFindings, fnFindings, List.mem_flatMap, List.mem_append] at hf
  obtain ⟨n, _, h⟩ := hf
  rcases h with ((h | ⟨m, _, h⟩) | h) | h
  · simp [lazyF_kind n f h]
  · rcases h with (((h | h) | h) | h) | h
    · simp [longMethodF_kind n m f h]
    · simp [longParamsF_kind n m f h]
    · simp [repeatedIfF_kind n m f h]
    · simp [repeatedSwitchF_kind n m f h]
    · simp [complexIfF_kind n m f h]
  · simp [dataClassF_kind n f h]
  · simp [largeClassF_kind n f h]

/-- the ignore option removes exactly the named kinds -/
theorem ignore_exact (nodes : List BSNode) (ig : List String) :
    identify nodes ig = (analysis nodes).filter (fun f => !ig.contains f.bs) := rfl

/-- sorting by type: the group of kind `k` is a permutation of the findings of that kind … -/
theorem sort_groups (l : List Finding) : ∀ kg ∈ sortByType l, kg.2.Perm (l.filter (·.bs == kg.1)) := by
  intro kg hkg
  simp only [sortByType, List.mem_map] at hkg
  obtain ⟨k, _, rfl⟩ := hkg
  dsimp only
  split
  · exact List.mergeSort_perm _ _
  · exact List.Perm.refl _

/-- … each kind occurs as exactly one group, in first-occurrence order … -/
theorem sort_keys (l : List Finding) : (sortByType l).map (·.1) = (l.map (·.bs)).eraseDups := by
  simp only [sortByType, kindsOf, List.map_map]
  conv => rhs; rw [← List.map_id ((l.map (·.bs)).eraseDups)]
  apply List.map_congr_left
  intro k _; rfl

/-- … and every sized kind (the five kinds that carry a size) is in non-increasing size order -/
theorem sort_sized_nonincreasing (l : List Finding) : ∀ kg ∈ sortByType l,
    kg.1 ∈ ["largeClass", "repeatedSwitches", "longParameterList", "longMethod", "dataClass"] →
      kg.2.Pairwise (fun a b => a.size ≥ b.size) := by
  intro kg hkg hk
  simp only [sortByType, List.mem_map] at hkg
  obtain ⟨k, _, rfl⟩ := hkg
  have hs : isSized k = true := by
    simp only [isSized, sizedKinds]
    simp only [List.mem_cons, List.not_mem_nil, or_false] at hk
    rcases hk with h | h | h | h | h <;> subst h <;> decide
  dsimp only
  rw [if_pos hs]
  have := List.pairwise_mergeSort (le := sizeGe)
    (fun a b c hab hbc => by simp only [sizeGe, decide_eq_true_eq] at *; omega)
    (fun a b => by simp only [sizeGe, Bool.or_eq_true, decide_eq_true_eq]; omega) (l.filter (·.bs == k))
  exact this.imp (fun h => by simpa [sizeGe] using h)

/-- non-vacuity: a class with one 31-line method is reported, a 30-line one is not -/
example : ofKind "longMethod" (analysis [{ path := "A.java", type := "Class", fns :=
    [{ name := "m", startLine := 10, stopLine := 41, nParams := 0, ifSize := 0, switchSize := 0, ifs := [] },
     { name := "k", startLine := 50, stopLine := 80, nParams := 0, ifSize := 0, switchSize := 0, ifs := [] }] }]) =
    [{ file := "A.java", line := "10", bs := "longMethod", desc := "method length: 31", size := 31 }] := by decide

end CocaVerif.Props.C10
