/-
  C17 — Every TODO/FIXME comment is reported once with its line; nothing else is.
  Inputs: source texts as lists of SEGMENTS (code that cannot start a comment or literal, string
  literals with plain bodies or with the one-character escapes `\" \\ \n …`, character literals `'c'` and
  `'\c'`, template literals, block / line / hash comments), of any number and length; `render` is their
  concatenation.
  `lex_render` shows that the (coarse) lexer of the model recovers exactly the literal and comment
  segments with their start lines; the scan therefore looks at the comments only, each once.
  Tie to the code: the model's lexer is compared with the real ANTLR CommentLexer on ~100k generated
  and malformed texts per thorough run (incl. its error recovery and longest-match fallback), and
  `parseComment` with the real ParseComment; markers, strip lengths and identifiers are regenerated.
  Not covered by the theorem's segment language: octal and unicode escapes, escaped backquotes in template
  literals, malformed literals (they are in the model and in the correspondence).
-/
import CocaVerif.Proofs.Todo

namespace CocaVerif.Props.C17
open CocaVerif CocaVerif.Todo

/-- the lexer recovers exactly the literal and comment segments, with their start lines -/
theorem lex_render (segs : List Seg) (h : WF segs = true) : lex (render segs) = toks 1 segs :=
  lexFrom_render segs _ 1 h (by omega)

/-- the comment segments with the line each starts on -/
def comments : Nat → List Seg → List (List Char × Nat)
  | _, [] => []
  | l, s :: r =>
    match s with
    | .block _ | .line _ | .hash _ => (s.text, l) :: comments (l + countNl s.text) r
    | _ => comments (l + countNl s.text) r

theorem comment_toks (segs : List Seg) : ∀ (l : Nat),
    ((toks l segs).filter fun t => isComment t.kind).map (fun t => (t.text, t.line)) = comments l segs := by
  induction segs with
  | nil => intro l; rfl
  | cons s r ih =>
    intro l
    cases s with
    | code cs => simp only [toks, comments, Seg.kind?]; exact ih _
    | str b =>
      simp only [toks, comments, Seg.kind?, List.filter_cons, show isComment Kind.str = false from rfl,
        Bool.false_eq_true, ↓reduceIte]
      exact ih _
    | block b =>
      simp only [toks, comments, Seg.kind?, List.filter_cons, show isComment Kind.block = true from rfl, ↓reduceIte,
        List.map_cons, ih]
    | line t =>
      simp only [toks, comments, Seg.kind?, List.filter_cons, show isComment Kind.line = true from rfl, ↓reduceIte,
        List.map_cons, ih]
    | hash t =>
      simp only [toks, comments, Seg.kind?, List.filter_cons, show isComment Kind.hash = true from rfl, ↓reduceIte,
        List.map_cons, ih]
    | estr b =>
      simp only [toks, comments, Seg.kind?, List.filter_cons, show isComment Kind.str = false from rfl,
        Bool.false_eq_true, ↓reduceIte]
      exact ih _
    | chr c =>
      simp only [toks, comments, Seg.kind?, List.filter_cons, show isComment Kind.chr = false from rfl,
        Bool.false_eq_true, ↓reduceIte]
      exact ih _
    | echr c =>
      simp only [toks, comments, Seg.kind?, List.filter_cons, show isComment Kind.chr = false from rfl,
        Bool.false_eq_true, ↓reduceIte]
      exact ih _
    | tmpl b =>
      simp only [toks, comments, Seg.kind?, List.filter_cons, show isComment Kind.tmpl = false from rfl,
        Bool.false_eq_true, ↓reduceIte]
      exact ih _

def scanComments (cs : List (List Char × Nat)) : Except String (List Todo) :=
  cs.foldl (fun acc c =>
    match acc, parseComment c.1 c.2 with
    | .ok l, .ok (some td) => .ok (l ++ [td])
    | .ok l, .ok none => .ok l
    | .ok _, .error e => .error e
    | .error e, _ => .error e) (.ok [])

/-- SCAN EXACTNESS: the report is obtained from the comment segments alone — one `parseComment` per
    line / block / hash comment, with the line where it starts, in source order.  Text inside string,
    character and template literals and code (whatever markers or TODO words it contains, also after an
    escaped quote) contributes nothing. -/
theorem scan_exact (segs : List Seg) (h : WF segs = true) :
    scanText (render segs) = scanComments (comments 1 segs) := by
  unfold scanText scanComments
  rw [lex_render segs h, ← comment_toks segs 1, List.foldl_map]
  rfl

/-- in particular a text without comment segments reports nothing, however many TODOs its strings hold -/
theorem strings_never_reported (segs : List Seg) (h : WF segs = true)
    (hno : ∀ s ∈ segs, match s with | .block _ | .line _ | .hash _ => False | _ => True) :
    scanText (render segs) = .ok [] := by
  rw [scan_exact segs h]
  have : ∀ l, comments l segs = [] := by
    clear h
    induction segs with
    | nil => intro l; rfl
    | cons s r ih =>
      intro l
      have hs := hno s (by simp)
      have hr : ∀ x ∈ r, match x with | .block _ | .line _ | .hash _ => False | _ => True :=
        fun x hx => hno x (by simp [hx])
      cases s with
      | code cs => simp only [comments]; exact ih hr _
      | str b => simp only [comments]; exact ih hr _
      | block b => exact absurd hs (by simp)
      | line t => exact absurd hs (by simp)
      | hash t => exact absurd hs (by simp)
      | estr b => simp only [comments]; exact ih hr _
      | chr c => simp only [comments]; exact ih hr _
      | echr c => simp only [comments]; exact ih hr _
      | tmpl b => simp only [comments]; exact ih hr _
  rw [this 1]; rfl

theorem isPrefixL_length : ∀ (a b : List Char), Todo.isPrefixL a b = true → a.length ≤ b.length := by
  intro a
  induction a with
  | nil => intro b _; simp
  | cons x xs ih =>
    intro b h
    cases b with
    | nil => simp [Todo.isPrefixL] at h
    | cons y ys =>
      simp only [Todo.isPrefixL, Bool.and_eq_true] at h
      have := ih ys h.2
      simp; omega

/-- the number of characters stripped for a marker never exceeds the marker (regenerated table) -/
theorem strip_le_marker : ∀ m ∈ Gen.Todo.markers, Gen.Todo.markerStrip m ≤ m.length := by decide

/-- NO COMMENT SHAPE MAKES THE SCAN CRASH: `parseComment` never takes the out-of-range slice -/
theorem parseComment_total (text : List Char) (line : Nat) : ∃ r, parseComment text line = .ok r := by
  unfold parseComment
  have hlen : markerLen (trimSpace text) ≤ (trimSpace text).length := by
    unfold markerLen
    cases hf : Gen.Todo.markers.find? (fun m => Todo.isPrefixL m.toList (trimSpace text)) with
    | none => simp
    | some m =>
      have hm := List.mem_of_find?_eq_some hf
      have hp := List.find?_some hf
      have h1 := strip_le_marker m hm
      have h2 := isPrefixL_length _ _ hp
      simp only [String.length_toList] at h2
      simp only; omega
  simp only [Nat.not_lt.mpr hlen, ↓reduceIte]
  split
  · exact ⟨_, rfl⟩
  · split <;> exact ⟨_, rfl⟩

/-- a comment is reported iff, after the marker and blanks, its text begins with TODO or FIXME in
    any (ASCII) letter case -/
theorem reported_iff_prefix (text : List Char) (line : Nat) :
    (∃ td, parseComment text line = .ok (some td)) ↔
      (let t0 := trimSpace text
       let t1 := if markerLen t0 > 0 then trimSpace (t0.drop (markerLen t0)) else t0
       Todo.isPrefixL "TODO".toList (t1.map upperAscii) = true ∨ Todo.isPrefixL "FIXME".toList (t1.map upperAscii) = true) := by
  have hlen : ¬ markerLen (trimSpace text) > (trimSpace text).length := by
    obtain ⟨r, hr⟩ := parseComment_total text line
    intro h
    simp [parseComment, h] at hr
  unfold parseComment
  simp only [hlen, ↓reduceIte]
  generalize (if markerLen (trimSpace text) > 0 then trimSpace ((trimSpace text).drop (markerLen (trimSpace text))) else trimSpace text) = t1
  unfold todoIdentLen
  simp only [Gen.Todo.todoIdentifiers, List.find?_cons, List.find?_nil]
  cases h1 : Todo.isPrefixL "TODO".toList (t1.map upperAscii) <;> cases h2 : Todo.isPrefixL "FIXME".toList (t1.map upperAscii)
  · simp
  · simp only [Option.map_some, Bool.false_eq_true, false_or, iff_true]
    split <;> exact ⟨_, rfl⟩
  · simp only [Option.map_some, Bool.false_eq_true, or_false, iff_true]
    split <;> exact ⟨_, rfl⟩
  · simp only [Option.map_some, or_self, iff_true]
    split <;> exact ⟨_, rfl⟩

theorem sources_pinned : Gen.Todo.todoIdentifiers = ["TODO", "FIXME"] ∧ Gen.Todo.markers = ["//", "/*", "*/", "#"] ∧
    Gen.Todo.assignSrc = "^\\([\\w \\._\\+\\-@]+\\)" := ⟨rfl, rfl, rfl⟩

/-- non-vacuity: a well-formed text with a TODO inside a string, a TODO line comment and a hash comment -/
example : WF [.code "x = ".toList, .str "// TODO no".toList, .code " ".toList, .line " TODO(bob): yes".toList,
              .code "\ny ".toList, .hash "fixme later".toList] = true := by decide
example : (match scanText "x = \"// TODO no\" // TODO(bob): yes\ny #fixme later".toList with | .ok l => l | .error _ => []) =
    [{ assignee := "bob", line := 1, message := "yes" }, { assignee := "", line := 2, message := "later" }] := by decide

/-- non-vacuity for the literal kinds: an escaped quote inside a string before a comment marker, a character
    literal holding a quote, an escaped character literal, a template literal with a marker, then a real comment -/
def litSample : List Seg :=
  [.estr [.plain 'a', .esc '"', .plain '/', .plain '/', .plain 'T', .esc '\\'], .code " ".toList, .chr '"', .code " ".toList,
   .echr '\'', .code " ".toList, .tmpl "# TODO no".toList, .code "\n".toList, .line "fixme: yes".toList]
example : WF litSample = true := by decide
example : String.ofList (render litSample) = "\"a\\\"//T\\\\\" '\"' '\\'' `# TODO no`\n//fixme: yes" := by decide
example : (match scanText (render litSample) with | .ok l => l | .error _ => []) =
    [{ assignee := "", line := 2, message := "yes" }] := by decide

end CocaVerif.Props.C17
