/-
  C18, "equal the values derivable from the source": the two layers composed.

  `nullable_from_source`: for EVERY conventional class unit (any members in any order, any annotations, any
  `return` statements), from ANY listener state, a name is in the nullable list that the evaluation builds from
  the identifier pass's output for that file iff the unit declares a method (or constructor) of that name that
  has a `return` statement mentioning the null literal - whichever of its returns it is - or is annotated
  @Nullable / @CheckForNull - wherever the annotation stands among its modifiers; annotations of the members
  before it do not count.  `static_count_from_source`: the static-method count is the number of declared
  methods with the modifier `static`, whatever its position in the modifier list.
  `nullable_from_source_iface`: the same for EVERY conventional interface unit (abstract methods annotated
  before or behind their other modifiers, default / static methods with bodies).
  (Composition of `ident_class_exact` (Props/C01Ident) with `nullable_iff` / the summary definition (Props/C18).)
-/
import CocaVerif.Props.C18
import CocaVerif.Props.C01Ident

namespace CocaVerif.Props.C18Source
open CocaVerif CocaVerif.Stats CocaVerif.JavaIdent CocaVerif.Props.C01Ident

/-- what the source says of the function-declaring members: name, declared annotations, declared modifiers, and whether a
    `return` statement of the body mentions the null literal -/
def declared : List IMember → List (String × List Anno × List String × Bool)
  | [] => []
  | .method _ name _ annos mods _ body :: r => (name, annos, mods, returnsNull body) :: declared r
  | .ctor _ name _ body :: r => (name, [], [], returnsNull body) :: declared r
  | .field _ :: r => declared r

def got (f : Fn) : String × List Anno × List String × Bool := (f.name, f.annos, f.modifiers, f.isReturnNull)

/-- the two projections proved by `ident_class_exact` determine the combined one -/
theorem combine : ∀ (ms : List IMember) (fns : List Fn),
    fns.map sig = expected ms → fns.map facts = expectedFacts ms → fns.map got = declared ms := by
  intro ms
  induction ms with
  | nil =>
    intro fns h _
    cases fns with
    | nil => rfl
    | cons f fs => simp [expected] at h
  | cons m ms ih =>
    intro fns h1 h2
    cases m with
    | field pre => exact ih fns h1 h2
    | method pre name ret annos mods pos body =>
      cases fns with
      | nil => simp [expected] at h1
      | cons f fs =>
        simp only [expected, expectedFacts, List.map_cons, List.cons.injEq] at h1 h2
        obtain ⟨a1, a2⟩ := h1
        obtain ⟨b1, b2⟩ := h2
        simp only [declared, List.map_cons, ih fs a2 b2, List.cons.injEq, and_true]
        simp only [sig, Prod.mk.injEq] at a1
        simp only [facts, Prod.mk.injEq] at b1
        simp only [got, a1.1, b1.1, b1.2.1, b1.2.2]
    | ctor pre name pos body =>
      cases fns with
      | nil => simp [expected] at h1
      | cons f fs =>
        simp only [expected, expectedFacts, List.map_cons, List.cons.injEq] at h1 h2
        obtain ⟨a1, a2⟩ := h1
        obtain ⟨b1, b2⟩ := h2
        simp only [declared, List.map_cons, ih fs a2 b2, List.cons.injEq, and_true]
        simp only [sig, Prod.mk.injEq] at a1
        simp only [facts, Prod.mk.injEq] at b1
        simp only [got, a1.1, b1.1, b1.2.1, b1.2.2]

/-- **C18, nullable methods, from the source** -/
theorem nullable_from_source (u : IUnit) (hname : u.name ≠ "") (hok : ∀ m ∈ u.members, m.ok) (st0 : ISt) (name : String) :
    name ∈ nullableNames (runFile st0 u.events).nodes ↔
      ∃ x ∈ declared u.members, u.pkg ++ "." ++ u.name ++ "." ++ x.1 = name ∧
        (x.2.2.2 = true ∨ ∃ a ∈ x.2.1, a.name = "Nullable" ∨ a.name = "CheckForNull") := by
  obtain ⟨d, hn, hp, hnm, _, _, _, hs, hf⟩ := ident_class_exact u hname hok st0
  have hc := combine u.members d.fns hs hf
  rw [C18.nullable_iff, hn]
  constructor
  · rintro ⟨d', hd', f, hfm, hfull, hcond⟩
    have : d' = d := by simpa using hd'
    subst this
    refine ⟨got f, ?_, ?_, hcond⟩
    · rw [← hc]; exact List.mem_map_of_mem hfm
    · rw [← hfull]; simp [Fn.full, got, hp, hnm]
  · rintro ⟨x, hx, hfull, hcond⟩
    rw [← hc] at hx
    obtain ⟨f, hfm, rfl⟩ := List.mem_map.mp hx
    exact ⟨d, by simp, f, hfm, by rw [← hfull]; simp [Fn.full, got, hp, hnm], hcond⟩

/-- **C18, static methods, from the source**: the evaluation's static-method count for the file is the number of declared
    methods whose modifier list contains `static` (position irrelevant: `isStatic_perm_invariant`) -/
theorem static_count_from_source (u : IUnit) (hname : u.name ≠ "") (hok : ∀ m ∈ u.members, m.ok) (st0 : ISt) (clzs : List DS) :
    (summary clzs (runFile st0 u.events).nodes).staticMethodCount =
      ((declared u.members).filter fun x => x.2.2.1.contains Gen.Stats.staticLiteral).length := by
  obtain ⟨d, hn, _, _, _, _, _, hs, hf⟩ := ident_class_exact u hname hok st0
  have hc := combine u.members d.fns hs hf
  rw [hn, ← hc]
  simp only [summary, List.map_cons, List.map_nil, List.sum_cons, List.sum_nil, Nat.add_zero]
  rw [List.filter_map, List.length_map]
  congr 1

/-! non-vacuity: the demonstration unit of Props/C01Ident (a `@Nullable` method, then one returning null on its first path, a
    constructor, a plain method) -/
#guard (nullableNames (runFile {} demoNullable.events).nodes) == ["p.Repo.find", "p.Repo.load"]
#guard (declared demoNullable.members).map (·.1) == ["find", "load", "Repo", "name"]
#guard (summary [] (runFile {} demoNullable.events).nodes).staticMethodCount == 2

/-! ### interface units -/

theorem map_got (fns : List Fn) (l : List (String × String × Bool × Pos)) (r : List (List Anno × List String × Bool))
    (h1 : fns.map sig = l) (h2 : fns.map facts = r) :
    fns.map got = (l.zip r).map fun x => (x.1.1, x.2.1, x.2.2.1, x.2.2.2) := by
  subst h1 h2
  induction fns with
  | nil => rfl
  | cons f fs ih => simp only [List.map_cons, List.zip_cons_cons, ih, got, sig, facts]

/-- **C18, nullable methods of an interface, from the source**: an abstract method annotated @Nullable / @CheckForNull -
    before or behind its other modifiers -, a default or static method with a null-mentioning `return` -/
theorem nullable_from_source_iface (u : IfUnit) (hname : u.name ≠ "") (hok : ∀ m ∈ u.methods, m.ok) (st0 : ISt) (name : String) :
    name ∈ nullableNames (runFile st0 u.events).nodes ↔
      ∃ m ∈ u.methods, u.pkg ++ "." ++ u.name ++ "." ++ m.name = name ∧
        (returnsNull m.body = true ∨ ∃ a ∈ m.annos, a.name = "Nullable" ∨ a.name = "CheckForNull") := by
  obtain ⟨d, hn, hp, hnm, _, _, hs, hf⟩ := ident_iface_exact u hname hok st0
  have hc : d.fns.map got = u.methods.map fun m => (m.name, m.annos, m.mods, returnsNull m.body) := by
    rw [map_got d.fns _ _ hs hf, List.zip_map', List.map_map]
    rfl
  rw [C18.nullable_iff, hn]
  constructor
  · rintro ⟨d', hd', f, hfm, hfull, hcond⟩
    have : d' = d := by simpa using hd'
    subst this
    have hx : got f ∈ u.methods.map fun m => (m.name, m.annos, m.mods, returnsNull m.body) := by
      rw [← hc]; exact List.mem_map_of_mem hfm
    obtain ⟨m, hm, hgm⟩ := List.mem_map.mp hx
    simp only [got, Prod.mk.injEq] at hgm
    refine ⟨m, hm, ?_, ?_⟩
    · rw [← hfull]; simp [Fn.full, hp, hnm, hgm.1]
    · rw [hgm.2.2.2, hgm.2.1]; exact hcond
  · rintro ⟨m, hm, hfull, hcond⟩
    have hx : (m.name, m.annos, m.mods, returnsNull m.body) ∈ d.fns.map got := by
      rw [hc]; exact List.mem_map_of_mem (f := fun m : IfMethod => (m.name, m.annos, m.mods, returnsNull m.body)) hm
    obtain ⟨f, hfm, hgf⟩ := List.mem_map.mp hx
    simp only [got, Prod.mk.injEq] at hgf
    refine ⟨d, by simp, f, hfm, ?_, ?_⟩
    · rw [← hfull]; simp [Fn.full, hp, hnm, hgf.1]
    · rw [hgf.2.2.2, hgf.2.1]; exact hcond

#guard (nullableNames (runFile {} demoIface.events).nodes) == ["p.Finder.find", "p.Finder.first"]

end CocaVerif.Props.C18Source
