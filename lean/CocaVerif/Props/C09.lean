/-
  C09 — Every pass completes without crashing on any valid Java source (static part + search).

  PARTIAL by nature of the technique: the runtime panic is a property of the Go program; what is proved
  here is the class of crashes that is decided by the grammar alone.
  * `accessor_present` — for EVERY parse-tree node that conforms to a grammar, a child accessor whose
    symbol occurs in every word of the rule's right-hand side (`Rx.always`, proved sound against the
    regular language in Base/Rx.lean) returns a child, never nil;
  * `all_accessor_sites_safe` — every place in the eight listener / converter files where the result of a
    child accessor is dereferenced (121 sites, regenerated from the Go source on every run, with the
    rule of the receiver and the nil tests that dominate the use) is nil-guarded or mandatory in the
    shipped grammar (regenerated from JavaParser.g4); so by `site_never_nil` none of them can
    dereference nil on any tree an error-free parse produces — any size, any nesting;
  * `no_listener_file_missing` — all eight files were found.
  * `all_path_sites_safe` / `path_site_never_panics` — the navigation CHAINS: every dereference, type
    assertion and GetChild(i) on a context value that the extractor can follow from a context of known
    rule through GetParent() / GetChild(i) / accessors / assertions / variables / helper calls (several
    hundred step lists, regenerated from the Go source with the tests that dominate each use) is safe
    under the abstract interpreter `NavTree.runA` over the shipped grammar; `NavTree.run_sound` makes
    that a statement about EVERY well-formed parse tree and EVERY node of the chain's rule in it: no nil
    dereference, no failed assertion, and no `GetChild(i)` with i equal to the number of children (the
    ANTLR Go runtime indexes out of range there).
  Not decided statically (counted in `Gen.NavSites.unanalysed` / `pathUnanalysed`, covered by the
  grammar-wide search on the real code): GetChild with a variable index outside inlined helpers, values
  that are assigned in loops or branches, constant indexes and slice expressions on texts and lists,
  function literals, helper arguments the walk cannot follow.
-/
import CocaVerif.Model.Nav

namespace CocaVerif.Props.C09
open CocaVerif CocaVerif.Nav

theorem findIdx_of_mem (l : List String) (x : String) (h : x ∈ l) : (l.findIdx? (· == x)).isSome = true := by
  induction l with
  | nil => cases h
  | cons a l ih =>
    simp only [List.findIdx?_cons]
    by_cases e : (a == x) = true
    · simp [e]
    · simp only [e, Bool.false_eq_true, if_false]
      have : x ∈ l := by
        rcases List.mem_cons.mp h with rfl | h'
        · simp at e
        · exact h'
      have := ih this
      cases hh : l.findIdx? (· == x) with
      | none => rw [hh] at this; simp at this
      | some i => simp

/-- a mandatory child is never nil -/
theorem accessor_present (g : String → Rx) (n : Node) (x : String) (hc : Conforms g n) (h : (g n.rule).always x = true) :
    (accessor n x).isSome = true :=
  findIdx_of_mem n.kids x (Rx.always_sound x hc h)

/-- the general form: if in every possible profile of the rule that contains the symbols known to be present the
    accessor's symbol is present too (star certificates checked), the accessor returns a child on every conforming node
    that has those symbols -/
theorem accessor_present_given (g : String → Rx) (n : Node) (x : String) (given : List String) (hc : Conforms g n)
    (hok : (Rx.pv (x :: given) (g n.rule)).2 = true)
    (hall : (Rx.pv (x :: given) (g n.rule)).1.all (fun p => !(given.all fun y => p.contains y) || p.contains x) = true)
    (hgiven : ∀ y ∈ given, y ∈ n.kids) : (accessor n x).isSome = true := by
  have hp := Rx.pv_sound (x :: given) hc hok
  have hx := (List.all_eq_true.mp hall) _ hp
  have hg : (given.all fun y => (Rx.prof (x :: given) n.kids).contains y) = true := by
    apply List.all_eq_true.mpr
    intro y hy
    rw [Rx.prof_contains _ _ y (List.mem_cons_of_mem _ hy)]
    exact List.contains_iff_mem.mpr (hgiven y hy)
  simp only [hg, Bool.not_true, Bool.false_or] at hx
  rw [Rx.prof_contains _ _ x (List.mem_cons_self)] at hx
  exact findIdx_of_mem n.kids x (List.contains_iff_mem.mp hx)

/-- every accessor dereference of the listeners is guarded in the code, or present whenever the children the code
    has already tested are present, in the shipped grammar -/
theorem all_accessor_sites_safe : unsafeSites Gen.JavaGrammar.rhs Gen.NavSites.sites = [] := by decide

theorem no_listener_file_missing : Gen.NavSites.missingFiles = [] := rfl

/-- so: at a site without its own nil test, on every node of that rule from an error-free parse on which the tested
    children are present, the accessor returns a child -/
theorem site_never_nil (s : Gen.NavSites.Site) (hs : s ∈ Gen.NavSites.sites) (hg : s.guarded = false)
    (n : Node) (hr : n.rule = s.rule) (hc : Conforms Gen.JavaGrammar.rhs n) (hgiven : ∀ y ∈ s.given, y ∈ n.kids) :
    (accessor n s.sym).isSome = true := by
  have h0 : siteSafe Gen.JavaGrammar.rhs s = true := by
    have hu := all_accessor_sites_safe
    by_cases e : siteSafe Gen.JavaGrammar.rhs s = true
    · exact e
    · have : s ∈ unsafeSites Gen.JavaGrammar.rhs Gen.NavSites.sites := by
        simp only [unsafeSites, List.mem_filter]
        exact ⟨hs, by simpa using e⟩
      rw [hu] at this; cases this
  simp only [siteSafe, hg, Bool.false_or, Bool.and_eq_true] at h0
  rw [← hr] at h0
  exact accessor_present_given _ n s.sym s.given hc h0.1 h0.2 hgiven

/-- every followed navigation chain of the listeners is safe under the abstract run over the shipped grammar -/
theorem all_path_sites_safe :
    unsafePaths Gen.JavaGrammar.rhs Gen.JavaGrammar.ruleNames Gen.NavSites.pathSites = [] := by decide +kernel

/-- so: on every well-formed parse tree of the shipped grammar (any size, any nesting) and at every node of the
    chain's rule in it, executing the chain does not panic — no nil dereference, no failed type assertion, no child
    index equal to the number of children.  (`skip` = a test in the code did not hold and the chain is not executed.) -/
theorem path_site_never_panics (s : Gen.NavSites.PathSite) (hs : s ∈ Gen.NavSites.pathSites)
    (root : NavTree.PT) (hwf : NavTree.WF Gen.JavaGrammar.rhs Gen.JavaGrammar.ruleNames root) (hroot : root.sym = startRule)
    (p : List Nat) (n : NavTree.PT) (hn : NavTree.sub root p = some n) (hr : n.sym = s.rule) :
    NavTree.runC root (some p) s.steps ≠ .panic := by
  have h0 : pathSafe Gen.JavaGrammar.rhs Gen.JavaGrammar.ruleNames s = true := by
    have hu := all_path_sites_safe
    by_cases e : pathSafe Gen.JavaGrammar.rhs Gen.JavaGrammar.ruleNames s = true
    · exact e
    · have : s ∈ unsafePaths Gen.JavaGrammar.rhs Gen.JavaGrammar.ruleNames Gen.NavSites.pathSites := by
        simp only [unsafePaths, List.mem_filter]
        exact ⟨hs, by simpa using e⟩
      rw [hu] at this; cases this
  apply NavTree.run_sound Gen.JavaGrammar.rhs Gen.JavaGrammar.ruleNames startRule root hwf hroot s.steps (some p)
    { syms := [s.rule], mayNil := false } ?_ h0
  exact ⟨n, hn, by simp [hr], by simp, by simp, trivial⟩

/-- the chain walk is not empty and really contains chains with GetChild / GetParent / assertions (non-vacuity) -/
example : 200 ≤ Gen.NavSites.pathSites.length := by decide +kernel

/-- regression examples for the abstract run on the shipped grammar: `statement.GetChild(1)` is NOT safe on an arbitrary
    statement (`statement: block` has one child, index 1 is out of range), it is with a child-count test -/
example : NavTree.runA Gen.JavaGrammar.rhs Gen.JavaGrammar.ruleNames startRule { syms := ["statement"], mayNil := false } [.child 1] = false := by
  decide +kernel
example : NavTree.runA Gen.JavaGrammar.rhs Gen.JavaGrammar.ruleNames startRule { syms := ["statement"], mayNil := false } [.guardCount 3, .child 1, .deref] = true := by
  decide +kernel
/-- an unchecked assertion on a blockStatement's first child is not safe; after the reflect test it is -/
example : NavTree.runA Gen.JavaGrammar.rhs Gen.JavaGrammar.ruleNames startRule { syms := ["blockStatement"], mayNil := false } [.child 0, .assertSym ["statement"]] = false := by
  decide +kernel
example : NavTree.runA Gen.JavaGrammar.rhs Gen.JavaGrammar.ruleNames startRule { syms := ["blockStatement"], mayNil := false }
    [.child 0, .guardSym ["statement"], .assertSym ["statement"], .deref] = true := by
  decide +kernel

end CocaVerif.Props.C09
