/-
  C09 — Every pass completes without crashing on any valid Java source (static part + search).

  PARTIAL by nature of the technique: the runtime panic is a property of the Go program; what is proved
  here is the class of crashes that is decided by the grammar alone.
  * `accessor_present` — for EVERY parse-tree node that conforms to a grammar, a child accessor whose
    symbol occurs in every word of the rule's right-hand side (`Rx.always`, proved sound against the
    regular language in Base/Rx.lean) returns a child, never nil;
  * `all_accessor_sites_safe` — every place in the eight listener / converter files where the result of a
    child accessor is dereferenced (121 sites, regenerated from the Go source on every run, with the
    rule of the receiver and the nil tests that dominate the use) is nil-guarded or mandatory in the
    shipped grammar (regenerated from JavaParser.g4); so by `site_never_nil` none of them can
    dereference nil on any tree an error-free parse produces — any size, any nesting;
  * `no_listener_file_missing` — all eight files were found.
  Not decided statically (counted in `Gen.NavSites.unanalysed`, covered by the grammar-wide search on the
  real code): GetChild(i) / GetParent() chains, unchecked type assertions on those, constant indexes and
  slice expressions on texts, helper functions without a context parameter.
-/
import CocaVerif.Model.Nav

namespace CocaVerif.Props.C09
open CocaVerif CocaVerif.Nav

theorem findIdx_of_mem (l : List String) (x : String) (h : x ∈ l) : (l.findIdx? (· == x)).isSome = true := by
  induction l with
  | nil => cases h
  | cons a l ih =>
    simp only [List.findIdx?_cons]
    by_cases e : (a == x) = true
    · simp [e]
    · simp only [e, Bool.false_eq_true, if_false]
      have : x ∈ l := by
        rcases List.mem_cons.mp h with rfl | h'
        · simp at e
        · exact h'
      have := ih this
      cases hh : l.findIdx? (· == x) with
      | none => rw [hh] at this; simp at this
      | some i => simp

/-- a mandatory child is never nil -/
theorem accessor_present (g : String → Rx) (n : Node) (x : String) (hc : Conforms g n) (h : (g n.rule).always x = true) :
    (accessor n x).isSome = true :=
  findIdx_of_mem n.kids x (Rx.always_sound x hc h)

/-- the general form: if in every possible profile of the rule that contains the symbols known to be present the
    accessor's symbol is present too (star certificates checked), the accessor returns a child on every conforming node
    that has those symbols -/
theorem accessor_present_given (g : String → Rx) (n : Node) (x : String) (given : List String) (hc : Conforms g n)
    (hok : (Rx.pv (x :: given) (g n.rule)).2 = true)
    (hall : (Rx.pv (x :: given) (g n.rule)).1.all (fun p => !(given.all fun y => p.contains y) || p.contains x) = true)
    (hgiven : ∀ y ∈ given, y ∈ n.kids) : (accessor n x).isSome = true := by
  have hp := Rx.pv_sound (x :: given) hc hok
  have hx := (List.all_eq_true.mp hall) _ hp
  have hg : (given.all fun y => (Rx.prof (x :: given) n.kids).contains y) = true := by
    apply List.all_eq_true.mpr
    intro y hy
    rw [Rx.prof_contains _ _ y (List.mem_cons_of_mem _ hy)]
    exact List.contains_iff_mem.mpr (hgiven y hy)
  simp only [hg, Bool.not_true, Bool.false_or] at hx
  rw [Rx.prof_contains _ _ x (List.mem_cons_self)] at hx
  exact findIdx_of_mem n.kids x (List.contains_iff_mem.mp hx)

/-- every accessor dereference of the listeners is guarded in the code, or present whenever the children the code
    has already tested are present, in the shipped grammar -/
theorem all_accessor_sites_safe : unsafeSites Gen.JavaGrammar.rhs Gen.NavSites.sites = [] := by decide

theorem no_listener_file_missing : Gen.NavSites.missingFiles = [] := rfl

/-- so: at a site without its own nil test, on every node of that rule from an error-free parse on which the tested
    children are present, the accessor returns a child -/
theorem site_never_nil (s : Gen.NavSites.Site) (hs : s ∈ Gen.NavSites.sites) (hg : s.guarded = false)
    (n : Node) (hr : n.rule = s.rule) (hc : Conforms Gen.JavaGrammar.rhs n) (hgiven : ∀ y ∈ s.given, y ∈ n.kids) :
    (accessor n s.sym).isSome = true := by
  have h0 : siteSafe Gen.JavaGrammar.rhs s = true := by
    have hu := all_accessor_sites_safe
    by_cases e : siteSafe Gen.JavaGrammar.rhs s = true
    · exact e
    · have : s ∈ unsafeSites Gen.JavaGrammar.rhs Gen.NavSites.sites := by
        simp only [unsafeSites, List.mem_filter]
        exact ⟨hs, by simpa using e⟩
      rw [hu] at this; cases this
  simp only [siteSafe, hg, Bool.false_or, Bool.and_eq_true] at h0
  rw [← hr] at h0
  exact accessor_present_given _ n s.sym s.given hc h0.1 h0.2 hgiven

end CocaVerif.Props.C09
