/-
  C04 — Reverse call graph is the exact inverse of the project-internal call relation.
  For EVERY model and target.  `direct_callers_present` is FALSE of the code as it stands (the
  `return ""` taken on `child == lastChild`, pinned by the repository's own test
  TestRCallGraph_Constructor): the full statement is kept as `direct_callers_present_full : Prop`,
  refuted by a concrete witness, and the proved theorem is `direct_callers_present_partial`.
-/
import CocaVerif.Proofs.RCall

namespace CocaVerif.Props.C04
open CocaVerif.Call

/-- the reverse-call map built by the Go loop lists, for each callee, exactly the callers of the call
    sites resolving to it — one per call site, in source order — and only for declared callees. -/
theorem rmap_exact (clzs : List DS) (callee : String) :
    GoMap.getL (buildMethodCallMap clzs) callee =
      if (declared clzs).contains callee then
        (callSites clzs).filterMap fun s => if s.2 == callee then some s.1 else none
      else [] :=
  buildMethodCallMap_get clzs callee

/-- no method that is not declared in the project occurs as a key with callers … -/
theorem rmap_keys_declared (clzs : List DS) (callee : String)
    (h : GoMap.getL (buildMethodCallMap clzs) callee ≠ []) : callee ∈ declared clzs := by
  rw [rmap_exact] at h
  cases hd : (declared clzs).contains callee
  · rw [hd] at h; simp at h
  · simpa using hd

/-- … nor as a caller: every listed caller is the full name of a declared method -/
theorem rmap_values_declared (clzs : List DS) (callee caller : String)
    (h : caller ∈ GoMap.getL (buildMethodCallMap clzs) callee) : caller ∈ declared clzs := by
  rw [rmap_exact] at h
  split at h
  · simp only [List.mem_filterMap] at h
    obtain ⟨s, hs, hsome⟩ := h
    have : s.1 = caller := by
      split at hsome
      · simpa using hsome
      · simp at hsome
    subst this
    simp only [callSites, List.mem_flatMap, List.mem_map] at hs
    obtain ⟨d, hd, f, hf, c, _, rfl⟩ := hs
    simp only [declared, List.mem_flatMap, List.mem_map]
    exact ⟨d, hd, f, hf, rfl⟩
  · simp at h

/-- every edge caller -> callee comes from the map and lies on a caller chain ending at the target -/
theorem redge_sound (c : RCfg) (fuel : Nat) (st : RSt) (target : String) :
    ∀ e ∈ edgesOf (rchain c fuel st target).1, e.1 ∈ c.mm e.2 ∧ Up c target e.2 :=
  rchain_sound c target fuel st target .refl

/-- generation terminates for every graph shape: `rchain` is total and the depth counter stays
    within the fixed budget -/
theorem depth_le_budget (c : RCfg) (fuel : Nat) (st : RSt) (target : String) (h : st.lc ≤ c.depth) :
    (rchain c fuel st target).2.1.lc ≤ c.depth :=
  rchain_bound c fuel st target h

/-- FULL statement of the clause "every direct caller of the target (other than itself) is present",
    for a fresh traversal state. -/
def direct_callers_present_full : Prop :=
  ∀ (c : RCfg) (fuel : Nat) (target : String), 0 < c.depth →
    ∀ ch ∈ c.mm target, ch ≠ target →
      (ch, target) ∈ edgesOf (rchain c (fuel + 1) { lc := 0, last := "" } target).1

/-- PARTIAL: it holds whenever the top-level loop did not take the `return ""` (flag `.2.2`). -/
theorem direct_callers_present_partial (c : RCfg) (fuel : Nat) (st : RSt) (target : String)
    (hb : Gen.Call.rcallBudgetHit st.lc c.depth = false)
    (hna : (rchain c (fuel + 1) st target).2.2 = false) :
    ∀ ch ∈ c.mm target, ch ≠ target → (ch, target) ∈ edgesOf (rchain c (fuel + 1) st target).1 := by
  intro ch hch hne
  have hne' : (c.mm target).isEmpty = false := by
    cases hm : c.mm target with
    | nil => simp [hm] at hch
    | cons _ _ => rfl
  unfold rchain at hna ⊢
  simp only [hb, hne', Bool.false_eq_true, ↓reduceIte] at hna ⊢
  exact (rloopWith_keeps c target (rchain c fuel) _ _ _ hna).2 ch hch hne

/-- the witness configuration: T is called twice by A, and A is called by B -/
def witnessCfg : RCfg :=
  { mm := fun f => if f == "T" then ["A", "A"] else if f == "A" then ["B"] else [], depth := 6 }

/-- on the witness the whole graph is dropped: the direct caller A of T is missing -/
theorem dup_caller_witness :
    (rchain witnessCfg 7 { lc := 0, last := "" } "T").1 = [] ∧
    (rchain witnessCfg 7 { lc := 0, last := "" } "T").2.2 = true := by decide

theorem direct_callers_present_full_fails : ¬ direct_callers_present_full := by
  intro h
  have := h witnessCfg 6 "T" (by decide) "A" (by decide) (by decide)
  rw [dup_caller_witness.1] at this
  simp at this

/-- non-vacuity of the partial theorem: a target with two distinct callers, no repeat -/
example : (rchain { mm := fun f => if f == "T" then ["A", "B"] else [], depth := 6 } 7 { lc := 0, last := "" } "T").2.2 = false ∧
    Gen.Call.rcallBudgetHit 0 6 = false := by decide

end CocaVerif.Props.C04
