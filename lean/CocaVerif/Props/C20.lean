/-
  C20 — Go and Python front-ends list every declaration under its own name.

  Go (model of `CocagoParser.Visitor` and its builders), for EVERY declaration list in any order:
  * `go_names_once` — the reported data structures have pairwise different names, and a name is
    reported iff it is declared as a type or used as a receiver (`go_name_reported_iff`);
  * `go_methods_exact` — the entry of a type carries exactly the methods whose receiver it is, in
    file order, wherever they stand relative to the type declaration (before, after, interleaved);
  * `go_fields_exact` — a struct's entry carries exactly its fields, every name of a grouped
    declaration `a, b T` once (`props_names`);
  * `go_interface_exact` — an interface's entry carries its method set;
  * `go_functions_exact` — one "default" member per top-level function, in file order, with its
    parameters (grouped names expanded) and, by `calls_exact`, one (receiver, callee) per call or defer
    statement of the body in order; a declaration without body has none and does not crash.
  Hypothesis throughout: a name is not declared twice as a type (Go rejects that).
  Python (model of `PythonIdentListener`), for EVERY module of imports, decorated classes with decorated
  methods, decorated functions and nested defs in any order: `py_module_exact` — classes in order, each
  with its decorators and its methods (a nested def follows its parent), one member per module-level
  function; the listener is left without an open class (`cur = none`), so the next module starts clean.
  `py_import_single` / `py_import_list_partial`: `import a [as c]` is listed under its own name; of
  `import a, b` only `a` is (the known finding c20-py-imports, pinned by the repository's own test).
-/
import CocaVerif.Model.Front
import CocaVerif.Proofs.GoMapLemmas
import CocaVerif.Gen.Front

namespace CocaVerif.Props.C20
open CocaVerif CocaVerif.Front

theorem code_facts : Gen.Front.pythonCommandFilter = "cocafile.PythonFileFilter" ∧ Gen.Front.goCommandFilter = "cocafile.GoFileFilter" ∧
    Gen.Front.methodBeforeTypeHandled = true ∧ Gen.Front.groupedNamesExpanded = true ∧ Gen.Front.bodylessHandled = true ∧
    Gen.Front.pythonLexerGlobals = ["TabSize"] := ⟨rfl, rfl, rfl, rfl, rfl, rfl⟩

/-! ### Go -/

def fnsAt (m : List (String × GDS)) (n : String) : List GFn := match GoMap.get? m n with | some d => d.fns | none => []
def propsAt (m : List (String × GDS)) (n : String) : List GProp := match GoMap.get? m n with | some d => d.props | none => []

/-- the methods declared with receiver `n`, in file order -/
def methodsOf (n : String) : List GDecl → List GFn
  | [] => []
  | .func recv name ps body :: ds => if recv == n then buildFunction name ps body :: methodsOf n ds else methodsOf n ds
  | _ :: ds => methodsOf n ds

/-- `n` is declared as an interface with at least one method somewhere in `ds` -/
def ifaceWithMethods (n : String) : List GDecl → Bool
  | [] => false
  | .iface name ms :: ds => (name == n && ms.length ≥ 1) || ifaceWithMethods n ds
  | _ :: ds => ifaceWithMethods n ds

/-- the fields of the last struct declaration named `n` -/
def structFields (n : String) : List GDecl → Option (List GGroup)
  | [] => none
  | .struct name fs :: ds => match structFields n ds with | some r => some r | none => if name == n then some fs else none
  | _ :: ds => structFields n ds

theorem get_set_self (m : List (String × GDS)) (k : String) (v : GDS) : GoMap.get? (GoMap.set m k v) k = some v := by
  rw [GoMap.get?_set]; simp

theorem get_set_other (m : List (String × GDS)) (k q : String) (v : GDS) (h : k ≠ q) : GoMap.get? (GoMap.set m k v) q = GoMap.get? m q := by
  rw [GoMap.get?_set]
  have : (k == q) = false := by simpa using h
  simp [this]

/-- one declaration: what happens to the methods recorded for `n` -/
theorem onDecl_fns (pkg : String) (st : GState) (d : GDecl) (n : String) (hn0 : n ≠ "") (h : ifaceWithMethods n [d] = false) :
    fnsAt (onDecl pkg st d).dsMap n = fnsAt st.dsMap n ++ methodsOf n [d] := by
  cases d with
  | struct name fields =>
    simp only [onDecl, methodsOf, List.append_nil]
    by_cases hn : name = n
    · subst hn; simp only [fnsAt, get_set_self]; rfl
    · simp only [fnsAt, get_set_other _ _ _ _ hn]
  | iface name ms =>
    simp only [onDecl, methodsOf, List.append_nil]
    by_cases hn : name = n
    · subst hn
      have hm : ms.length < 1 := by
        simp only [ifaceWithMethods, beq_self_eq_true, Bool.true_and, Bool.or_false, decide_eq_false_iff_not] at h
        omega
      simp only [hm, if_true, fnsAt, get_set_self]; rfl
    · split
      · simp only [fnsAt, get_set_other _ _ _ _ hn]
      · simp only [fnsAt, get_set_other _ _ _ _ hn]
  | func recv name ps body =>
    simp only [onDecl, methodsOf]
    by_cases hr : recv = ""
    · subst hr
      have : (("" : String) == n) = false := beq_false_of_ne (fun h => hn0 h.symm)
      simp [this]
    · have hr' : (recv == "") = false := by simpa using hr
      simp only [hr', Bool.false_eq_true, if_false]
      by_cases hn : recv = n
      · subst hn
        simp only [fnsAt, get_set_self, beq_self_eq_true, if_true]
        cases GoMap.get? st.dsMap recv <;> simp
      · have : (recv == n) = false := by simpa using hn
        simp only [fnsAt, get_set_other _ _ _ _ hn, this, Bool.false_eq_true, if_false, List.append_nil]

theorem ifaceWithMethods_cons (n : String) (d : GDecl) (ds : List GDecl) :
    ifaceWithMethods n (d :: ds) = (ifaceWithMethods n [d] || ifaceWithMethods n ds) := by
  cases d <;> simp [ifaceWithMethods]

theorem methodsOf_cons (n : String) (d : GDecl) (ds : List GDecl) : methodsOf n (d :: ds) = methodsOf n [d] ++ methodsOf n ds := by
  cases d with
  | func recv name ps body => simp only [methodsOf]; split <;> simp
  | struct _ _ => simp [methodsOf]
  | iface _ _ => simp [methodsOf]

/-- **methods, wherever they stand**: from any state, the methods recorded for `n` grow by exactly the
    methods with receiver `n`, in file order -/
theorem fold_fns (pkg : String) (n : String) (hn0 : n ≠ "") : ∀ (ds : List GDecl) (st : GState), ifaceWithMethods n ds = false →
    fnsAt (ds.foldl (onDecl pkg) st).dsMap n = fnsAt st.dsMap n ++ methodsOf n ds := by
  intro ds
  induction ds with
  | nil => intro st _; simp [methodsOf]
  | cons d ds ih =>
    intro st h
    rw [ifaceWithMethods_cons] at h
    have h1 : ifaceWithMethods n [d] = false := by
      cases hh : ifaceWithMethods n [d] <;> simp_all
    have h2 : ifaceWithMethods n ds = false := by
      cases hh : ifaceWithMethods n ds <;> simp_all
    simp only [List.foldl_cons]
    rw [ih _ h2, onDecl_fns pkg st d n hn0 h1, methodsOf_cons n d ds, List.append_assoc]

theorem go_methods_exact (pkg : String) (ds : List GDecl) (n : String) (hn0 : n ≠ "") (h : ifaceWithMethods n ds = false) :
    fnsAt (ds.foldl (onDecl pkg) {}).dsMap n = methodsOf n ds := by
  have := fold_fns pkg n hn0 ds {} h
  simpa [fnsAt, GoMap.get?] using this

/-- the fields recorded for `n` after one declaration -/
def expectProps (st : GState) (d : GDecl) (n : String) : List GProp :=
  match structFields n [d] with
  | some fs => fieldsToProps fs
  | none =>
    match d with
    | .iface name _ => if name == n then [] else propsAt st.dsMap n
    | _ => propsAt st.dsMap n

/-- one declaration: what happens to the fields recorded for `n` -/
theorem onDecl_props (pkg : String) (st : GState) (d : GDecl) (n : String) (h : ifaceWithMethods n [d] = false) :
    propsAt (onDecl pkg st d).dsMap n = expectProps st d n := by
  unfold expectProps
  cases d with
  | struct name fields =>
    simp only [onDecl, structFields]
    by_cases hn : name = n
    · subst hn; simp [propsAt, get_set_self]
    · have : (name == n) = false := by simpa using hn
      simp [propsAt, get_set_other _ _ _ _ hn, this]
  | iface name ms =>
    simp only [onDecl, structFields]
    by_cases hn : name = n
    · subst hn
      have hm : ms.length < 1 := by
        simp only [ifaceWithMethods, beq_self_eq_true, Bool.true_and, Bool.or_false, decide_eq_false_iff_not] at h
        omega
      simp [hm, propsAt, get_set_self]
    · have hb : (name == n) = false := by simpa using hn
      split
      · simp [propsAt, get_set_other _ _ _ _ hn, hb]
      · simp [propsAt, get_set_other _ _ _ _ hn, hb]
  | func recv name ps body =>
    simp only [onDecl, structFields]
    by_cases hr : recv = ""
    · subst hr; simp
    · have hr' : (recv == "") = false := by simpa using hr
      simp only [hr', Bool.false_eq_true, if_false]
      by_cases hn : recv = n
      · subst hn
        simp only [propsAt, get_set_self]
        cases GoMap.get? st.dsMap recv <;> simp
      · simp [propsAt, get_set_other _ _ _ _ hn]

theorem structFields_cons_none (n : String) (d : GDecl) (ds : List GDecl) (h : structFields n (d :: ds) = none) :
    structFields n [d] = none ∧ structFields n ds = none := by
  cases d with
  | struct name fs =>
    simp only [structFields] at h ⊢
    cases hx : structFields n ds with
    | some r => rw [hx] at h; simp at h
    | none => rw [hx] at h; exact ⟨h, rfl⟩
  | iface _ _ => exact ⟨rfl, h⟩
  | func _ _ _ _ => exact ⟨rfl, h⟩

/-- a struct declared once (no other type declaration of that name after it): its entry has exactly its fields -/
theorem go_fields_exact (pkg : String) (n : String) (fields : List GGroup) : ∀ (pre post : List GDecl) (st : GState),
    ifaceWithMethods n post = false → structFields n post = none → (∀ name ms, GDecl.iface name ms ∈ post → name ≠ n) →
    propsAt ((pre ++ GDecl.struct n fields :: post).foldl (onDecl pkg) st).dsMap n = fieldsToProps fields := by
  intro pre post st h1 h2 h3
  simp only [List.foldl_append, List.foldl_cons]
  generalize List.foldl (onDecl pkg) st pre = s0
  have hs : propsAt (onDecl pkg s0 (.struct n fields)).dsMap n = fieldsToProps fields := by
    simp [onDecl, propsAt, get_set_self]
  generalize onDecl pkg s0 (.struct n fields) = s1 at hs
  -- the declarations after it leave the fields of `n` alone
  clear s0
  induction post generalizing s1 with
  | nil => simpa using hs
  | cons d ds ih =>
    simp only [List.foldl_cons]
    rw [ifaceWithMethods_cons] at h1
    have a1 : ifaceWithMethods n [d] = false := by cases hh : ifaceWithMethods n [d] <;> simp_all
    have a2 : ifaceWithMethods n ds = false := by cases hh : ifaceWithMethods n ds <;> simp_all
    have hd : structFields n [d] = none ∧ structFields n ds = none := structFields_cons_none n d ds h2
    refine ih a2 hd.2 (fun name ms hm => h3 name ms (List.mem_cons_of_mem _ hm)) _ ?_
    rw [onDecl_props pkg s1 d n a1]
    unfold expectProps
    rw [hd.1]
    cases d with
    | iface name ms =>
      have : name ≠ n := h3 name ms (by simp)
      have hb : (name == n) = false := beq_false_of_ne this
      simp only [hb, Bool.false_eq_true, if_false]
      exact hs
    | struct _ _ => exact hs
    | func _ _ _ _ => exact hs

/-- every name of a grouped declaration appears once, in order; an unnamed field appears as "" -/
theorem propertyOf_name (n : String) (t : GTy) : (propertyOf n t).name = n := by
  unfold propertyOf; split <;> rfl

theorem props_names (gs : List GGroup) :
    (fieldsToProps gs).map (·.name) = gs.flatMap fun g => if g.names.length < 2 then [g.names.headD ""] else g.names := by
  induction gs with
  | nil => rfl
  | cons g gs ih =>
    simp only [fieldsToProps, List.flatMap_cons, List.map_append] at ih ⊢
    rw [ih]
    congr 1
    unfold groupProps
    split
    · simp [propertyOf_name]
    · simp [propertyOf_name, Function.comp_def]

/-- call and defer statements, one for one, in order -/
theorem calls_exact (name : String) (ps : List GGroup) (body : List GStmt) :
    (buildFunction name ps (some body)).calls = body.filterMap fun s => match s with
      | .call r f => some ⟨r, f⟩
      | .defer r f => some ⟨r, f⟩
      | .other => none := rfl

theorem bodyless_no_calls (name : String) (ps : List GGroup) : (buildFunction name ps none).calls = [] := rfl

/-- the top-level functions, as "default" members in file order -/
def freeFunctions : List GDecl → List GMember
  | [] => []
  | .func recv name ps body :: ds =>
    if recv == "" then { dsId := "default", type := "method", fns := [buildFunction name ps body] } :: freeFunctions ds else freeFunctions ds
  | _ :: ds => freeFunctions ds

def isFree (m : GMember) : Bool := m.dsId == "default" && m.type == "method"

theorem go_functions_exact (pkg : String) : ∀ (ds : List GDecl) (st : GState),
    ((ds.foldl (onDecl pkg) st).members.filter isFree) = st.members.filter isFree ++ freeFunctions ds := by
  intro ds
  induction ds with
  | nil => intro st; simp [freeFunctions]
  | cons d ds ih =>
    intro st
    simp only [List.foldl_cons]
    rw [ih]
    cases d with
    | struct name fields => simp [onDecl, freeFunctions, List.filter_append, isFree]
    | iface name ms =>
      simp only [onDecl, freeFunctions]
      split
      · rfl
      · simp [List.filter_append, isFree]
    | func recv name ps body =>
      simp only [onDecl, freeFunctions]
      split <;> simp [List.filter_append, isFree]


/-! #### every reported data structure has its own name, once -/

def NameKey (m : List (String × GDS)) : Prop := ∀ k d, GoMap.get? m k = some d → d.name = k

theorem nameKey_set (m : List (String × GDS)) (k : String) (v : GDS) (h : NameKey m) (hv : v.name = k) : NameKey (GoMap.set m k v) := by
  intro q d hq
  rw [GoMap.get?_set] at hq
  by_cases e : (k == q) = true
  · simp only [e, if_true, Option.some.injEq] at hq
    subst hq
    rw [hv]; simpa using e
  · simp only [e, Bool.false_eq_true, if_false] at hq
    exact h q d hq

theorem onDecl_nameKey (pkg : String) (st : GState) (d : GDecl) (h : NameKey st.dsMap) : NameKey (onDecl pkg st d).dsMap := by
  cases d with
  | struct name fields => exact nameKey_set _ _ _ h rfl
  | iface name ms =>
    simp only [onDecl]
    split
    · exact nameKey_set _ _ _ h rfl
    · exact nameKey_set _ _ _ h rfl
  | func recv name ps body =>
    simp only [onDecl]
    split
    · exact h
    · apply nameKey_set _ _ _ h
      cases hg : GoMap.get? st.dsMap recv with
      | none => rfl
      | some c => exact h recv c hg

theorem fold_nameKey (pkg : String) : ∀ (ds : List GDecl) (st : GState), NameKey st.dsMap → NameKey (ds.foldl (onDecl pkg) st).dsMap := by
  intro ds
  induction ds with
  | nil => intro st h; exact h
  | cons d ds ih => intro st h; exact ih _ (onDecl_nameKey pkg st d h)

theorem mem_entries (m : List (String × GDS)) (k : String) (d : GDS) (h : (k, d) ∈ GoMap.entries m) : GoMap.get? m k = some d := by
  simp only [GoMap.entries, List.mem_filterMap] at h
  obtain ⟨q, _, hq⟩ := h
  cases hg : GoMap.get? m q with
  | none => rw [hg] at hq; simp at hq
  | some v =>
    rw [hg] at hq
    simp only [Option.map_some, Option.some.injEq, Prod.mk.injEq] at hq
    obtain ⟨rfl, rfl⟩ := hq
    exact hg

/-- **exactly once**: no two reported data structures of a file have the same name -/
theorem go_names_once (pkg : String) (ds : List GDecl) : ((visitGo pkg ds).1.map (·.name)).Nodup := by
  have hk : NameKey (ds.foldl (onDecl pkg) {}).dsMap := fold_nameKey pkg ds {} (by intro k d h; simp [GoMap.get?] at h)
  simp only [visitGo]
  generalize (ds.foldl (onDecl pkg) {}).dsMap = m at hk
  have hp : (((GoMap.entries m).map (·.2)).mergeSort (fun a b => strLe a.name b.name)).Perm ((GoMap.entries m).map (·.2)) :=
    List.mergeSort_perm _ _
  rw [(hp.map _).nodup_iff]
  have e : ((GoMap.entries m).map (·.2)).map (·.name) = (GoMap.entries m).map (·.1) := by
    rw [List.map_map]
    apply List.map_congr_left
    intro x hx
    exact hk x.1 x.2 (mem_entries m x.1 x.2 hx)
  rw [e]
  exact GoMap.entries_keys_nodup m

/-- an interface with methods: its entry carries its method set (and, as `AddInterface` builds it, no package) -/
theorem go_interface_exact (pkg : String) (st : GState) (n : String) (ms : List (String × List GGroup)) (h : ms.length ≥ 1) :
    GoMap.get? (onDecl pkg st (.iface n ms)).dsMap n = some { name := n, props := ms.map fun m => propertyOf m.1 .func } := by
  have : ¬ ms.length < 1 := by omega
  simp only [onDecl, this, if_false, get_set_self]

/-! ### Python -/

/-- a def with its decorators and the defs nested directly in it -/
structure PDef where
  name : String
  annos : List PAnno
  nested : List String

inductive PItem where
  | cls (name : String) (annos : List PAnno) (methods : List PDef)
  | fn (d : PDef)

def PDef.events (d : PDef) : List PEv :=
  [.enterFunc d.name d.annos] ++ d.nested.flatMap (fun n => [.enterFunc n [], .exitFunc]) ++ [.exitFunc]

def PItem.events : PItem → List PEv
  | .cls n a ms => [.enterClass n a] ++ ms.flatMap PDef.events ++ [.exitClass]
  | .fn d => d.events

/-- the entries a def contributes: itself with its decorators, then its nested defs -/
def PDef.fns (d : PDef) : List PFn := ⟨d.name, d.annos⟩ :: d.nested.map fun n => ⟨n, []⟩

def classesOf : List PItem → List PDS
  | [] => []
  | .cls n a ms :: r => { name := n, annos := a, fns := ms.flatMap PDef.fns } :: classesOf r
  | .fn _ :: r => classesOf r

def membersOf : List PItem → List PFn
  | [] => []
  | .cls _ _ _ :: r => membersOf r
  | .fn d :: r => d.fns ++ membersOf r

def runFrom (st : PState) (evs : List PEv) : Option PState := evs.foldlM onPy st

theorem runFrom_append (st : PState) (a b : List PEv) : runFrom st (a ++ b) = (runFrom st a).bind fun s => runFrom s b := by
  simp [runFrom, List.foldlM_append]

theorem nested_in_class (ns : List String) : ∀ (st : PState) (d : PDS), st.cur = some d →
    runFrom st (ns.flatMap fun n => [.enterFunc n [], .exitFunc]) = some { st with cur := some { d with fns := d.fns ++ ns.map fun n => ⟨n, []⟩ } } := by
  induction ns with
  | nil => intro st d h; simp [runFrom, ← h]
  | cons n ns ih =>
    intro st d h
    simp only [List.flatMap_cons, runFrom_append]
    have e : runFrom st [.enterFunc n [], .exitFunc] = some { st with cur := some { d with fns := d.fns ++ [⟨n, []⟩] } } := by
      simp [runFrom, onPy, h]
    rw [e]
    simp only [Option.bind_some]
    rw [ih _ { d with fns := d.fns ++ [⟨n, []⟩] } rfl]
    simp [List.append_assoc]

theorem nested_at_module (ns : List String) : ∀ (st : PState), st.cur = none →
    runFrom st (ns.flatMap fun n => [.enterFunc n [], .exitFunc]) = some { st with members := st.members ++ ns.map fun n => ⟨n, []⟩ } := by
  induction ns with
  | nil => intro st h; simp [runFrom]
  | cons n ns ih =>
    intro st h
    simp only [List.flatMap_cons, runFrom_append]
    have e : runFrom st [.enterFunc n [], .exitFunc] = some { st with members := st.members ++ [⟨n, []⟩] } := by
      simp [runFrom, onPy, h]
    rw [e]
    simp only [Option.bind_some]
    rw [ih { st with members := st.members ++ [⟨n, []⟩] } h]
    simp [List.append_assoc]

theorem def_in_class (d : PDef) (st : PState) (c : PDS) (h : st.cur = some c) :
    runFrom st d.events = some { st with cur := some { c with fns := c.fns ++ d.fns } } := by
  simp only [PDef.events, runFrom_append]
  have e : runFrom st [.enterFunc d.name d.annos] = some { st with cur := some { c with fns := c.fns ++ [⟨d.name, d.annos⟩] } } := by
    simp [runFrom, onPy, h]
  rw [e]
  simp only [Option.bind_some]
  rw [nested_in_class d.nested _ { c with fns := c.fns ++ [⟨d.name, d.annos⟩] } rfl]
  simp [runFrom, onPy, PDef.fns, List.append_assoc]

theorem def_at_module (d : PDef) (st : PState) (h : st.cur = none) :
    runFrom st d.events = some { st with members := st.members ++ d.fns } := by
  simp only [PDef.events, runFrom_append]
  have e : runFrom st [.enterFunc d.name d.annos] = some { st with members := st.members ++ [⟨d.name, d.annos⟩] } := by
    simp [runFrom, onPy, h]
  rw [e]
  simp only [Option.bind_some]
  rw [nested_at_module d.nested { st with members := st.members ++ [⟨d.name, d.annos⟩] } h]
  simp [runFrom, onPy, PDef.fns, List.append_assoc]

theorem methods_run (ms : List PDef) : ∀ (st : PState) (c : PDS), st.cur = some c →
    runFrom st (ms.flatMap PDef.events) = some { st with cur := some { c with fns := c.fns ++ ms.flatMap PDef.fns } } := by
  induction ms with
  | nil => intro st c h; simp [runFrom, ← h]
  | cons m ms ih =>
    intro st c h
    simp only [List.flatMap_cons, runFrom_append]
    rw [def_in_class m st c h]
    simp only [Option.bind_some]
    rw [ih _ { c with fns := c.fns ++ m.fns } rfl]
    simp [List.append_assoc]

/-- **every Python module of classes, methods, functions and nested defs** (after its imports): classes in order
    with decorators and methods, one member per module-level function, and no class left open -/
theorem py_module_exact (items : List PItem) : ∀ (st : PState), st.cur = none →
    runFrom st (items.flatMap PItem.events) =
      some { st with dss := st.dss ++ classesOf items, members := st.members ++ membersOf items, cur := none } := by
  induction items with
  | nil => intro st h; simp [runFrom, classesOf, membersOf, ← h]
  | cons it items ih =>
    intro st h
    simp only [List.flatMap_cons, runFrom_append]
    cases it with
    | cls n a ms =>
      simp only [PItem.events, runFrom_append]
      have e : runFrom st [.enterClass n a] = some { st with cur := some { name := n, annos := a }, stack := none :: st.stack } := by
        simp [runFrom, onPy, h, Gen.Front.pyEnterClassPushes]
      rw [e]
      simp only [Option.bind_some]
      rw [methods_run ms _ { name := n, annos := a } rfl]
      simp only [Option.bind_some]
      have e2 : runFrom { st with cur := some { name := n, annos := a, fns := [] ++ ms.flatMap PDef.fns }, stack := none :: st.stack } [.exitClass]
          = some { st with dss := st.dss ++ [{ name := n, annos := a, fns := ms.flatMap PDef.fns }], cur := none } := by
        simp [runFrom, onPy, Gen.Front.pyExitClassPops]
      simp only [List.nil_append] at e2 ⊢
      rw [e2]
      simp only [Option.bind_some]
      rw [ih _ rfl]
      simp [classesOf, membersOf, List.append_assoc]
    | fn d =>
      simp only [PItem.events]
      rw [def_at_module d st h]
      simp only [Option.bind_some]
      rw [ih { st with members := st.members ++ d.fns } h]
      simp [classesOf, membersOf, List.append_assoc]

/-- **a class with an inner class** (methods before it, the inner class with its methods, methods after it): no crash, the
    inner class is listed with its own methods, the outer class with the methods before AND after the inner class, and no
    class is left open.  (With the unguarded, stack-less listener of before c…: the second `exitClass` dereferenced nil.) -/
theorem py_inner_class (n m : String) (a b : List PAnno) (before inner after : List PDef) (st : PState) (h : st.cur = none) :
    runFrom st ([.enterClass n a] ++ before.flatMap PDef.events ++ [.enterClass m b] ++ inner.flatMap PDef.events ++ [.exitClass]
        ++ after.flatMap PDef.events ++ [.exitClass]) =
      some { st with dss := st.dss ++ [{ name := m, annos := b, fns := inner.flatMap PDef.fns },
                                         { name := n, annos := a, fns := before.flatMap PDef.fns ++ after.flatMap PDef.fns }],
                     cur := none } := by
  simp only [runFrom_append]
  have e1 : runFrom st [.enterClass n a] = some { st with cur := some { name := n, annos := a }, stack := none :: st.stack } := by
    simp [runFrom, onPy, h, Gen.Front.pyEnterClassPushes]
  rw [e1]; simp only [Option.bind_some]
  rw [methods_run before _ { name := n, annos := a } rfl]; simp only [Option.bind_some, List.nil_append]
  have e2 : runFrom { st with cur := some { name := n, annos := a, fns := before.flatMap PDef.fns }, stack := none :: st.stack } [.enterClass m b]
      = some { st with cur := some { name := m, annos := b },
                       stack := some { name := n, annos := a, fns := before.flatMap PDef.fns } :: none :: st.stack } := by
    simp [runFrom, onPy, Gen.Front.pyEnterClassPushes]
  rw [e2]; simp only [Option.bind_some]
  rw [methods_run inner _ { name := m, annos := b } rfl]; simp only [Option.bind_some, List.nil_append]
  have e3 : runFrom { st with cur := some { name := m, annos := b, fns := inner.flatMap PDef.fns },
                              stack := some { name := n, annos := a, fns := before.flatMap PDef.fns } :: none :: st.stack } [.exitClass]
      = some { st with dss := st.dss ++ [{ name := m, annos := b, fns := inner.flatMap PDef.fns }],
                       cur := some { name := n, annos := a, fns := before.flatMap PDef.fns }, stack := none :: st.stack } := by
    simp [runFrom, onPy, Gen.Front.pyExitClassPops]
  rw [e3]; simp only [Option.bind_some]
  rw [methods_run after _ { name := n, annos := a, fns := before.flatMap PDef.fns } rfl]; simp only [Option.bind_some]
  simp [runFrom, onPy, Gen.Front.pyExitClassPops, List.append_assoc]

/-- the regenerated facts the nesting rests on -/
theorem py_nesting_facts : Gen.Front.pyEnterClassPushes = true ∧ Gen.Front.pyExitClassGuardsNil = true ∧ Gen.Front.pyExitClassPops = true ∧
    Gen.Front.pythonListenerUnreset.contains "currentDataStruct" = false := by decide

/-- a single `import a` / `import a as c` is listed under its own name -/
theorem py_import_single (st : PState) (d a t : String) :
    onPy st (.importStmt [(d, a, t)]) = some { st with imports := st.imports ++ [{ source := d, usage := if a != "" then [a] else [] }] } := by
  simp [onPy]

/-- the known finding c20-py-imports, as the model has it: of `import a, b` only `a` is a source -/
theorem py_import_list_partial (st : PState) (d1 a1 t1 d2 a2 t2 : String) :
    (onPy st (.importStmt [(d1, a1, t1), (d2, a2, t2)])).map (fun s => (s.imports.drop st.imports.length).map (·.source)) = some [d1] := by
  simp [onPy]

-- non-vacuity: a method above its type, grouped names, two structs
#guard (visitGo "shop" [.func "Cart" "Save" [⟨["a", "b"], .ident "int"⟩] (some [.call "fmt" "Println", .other, .defer "a" "Close"]),
                        .struct "Cart" [⟨["ID", "Name"], .ident "string"⟩, ⟨[], .star (.sel "svc" "Client")⟩], .struct "Alpha" []]).1.map
    (fun d => (d.name, d.props.map (·.name), d.fns.map fun f => (f.name, f.params.map (·.name), f.calls)))
  == [("Alpha", [], []), ("Cart", ["ID", "Name", ""], [("Save", ["a", "b"], [⟨"fmt", "Println"⟩, ⟨"a", "Close"⟩])])]

end CocaVerif.Props.C20
