/-
  C08 — Identical input yields identical output on every run.

  The Go runtime randomises the order of every `for … range m` over a map.  The models take that order
  as an iteration oracle σ, and the reports are proved to be the same for EVERY σ that only permutes
  (`OracleOK σ`):
  * `range_collect_same_collection` — whatever is collected by ranging over a map is the same
    collection (functions of a type out of the method map, nullable list, CSV / code-age / team rows…);
  * `sorted_report_same_list` — sorting afterwards gives the same LIST whenever no two distinct rows
    tie on the sort key (every `sort.Slice` / `radix.SortSlice` report: `-s` tables, team summary, code
    age, top authors, word counts);
  * `commutative_accumulation_same` — a result accumulated while ranging is independent of the order
    when the update commutes (counters, sets, sums); `last_writer_wins_depends_on_order` shows the
    shape that would NOT be (and that no modelled report uses);
  * the per-report instances: the functions of a type (`functions_same_collection`), reference counts
    (`count_listing_same`, from C18), git team / code-age rows and top authors for every σ
    (`team_rows_same`, `code_age_same`, `top_authors_total_same`, from C15), bad-smell groups under
    `--sort` (C10 `sort_groups`, `sort_sized_nonincreasing`), `ParseLog`'s flush of the per-commit
    change map for every σ (C14 `blocks_exact`).
  On the real code every family's harness run is executed twice in separate processes (two samples of
  every randomised order) and compared as collections / as lists where an order is promised.
-/
import CocaVerif.Base.Oracle
import CocaVerif.Base.GoMap
import CocaVerif.Props.C15
import CocaVerif.Props.C18

namespace CocaVerif.Props.C08
open CocaVerif

theorem range_collect_same_collection {κ ν β : Type} [BEq κ] (σ : List (κ × ν) → List (κ × ν)) (hσ : OracleOK σ)
    (m : List (κ × ν)) (f : κ × ν → β) : ((σ (GoMap.entries m)).map f).Perm ((GoMap.entries m).map f) :=
  (hσ _).map f

/-- `SetMethodFromMap`: the functions of a type are the same collection whatever the iteration order -/
theorem functions_same_collection (σ : List (String × Fn) → List (String × Fn)) (hσ : OracleOK σ) (methodMap : List (String × Fn)) :
    ((σ (GoMap.entries methodMap)).map (·.2)).Perm ((GoMap.entries methodMap).map (·.2)) :=
  range_collect_same_collection σ hσ methodMap _

theorem sorted_report_same_list {α : Type} (le : α → α → Bool)
    (trans : ∀ a b c, le a b = true → le b c = true → le a c = true) (total : ∀ a b, (le a b || le b a) = true)
    (σ σ' : List α → List α) (hσ : OracleOK σ) (hσ' : OracleOK σ') (rows : List α)
    (untied : ∀ a b, a ∈ rows → b ∈ rows → le a b = true → le b a = true → a = b) :
    (σ rows).mergeSort le = (σ' rows).mergeSort le := by
  rw [sort_oracle_independent le trans total σ hσ rows untied, sort_oracle_independent le trans total σ' hσ' rows untied]

theorem commutative_accumulation_same {α β : Type} (f : β → α → β) (comm : ∀ x y z, f (f z x) y = f (f z y) x)
    (σ σ' : List α → List α) (hσ : OracleOK σ) (hσ' : OracleOK σ') (l : List α) (init : β) :
    (σ l).foldl f init = (σ' l).foldl f init := by
  have h1 := List.Perm.foldl_eq' (f := f) (hσ l) (fun x _ y _ z => comm x y z) init
  have h2 := List.Perm.foldl_eq' (f := f) (hσ' l) (fun x _ y _ z => comm x y z) init
  rw [h1, h2]

/-- what the theorems exclude: an assignment while ranging keeps whichever entry came last -/
theorem last_writer_wins_depends_on_order :
    [(1 : Nat), 2].foldl (fun _ x => x) 0 ≠ [(2 : Nat), 1].foldl (fun _ x => x) 0 := by decide

theorem count_listing_same (clzs : List DS) (σ σ' : List (String × Nat) → List (String × Nat)) (hσ : OracleOK σ) (hσ' : OracleOK σ') :
    (σ (GoMap.entries (Stats.buildCallMap clzs))).mergeSort C18.keyLe = (σ' (GoMap.entries (Stats.buildCallMap clzs))).mergeSort C18.keyLe := by
  rw [C18.count_listing_unique clzs σ hσ, C18.count_listing_unique clzs σ' hσ']

theorem team_rows_same (σ σ' : List (String × Git.Info) → List (String × Git.Info)) (hσ : OracleOK σ) (hσ' : OracleOK σ')
    (commits : List Git.Commit) : (Git.teamSummary σ commits).Perm (Git.teamSummary σ' commits) :=
  (C15.team_rows σ hσ commits).trans (C15.team_rows σ' hσ' commits).symm

theorem code_age_same (σ σ' : List (String × Git.Info) → List (String × Git.Info)) (hσ : OracleOK σ) (hσ' : OracleOK σ')
    (commits : List Git.Commit) : (Git.codeAge σ commits).Perm (Git.codeAge σ' commits) :=
  (C15.code_age_rows σ hσ commits).trans (C15.code_age_rows σ' hσ' commits).symm

theorem top_authors_total_same (σ σ' : List (String × Git.TopAuthor) → List (String × Git.TopAuthor)) (hσ : OracleOK σ) (hσ' : OracleOK σ')
    (commits : List Git.Commit) :
    ((Git.topAuthors σ commits).map (·.commitCount)).sum = ((Git.topAuthors σ' commits).map (·.commitCount)).sum := by
  rw [C15.top_authors_conservation σ hσ commits, C15.top_authors_conservation σ' hσ' commits]

/-! ### non-vacuity: the oracle hypothesis is met by real reorderings (identity, reversal, rotation), so the theorems above
    quantify over schedules that actually differ -/
example {α : Type} : OracleOK (fun l : List α => l) := oracleOK_id
example {α : Type} : OracleOK (fun l : List α => l.reverse) := fun l => List.reverse_perm l
example {α : Type} : OracleOK (fun l : List α => l.tail ++ l.head?.toList) := by
  intro l
  cases l with
  | nil => simp
  | cons a t => simpa using (List.perm_append_comm (l₁ := t) (l₂ := [a]))
example : (fun l : List Nat => l.reverse) [1, 2, 3] ≠ [1, 2, 3] := by decide

end CocaVerif.Props.C08
