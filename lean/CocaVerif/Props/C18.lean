/-
  C18 — Reference counts and evaluation statistics equal what the model contains.
  Proved for EVERY code model (including the concept report's conservation law `concept_sum`).  Formerly open:
  the concept clause `concept_sum` — kept below as a visible `def … : Prop`.
-/
import CocaVerif.Proofs.Stats

namespace CocaVerif.Props.C18
open CocaVerif CocaVerif.Stats

/-- number of recorded call sites that resolve to `k` -/
def sitesOf (clzs : List DS) (k : String) : Nat := ((allCallees clzs).filter (· == k)).length

/-- the reference count of a project method equals the number of recorded call sites that resolve to
    it; methods never called — and everything that is not a project method — are absent -/
theorem count_eq_resolving_sites (clzs : List DS) (k : String) :
    GoMap.get? (buildCallMap clzs) k =
      if (declared clzs).contains k ∧ sitesOf clzs k ≠ 0 then some (sitesOf clzs k) else none := by
  unfold buildCallMap sitesOf
  rw [foldl_count]
  have hf : ((allCallees clzs).filter fun c => (declared clzs).contains c && c == k) =
      if (declared clzs).contains k then (allCallees clzs).filter (· == k) else [] := by
    cases hD : (declared clzs).contains k
    · simp only [Bool.false_eq_true, ↓reduceIte, List.filter_eq_nil_iff]
      intro c _
      cases hk : (c == k)
      · simp
      · have e : c = k := by simpa using hk
        rw [e, hD]; simp
    · simp only [↓reduceIte]
      apply List.filter_congr
      intro c _
      cases hk : (c == k)
      · simp
      · have e : c = k := by simpa using hk
        rw [e, hD]; simp
  rw [hf]
  have h0 : GoMap.get? ([] : List (String × Nat)) k = none := rfl
  rw [h0]
  cases hD : (declared clzs).contains k
  · simp
  · simp only [↓reduceIte, true_and]
    generalize ((allCallees clzs).filter (· == k)).length = n
    cases n <;> simp

theorem absent_iff_zero (clzs : List DS) (k : String) (hk : (declared clzs).contains k = true) :
    GoMap.get? (buildCallMap clzs) k = none ↔ sitesOf clzs k = 0 := by
  rw [count_eq_resolving_sites]
  by_cases h : sitesOf clzs k = 0
  · rw [if_neg (fun hh => hh.2 h)]; simp [h]
  · rw [if_pos ⟨hk, h⟩]; simp [h]

def keyLe (a b : String × Nat) : Bool := strLe a.1 b.1

theorem keyLe_trans (a b c : String × Nat) : keyLe a b = true → keyLe b c = true → keyLe a c = true := by
  simp only [keyLe, strLe, decide_eq_true_eq]; exact String.le_trans
theorem keyLe_total (a b : String × Nat) : (keyLe a b || keyLe b a) = true := by
  simp only [keyLe, strLe, Bool.or_eq_true, decide_eq_true_eq]; exact String.le_total _ _

/-- the listing is in key order … -/
theorem count_listing_sorted (clzs : List DS) :
    (countReport clzs).Pairwise (fun a b => a.1 ≤ b.1) := by
  have := List.pairwise_mergeSort (le := keyLe) keyLe_trans keyLe_total (GoMap.entries (buildCallMap clzs))
  exact this.imp (fun h => by simpa [keyLe, strLe] using h)

/-- … and REPRODUCIBLE: whatever order the Go runtime ranges over the count map in (any iteration
    oracle σ), the sorted listing is the same list (keys are distinct, so no sort key is tied). -/
theorem count_listing_unique (clzs : List DS) (σ : List (String × Nat) → List (String × Nat)) (hσ : OracleOK σ) :
    (σ (GoMap.entries (buildCallMap clzs))).mergeSort keyLe = countReport clzs := by
  apply sort_oracle_independent keyLe keyLe_trans keyLe_total σ hσ
  intro a b ha hb h1 h2
  have hk : a.1 = b.1 := by
    simp only [keyLe, strLe, decide_eq_true_eq] at h1 h2
    exact String.le_antisymm h1 h2
  have hnd := GoMap.entries_keys_nodup (buildCallMap clzs)
  generalize GoMap.entries (buildCallMap clzs) = es at ha hb hnd
  induction es with
  | nil => simp at ha
  | cons e es ih =>
    simp only [List.map_cons, List.nodup_cons, List.mem_map, not_exists, not_and] at hnd
    rcases List.mem_cons.mp ha with rfl | ha' <;> rcases List.mem_cons.mp hb with rfl | hb'
    · rfl
    · exact absurd hk.symm (hnd.1 b hb')
    · exact absurd hk (hnd.1 a ha')
    · exact ih ha' hb' hnd.2

/-- static methods are recognised whatever the order of a method's modifiers -/
theorem isStatic_perm_invariant (f g : Fn) (h : f.modifiers.Perm g.modifiers) : isStatic f = isStatic g := by
  unfold isStatic
  cases hf : f.modifiers.contains Gen.Stats.staticLiteral <;> cases hg : g.modifiers.contains Gen.Stats.staticLiteral
  · rfl
  · have : Gen.Stats.staticLiteral ∈ f.modifiers := h.symm.subset (by simpa using hg)
    simp at hf; exact absurd this hf
  · have : Gen.Stats.staticLiteral ∈ g.modifiers := h.subset (by simpa using hf)
    simp at hg; exact absurd this hg
  · rfl

/-- the modifier looked for is the keyword `static` -/
theorem static_literal : Gen.Stats.staticLiteral = "static" := rfl

/-- the summary's static-method count is the number of methods carrying `static` -/
theorem static_count_exact (classNodes ids : List DS) :
    (summary classNodes ids).staticMethodCount =
      ((ids.flatMap (·.fns)).filter fun f => f.modifiers.contains "static").length := by
  have hs : isStatic = fun f => f.modifiers.contains "static" := rfl
  simp only [summary, hs]
  induction ids with
  | nil => rfl
  | cons d ds ih =>
    simp only [List.map_cons, List.sum_cons, List.flatMap_cons, List.filter_append, List.length_append]
    rw [ih]

theorem method_class_counts_exact (classNodes ids : List DS) :
    (summary classNodes ids).classCount = ids.length ∧
    (summary classNodes ids).methodCount = (ids.flatMap (·.fns)).length := by
  refine ⟨rfl, ?_⟩
  simp only [summary]
  induction ids with
  | nil => rfl
  | cons d ds ih => simp only [List.map_cons, List.sum_cons, List.flatMap_cons, List.length_append, ih]

/-- nullable methods: each listed once … -/
theorem nullable_listed_once (ids : List DS) : (nullableNames ids).Nodup := by
  unfold nullableNames
  exact GoMap.dedup_nodup _

/-- … and a name is listed iff some method of that full name returns null or is annotated
    @Nullable / @CheckForNull -/
theorem nullable_iff (ids : List DS) (name : String) :
    name ∈ nullableNames ids ↔
      ∃ d ∈ ids, ∃ f ∈ d.fns, Fn.full d f = name ∧
        (f.isReturnNull = true ∨ ∃ a ∈ f.annos, a.name = "Nullable" ∨ a.name = "CheckForNull") := by
  unfold nullableNames
  rw [GoMap.mem_dedup]
  simp only [List.mem_flatMap, List.mem_map, List.mem_filter, isNullableFn, Bool.or_eq_true, List.any_eq_true,
    Gen.Stats.nullableAnnoCond, beq_iff_eq]
  constructor
  · rintro ⟨d, hd, f, ⟨hf, hn⟩, rfl⟩; exact ⟨d, hd, f, hf, rfl, hn⟩
  · rintro ⟨d, hd, f, hf, rfl, hn⟩; exact ⟨d, hd, f, ⟨hf, hn⟩, rfl⟩

/-- the concept report's counts sum to the number of words of the method names that are not stop words -/
theorem concept_sum (clzs : List DS) :
    ((conceptReport clzs).map (·.2)).sum = ((allWords clzs).filter fun w => !stopWords.contains w).length := by
  unfold conceptReport
  generalize allWords clzs = ws
  -- sorting permutes the entries
  have hperm : (conceptReport' ws).Perm (GoMap.entries (removeStop (countWords ws))) := List.mergeSort_perm _ _
  rw [(hperm.map (·.2)).sum_nat]
  have hs := GoMap.sum_entries (fun n : Nat => n) (removeStop (countWords ws))
  rw [hs]
  -- the surviving keys are the non-stop words that occur, each with its number of occurrences
  unfold GoMap.sumW removeStop
  generalize stopWords = S
  rw [removeStop_keys]
  have hval : ∀ q ∈ (GoMap.keys (countWords ws)).filter (fun q => !S.contains q),
      (GoMap.get? (S.foldl GoMap.erase (countWords ws)) q).elim 0 (fun n => n) = ws.count q := by
    intro q hq
    have hns : S.contains q = false := by simpa using (List.mem_filter.mp hq).2
    rw [removeStop_get, hns, countWords_get]
    by_cases hc : ws.count q = 0 <;> simp [hc]
  rw [List.map_congr_left hval]
  have hnd : ((GoMap.keys (countWords ws)).filter fun q => !S.contains q).Nodup :=
    (GoMap.keys_nodup _).sublist List.filter_sublist
  rw [sum_count_nodup _ hnd ws]
  apply congrArg List.length
  apply List.filter_congr
  intro w hw
  -- a word of `ws` is a key of the count map
  have hk : w ∈ GoMap.keys (countWords ws) := by
    apply (GoMap.get?_isSome_iff_mem_keys _ _).mp
    rw [countWords_get]
    have : ws.count w ≠ 0 := by
      have := List.count_pos_iff.mpr hw
      omega
    simp [this]
  cases hst : S.contains w
  · simp only [Bool.not_false]
    exact List.contains_iff_mem.mpr (List.mem_filter.mpr ⟨hk, by rw [hst]; rfl⟩)
  · simp only [Bool.not_true]
    cases hh : ((GoMap.keys (countWords ws)).filter fun q => !S.contains q).contains w
    · rfl
    · have h2 := (List.mem_filter.mp (List.contains_iff_mem.mp hh)).2
      rw [hst] at h2
      cases h2

/-- non-vacuity / regression examples -/
example : isStatic { modifiers := ["static", "public"] } = true ∧ isStatic { modifiers := ["public", "static"] } = true := by decide
#guard wordsOf "parseJSONData" = ["parse", "json", "data"] ∧ wordsOf "process2Items" = ["process", "items"]

end CocaVerif.Props.C18
