/-
  A small backtracking regular-expression matcher with leftmost-first (Perl / Go `regexp`)
  semantics and capture groups, over `List Char`.  Used to model the handful of fixed patterns in
  log_parser.go, changelog.go and astitodo.go.  The patterns themselves are written as `Re` values
  next to their Go source strings (regenerated into Gen/ and pinned by `rfl` theorems); each is also
  compared with Go's real `regexp` on generated and adversarial lines by the correspondence check
  (harness family `regex`).
  Semantics notes: `.` excludes '\n'; `\s` = [\t\n\f\r ]; `\d` = [0-9]; `\w` = [0-9A-Za-z_];
  greedy/lazy repetition explore alternatives in the order a backtracking engine would.
-/
namespace CocaVerif.Rx

inductive Re where
  | eps
  | chr (p : Char → Bool)
  | seq (a b : Re)
  | alt (a b : Re)
  | star (r : Re) (greedy : Bool)
  | grp (i : Nat) (r : Re)
  | bol
  | eol

abbrev Caps := List (Nat × Nat × Nat)   -- (group, start, stop), latest first

def isDigit (c : Char) : Bool := c ≥ '0' && c ≤ '9'
def isWord (c : Char) : Bool := isDigit c || (c ≥ 'a' && c ≤ 'z') || (c ≥ 'A' && c ≤ 'Z') || c == '_'
def isSpace (c : Char) : Bool := c == ' ' || c == '\t' || c == '\n' || c == '\x0c' || c == '\r'
def anyChar (c : Char) : Bool := c != '\n'

def lit (c : Char) : Re := .chr (· == c)
def str (s : String) : Re := s.toList.foldr (fun c r => .seq (lit c) r) .eps
def opt (r : Re) : Re := .alt r .eps
def optLazy (r : Re) : Re := .alt .eps r
def plus (r : Re) (greedy : Bool := true) : Re := .seq r (.star r greedy)
/-- exactly n copies -/
def times : Nat → Re → Re
  | 0, _ => .eps
  | n + 1, r => .seq r (times n r)
/-- between n and m copies, greedy -/
def upTo : Nat → Re → Re
  | 0, _ => .eps
  | k + 1, r => opt (.seq r (upTo k r))
def rep (n m : Nat) (r : Re) : Re := .seq (times n r) (upTo (m - n) r)

/-- continuation-passing matcher. `pos` is the index of `rest` in the whole input, `n` the total
    length (for `$`). Fuel bounds the nesting of calls; `none` on exhaustion never happens with the
    fuel chosen by `fuelFor` (each nested call consumes one unit). -/
def go : Nat → Re → Nat → List Char → Caps → (Nat → List Char → Caps → Option Caps) → Option Caps
  | 0, _, _, _, _, _ => none
  | _ + 1, .eps, pos, rest, caps, k => k pos rest caps
  | _ + 1, .chr p, pos, rest, caps, k =>
    match rest with
    | c :: cs => if p c then k (pos + 1) cs caps else none
    | [] => none
  | f + 1, .seq a b, pos, rest, caps, k => go f a pos rest caps fun p r c => go f b p r c k
  | f + 1, .alt a b, pos, rest, caps, k =>
    match go f a pos rest caps k with
    | some r => some r
    | none => go f b pos rest caps k
  | f + 1, .star r greedy, pos, rest, caps, k =>
    let more := fun (_ : Unit) => go f r pos rest caps fun p' r' c' =>
      if p' > pos then go f (.star r greedy) p' r' c' k else none
    if greedy then
      match more () with
      | some x => some x
      | none => k pos rest caps
    else
      match k pos rest caps with
      | some x => some x
      | none => more ()
  | f + 1, .grp i r, pos, rest, caps, k => go f r pos rest caps fun p' r' c' => k p' r' ((i, pos, p') :: c')
  | _ + 1, .bol, pos, rest, caps, k => if pos == 0 then k pos rest caps else none
  | _ + 1, .eol, pos, rest, caps, k => if rest.isEmpty then k pos rest caps else none

def Re.size : Re → Nat
  | .eps => 1 | .chr _ => 1 | .bol => 1 | .eol => 1
  | .seq a b => a.size + b.size + 1
  | .alt a b => a.size + b.size + 1
  | .star r _ => r.size + 2
  | .grp _ r => r.size + 1

def fuelFor (r : Re) (n : Nat) : Nat := (n + 2) * (r.size + 2) * 2 + 8

/-- match anchored at position `pos` (input suffix `rest`); returns (end, captures) -/
def matchAt (r : Re) (pos : Nat) (rest : List Char) (n : Nat) : Option (Nat × Caps) :=
  match go (fuelFor r n) (.grp 0 r) pos rest [] (fun _ _ c => some c) with
  | some caps =>
    match caps.find? (·.1 == 0) with
    | some (_, _, e) => some (e, caps)
    | none => none
  | none => none

/-- leftmost match searching from `pos` -/
def searchFrom (r : Re) (n : Nat) : Nat → Nat → List Char → Option (Nat × Nat × Caps)
  | 0, pos, rest => (matchAt r pos rest n).map fun (e, c) => (pos, e, c)
  | fuel + 1, pos, rest =>
    match matchAt r pos rest n with
    | some (e, c) => some (pos, e, c)
    | none =>
      match rest with
      | [] => none
      | _ :: cs => searchFrom r n fuel (pos + 1) cs

structure Match where
  start : Nat
  stop : Nat
  caps : Caps

/-- `FindStringSubmatchIndex`-like: leftmost-first match in `s` -/
def find (r : Re) (s : List Char) : Option Match :=
  (searchFrom r s.length s.length 0 s).map fun (a, b, c) => { start := a, stop := b, caps := c }

def isMatch (r : Re) (s : List Char) : Bool := (find r s).isSome

def slice (s : List Char) (a b : Nat) : List Char := (s.drop a).take (b - a)

/-- text of group `i` ("" when the group did not participate — as Go's FindStringSubmatch) -/
def Match.group (m : Match) (s : List Char) (i : Nat) : List Char :=
  match m.caps.find? (·.1 == i) with
  | some (_, a, b) => slice s a b
  | none => []

/-- `FindAllString(s, -1)`: successive non-overlapping leftmost matches (an empty match advances
    by one character, as Go does) -/
def findAll (r : Re) (s : List Char) : List (Nat × Nat) :=
  let n := s.length
  let rec loop : Nat → Nat → List Char → List (Nat × Nat)
    | 0, _, _ => []
    | fuel + 1, pos, rest =>
      match searchFrom r n (n - pos) pos rest with
      | none => []
      | some (a, b, _) =>
        let nxt := if b > a then b else b + 1
        (a, b) :: loop fuel nxt (s.drop nxt)
  loop (n + 1) 0 s

end CocaVerif.Rx
