/-
  Go maps as insertion logs: a `List (κ × ν)` in insertion order, where a later binding of the same
  key overwrites (`m[k] = v`).  `get?` therefore returns the LAST binding.  Iteration order of a Go
  map is unspecified; models that range over a map take an iteration oracle (Base/Oracle.lean).
-/
namespace CocaVerif.GoMap

variable {κ ν : Type} [BEq κ]

/-- `v, ok := m[k]` -/
def get? : List (κ × ν) → κ → Option ν
  | [], _ => none
  | (k, v) :: r, q =>
    match get? r q with
    | some x => some x
    | none => if k == q then some v else none

/-- `m[k]` for slice-valued maps: missing ⇒ nil. -/
def getL (m : List (κ × List ν)) (q : κ) : List ν := (get? m q).getD []

def has (m : List (κ × ν)) (q : κ) : Bool := (get? m q).isSome

/-- `m[k] = v` -/
def set (m : List (κ × ν)) (k : κ) (v : ν) : List (κ × ν) := m ++ [(k, v)]

/-- keys in first-insertion order, each once -/
def keys : List (κ × ν) → List κ
  | [] => []
  | (k, _) :: r => k :: (keys r).filter (fun x => !(x == k))

/-- first occurrences, in order -/
def dedup : List κ → List κ
  | [] => []
  | k :: r => k :: (dedup r).filter (fun x => !(x == k))

theorem dedup_nodup [LawfulBEq κ] (l : List κ) : (dedup l).Nodup := by
  induction l with
  | nil => simp [dedup]
  | cons k r ih =>
    simp only [dedup, List.nodup_cons]
    refine ⟨?_, ih.sublist List.filter_sublist⟩
    intro h
    have := (List.mem_filter.mp h).2
    simp at this

theorem mem_dedup [LawfulBEq κ] (l : List κ) (x : κ) : x ∈ dedup l ↔ x ∈ l := by
  induction l with
  | nil => simp [dedup]
  | cons k r ih =>
    simp only [dedup, List.mem_cons, List.mem_filter, ih]
    constructor
    · rintro (h | ⟨h, _⟩)
      · exact Or.inl h
      · exact Or.inr h
    · rintro (h | h)
      · exact Or.inl h
      · by_cases hx : x = k
        · exact Or.inl hx
        · exact Or.inr ⟨h, by simpa using hx⟩

/-- the map's current bindings (each key once, with its final value), in first-insertion order -/
def entries (m : List (κ × ν)) : List (κ × ν) :=
  (keys m).filterMap fun k => (get? m k).map fun v => (k, v)

/-- `delete(m, k)` -/
def erase (m : List (κ × ν)) (q : κ) : List (κ × ν) := m.filter fun p => !(p.1 == q)

end CocaVerif.GoMap
