/-
  Regular right-hand sides of grammar rules and the two facts the listeners rely on when they
  dereference a child accessor without a nil check: the child occurs in EVERY children word of the
  rule (`always`), or the word starts with it (`firstIs`).  Both are decided structurally and proved
  sound against the language of the expression, so `decide` on a rule of the shipped grammar is a
  proof about every parse-tree node of that rule.
-/
namespace CocaVerif

inductive Rx where
  | eps
  | sym (s : String)
  | seq (a b : Rx)
  | alt (a b : Rx)
  | star (a : Rx)
  deriving Repr, Inhabited

inductive Matches : Rx → List String → Prop
  | eps : Matches .eps []
  | sym (s : String) : Matches (.sym s) [s]
  | seq {a b : Rx} {u v : List String} : Matches a u → Matches b v → Matches (.seq a b) (u ++ v)
  | altL {a b : Rx} {u : List String} : Matches a u → Matches (.alt a b) u
  | altR {a b : Rx} {u : List String} : Matches b u → Matches (.alt a b) u
  | starNil {a : Rx} : Matches (.star a) []
  | starCons {a : Rx} {u v : List String} : Matches a u → Matches (.star a) v → Matches (.star a) (u ++ v)

namespace Rx

/-- `x` occurs in every word of the expression -/
def always (x : String) : Rx → Bool
  | .eps => false
  | .sym s => s == x
  | .seq a b => always x a || always x b
  | .alt a b => always x a && always x b
  | .star _ => false

theorem always_sound (x : String) {r : Rx} {w : List String} (hm : Matches r w) : always x r = true → x ∈ w := by
  induction hm with
  | eps => intro h; simp [always] at h
  | sym s => intro h; simp [always] at h; simp [h]
  | seq _ _ iha ihb =>
    intro h
    simp only [always, Bool.or_eq_true] at h
    rcases h with h | h
    · exact List.mem_append_left _ (iha h)
    · exact List.mem_append_right _ (ihb h)
  | altL _ ih => intro h; simp only [always, Bool.and_eq_true] at h; exact ih h.1
  | altR _ ih => intro h; simp only [always, Bool.and_eq_true] at h; exact ih h.2
  | starNil => intro h; simp [always] at h
  | starCons _ _ _ _ => intro h; simp [always] at h

/-- the empty word is not in the language -/
def nonEmpty : Rx → Bool
  | .eps => false
  | .sym _ => true
  | .seq a b => nonEmpty a || nonEmpty b
  | .alt a b => nonEmpty a && nonEmpty b
  | .star _ => false

theorem nonEmpty_sound {r : Rx} {w : List String} (hm : Matches r w) : nonEmpty r = true → w ≠ [] := by
  induction hm with
  | eps => intro h; simp [nonEmpty] at h
  | sym s => intro _; simp
  | seq _ _ iha ihb =>
    intro h
    simp only [nonEmpty, Bool.or_eq_true] at h
    rcases h with h | h
    · intro e; exact iha h (List.append_eq_nil_iff.mp e).1
    · intro e; exact ihb h (List.append_eq_nil_iff.mp e).2
  | altL _ ih => intro h; simp only [nonEmpty, Bool.and_eq_true] at h; exact ih h.1
  | altR _ ih => intro h; simp only [nonEmpty, Bool.and_eq_true] at h; exact ih h.2
  | starNil => intro h; simp [nonEmpty] at h
  | starCons _ _ _ _ => intro h; simp [nonEmpty] at h

/-! ### presence profiles: which of a few symbols of interest occur in a word -/

/-- the symbols of `S` that occur in `w`, in the order of `S` -/
def prof (S w : List String) : List String := S.filter fun s => w.contains s

/-- profile of a concatenation from the profiles of the parts -/
def join (S p q : List String) : List String := S.filter fun s => p.contains s || q.contains s

theorem prof_contains (S w : List String) (s : String) (hs : s ∈ S) : (prof S w).contains s = w.contains s := by
  cases hw : w.contains s
  · apply Bool.eq_false_iff.mpr
    intro h
    have hm : s ∈ prof S w := List.contains_iff_mem.mp h
    have := (List.mem_filter.mp hm).2
    rw [hw] at this; cases this
  · exact List.contains_iff_mem.mpr (List.mem_filter.mpr ⟨hs, hw⟩)

theorem prof_append (S u v : List String) : prof S (u ++ v) = join S (prof S u) (prof S v) := by
  unfold prof join
  apply List.filter_congr
  intro s hs
  have h1 := prof_contains S u s hs
  have h2 := prof_contains S v s hs
  unfold prof at h1 h2
  rw [h1, h2]
  simp [List.contains_iff_mem, List.mem_append]

def dedupL (l : List (List String)) : List (List String) := l.foldl (fun acc p => if acc.contains p then acc else acc ++ [p]) []

/-- add all joins with a profile of `A`, `n` times -/
def closeN (S : List String) (A : List (List String)) : Nat → List (List String) → List (List String)
  | 0, X => X
  | n + 1, X => closeN S A n (dedupL (X ++ X.flatMap fun q => A.map fun p => join S p q))

/-- the certificate that is checked instead of proving a fixpoint: `X` has the empty profile and is closed under joining with `A` -/
def closed (S : List String) (A X : List (List String)) : Bool :=
  X.contains (prof S []) && A.all fun p => X.all fun q => X.contains (join S p q)

/-- the possible profiles of the words of an expression, and whether every star certificate checked -/
def pv (S : List String) : Rx → List (List String) × Bool
  | .eps => ([prof S []], true)
  | .sym s => ([prof S [s]], true)
  | .seq a b => ((pv S a).1.flatMap fun p => (pv S b).1.map fun q => join S p q, (pv S a).2 && (pv S b).2)
  | .alt a b => ((pv S a).1 ++ (pv S b).1, (pv S a).2 && (pv S b).2)
  | .star a =>
    let X := closeN S (pv S a).1 (S.length + 1) [prof S []]
    (X, (pv S a).2 && closed S (pv S a).1 X)

theorem pv_sound (S : List String) {r : Rx} {w : List String} (hm : Matches r w) : (pv S r).2 = true → prof S w ∈ (pv S r).1 := by
  induction hm with
  | eps => intro _; simp [pv]
  | sym s => intro _; simp [pv]
  | seq _ _ iha ihb =>
    intro h
    simp only [pv, Bool.and_eq_true] at h
    simp only [pv, List.mem_flatMap, List.mem_map]
    exact ⟨_, iha h.1, _, ihb h.2, (prof_append S _ _).symm⟩
  | altL _ ih => intro h; simp only [pv, Bool.and_eq_true] at h; simp only [pv, List.mem_append]; exact Or.inl (ih h.1)
  | altR _ ih => intro h; simp only [pv, Bool.and_eq_true] at h; simp only [pv, List.mem_append]; exact Or.inr (ih h.2)
  | starNil =>
    intro h
    simp only [pv, Bool.and_eq_true, closed, List.contains_iff_mem] at h
    simpa [pv] using h.2.1
  | starCons _ _ iha ihs =>
    intro h
    have h' := h
    simp only [pv, Bool.and_eq_true, closed, List.all_eq_true, List.contains_iff_mem] at h
    have hp := iha h.1
    have hq := ihs h'
    simp only [pv] at hq ⊢
    rw [prof_append]
    exact h.2.2 _ hp _ hq

end Rx
end CocaVerif
