/-
  JSON helpers for the driver (core Lean only).  All accessors are total and *never default
  silently*: a missing/ill-typed field is an `Except` error which the driver reports as `bad-case`.
-/
import Lean.Data.Json
open Lean

namespace CocaVerif.J

def str (j : Json) (k : String) : Except String String :=
  match j.getObjVal? k with
  | .ok (.str s) => .ok s
  | .ok .null => .ok ""          -- Go encodes nothing as null for strings, but be lenient on null
  | .ok _ => .error s!"field {k}: not a string"
  | .error _ => .error s!"field {k}: missing"

/-- optional string field: absent ⇒ "" (Go zero value, used for Go structs decoded from JSON). -/
def strD (j : Json) (k : String) : String :=
  match j.getObjVal? k with
  | .ok (.str s) => s
  | _ => ""

def nat (j : Json) (k : String) : Except String Nat :=
  match j.getObjVal? k with
  | .ok v => match v.getNat? with
    | .ok n => .ok n
    | .error _ => .error s!"field {k}: not a nat"
  | .error _ => .error s!"field {k}: missing"

def natD (j : Json) (k : String) : Nat :=
  match j.getObjVal? k with
  | .ok v => match v.getNat? with
    | .ok n => n
    | .error _ => 0
  | .error _ => 0

def int (j : Json) (k : String) : Except String Int :=
  match j.getObjVal? k with
  | .ok v => match v.getInt? with
    | .ok n => .ok n
    | .error _ => .error s!"field {k}: not an int"
  | .error _ => .error s!"field {k}: missing"

def intD (j : Json) (k : String) : Int :=
  match j.getObjVal? k with
  | .ok v => match v.getInt? with
    | .ok n => n
    | .error _ => 0
  | .error _ => 0

def bool (j : Json) (k : String) : Except String Bool :=
  match j.getObjVal? k with
  | .ok (.bool b) => .ok b
  | .ok _ => .error s!"field {k}: not a bool"
  | .error _ => .error s!"field {k}: missing"

def boolD (j : Json) (k : String) : Bool :=
  match j.getObjVal? k with
  | .ok (.bool b) => b
  | _ => false

/-- array field; `null` or absent ⇒ [] (Go nil slice). -/
def arr (j : Json) (k : String) : List Json :=
  match j.getObjVal? k with
  | .ok (.arr a) => a.toList
  | _ => []

def obj (j : Json) (k : String) : Json :=
  match j.getObjVal? k with
  | .ok v => v
  | .error _ => Json.null

/-- object field as association list in key order (keys are unique in a JSON object). -/
def kvs (j : Json) (k : String) : List (String × Json) :=
  match j.getObjVal? k with
  | .ok (.obj o) => o.toList
  | _ => []

def strs (j : Json) (k : String) : List String :=
  (arr j k).filterMap fun x => match x with | .str s => some s | _ => none

def mkStrs (l : List String) : Json := Json.arr (l.map Json.str).toArray
def mkArr (l : List Json) : Json := Json.arr l.toArray
def mkNat (n : Nat) : Json := Json.num (JsonNumber.fromNat n)
def mkInt (n : Int) : Json := Json.num (JsonNumber.fromInt n)

end CocaVerif.J
