/-
  Iteration oracles: every `for k, v := range m` over a Go map visits the entries in an order the
  runtime randomises.  A model that ranges over a map takes an oracle `σ` (the schedule) and the
  theorems hold for EVERY oracle with `OracleOK σ` (σ only permutes).
-/
namespace CocaVerif

def OracleOK {α : Type} (σ : List α → List α) : Prop := ∀ l, (σ l).Perm l

theorem oracleOK_id {α : Type} : OracleOK (fun l : List α => l) := fun _ => List.Perm.refl _

/-- Sorting after an arbitrary schedule gives the same list, provided the order is total and
    transitive and no two DISTINCT elements of the list are tied (antisymmetric on the list). -/
theorem sort_oracle_independent {α : Type} (le : α → α → Bool)
    (trans : ∀ a b c, le a b = true → le b c = true → le a c = true)
    (total : ∀ a b, (le a b || le b a) = true)
    (σ : List α → List α) (hσ : OracleOK σ) (l : List α)
    (untied : ∀ a b, a ∈ l → b ∈ l → le a b = true → le b a = true → a = b) :
    (σ l).mergeSort le = l.mergeSort le := by
  apply List.Perm.eq_of_pairwise (le := fun a b => le a b = true)
  · intro a b ha hb
    have ha' : a ∈ l := (hσ l).subset ((List.mergeSort_perm _ _).subset ha)
    have hb' : b ∈ l := (List.mergeSort_perm _ _).subset hb
    exact untied a b ha' hb'
  · exact List.pairwise_mergeSort trans total _
  · exact List.pairwise_mergeSort trans total _
  · exact ((List.mergeSort_perm _ _).trans (hσ l)).trans (List.mergeSort_perm _ _).symm

end CocaVerif
