/-
  The part of coca's code model (`pkg/domain/core_domain`) that the analyses read, as plain Lean
  structures, with decoders from the JSON that Go's `encoding/json` writes for the real structs
  (that JSON is what crosses the Lean/Go boundary: the harness unmarshals the *same* text into the
  real `[]core_domain.CodeDataStruct`).
-/
import CocaVerif.Base.J
open Lean

namespace CocaVerif

structure KV where
  key : String
  value : String
  deriving Repr, DecidableEq, Inhabited

structure Anno where
  name : String
  kvs : List KV := []
  deriving Repr, DecidableEq, Inhabited

structure Pos where
  startLine : Int := 0
  startCol : Int := 0
  stopLine : Int := 0
  stopCol : Int := 0
  deriving Repr, DecidableEq, Inhabited

structure Prop_ where            -- CodeProperty (parameters / call arguments)
  typeValue : String := ""
  typeType : String := ""
  deriving Repr, DecidableEq, Inhabited

structure Call where
  pkg : String := ""
  type : String := ""
  node : String := ""
  fn : String := ""
  params : List Prop_ := []
  pos : Pos := {}
  deriving Repr, DecidableEq, Inhabited

structure Fn where
  name : String := ""
  ret : String := ""
  params : List Prop_ := []
  calls : List Call := []
  annos : List Anno := []
  modifiers : List String := []
  override : Bool := false
  isConstructor : Bool := false
  isReturnNull : Bool := false
  pos : Pos := {}
  deriving Repr, DecidableEq, Inhabited

structure Field where
  typeType : String := ""
  typeValue : String := ""
  modifiers : List String := []
  deriving Repr, DecidableEq, Inhabited

structure DS where
  node : String := ""
  type : String := ""
  pkg : String := ""
  path : String := ""
  fields : List Field := []
  ext : String := ""
  impls : List String := []
  fns : List Fn := []
  annos : List Anno := []
  calls : List Call := []
  imports : List String := []
  deriving Repr, DecidableEq, Inhabited

/-- `CodeCall.BuildFullMethodName` -/
def Call.full (c : Call) : String :=
  if c.fn == "" then c.pkg ++ "." ++ c.node else c.pkg ++ "." ++ c.node ++ "." ++ c.fn

/-- `CodeCall.BuildClassFullName` -/
def Call.clsFull (c : Call) : String := c.pkg ++ "." ++ c.node

/-- `CodeFunction.BuildFullMethodName(node)` -/
def Fn.full (d : DS) (f : Fn) : String := d.pkg ++ "." ++ d.node ++ "." ++ f.name

/-- `CodeDataStruct.GetClassFullName` -/
def DS.full (d : DS) : String := d.pkg ++ "." ++ d.node

/-- `CodeFunction.GetAllCallString`: full names of the calls with a non-empty `NodeName`. -/
def Fn.callStrings (f : Fn) : List String :=
  (f.calls.filter (fun c => c.node != "")).map Call.full

namespace Dec
open J

def kv (j : Json) : KV := { key := strD j "Key", value := strD j "Value" }
def anno (j : Json) : Anno := { name := strD j "Name", kvs := (arr j "KeyValues").map kv }
def pos (j : Json) : Pos :=
  { startLine := intD j "StartLine", startCol := intD j "StartLinePosition",
    stopLine := intD j "StopLine", stopCol := intD j "StopLinePosition" }
def prop (j : Json) : Prop_ := { typeValue := strD j "TypeValue", typeType := strD j "TypeType" }
def call (j : Json) : Call :=
  { pkg := strD j "Package", type := strD j "Type", node := strD j "NodeName",
    fn := strD j "FunctionName", params := (arr j "Parameters").map prop, pos := pos (obj j "Position") }
def fn (j : Json) : Fn :=
  { name := strD j "Name", ret := strD j "ReturnType", params := (arr j "Parameters").map prop,
    calls := (arr j "FunctionCalls").map call, annos := (arr j "Annotations").map anno,
    modifiers := strs j "Modifiers", override := boolD j "Override",
    isConstructor := boolD j "IsConstructor", isReturnNull := boolD j "IsReturnNull",
    pos := pos (obj j "Position") }
def field (j : Json) : Field :=
  { typeType := strD j "TypeType", typeValue := strD j "TypeValue", modifiers := strs j "Modifiers" }
def ds (j : Json) : DS :=
  { node := strD j "NodeName", type := strD j "Type", pkg := strD j "Package", path := strD j "FilePath",
    fields := (arr j "Fields").map field, ext := strD j "Extend", impls := strs j "Implements",
    fns := (arr j "Functions").map fn, annos := (arr j "Annotations").map anno,
    calls := (arr j "FunctionCalls").map call,
    imports := (arr j "Imports").map (fun i => strD i "Source") }
def dss (j : Json) (k : String) : List DS := (arr j k).map ds
end Dec

end CocaVerif
