/-
  Parse trees, the navigation the listeners do on them (child accessor, GetChild(i), GetParent(), type
  assertion, dereference), an abstract interpretation of such navigation over a grammar, and its
  soundness: if the abstract run from a node of rule R is safe, the concrete run from ANY node of rule R
  in ANY well-formed tree neither dereferences nil nor fails a type assertion (C09).
-/
import CocaVerif.Base.Rx

namespace CocaVerif.NavTree
open CocaVerif Rx

/-! ### a few more structural facts about right-hand sides -/

/-- the symbol occurs in the expression at all -/
def occurs (x : String) : Rx → Bool
  | .eps => false
  | .sym s => s == x
  | .seq a b => occurs x a || occurs x b
  | .alt a b => occurs x a || occurs x b
  | .star a => occurs x a

theorem occurs_sound (x : String) {r : Rx} {w : List String} (hm : Matches r w) : x ∈ w → occurs x r = true := by
  induction hm with
  | eps => intro h; cases h
  | sym s => intro h; simp at h; simp [occurs, h]
  | seq _ _ iha ihb =>
    intro h
    simp only [occurs, Bool.or_eq_true]
    rcases List.mem_append.mp h with h | h
    · exact Or.inl (iha h)
    · exact Or.inr (ihb h)
  | altL _ ih => intro h; simp only [occurs, Bool.or_eq_true]; exact Or.inl (ih h)
  | altR _ ih => intro h; simp only [occurs, Bool.or_eq_true]; exact Or.inr (ih h)
  | starNil => intro h; cases h
  | starCons _ _ iha ihs =>
    intro h
    rcases List.mem_append.mp h with h | h
    · simpa [occurs] using iha h
    · exact ihs h

/-- the empty word is in the language -/
def nullable : Rx → Bool
  | .eps => true
  | .sym _ => false
  | .seq a b => nullable a && nullable b
  | .alt a b => nullable a || nullable b
  | .star _ => true

theorem nullable_sound {r : Rx} {w : List String} (hm : Matches r w) : w = [] → nullable r = true := by
  induction hm with
  | eps => intro _; rfl
  | sym s => intro h; cases h
  | seq _ _ iha ihb =>
    intro h
    have := List.append_eq_nil_iff.mp h
    simp [nullable, iha this.1, ihb this.2]
  | altL _ ih => intro h; simp [nullable, ih h]
  | altR _ ih => intro h; simp [nullable, ih h]
  | starNil => intro _; rfl
  | starCons _ _ _ _ => intro _; rfl

/-- the possible first symbols -/
def heads : Rx → List String
  | .eps => []
  | .sym s => [s]
  | .seq a b => heads a ++ (if nullable a then heads b else [])
  | .alt a b => heads a ++ heads b
  | .star a => heads a

theorem heads_sound {r : Rx} {w : List String} (hm : Matches r w) : ∀ s t, w = s :: t → s ∈ heads r := by
  induction hm with
  | eps => intro s t h; cases h
  | sym x => intro s t h; cases h; simp [heads]
  | @seq a b u v hu _ iha ihb =>
    intro s t h
    simp only [heads, List.mem_append]
    cases u with
    | nil =>
      simp only [List.nil_append] at h
      have hn := nullable_sound hu rfl
      exact Or.inr (by simp [hn, ihb s t h])
    | cons x u' =>
      simp only [List.cons_append, List.cons.injEq] at h
      exact Or.inl (iha s u' (by rw [h.1]))
  | altL _ ih => intro s t h; simp only [heads, List.mem_append]; exact Or.inl (ih s t h)
  | altR _ ih => intro s t h; simp only [heads, List.mem_append]; exact Or.inr (ih s t h)
  | starNil => intro s t h; cases h
  | @starCons a u v _ _ iha ihs =>
    intro s t h
    cases u with
    | nil => simp only [List.nil_append] at h; exact ihs s t h
    | cons x u' =>
      simp only [List.cons_append, List.cons.injEq] at h
      exact iha s u' (by rw [h.1])

/-- what can follow a first symbol: a list of alternatives, each a sequence of expressions (so that no `empty` constructor is needed) -/
def tails : Rx → List (List Rx)
  | .eps => []
  | .sym _ => [[]]
  | .seq a b => (tails a).map (fun t => t ++ [b]) ++ (if nullable a then tails b else [])
  | .alt a b => tails a ++ tails b
  | .star a => (tails a).map fun t => t ++ [.star a]

/-- a word matches a sequence of expressions -/
inductive MatchesSeq : List Rx → List String → Prop
  | nil : MatchesSeq [] []
  | cons {r : Rx} {rs : List Rx} {u v : List String} : Matches r u → MatchesSeq rs v → MatchesSeq (r :: rs) (u ++ v)

theorem matchesSeq_snoc {rs : List Rx} {w : List String} (h : MatchesSeq rs w) {b : Rx} {v : List String} (hb : Matches b v) :
    MatchesSeq (rs ++ [b]) (w ++ v) := by
  induction h with
  | nil => simpa using MatchesSeq.cons hb MatchesSeq.nil
  | cons hr _ ih => rw [List.append_assoc]; exact MatchesSeq.cons hr ih

theorem tails_sound {r : Rx} {w : List String} (hm : Matches r w) : ∀ s t, w = s :: t → ∃ ts ∈ tails r, MatchesSeq ts t := by
  induction hm with
  | eps => intro s t h; cases h
  | sym x => intro s t h; cases h; exact ⟨[], by simp [tails], MatchesSeq.nil⟩
  | @seq a b u v hu hv iha ihb =>
    intro s t h
    cases u with
    | nil =>
      simp only [List.nil_append] at h
      have hn := nullable_sound hu rfl
      obtain ⟨ts, hts, hm'⟩ := ihb s t h
      exact ⟨ts, by simp [tails, hn, hts], hm'⟩
    | cons x u' =>
      simp only [List.cons_append, List.cons.injEq] at h
      obtain ⟨ts, hts, hm'⟩ := iha x u' rfl
      refine ⟨ts ++ [b], ?_, ?_⟩
      · simp only [tails, List.mem_append, List.mem_map]; exact Or.inl ⟨ts, hts, rfl⟩
      · rw [← h.2]; exact matchesSeq_snoc hm' hv
  | altL _ ih =>
    intro s t h
    obtain ⟨ts, hts, hm'⟩ := ih s t h
    exact ⟨ts, by simp [tails, hts], hm'⟩
  | altR _ ih =>
    intro s t h
    obtain ⟨ts, hts, hm'⟩ := ih s t h
    exact ⟨ts, by simp [tails, hts], hm'⟩
  | starNil => intro s t h; cases h
  | @starCons a u v _ hv iha ihs =>
    intro s t h
    cases u with
    | nil => simp only [List.nil_append] at h; exact ihs s t h
    | cons x u' =>
      simp only [List.cons_append, List.cons.injEq] at h
      obtain ⟨ts, hts, hm'⟩ := iha x u' rfl
      refine ⟨ts ++ [.star a], ?_, ?_⟩
      · simp only [tails, List.mem_map]; exact ⟨ts, hts, rfl⟩
      · rw [← h.2]; exact matchesSeq_snoc hm' hv

/-- the possible continuations of the words that START WITH the symbol `s` -/
def tailsOf (s : String) : Rx → List (List Rx)
  | .eps => []
  | .sym x => if x == s then [[]] else []
  | .seq a b => (tailsOf s a).map (fun t => t ++ [b]) ++ (if nullable a then tailsOf s b else [])
  | .alt a b => tailsOf s a ++ tailsOf s b
  | .star a => (tailsOf s a).map fun t => t ++ [.star a]

theorem tailsOf_sound (s : String) {r : Rx} {w : List String} (hm : Matches r w) :
    ∀ t, w = s :: t → ∃ ts ∈ tailsOf s r, MatchesSeq ts t := by
  induction hm with
  | eps => intro t h; cases h
  | sym x => intro t h; cases h; exact ⟨[], by simp [tailsOf], MatchesSeq.nil⟩
  | @seq a b u v hu hv iha ihb =>
    intro t h
    cases u with
    | nil =>
      simp only [List.nil_append] at h
      have hn := nullable_sound hu rfl
      obtain ⟨ts, hts, hm'⟩ := ihb t h
      exact ⟨ts, by simp [tailsOf, hn, hts], hm'⟩
    | cons x u' =>
      simp only [List.cons_append, List.cons.injEq] at h
      obtain ⟨rfl, rfl⟩ := h
      obtain ⟨ts, hts, hm'⟩ := iha u' rfl
      refine ⟨ts ++ [b], ?_, matchesSeq_snoc hm' hv⟩
      simp only [tailsOf, List.mem_append, List.mem_map]; exact Or.inl ⟨ts, hts, rfl⟩
  | altL _ ih =>
    intro t h
    obtain ⟨ts, hts, hm'⟩ := ih t h
    exact ⟨ts, by simp [tailsOf, hts], hm'⟩
  | altR _ ih =>
    intro t h
    obtain ⟨ts, hts, hm'⟩ := ih t h
    exact ⟨ts, by simp [tailsOf, hts], hm'⟩
  | starNil => intro t h; cases h
  | @starCons a u v _ hv iha ihs =>
    intro t h
    cases u with
    | nil => simp only [List.nil_append] at h; exact ihs t h
    | cons x u' =>
      simp only [List.cons_append, List.cons.injEq] at h
      obtain ⟨rfl, rfl⟩ := h
      obtain ⟨ts, hts, hm'⟩ := iha u' rfl
      refine ⟨ts ++ [.star a], ?_, matchesSeq_snoc hm' hv⟩
      simp only [tailsOf, List.mem_map]; exact ⟨ts, hts, rfl⟩

/-- fold a sequence back into one expression -/
def seqOf : List Rx → Rx
  | [] => .eps
  | r :: rs => .seq r (seqOf rs)

theorem seqOf_sound {rs : List Rx} {w : List String} (h : MatchesSeq rs w) : Matches (seqOf rs) w := by
  induction h with
  | nil => exact Matches.eps
  | cons hr _ ih => exact Matches.seq hr ih

/-- the possible symbols at position `i`, and whether some word is too short to have one -/
def symsAt : Nat → Rx → List String × Bool
  | 0, r => (heads r, nullable r)
  | i + 1, r =>
    let parts := (tails r).map fun ts => symsAt i (seqOf ts)
    (parts.flatMap (·.1), nullable r || parts.any (·.2))

theorem symsAt_sound : ∀ (i : Nat) {r : Rx} {w : List String}, Matches r w →
    (∀ s, w[i]? = some s → s ∈ (symsAt i r).1) ∧ (w[i]? = none → (symsAt i r).2 = true) := by
  intro i
  induction i with
  | zero =>
    intro r w hm
    constructor
    · intro s hs
      cases w with
      | nil => simp at hs
      | cons a t => simp at hs; subst hs; simpa [symsAt] using heads_sound hm a t rfl
    · intro hn
      cases w with
      | nil => simpa [symsAt] using nullable_sound hm rfl
      | cons a t => simp at hn
  | succ i ih =>
    intro r w hm
    cases w with
    | nil =>
      constructor
      · intro s hs; simp at hs
      · intro _; simp [symsAt, nullable_sound hm rfl]
    | cons a t =>
      obtain ⟨ts, hts, hm'⟩ := tails_sound hm a t rfl
      have := ih (seqOf_sound hm')
      constructor
      · intro s hs
        simp only [List.getElem?_cons_succ] at hs
        simp only [symsAt, List.mem_flatMap, List.mem_map]
        exact ⟨_, ⟨ts, hts, rfl⟩, this.1 s hs⟩
      · intro hn
        simp only [List.getElem?_cons_succ] at hn
        simp only [symsAt, Bool.or_eq_true, List.any_eq_true, List.mem_map]
        exact Or.inr ⟨_, ⟨ts, hts, rfl⟩, this.2 hn⟩


/-! ### parse trees and navigation -/

inductive PT where
  | node (rule : String) (kids : List PT)
  | tok (name : String)

def PT.sym : PT → String
  | .node r _ => r
  | .tok n => n

def PT.kids : PT → List PT
  | .node _ ks => ks
  | .tok _ => []

/-- a tree an error-free parse with grammar `g` (rules `names`) can produce -/
inductive WF (g : String → Rx) (names : List String) : PT → Prop
  | tok (n : String) : ¬ n ∈ names → WF g names (.tok n)
  | node (r : String) (ks : List PT) : r ∈ names → Matches (g r) (ks.map PT.sym) → (∀ k, k ∈ ks → WF g names k) → WF g names (.node r ks)

/-- the subtree at a path of child indexes -/
def sub : PT → List Nat → Option PT
  | t, [] => some t
  | t, i :: p => match t.kids[i]? with
    | some k => sub k p
    | none => none

theorem sub_append (t : PT) (p q : List Nat) : sub t (p ++ q) = (sub t p).bind fun n => sub n q := by
  induction p generalizing t with
  | nil => simp [sub]
  | cons i p ih =>
    simp only [List.cons_append, sub]
    cases t.kids[i]? with
    | none => simp
    | some k => exact ih k

theorem wf_sub {g : String → Rx} {names : List String} : ∀ (p : List Nat) (t n : PT), WF g names t → sub t p = some n → WF g names n := by
  intro p
  induction p with
  | nil => intro t n h hs; simp [sub] at hs; subst hs; exact h
  | cons i p ih =>
    intro t n h hs
    simp only [sub] at hs
    cases hk : t.kids[i]? with
    | none => rw [hk] at hs; cases hs
    | some k =>
      rw [hk] at hs
      have hmem : k ∈ t.kids := List.mem_of_getElem? hk
      cases h with
      | tok _ _ => simp [PT.kids] at hmem
      | node r ks _ _ hall => exact ih k n (hall k hmem) hs

/-- what a listener does with a context value: the value is a location in the tree or nil -/
inductive Step where
  | parent                       -- v.GetParent()
  | child (i : Nat)              -- v.GetChild(i)
  | acc (x : String)             -- v.X() / v.X(0): first child with that symbol
  | assertSym (ts : List String) -- v.(*T): the dynamic type must be one of these
  | deref                        -- v.GetText(), v.GetStart(), …: any method call on the value
  | guardNonNil                  -- the code only continues when v != nil
  | guardSym (ts : List String)  -- the code only continues when v is one of these (reflect.TypeOf test, type switch case, `x, ok := v.(*T)`)
  | guardHas (ys : List String)  -- the code only continues when v.Y() != nil for these Y
  | guardCount (k : Nat)         -- the code only continues when v has at least k children
  deriving Repr

inductive Outcome where
  | ok (v : Option (List Nat))
  | panic
  | skip                         -- a guard did not hold: the guarded code is not executed
  deriving Repr

/-- one navigation step on the tree `root`, from value `v` (a path, or nil).
    `GetChild(i)` is the ANTLR Go runtime's: `if children != nil && len(children) >= i { return children[i] }; return nil`
    — an index EQUAL to the number of children is an index-out-of-range panic, a larger one gives nil. -/
def stepC (root : PT) (v : Option (List Nat)) : Step → Outcome
  | .deref => match v with | none => .panic | some p => .ok (some p)
  | .parent => match v with
    | none => .panic
    | some [] => .ok none
    | some p => .ok (some p.dropLast)
  | .child i => match v with
    | none => .panic
    | some p => match sub root p with
      | some n =>
        if i < n.kids.length then .ok (some (p ++ [i]))
        else if i = n.kids.length ∧ n.kids.length ≠ 0 then .panic
        else .ok none
      | none => .panic
  | .acc x => match v with
    | none => .panic
    | some p => match sub root p with
      | some n => match n.kids.findIdx? (fun k => k.sym == x) with
        | some i => .ok (some (p ++ [i]))
        | none => .ok none
      | none => .panic
  | .assertSym ts => match v with
    | none => .panic
    | some p => match sub root p with
      | some n => if ts.contains n.sym then .ok (some p) else .panic
      | none => .panic
  | .guardNonNil => match v with
    | none => .skip
    | some p => .ok (some p)
  | .guardSym ts => match v with
    | none => .skip
    | some p => match sub root p with
      | some n => if ts.contains n.sym then .ok (some p) else .skip
      | none => .skip
  | .guardHas ys => match v with
    | none => .skip
    | some p => match sub root p with
      | some n => if ys.all (fun y => (n.kids.map PT.sym).contains y) then .ok (some p) else .skip
      | none => .skip
  | .guardCount k => match v with
    | none => .skip
    | some p => match sub root p with
      | some n => if k ≤ n.kids.length then .ok (some p) else .skip
      | none => .skip

def runC (root : PT) : Option (List Nat) → List Step → Outcome
  | v, [] => .ok v
  | v, s :: ss => match stepC root v s with
    | .ok v' => runC root v' ss
    | .panic => .panic
    | .skip => .skip

/-- abstract value: the symbols the node may have, whether the value may be nil, the symbols the ancestors it was
    reached through may have (nearest first), children known to be present, a lower bound on the number of children -/
structure AV where
  syms : List String
  mayNil : Bool
  up : List (List String) := []
  has : List String := []
  minKids : Nat := 0
  deriving Repr

def parentsOf (g : String → Rx) (names : List String) (s : String) : List String := names.filter fun q => occurs s (g q)

/-- `x` is present in every children word of rule `s` that has the symbols `given` (star certificates checked) -/
def sure (g : String → Rx) (given : List String) (x s : String) : Bool :=
  always x (g s) ||
    ((pv (x :: given) (g s)).2 && (pv (x :: given) (g s)).1.all fun p => !(given.all fun y => p.contains y) || p.contains x)

def childSafe (g : String → Rx) (names : List String) (a : AV) (i : Nat) : Bool :=
  a.syms.all fun s => !names.contains s || i == 0 || !(symsAt i (g s)).2 || decide (i < a.minKids)

def childSyms (g : String → Rx) (names : List String) (a : AV) (i : Nat) : List String :=
  a.syms.flatMap fun s => if names.contains s then (symsAt i (g s)).1 else []

def childMayNil (g : String → Rx) (names : List String) (a : AV) (i : Nat) : Bool :=
  a.syms.any fun s => !names.contains s || ((symsAt i (g s)).2 && !decide (i < a.minKids))

/-- abstract step; `none` = cannot be shown safe -/
def stepA (g : String → Rx) (names : List String) (start : String) (a : AV) : Step → Option AV
  | .deref => if a.mayNil then none else some a
  | .parent =>
    if a.mayNil then none
    else match a.up with
      | u :: us => some { syms := u, mayNil := false, up := us }
      | [] => some { syms := a.syms.flatMap (parentsOf g names), mayNil := a.syms.contains start }
  | .child i =>
    if a.mayNil then none
    else if childSafe g names a i then
      some { syms := childSyms g names a i, mayNil := childMayNil g names a i, up := a.syms :: a.up }
    else none
  | .acc x =>
    if a.mayNil then none
    else some { syms := [x], mayNil := !(a.has.contains x || a.syms.all fun s => names.contains s && sure g a.has x s), up := a.syms :: a.up }
  | .assertSym ts => if a.mayNil then none else if a.syms.all (fun s => ts.contains s) then some { a with mayNil := false } else none
  | .guardNonNil => some { a with mayNil := false }
  | .guardSym ts => some { a with syms := ts, mayNil := false }
  | .guardHas ys => some { a with has := ys ++ a.has, mayNil := false }
  | .guardCount k => some { a with syms := if k = 0 then a.syms else a.syms.filter names.contains, minKids := max k a.minKids, mayNil := false }

def runA (g : String → Rx) (names : List String) (start : String) : AV → List Step → Bool
  | _, [] => true
  | a, s :: ss => match stepA g names start a s with
    | some a' => runA g names start a' ss
    | none => false

/-- the ancestors the value was reached through are described by the stack -/
def UpOK (root : PT) : List Nat → List (List String) → Prop
  | _, [] => True
  | p, u :: us => p ≠ [] ∧ (∃ m, sub root p.dropLast = some m ∧ m.sym ∈ u) ∧ UpOK root p.dropLast us

/-- the concrete value is described by the abstract one -/
def Rel (root : PT) (v : Option (List Nat)) (a : AV) : Prop :=
  match v with
  | none => a.mayNil = true
  | some p => ∃ n, sub root p = some n ∧ n.sym ∈ a.syms ∧ (∀ y ∈ a.has, y ∈ n.kids.map PT.sym) ∧ a.minKids ≤ n.kids.length ∧ UpOK root p a.up

theorem kid_sym_getElem (ks : List PT) (i : Nat) (k : PT) (h : ks[i]? = some k) : (ks.map PT.sym)[i]? = some k.sym := by
  simp [List.getElem?_map, h]

theorem findIdx_isSome_of_mem (ks : List PT) (x : String) (h : x ∈ ks.map PT.sym) : (ks.findIdx? (fun k => k.sym == x)).isSome = true := by
  induction ks with
  | nil => simp at h
  | cons k ks ih =>
    simp only [List.findIdx?_cons]
    by_cases e : (k.sym == x) = true
    · simp [e]
    · simp only [e, Bool.false_eq_true, if_false]
      have : x ∈ ks.map PT.sym := by
        simp only [List.map_cons, List.mem_cons] at h
        rcases h with h | h
        · exact absurd (by simp [h]) e
        · exact h
      cases hh : ks.findIdx? (fun k => k.sym == x) with
      | none => have := ih this; rw [hh] at this; cases this
      | some i => simp

theorem findIdx_spec (ks : List PT) (x : String) (i : Nat) (h : ks.findIdx? (fun k => k.sym == x) = some i) :
    ∃ k, ks[i]? = some k ∧ k.sym = x := by
  induction ks generalizing i with
  | nil => simp at h
  | cons k ks ih =>
    simp only [List.findIdx?_cons] at h
    by_cases e : (k.sym == x) = true
    · simp only [e, if_true, Option.some.injEq] at h
      subst h
      exact ⟨k, rfl, by simpa using e⟩
    · simp only [e, Bool.false_eq_true, if_false, Option.map_eq_some_iff] at h
      obtain ⟨j, hj, rfl⟩ := h
      obtain ⟨k', hk', hs⟩ := ih j hj
      exact ⟨k', by simpa using hk', hs⟩

/-- presence under givens, on words -/
theorem sure_sound (g : String → Rx) (given : List String) (x s : String) (w : List String) (hm : Matches (g s) w)
    (hs : sure g given x s = true) (hgiven : ∀ y ∈ given, y ∈ w) : x ∈ w := by
  simp only [sure, Bool.or_eq_true, Bool.and_eq_true] at hs
  rcases hs with h | ⟨hok, hall⟩
  · exact always_sound x hm h
  · have hp := pv_sound (x :: given) hm hok
    have hx := (List.all_eq_true.mp hall) _ hp
    have hg : (given.all fun y => (prof (x :: given) w).contains y) = true := by
      apply List.all_eq_true.mpr
      intro y hy
      rw [prof_contains _ _ y (List.mem_cons_of_mem _ hy)]
      exact List.contains_iff_mem.mpr (hgiven y hy)
    simp only [hg, Bool.not_true, Bool.false_or] at hx
    rw [prof_contains _ _ x (List.mem_cons_self)] at hx
    exact List.contains_iff_mem.mp hx

theorem upOK_push (root : PT) (p : List Nat) (i : Nat) (n : PT) (a : AV) (hsub : sub root p = some n) (hsym : n.sym ∈ a.syms)
    (hup : UpOK root p a.up) : UpOK root (p ++ [i]) (a.syms :: a.up) := by
  refine ⟨by simp, ⟨n, by simpa using hsub, hsym⟩, by simpa using hup⟩

/-- one step: a safe abstract step is matched by a non-panicking concrete step, and the results are related -/
theorem step_sound (g : String → Rx) (names : List String) (start : String) (root : PT) (hwf : WF g names root)
    (hstart : root.sym = start) (v : Option (List Nat)) (a a' : AV) (s : Step) (hr : Rel root v a) (hs : stepA g names start a s = some a') :
    stepC root v s = .skip ∨ ∃ v', stepC root v s = .ok v' ∧ Rel root v' a' := by
  -- a non-nil value is a node described by `a`
  have hsome : ∀ p, v = some p → ∃ n, sub root p = some n ∧ n.sym ∈ a.syms ∧ (∀ y ∈ a.has, y ∈ n.kids.map PT.sym) ∧
      a.minKids ≤ n.kids.length ∧ UpOK root p a.up := by
    intro p hp; subst hp; exact hr
  have hnil : a.mayNil = false → ∃ p, v = some p := by
    intro hnn
    cases v with
    | none => simp only [Rel] at hr; rw [hnn] at hr; cases hr
    | some p => exact ⟨p, rfl⟩
  cases s with
  | guardNonNil =>
    simp only [stepA, Option.some.injEq] at hs
    subst hs
    cases v with
    | none => exact Or.inl rfl
    | some p => exact Or.inr ⟨some p, rfl, hr⟩
  | guardSym ts =>
    simp only [stepA, Option.some.injEq] at hs
    subst hs
    cases v with
    | none => exact Or.inl rfl
    | some p =>
      obtain ⟨n, h1, _, h3, h4, h5⟩ := hr
      simp only [stepC, h1]
      by_cases hc : ts.contains n.sym = true
      · exact Or.inr ⟨some p, by rw [if_pos hc], n, h1, List.contains_iff_mem.mp hc, h3, h4, h5⟩
      · exact Or.inl (by rw [if_neg hc])
  | guardHas ys =>
    simp only [stepA, Option.some.injEq] at hs
    subst hs
    cases v with
    | none => exact Or.inl rfl
    | some p =>
      obtain ⟨n, h1, h2, h3, h4, h5⟩ := hr
      simp only [stepC, h1]
      by_cases hc : (ys.all fun y => (n.kids.map PT.sym).contains y) = true
      · refine Or.inr ⟨some p, by rw [if_pos hc], n, h1, h2, ?_, h4, h5⟩
        intro y hy
        rcases List.mem_append.mp hy with hy | hy
        · exact List.contains_iff_mem.mp ((List.all_eq_true.mp hc) y hy)
        · exact h3 y hy
      · exact Or.inl (by rw [if_neg hc])
  | guardCount k =>
    simp only [stepA, Option.some.injEq] at hs
    subst hs
    cases v with
    | none => exact Or.inl rfl
    | some p =>
      obtain ⟨n, h1, h2, h3, h4, h5⟩ := hr
      simp only [stepC, h1]
      by_cases hc : k ≤ n.kids.length
      · refine Or.inr ⟨some p, by rw [if_pos hc], n, h1, ?_, h3, Nat.max_le.mpr ⟨hc, h4⟩, h5⟩
        -- only rule nodes have children
        show n.sym ∈ (if k = 0 then a.syms else a.syms.filter names.contains)
        by_cases hk : k = 0
        · rw [if_pos hk]; exact h2
        · rw [if_neg hk]
          refine List.mem_filter.mpr ⟨h2, ?_⟩
          cases wf_sub p root n hwf h1 with
          | tok m _ => simp only [PT.kids, List.length_nil] at hc; omega
          | node r ks hrn _ _ => exact List.contains_iff_mem.mpr hrn
      · exact Or.inl (by rw [if_neg hc])
  | deref =>
    refine Or.inr ?_
    cases hm : a.mayNil with
    | true => simp [stepA, hm] at hs
    | false =>
      simp only [stepA, hm, Bool.false_eq_true, if_false, Option.some.injEq] at hs
      subst hs
      obtain ⟨p, rfl⟩ := hnil hm
      exact ⟨some p, rfl, hr⟩
  | assertSym ts =>
    refine Or.inr ?_
    cases hm : a.mayNil with
    | true => simp [stepA, hm] at hs
    | false =>
      simp only [stepA, hm, Bool.false_eq_true, if_false] at hs
      obtain ⟨p, rfl⟩ := hnil hm
      obtain ⟨n, hsub, hsym, h3, h4, h5⟩ := hr
      split at hs
      · rename_i hall
        simp only [Option.some.injEq] at hs
        subst hs
        have : ts.contains n.sym = true := (List.all_eq_true.mp hall) _ hsym
        exact ⟨some p, by simp only [stepC, hsub]; rw [if_pos this], n, hsub, hsym, h3, h4, h5⟩
      · cases hs
  | acc x =>
    refine Or.inr ?_
    cases hm : a.mayNil with
    | true => simp [stepA, hm] at hs
    | false =>
      simp only [stepA, hm, Bool.false_eq_true, if_false, Option.some.injEq] at hs
      subst hs
      obtain ⟨p, rfl⟩ := hnil hm
      obtain ⟨n, hsub, hsym, h3, h4, h5⟩ := hr
      have hwn : WF g names n := wf_sub p root n hwf hsub
      simp only [stepC, hsub]
      cases hf : n.kids.findIdx? (fun k => k.sym == x) with
      | some i =>
        obtain ⟨k, hk, hks⟩ := findIdx_spec n.kids x i hf
        refine ⟨some (p ++ [i]), rfl, k, ?_, by simp [hks], by simp, by simp, upOK_push root p i n a hsub hsym h5⟩
        rw [sub_append, hsub]; simp [sub, hk]
      | none =>
        refine ⟨none, rfl, ?_⟩
        simp only [Rel, Bool.not_eq_true']
        have hnot : ¬ x ∈ n.kids.map PT.sym := by
          intro hx
          have := findIdx_isSome_of_mem n.kids x hx
          rw [hf] at this; cases this
        cases hall : (a.has.contains x || a.syms.all fun s => names.contains s && sure g a.has x s)
        · rfl
        · exfalso
          simp only [Bool.or_eq_true] at hall
          rcases hall with hh | hall
          · exact hnot (h3 x (List.contains_iff_mem.mp hh))
          · have hn := (List.all_eq_true.mp hall) _ hsym
            simp only [Bool.and_eq_true] at hn
            cases hwn with
            | tok m hmn => exact hmn (List.contains_iff_mem.mp hn.1)
            | node r ks hrn hmt _ => exact hnot (sure_sound g a.has x r _ hmt hn.2 h3)
  | child i =>
    refine Or.inr ?_
    cases hm : a.mayNil with
    | true => simp [stepA, hm] at hs
    | false =>
      simp only [stepA, hm, Bool.false_eq_true, if_false] at hs
      split at hs
      case isFalse => cases hs
      rename_i hsafe
      simp only [Option.some.injEq] at hs
      subst hs
      obtain ⟨p, rfl⟩ := hnil hm
      obtain ⟨n, hsub, hsym, h3, h4, h5⟩ := hr
      have hwn : WF g names n := wf_sub p root n hwf hsub
      simp only [stepC, hsub]
      by_cases hi : i < n.kids.length
      · simp only [hi, if_true]
        have hk : n.kids[i]? = some n.kids[i] := List.getElem?_eq_getElem hi
        refine ⟨some (p ++ [i]), rfl, n.kids[i], ?_, ?_, by simp, by simp, upOK_push root p i n a hsub hsym h5⟩
        · rw [sub_append, hsub]; simp [sub, hk]
        · cases hwn with
          | tok m _ => simp [PT.kids] at hi
          | node r ks hrn hmt _ =>
            have h1 := (symsAt_sound i hmt).1 _ (kid_sym_getElem ks i _ hk)
            simp only [childSyms, List.mem_flatMap]
            refine ⟨r, hsym, ?_⟩
            have : names.contains r = true := List.contains_iff_mem.mpr hrn
            rw [if_pos this]
            exact h1
      · rw [if_neg hi]
        have hsafe' := (List.all_eq_true.mp hsafe) _ hsym
        cases hwn with
        | tok m hmn =>
          have hL : (PT.tok m).kids.length = 0 := rfl
          rw [if_neg (by rw [hL]; intro h; exact h.2 rfl)]
          refine ⟨none, rfl, ?_⟩
          simp only [Rel, childMayNil, List.any_eq_true]
          refine ⟨_, hsym, ?_⟩
          have hc : names.contains (PT.sym (.tok m)) = false := by
            cases hh : names.contains (PT.sym (.tok m))
            · rfl
            · exact absurd (List.contains_iff_mem.mp hh) hmn
          rw [hc]; rfl
        | node r ks hrn hmt _ =>
          have hc : names.contains r = true := List.contains_iff_mem.mpr hrn
          have hL : (PT.node r ks).kids.length = ks.length := rfl
          rw [hL] at hi h4 ⊢
          have hnone : (ks.map PT.sym)[i]? = none := by
            simp [List.getElem?_eq_none_iff]; omega
          have h2 := (symsAt_sound i hmt).2 hnone
          have hmk : ¬ i < a.minKids := by omega
          have hi0 : i = 0 ∨ False := by
            have hs' : PT.sym (.node r ks) = r := rfl
            rw [hs'] at hsafe'
            simp only [hc, Bool.not_true, Bool.false_or, Bool.or_eq_true, beq_iff_eq, Bool.not_eq_true', decide_eq_true_eq] at hsafe'
            rcases hsafe' with (h | h) | h
            · exact Or.inl h
            · rw [h2] at h; cases h
            · exact absurd h hmk
          have hi0' : i = 0 := by rcases hi0 with h | h; exact h; cases h
          rw [if_neg (by intro h; omega)]
          refine ⟨none, rfl, ?_⟩
          simp only [Rel, childMayNil, List.any_eq_true]
          refine ⟨r, hsym, ?_⟩
          simp [hc, h2, hmk]
  | parent =>
    refine Or.inr ?_
    cases hm : a.mayNil with
    | true => simp [stepA, hm] at hs
    | false =>
      simp only [stepA, hm, Bool.false_eq_true, if_false] at hs
      obtain ⟨p, rfl⟩ := hnil hm
      obtain ⟨n, hsub, hsym, h3, h4, h5⟩ := hr
      cases hup : a.up with
      | cons u us =>
        rw [hup] at hs h5
        simp only [Option.some.injEq] at hs
        subst hs
        obtain ⟨hne, ⟨m, hm1, hm2⟩, hrest⟩ := h5
        cases p with
        | nil => exact absurd rfl hne
        | cons i0 p0 =>
          exact ⟨some (i0 :: p0).dropLast, by simp [stepC], m, hm1, hm2, by simp, by simp, hrest⟩
      | nil =>
        rw [hup] at hs
        simp only [Option.some.injEq] at hs
        subst hs
        cases p with
        | nil =>
          refine ⟨none, rfl, ?_⟩
          simp only [sub, Option.some.injEq] at hsub
          subst hsub
          simp only [Rel]
          exact List.contains_iff_mem.mpr (hstart ▸ hsym)
        | cons i0 p0 =>
          have hp : (i0 :: p0) = (i0 :: p0).dropLast ++ [(i0 :: p0).getLast (by simp)] := (List.dropLast_concat_getLast _).symm
          refine ⟨some (i0 :: p0).dropLast, by simp [stepC], ?_⟩
          rw [hp, sub_append] at hsub
          cases hq : sub root (i0 :: p0).dropLast with
          | none => rw [hq] at hsub; cases hsub
          | some q =>
            rw [hq] at hsub
            simp only [Option.bind_some, sub] at hsub
            have hwq : WF g names q := wf_sub _ root q hwf hq
            cases hk : q.kids[(i0 :: p0).getLast (by simp)]? with
            | none => rw [hk] at hsub; cases hsub
            | some k =>
              rw [hk] at hsub
              simp only [Option.some.injEq] at hsub
              subst hsub
              refine ⟨q, hq, ?_, by simp, by simp, trivial⟩
              cases hwq with
              | tok m _ => simp [PT.kids] at hk
              | node r ks hrn hmt _ =>
                simp only [PT.kids] at hk
                have hmem : k.sym ∈ ks.map PT.sym := List.mem_map_of_mem (List.mem_of_getElem? hk)
                have hocc := occurs_sound k.sym hmt hmem
                simp only [List.mem_flatMap]
                refine ⟨k.sym, hsym, ?_⟩
                show r ∈ parentsOf g names k.sym
                exact List.mem_filter.mpr ⟨hrn, hocc⟩

/-- **soundness**: a safe abstract run means no nil dereference, no failed assertion and no child index out of range
    on any well-formed tree -/
theorem run_sound (g : String → Rx) (names : List String) (start : String) (root : PT) (hwf : WF g names root) (hstart : root.sym = start) :
    ∀ (ss : List Step) (v : Option (List Nat)) (a : AV), Rel root v a → runA g names start a ss = true → runC root v ss ≠ .panic := by
  intro ss
  induction ss with
  | nil => intro v a _ _; simp [runC]
  | cons s ss ih =>
    intro v a hr hs
    simp only [runA] at hs
    cases ha : stepA g names start a s with
    | none => rw [ha] at hs; cases hs
    | some a' =>
      rw [ha] at hs
      rcases step_sound g names start root hwf hstart v a a' s hr ha with hsk | ⟨v', hv', hr'⟩
      · simp [runC, hsk]
      · simp only [runC, hv']
        exact ih v' a' hr' hs

end CocaVerif.NavTree
