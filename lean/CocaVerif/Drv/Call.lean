import CocaVerif.Model.Call
open Lean
namespace CocaVerif.Drv.Call
open CocaVerif CocaVerif.J CocaVerif.Call

def decApi (j : Json) : Api :=
  { httpMethod := strD j "HttpMethod", uri := strD j "Uri", pkg := strD j "PackageName",
    cls := strD j "ClassName", method := strD j "MethodName" }

def encCallApi (a : CallApi) : Json :=
  Json.mkObj [("HTTPMethod", a.httpMethod), ("URI", a.uri), ("Caller", a.caller), ("Size", mkNat a.size)]

def step (st : St) (j : Json) : St × Json :=
  let clzs := Dec.dss j "clzs"
  match strD j "op" with
  | "call" =>
    let r := callAnalysis clzs st (strD j "root") (boolD j "lookup")
    (r.2, Json.mkObj [("dot", r.1)])
  | "rcall" =>
    let r := rcallAnalysis clzs st (strD j "target")
    (r.2, Json.mkObj [("dot", r.1.2), ("map", Json.mkObj (r.1.1.map fun (k, v) => (k, mkStrs v)))])
  | "api" =>
    let di := (kvs j "di").filterMap fun (k, v) => match v with | .str s => some (k, s) | _ => none
    let r := analysisByFiles clzs di ((arr j "apis").map decApi) st
    (r.2, Json.mkObj [("dot", r.1.1), ("apis", mkArr (r.1.2.map encCallApi))])
  | _ => (st, Json.null)

end CocaVerif.Drv.Call
