import CocaVerif.Model.Cloc
import CocaVerif.Base.J
open Lean
namespace CocaVerif.Drv.Cloc
open CocaVerif CocaVerif.J CocaVerif.Cloc

def decFile (j : Json) : FileStat := { path := strD j "path", lang := strD j "lang", code := natD j "code" }

def sortStrs (l : List String) : List String := l.mergeSort fun a b => decide (a ≤ b)

def step (_ : Unit) (j : Json) : Unit × Json :=
  let files := (arr j "counted").map decFile
  match strD j "op" with
  | "bydir" =>
    let rs := rows files (strs j "subdirs")
    ((), Json.mkObj [("langs", mkStrs (sortStrs (languages files))),
      ("rows", Json.mkObj (rs.map fun r => (r.dir, Json.mkObj (r.cells.map fun (k, v) => (k, mkNat v))))),
      ("summary", Json.mkObj (rs.map fun r => (r.dir, mkNat r.summary)))])
  | "topfile" =>
    let size := natD j "topSize"
    let tf := topFiles files
    ((), Json.mkObj [
      ("sorted", Json.mkObj (tf.map fun (k, fs) => (k, mkArr (fs.map fun f => Json.mkObj [("Location", f.path), ("Code", mkNat f.code)])))),
      ("tables", if tf.length ≤ 5 then Json.mkObj ((topTable files size).map fun (k, fs) => (k, mkArr (fs.map fun f => mkNat f.code))) else Json.mkObj [])])
  | _ => ((), Json.null)

end CocaVerif.Drv.Cloc
