import CocaVerif.Model.Refactor
import CocaVerif.Base.J
open Lean
namespace CocaVerif.Drv.Refactor
open CocaVerif CocaVerif.J CocaVerif.Refactor

def toLines (s : String) : List (List Char) := (s.splitOn "\n").map String.toList
def fromLines (ls : List (List Char)) : String := "\n".intercalate (ls.map String.ofList)

def objPairs (j : Json) : List (String × Json) :=
  match j with
  | .obj kvs => kvs.toList
  | _ => []

def decSite (j : Json) : Site := { line := natD j "line", s := natD j "start", e := natD j "stop" }

def renameOut (j : Json) : Json :=
  let newName := ((strD j "new").splitOn ".").getLast!
  let sites := arr j "sites"
  let files := objPairs (obj j "files")
  let res := files.map fun (p, c) =>
    let mine := (sites.filter fun s => strD s "file" == p).map decSite
    let txt := match c with | .str s => s | _ => ""
    (p, (renameFile newName.toList (toLines txt) mine).map fromLines)
  if res.any (fun r => r.2.isNone) then Json.mkObj [("panic", "slice bounds out of range")]
  else Json.mkObj [("files", Json.mkObj (res.map fun r => (r.1, Json.str (r.2.getD ""))))]

/-- one run of `Analysis` + `Refactoring` over front-end tables: new text per file -/
def unusedFile (txt : String) (name : String) (imports : List (String × Nat)) (names : List String) : Option String :=
  if name == "" then some txt
  else (removeLines (txt.splitOn "\n") (errorLines imports names)).map fun ls => "\n".intercalate ls

/-- the import table of the result: the kept imports at their new lines -/
def keptImports (imports : List (String × Nat)) (names : List String) : List (String × Nat) :=
  let errs := errorLines imports names
  (imports.filter fun i => !errs.contains i.2).map fun i => (i.1, i.2 - (errs.filter (· < i.2)).length)

def unusedOut (j : Json) : Json :=
  let files := objPairs (obj j "files")
  let front := arr j "front"
  let runs := files.map fun (p, c) =>
    let txt := match c with | .str s => s | _ => ""
    match front.find? (fun f => strD f "path" == p) with
    | none => (p, some txt, some txt)
    | some f =>
      let imports := (arr f "imports").map fun i => (strD i "name", natD i "line")
      let names := strs f "names"
      let r1 := unusedFile txt (strD f "name") imports names
      let r2 := r1.bind fun t => unusedFile t (strD f "name") (keptImports imports names) names
      (p, r1, r2)
  if runs.any (fun r => r.2.1.isNone || r.2.2.isNone) then Json.mkObj [("panic", "slice bounds out of range")]
  else Json.mkObj [("files1", Json.mkObj (runs.map fun r => (r.1, Json.str (r.2.1.getD "")))),
                   ("files2", Json.mkObj (runs.map fun r => (r.1, Json.str (r.2.2.getD ""))))]

def step (_ : Unit) (j : Json) : Unit × Json :=
  match strD j "op" with
  | "rename" => if strD j "old2" != "" then ((), Json.mkObj [("unmodelled", true)]) else ((), renameOut j)
  | "unused" => ((), unusedOut j)
  | _ => ((), Json.null)

end CocaVerif.Drv.Refactor
