import CocaVerif.Model.Tbs
open Lean
namespace CocaVerif.Drv.Tbs
open CocaVerif CocaVerif.J CocaVerif.Tbs

def step (_ : Unit) (j : Json) : Unit × Json :=
  let clzs := Dec.dss j "clzs"
  let fs := analysis clzs
  ((), Json.mkObj [("findings", mkArr (fs.map fun f =>
    Json.mkObj [("FileName", f.file), ("Type", f.type), ("Line", mkInt f.line)]))])

end CocaVerif.Drv.Tbs
