import CocaVerif.Model.Deps
import CocaVerif.Base.J
open Lean
namespace CocaVerif.Drv.Deps
open CocaVerif CocaVerif.J CocaVerif.Deps

def decTok (j : Json) : XTok :=
  match strD j "t" with
  | "start" => .start (strD j "v")
  | "stop" => .stop
  | "chars" => .chars (strD j "v")
  | _ => .other

def decStmt (j : Json) : GStmt :=
  let k := strD j "kind"
  let n : Notation := match k with
    | "single" => .str '\'' false false (strD j "text")
    | "double" => .str '"' false false (strD j "text")
    | "parenSingle" => .str '\'' true false (strD j "text")
    | "parenDouble" => .str '"' true false (strD j "text")
    | "parenSingleClosure" => .str '\'' true true (strD j "text")
    | "multi" => .strs false (strs j "texts")
    | "parenMulti" => .strs true (strs j "texts")
    | _ => .other k
  { conf := strD j "conf", nota := n }

def encDeps (l : List Dep) : Json :=
  mkArr (l.map fun d => Json.mkObj [("GroupId", d.group), ("ArtifactId", d.artifact), ("Scope", d.scope)])

def step (_ : Unit) (j : Json) : Unit × Json :=
  match strD j "op" with
  | "maven" =>
    match analysisMaven ((arr j "tokens").map decTok) with
    | .ok l => ((), Json.mkObj [("deps", encDeps l)])
    | .error e => ((), Json.mkObj [("panic", e)])
  | "gradle" => ((), Json.mkObj [("deps", encDeps (gradleDeps ((arr j "stmts").map decStmt)))])
  | "gradlesoup" => ((), Json.mkObj [("soup", true)])      -- arbitrary scripts: the model only says that extraction returns
  | "unused" =>
    let poms := (arr j "poms").map fun p => analysisMaven ((arr p "tokens").map decTok)
    let gradles := (arr j "gradles").map fun g => gradleDeps ((arr g "stmts").map decStmt)
    let declared := poms.foldl (fun acc r => match acc, r with
      | .ok l, .ok d => .ok (l ++ d)
      | .error e, _ => .error e
      | _, .error e => .error e) (Except.ok ([] : List Dep))
    match declared with
    | .ok l => ((), Json.mkObj [("deps", encDeps (unused (l ++ gradles.flatten) (strs j "imports")))])
    | .error e => ((), Json.mkObj [("panic", e)])
  | _ => ((), Json.null)

end CocaVerif.Drv.Deps
