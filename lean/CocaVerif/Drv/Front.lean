import CocaVerif.Model.Front
import CocaVerif.Base.J
open Lean
namespace CocaVerif.Drv.Front
open CocaVerif CocaVerif.J CocaVerif.Front

/-- the generator's type texts -/
partial def parseTy (t : String) : GTy :=
  if t.startsWith "func" then .func
  else if t == "interface{}" then .iface
  else if t.startsWith "[]" then .arr (parseTy (t.drop 2).toString)
  else if t.startsWith "*" then .star (parseTy (t.drop 1).toString)
  else match t.splitOn "." with
    | [p, n] => .sel p n
    | _ => .ident t

def decGroup (j : Json) : GGroup := { names := strs j "names", ty := parseTy (strD j "type") }

def decStmt (j : Json) : GStmt :=
  match strD j "k" with
  | "call" => .call (strD j "recv") (strD j "fn")
  | "defer" => .defer (strD j "recv") (strD j "fn")
  | _ => .other

def decDecl (j : Json) : GDecl :=
  match strD j "k" with
  | "struct" => .struct (strD j "name") ((arr j "fields").map decGroup)
  | "iface" => .iface (strD j "name") ((arr j "methods").map fun m => (strD m "name", (arr m "params").map decGroup))
  | _ => .func (strD j "recv") (strD j "name") ((arr j "params").map decGroup) (if boolD j "nobody" then none else some ((arr j "stmts").map decStmt))

def encProps (ps : List GProp) : Json := mkArr (ps.map fun p => mkStrs [p.name, p.typeType, p.typeValue])
def encFns (fs : List GFn) : Json :=
  mkArr (fs.map fun f => Json.mkObj [("Name", f.name), ("Parameters", encProps f.params),
    ("Calls", mkArr (f.calls.map fun c => mkStrs [c.node, c.fn])), ("Annotations", mkArr [])])

def goFile (path : String) (t : Json) : Json :=
  let r := visitGo (strD t "pkg") ((arr t "decls").map decDecl)
  let imports := (arr t "imports").map fun i => match i with
    | .arr a => (match a.toList with
      | [.str p, .str al] => mkArr [Json.str (importSource p), Json.str al, mkArr []]
      | [.str p, _] => mkArr [Json.str (importSource p), Json.str "", mkArr []]
      | _ => Json.null)
    | _ => Json.null
  Json.mkObj [("File", path), ("PackageName", strD t "pkg"), ("Imports", mkArr imports),
    ("DataStructures", mkArr (r.1.map fun d => Json.mkObj [("NodeName", d.name), ("Package", d.pkg), ("InOutProperties", encProps d.props),
        ("Functions", encFns d.fns), ("Annotations", mkArr [])])),
    ("Members", mkArr (r.2.map fun m => Json.mkObj [("DataStructID", m.dsId), ("Type", m.type), ("Name", ""), ("FunctionNodes", encFns m.fns)]))]

def decAnno (j : Json) : PAnno := { name := strD j "name", args := (strs j "args").map fun a => a.replace " " "" }

def decPEv (j : Json) : PEv :=
  match strD j "e" with
  | "import" => .importStmt ((arr j "names").map fun n => (strD n "dotted", strD n "as", strD n "text"))
  | "from" => .fromStmt (strD j "source") (strD j "names")
  | "enterClass" => .enterClass (strD j "name") ((arr j "decos").map decAnno)
  | "exitClass" => .exitClass
  | "enterFunc" => .enterFunc (strD j "name") ((arr j "decos").map decAnno)
  | _ => .exitFunc

def encAnnos (as : List PAnno) : Json :=
  mkArr (as.map fun a => Json.mkObj [("Name", a.name), ("KeyValues", mkArr (a.args.map fun v => Json.mkObj [("Key", Json.str ""), ("Value", Json.str v)]))])
def encPFns (fs : List PFn) : Json :=
  mkArr (fs.map fun f => Json.mkObj [("Name", f.name), ("Parameters", mkArr []), ("Calls", mkArr []), ("Annotations", encAnnos f.annos)])

def pyFile (path : String) (t : Json) (cur : Option PDS) : Json × Option PDS :=
  match runPy cur ((arr t "events").map decPEv) with
  | none => (Json.mkObj [("panic", "nil currentDataStruct")], none)
  | some st =>
    (Json.mkObj [("File", path), ("PackageName", ""),
      ("Imports", mkArr (st.imports.map fun i => mkArr [Json.str i.source, Json.str "", mkStrs i.usage])),
      ("DataStructures", mkArr (st.dss.map fun d => Json.mkObj [("NodeName", d.name), ("Package", ""), ("InOutProperties", mkArr []),
          ("Functions", encPFns d.fns), ("Annotations", encAnnos d.annos)])),
      ("Members", mkArr (st.members.map fun f => Json.mkObj [("DataStructID", ""), ("Type", ""), ("Name", f.name), ("FunctionNodes", encPFns [f])]))],
     st.cur)

def objPairs (j : Json) : List (String × Json) :=
  match j with
  | .obj kvs => kvs.toList
  | _ => []

def step (cur : Option PDS) (j : Json) : Option PDS × Json :=
  -- real-world corpus files: the model only says that the front-end returns
  if strD j "op" == "gocorpus" || strD j "op" == "pycorpus" then (cur, Json.mkObj [("corpus", true)]) else
  -- files with shapes outside the model (anonymous interface types in signatures): the model only says that the front-end returns
  if boolD j "unmodelled" then (cur, Json.mkObj [("unmodelled", true)]) else
  let files := ((objPairs (obj j "truth")).mergeSort fun a b => decide (a.1 ≤ b.1))
  if strD j "op" == "go" then
    (cur, Json.mkObj [("containers", mkArr (files.map fun (p, t) => goFile p t))])
  else
    let r := files.foldl (fun (acc : List Json × Option PDS) (p, t) =>
      let x := pyFile p t acc.2
      (acc.1 ++ [x.1], x.2)) ([], cur)
    (r.2, Json.mkObj [("containers", mkArr r.1)])

end CocaVerif.Drv.Front
