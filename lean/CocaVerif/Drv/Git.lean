import CocaVerif.Model.Git
import CocaVerif.Base.J
open Lean
namespace CocaVerif.Drv.Git
open CocaVerif CocaVerif.J CocaVerif.Git CocaVerif.Rx

def encChange (c : Change) : Json :=
  Json.mkObj [("Added", mkInt c.added), ("Deleted", mkInt c.deleted), ("File", c.file), ("Mode", c.mode)]

def changeKey (c : Change) : String := (encChange c).compress

def encCommit (c : Commit) : Json :=
  -- changes inside a commit come out of a Go map: canonical order = sorted by their JSON text
  let chs := (c.changes.map fun x => (changeKey x, x)).mergeSort (fun a b => decide (a.1 ≤ b.1))
  Json.mkObj [("Rev", c.rev), ("Author", c.author), ("Date", c.date), ("Message", c.message),
              ("Changes", mkArr (chs.map fun x => encChange x.2))]

def decChange (j : Json) : Change :=
  { added := intD j "Added", deleted := intD j "Deleted", file := strD j "File", mode := strD j "Mode" }
def decCommit (j : Json) : Commit :=
  { rev := strD j "Rev", author := strD j "Author", date := strD j "Date", message := strD j "Message",
    changes := (arr j "Changes").map decChange }

def encMatch (re : Re) (ngroups : Nat) (line : List Char) : Json :=
  match find re line with
  | none => Json.null
  | some m => mkArr ((List.range (ngroups + 1)).map fun i =>
      Json.str (String.ofList (if i == 0 then slice line m.start m.stop else m.group line i)))

def idσ {α : Type} : List α → List α := fun l => l

def step (cur : Commit) (j : Json) : Commit × Json :=
  match strD j "op" with
  | "parse" | "gitrepo" =>
    match buildMessages idσ cur (strD j "text") with
    | .ok (cs, cur') => (cur', Json.mkObj [("commits", mkArr (cs.map encCommit))])
    | .error e => (cur, Json.mkObj [("panic", e)])
  | "regex" =>
    let l := (strD j "line").toList
    (cur, Json.mkObj [("rev", encMatch revRe 1 l), ("author", encMatch authorRe 1 l), ("date", encMatch dateRe 0 l),
      ("changes", encMatch changesRe 3 l), ("complexMove", encMatch complexMoveRe 4 l), ("basicMove", encMatch basicMoveRe 2 l),
      ("changeMode", encMatch changeModeRe 5 l), ("changeLog", encMatch changeLogRe 3 l),
      ("revAll", mkNat (findAll revRe l).length)])
  | "summary" =>
    let cs := (arr j "commits").map decCommit
    let team := teamSummary idσ cs
    let top := topAuthors idσ cs
    let b := basicSummary cs
    let age := codeAge idσ cs
    let cm := changeMap cs
    (cur, Json.mkObj [
      ("team", mkArr (team.map fun t => Json.mkObj [("EntityName", t.name), ("AuthorCount", mkNat t.authorCount), ("RevsCount", mkNat t.revsCount)])),
      ("top", mkArr (top.map fun t => Json.mkObj [("Name", t.name), ("CommitCount", mkNat t.commitCount), ("LineCount", mkInt t.lineCount)])),
      ("age", mkArr (age.map fun a => Json.mkObj [("EntityName", a.1), ("Date", a.2)])),
      ("changelog", Json.mkObj ((GoMap.entries cm).map fun (k, im) => (k, Json.mkObj ((GoMap.entries im).map fun (f, n) => (f, mkNat n))))),
      ("basic", Json.mkObj [("Commits", mkNat b.commits), ("Entities", mkNat b.entities), ("Changes", mkInt b.changes), ("Authors", mkNat b.authors)])])
  | "summaryrepo" =>
    -- the tables `coca git -b -t -o` prints for the commits it parsed in a real repository (the commits are handed over
    -- from the command's own commits.json)
    let cs := (arr j "commits").map decCommit
    let team := teamSummary idσ cs
    let top := topAuthors idσ cs
    let b := basicSummary cs
    (cur, Json.mkObj [
      ("team", mkArr (team.map fun t => Json.mkObj [("EntityName", t.name), ("AuthorCount", mkNat t.authorCount), ("RevsCount", mkNat t.revsCount)])),
      ("top", mkArr (top.map fun t => Json.mkObj [("Name", t.name), ("CommitCount", mkNat t.commitCount), ("LineCount", mkInt t.lineCount)])),
      ("basic", Json.mkObj [("Commits", mkNat b.commits), ("Entities", mkNat b.entities), ("Changes", mkInt b.changes), ("Authors", mkNat b.authors)])])
  | _ => (cur, Json.null)

end CocaVerif.Drv.Git
