import CocaVerif.Model.Api
import CocaVerif.Base.J
open Lean
namespace CocaVerif.Drv.Api
open CocaVerif CocaVerif.J CocaVerif.Api

def decAnno (j : Json) : AnnoEv :=
  let args : AArgs := match strD j "form" with
    | "positional" => .positional (strD j "text")
    | "pairs" => .pairs ((arr j "kvs").map fun kv => (strD kv "k", strD kv "v"))
    | _ => .none
  { name := strD j "name", args := args }

def decEv (j : Json) : Ev :=
  match strD j "e" with
  | "pkg" => .pkg (strD j "name")
  | "imp" => .imp (strD j "name")
  | "anno" => .anno (decAnno j)
  | "enterClass" => .enterClass (strD j "name") (strD j "implements")
  | "exitClass" => .exitClass
  | _ => .method (strD j "name") ((arr j "params").map fun p => { annos := strs p "annos", type := strD p "type", name := strD p "name" })

def encApi (a : RestAPI) : Json :=
  Json.mkObj [("Uri", a.uri), ("HttpMethod", a.httpMethod), ("MethodName", a.methodName),
              ("RequestBodyClass", a.requestBodyClass), ("PackageName", a.pkg), ("ClassName", a.cls)]

def step (st : ASt) (j : Json) : ASt × Json :=
  let files := (arr j "events").map fun f => match f with | .arr a => a.toList.map decEv | _ => []
  match runFiles st files with
  | .ok (apis, st') => (st', Json.mkObj [("apis", mkArr (apis.map encApi))])
  | .error e => (st, Json.mkObj [("panic", e)])

end CocaVerif.Drv.Api
