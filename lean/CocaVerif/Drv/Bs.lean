import CocaVerif.Model.Bs
open Lean
namespace CocaVerif.Drv.Bs
open CocaVerif CocaVerif.J CocaVerif.Bs

def decIf (j : Json) : IfInfo := { startLine := intD j "StartLine", endLine := intD j "EndLine" }
def decFn (j : Json) : BSFn :=
  let p := obj j "Position"
  let b := obj j "FunctionBS"
  { name := strD j "Name", startLine := intD p "StartLine", stopLine := intD p "StopLine",
    nParams := (arr j "Parameters").length, ifSize := intD b "IfSize", switchSize := intD b "SwitchSize",
    ifs := (arr b "IfInfo").map decIf }
def decNode (j : Json) : BSNode :=
  { path := strD j "FilePath", type := strD j "Type", fns := (arr j "Functions").map decFn }

def encF (f : Finding) : Json :=
  Json.mkObj [("File", f.file), ("Line", f.line), ("Bs", f.bs), ("Description", f.desc), ("Size", mkInt f.size)]

def step (_ : Unit) (j : Json) : Unit × Json :=
  let nodes := (arr j "nodes").map decNode
  let ig := strs j "ignore"
  let fs := identify nodes ig
  if boolD j "sort" then
    ((), Json.mkObj [("sorted", Json.mkObj ((sortByType fs).map fun (k, g) => (k, mkArr (g.map encF))))])
  else ((), Json.mkObj [("list", mkArr (fs.map encF))])

end CocaVerif.Drv.Bs
