import CocaVerif.Model.Stats
open Lean
namespace CocaVerif.Drv.Stats
open CocaVerif CocaVerif.J CocaVerif.Stats

def encPairs (l : List (String × Nat)) : Json :=
  mkArr (l.map fun (k, v) => Json.mkObj [("Key", k), ("Value", mkNat v)])

def step (_ : Unit) (j : Json) : Unit × Json :=
  let clzs := Dec.dss j "clzs"
  match strD j "op" with
  | "count" => ((), Json.mkObj [("pairs", encPairs (countReport clzs))])
  | "concept" => ((), Json.mkObj [("pairs", encPairs (conceptReport clzs))])
  | "evaluate" | "evaluatesrc" =>      -- evaluatesrc: clzs / identifiers are what the SOURCE of the case says
    let ids := Dec.dss j "identifiers"
    let s := summary clzs ids
    let nn := nullableNames ids
    ((), Json.mkObj [("UtilsCount", mkNat s.utilsCount), ("ClassCount", mkNat s.classCount),
      ("MethodCount", mkNat s.methodCount), ("StaticMethodCount", mkNat s.staticMethodCount),
      ("Nullable", mkStrs (nn.mergeSort fun a b => strLe a b))])
  | _ => ((), Json.null)

end CocaVerif.Drv.Stats
