import CocaVerif.Model.Arch
import CocaVerif.Base.J
open Lean
namespace CocaVerif.Drv.Arch
open CocaVerif CocaVerif.J CocaVerif.Arch

def sortStrs (l : List String) : List String := l.mergeSort fun a b => decide (a ≤ b)

def step (_ : Unit) (j : Json) : Unit × Json :=
  let deps := Dec.dss j "clzs"
  let ik := strs j "identKeys"
  let g0 := analysis deps ik
  let g1 := if boolD j "mergeHeader" then mergeGraph mergeHeader g0 else g0
  let g2 := if boolD j "mergePackage" then mergeGraph mergePackage g1 else g1
  let d := display (strs j "filters") g2
  let edges := sortStrs (d.2.map fun p => p.1 ++ " -> " ++ p.2)
  -- through the command (`coca arch`, case marked cli) only the drawn graph is observable
  if boolD j "cli" then ((), Json.mkObj [("nodes", mkStrs (sortStrs d.1)), ("edges", mkStrs edges)]) else
  ((), Json.mkObj [("nodes", mkStrs (sortStrs d.1)), ("edges", mkStrs edges),
                   ("allNodes", mkStrs (sortStrs (GoMap.keys g2.nodes))),
                   ("allRels", mkStrs (sortStrs ((GoMap.keys g2.rels).map fun p => p.1 ++ " -> " ++ p.2)))])

end CocaVerif.Drv.Arch
