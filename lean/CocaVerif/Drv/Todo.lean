import CocaVerif.Model.Todo
import CocaVerif.Base.J
open Lean
namespace CocaVerif.Drv.Todo
open CocaVerif CocaVerif.J CocaVerif.Todo

def step (_ : Unit) (j : Json) : Unit × Json :=
  let filters := strs j "filters"
  let files := (arr j "files").map fun f => (strD f "path", strD f "content")
  let res := files.foldl (fun (acc : Except String (List Json)) (p, c) =>
    match acc with
    | .error e => .error e
    | .ok l =>
      if selected filters p then
        match scanText c.toList with
        | .ok ts => .ok (l ++ ts.map fun t => Json.mkObj [("Assignee", t.assignee), ("Filename", p), ("Line", mkNat t.line), ("Message", t.message)])
        | .error e => .error e
      else .ok l) (.ok [])
  match res with
  | .ok l => ((), Json.mkObj [("todos", mkArr l)])
  | .error e => ((), Json.mkObj [("panic", e)])

end CocaVerif.Drv.Todo
