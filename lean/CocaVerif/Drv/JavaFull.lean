import CocaVerif.Model.JavaFull
import CocaVerif.Model.JavaIdent
import CocaVerif.Base.J
open Lean
namespace CocaVerif.Drv.JavaFull
open CocaVerif CocaVerif.J CocaVerif.JavaFull

def decP (j : Json) : P :=
  { startLine := intD j "startLine", startCol := intD j "startCol", stopLine := intD j "stopLine", stopCol := intD j "stopCol" }

def optStr (j : Json) (k : String) : Option String :=
  match j.getObjVal? k with
  | .ok (.str s) => some s
  | _ => none

def decPairs (j : Json) (k : String) : List (String × String) :=
  (arr j k).filterMap fun p => match p with
    | .arr a => match a.toList with
      | [.str t, .str n] => some (t, n)
      | _ => none
    | _ => none

def decEv (j : Json) : Ev :=
  match strD j "e" with
  | "pkg" => .pkg (strD j "name")
  | "imp" => .imp (strD j "name")
  | "anno" => .anno (Dec.anno (obj j "anno"))
  | "enterClass" => .enterClass (strD j "name") (optStr j "ext") (strs j "impls")
  | "enterInterface" => .enterInterface (strD j "name") (strs j "exts")
  | "interfaceBodyDecl" => .interfaceBodyDecl
  | "interfaceMethod" => .interfaceMethod (strD j "name") (strD j "ret") ((arr j "annos").map Dec.anno) (decPairs j "params") (boolD j "emptyParams") (decP j)
  | "formalParam" => .formalParam (strD j "name") (strD j "type")
  | "field" => .field (optStr j "typeIdent") (strs j "names") (decP j)
  | "localVar" => .localVar (strD j "typeText") (optStr j "name")
  | "enterCtor" => .enterCtor (strD j "name") (decPairs j "params") (boolD j "emptyParams") (decP j)
  | "exitCtor" => .exitCtor
  | "enterMethod" => .enterMethod (strD j "name") (strD j "ret") ((arr j "annos").map Dec.anno) (decPairs j "params") (boolD j "emptyParams")
      (intD j "startLine") (intD j "nameCol") (intD j "stopLine")
  | "exitMethod" => .exitMethod
  | "enterStmtScope" => .enterStmtScope
  | "exitStmtScope" => .exitStmtScope
  | "forVar" => .forVar (strD j "type") (strD j "name")
  | "enterBlock" => .enterBlock
  | "exitBlock" => .exitBlock
  | "creator" => .creator (strD j "varText") (optStr j "assignVar") (strs j "idents") (decP j)
  | "call" => .call (strD j "targetText") (optStr j "targetCallIdent") (strD j "callee") (strD j "ctxText") (strs j "args")
      (intD j "startLine") (intD j "startCol") (intD j "stopLine")
  | "mref" => .mref (strD j "exprText") (strD j "methodName") (decP j)
  | _ => .exitBody

def encPos (p : Pos) : Json :=
  Json.mkObj [("StartLine", mkInt p.startLine), ("StartLinePosition", mkInt p.startCol), ("StopLine", mkInt p.stopLine), ("StopLinePosition", mkInt p.stopCol)]
def encAnno (a : Anno) : Json :=
  Json.mkObj [("Name", a.name), ("KeyValues", mkArr (a.kvs.map fun kv => Json.mkObj [("Key", kv.key), ("Value", kv.value)]))]
def encCall (c : Call) : Json :=
  Json.mkObj [("Package", c.pkg), ("Type", c.type), ("NodeName", c.node), ("FunctionName", c.fn),
              ("Parameters", mkStrs (c.params.map (·.typeValue))), ("Position", encPos c.pos)]
def encFn (f : Fn) : Json :=
  Json.mkObj [("Name", f.name), ("ReturnType", f.ret), ("Parameters", mkArr (f.params.map fun p => mkStrs [p.typeType, p.typeValue])),
              ("FunctionCalls", mkArr (f.calls.map encCall)), ("Annotations", mkArr (f.annos.map encAnno)), ("Override", f.override),
              ("IsConstructor", f.isConstructor), ("Position", encPos f.pos), ("Modifiers", mkStrs f.modifiers), ("IsReturnNull", f.isReturnNull)]
def fnKey (f : Fn) : String := (encFn f).compress
def encDS (d : DS) : Json :=
  -- functions come out of a Go map: canonical order = sorted by their JSON text
  let fs := (d.fns.map fun f => (fnKey f, f)).mergeSort (fun a b => decide (a.1 ≤ b.1))
  Json.mkObj [("NodeName", d.node), ("Type", d.type), ("Package", d.pkg), ("FilePath", d.path),
              ("Fields", mkArr (d.fields.map fun f => mkStrs [f.typeType, f.typeValue])), ("Extend", d.ext), ("Implements", mkStrs d.impls),
              ("Functions", mkArr (fs.map fun x => encFn x.2)), ("Annotations", mkArr (d.annos.map encAnno)),
              ("FunctionCalls", mkArr (d.calls.map encCall)), ("Imports", mkStrs d.imports)]

def decIP (j : Json) : JavaIdent.IP :=
  { startLine := intD j "startLine", startCol := intD j "startCol", stopLine := intD j "stopLine", stopCol := intD j "stopCol" }

def optAnno (j : Json) (k : String) : Option Anno :=
  match j.getObjVal? k with
  | .ok (.obj _) => some (Dec.anno (obj j k))
  | _ => none

def decIEv (j : Json) : JavaIdent.IEv :=
  match strD j "e" with
  | "pkg" => .pkg (strD j "name")
  | "imp" => .imp (strD j "name")
  | "anno" => .anno (Dec.anno (obj j "anno"))
  | "enterClass" => .enterClass (strD j "name") (optStr j "ext") (strs j "impls")
  | "enterInterface" => .enterInterface (strD j "name")
  | "enterCtor" => .enterCtor (strD j "name") (decIP j)
  | "exitCtor" => .exitCtor
  | "enterMethod" => .enterMethod (strD j "name") (strD j "ret") ((arr j "annos").map Dec.anno) (strs j "mods") (decIP j)
  | "exitMethod" => .exitMethod
  | "interfaceMethod" => .interfaceMethod (strD j "name") (strD j "ret") ((arr j "annos").map Dec.anno) (strs j "mods") (decIP j)
  | "exitInterfaceMethod" => .exitInterfaceMethod
  | "returnExpr" => .returnExpr (boolD j "hasNull")
  | _ => .exitType

/-- the process state: the full listener's and the identifier listener's package variables -/
structure PSt where
  full : FSt := {}
  ident : JavaIdent.ISt := {}

def step (st : PSt) (j : Json) : PSt × Json :=
  -- sources with constructs outside the model (anonymous classes): judged by the statement-level oracle only
  if boolD j "unmodelled" then (st, Json.mkObj [("unmodelled", Json.bool true)]) else
  let units := (arr j "units").map fun u => (strD u "path", (arr u "events").map decEv)
  let iunits := (arr j "units").map fun u => (strD u "path", (arr u "ievents").map decIEv)
  let pathsOf : Json → List String := fun r => match r with
    | Json.arr a => a.toList.filterMap fun p => match p with
      | Json.str s => some s
      | _ => none
    | _ => []
  if strD j "op" == "fullmulti" then
    -- C07: the real harness first runs the identifier pass over the whole tree (identifier set), then per run both passes
    let i0 := JavaIdent.runFiles st.ident (iunits.map (·.2))
    let runs := (arr j "runs").map pathsOf
    let r := runs.foldl (fun (acc : List Json × PSt) run =>
      let files := run.filterMap fun s => units.find? (·.1 == s)
      let ifiles := run.filterMap fun s => (iunits.find? (·.1 == s)).map (·.2)
      let xi := JavaIdent.runFiles acc.2.ident ifiles
      let x := runFiles acc.2.full (strs j "identKeys") files
      (acc.1 ++ [Json.mkObj [("nodes", mkArr (x.1.map encDS)), ("identifiers", mkArr (xi.1.map encDS))]], { full := x.2, ident := xi.2 }))
      ([], { st with ident := i0.2 })
    (r.2, Json.mkObj [("runs", mkArr r.1)])
  else
    let xi := JavaIdent.runFiles st.ident (iunits.map (·.2))
    let r := runFiles st.full (strs j "identKeys") units
    ({ full := r.2, ident := xi.2 }, Json.mkObj [("nodes", mkArr (r.1.map encDS)), ("identifiers", mkArr (xi.1.map encDS))])

end CocaVerif.Drv.JavaFull
