import CocaVerif.Model.Call

namespace CocaVerif.Call

/-- `a` calls `b` in the model, after DI replacement -/
def Calls (c : Cfg) (a b : String) : Prop := ∃ ch ∈ c.mm a, b = c.di ch

/-- reflexive-transitive closure of `Calls` (head-first) -/
inductive Reach (c : Cfg) : String → String → Prop
  | refl (a : String) : Reach c a a
  | head {a b z : String} : Calls c a b → Reach c b z → Reach c a z

theorem Reach.tail {c : Cfg} {a b z : String} (h : Reach c a b) (hc : Calls c b z) : Reach c a z := by
  induction h with
  | refl a => exact .head hc (.refl _)
  | head h1 _ ih => exact .head h1 (ih hc)

theorem Reach.trans {c : Cfg} {a b z : String} (h : Reach c a b) (h2 : Reach c b z) : Reach c a z := by
  induction h with
  | refl a => exact h2
  | head h1 _ ih => exact .head h1 (ih h2)

@[simp] theorem edgesOf_append (l1 l2 : List Item) : edgesOf (l1 ++ l2) = edgesOf l1 ++ edgesOf l2 := by
  induction l1 with
  | nil => rfl
  | cons x xs ih => cases x <;> simp [edgesOf, ih]

@[simp] theorem edgesOf_nil : edgesOf [] = [] := rfl
@[simp] theorem edgesOf_blank : edgesOf [Item.blank] = [] := rfl
@[simp] theorem edgesOf_edge (a b : String) : edgesOf [Item.edge a b] = [(a, b)] := rfl

/-! ### soundness of edges -/

def SoundFrom (c : Cfg) (root : String) (items : List Item) : Prop :=
  ∀ e ∈ edgesOf items, Calls c e.1 e.2 ∧ Reach c root e.1

theorem loopWith_sound (c : Cfg) (root f : String) (rec : Nat → String → List Item × Nat × Bool)
    (hrec : ∀ lc g, Reach c root g → SoundFrom c root (rec lc g).1)
    (hf : Reach c root f) :
    ∀ (cs : List String) (lc : Nat), (∀ ch ∈ cs, ch ∈ c.mm f) → SoundFrom c root (loopWith c rec f cs lc).1 := by
  intro cs
  induction cs with
  | nil => intro lc _ e he; simp [loopWith] at he
  | cons ch rest ih =>
    intro lc hsub e he
    have hch : ch ∈ c.mm f := hsub ch (by simp)
    have hcall : Calls c f (c.di ch) := ⟨ch, hch, rfl⟩
    simp only [loopWith, edgesOf_append, edgesOf_edge, List.mem_append, List.mem_singleton] at he
    rcases he with (he | he) | he
    · by_cases hE : (c.mm (c.di ch)).isEmpty
      · simp [hE] at he
      · simp only [hE] at he
        exact hrec _ _ (hf.tail hcall) e he
    · subst he; exact ⟨hcall, hf⟩
    · exact ih _ (fun x hx => hsub x (by simp [hx])) e he

theorem chain_sound (c : Cfg) (root : String) :
    ∀ (fuel lc : Nat) (f : String), Reach c root f → SoundFrom c root (chain c fuel lc f).1 := by
  intro fuel
  induction fuel with
  | zero => intro lc f _ e he; simp [chain] at he
  | succ n ih =>
    intro lc f hf e he
    unfold chain at he
    split at he
    · simp at he
    · split at he
      · simp at he
      · exact loopWith_sound c root f (chain c n) (fun lc g hg => ih lc g hg) hf _ _ (fun _ h => h) e he

/-! ### every callee in the loop list gets its edge -/

theorem loopWith_all_edges (c : Cfg) (f : String) (rec : Nat → String → List Item × Nat × Bool) :
    ∀ (cs : List String) (lc : Nat), ∀ ch ∈ cs, (f, c.di ch) ∈ edgesOf (loopWith c rec f cs lc).1 := by
  intro cs
  induction cs with
  | nil => intro _ ch h; simp at h
  | cons x rest ih =>
    intro lc ch hch
    simp only [loopWith, edgesOf_append, edgesOf_edge, List.mem_append, List.mem_singleton]
    rcases List.mem_cons.mp hch with h | h
    · subst h; exact Or.inl (Or.inr rfl)
    · exact Or.inr (ih _ ch h)

/-! ### counter monotone and bounded -/

theorem loopWith_mono (c : Cfg) (f : String) (rec : Nat → String → List Item × Nat × Bool)
    (hrec : ∀ lc g, lc ≤ (rec lc g).2.1) :
    ∀ (cs : List String) (lc : Nat), lc ≤ (loopWith c rec f cs lc).2.1 := by
  intro cs
  induction cs with
  | nil => intro lc; simp [loopWith]
  | cons x rest ih =>
    intro lc
    simp only [loopWith]
    by_cases hE : (c.mm (c.di x)).isEmpty
    · simp only [hE, if_true]; exact ih lc
    · simp only [hE]
      exact Nat.le_trans (hrec lc (c.di x)) (ih _)

theorem chain_mono (c : Cfg) : ∀ (fuel lc : Nat) (f : String), lc ≤ (chain c fuel lc f).2.1 := by
  intro fuel
  induction fuel with
  | zero => intro lc f; simp [chain]
  | succ n ih =>
    intro lc f
    unfold chain
    split
    · simp
    · split
      · simp
      · exact Nat.le_trans (Nat.le_succ lc) (loopWith_mono c f (chain c n) (fun lc g => ih lc g) _ _)

theorem loopWith_bound (c : Cfg) (B : Nat) (f : String) (rec : Nat → String → List Item × Nat × Bool)
    (hrec : ∀ lc g, lc ≤ B → (rec lc g).2.1 ≤ B) :
    ∀ (cs : List String) (lc : Nat), lc ≤ B → (loopWith c rec f cs lc).2.1 ≤ B := by
  intro cs
  induction cs with
  | nil => intro lc h; simpa [loopWith] using h
  | cons x rest ih =>
    intro lc h
    simp only [loopWith]
    by_cases hE : (c.mm (c.di x)).isEmpty
    · simp only [hE, if_true]; exact ih lc h
    · simp only [hE]
      exact ih _ (hrec lc _ h)

/-- the global counter never exceeds `max + 1` (started at or below it): the expansion budget. -/
theorem chain_bound (c : Cfg) : ∀ (fuel lc : Nat) (f : String), lc ≤ c.max + 1 → (chain c fuel lc f).2.1 ≤ c.max + 1 := by
  intro fuel
  induction fuel with
  | zero => intro lc f h; simpa [chain] using h
  | succ n ih =>
    intro lc f h
    unfold chain
    split
    · simpa using h
    · rename_i hhit
      have hlt : lc ≤ c.max := by
        simp [Gen.Call.callBudgetHit] at hhit; omega
      split
      · simp; omega
      · exact loopWith_bound c (c.max + 1) f (chain c n) (fun lc g hl => ih lc g hl) _ _ (by omega)

/-! ### fuel irrelevance -/

theorem loopWith_congr (c : Cfg) (f : String) (r1 r2 : Nat → String → List Item × Nat × Bool) (lc0 : Nat)
    (hmono : ∀ lc g, lc ≤ (r1 lc g).2.1)
    (heq : ∀ lc g, lc0 ≤ lc → r1 lc g = r2 lc g) :
    ∀ (cs : List String) (lc : Nat), lc0 ≤ lc → loopWith c r1 f cs lc = loopWith c r2 f cs lc := by
  intro cs
  induction cs with
  | nil => intro lc _; simp [loopWith]
  | cons x rest ih =>
    intro lc h
    simp only [loopWith]
    by_cases hE : (c.mm (c.di x)).isEmpty
    · simp only [hE, if_true]; rw [ih lc h]
    · have hE' : (c.mm (c.di x)).isEmpty = false := by simpa using hE
      simp only [hE', Bool.false_eq_true, ↓reduceIte]
      rw [← heq lc (c.di x) h]
      rw [ih _ (Nat.le_trans h (hmono lc (c.di x)))]

theorem chain_fuel_irrelevant (c : Cfg) :
    ∀ (n m lc : Nat) (f : String), c.max + 2 ≤ n + lc → c.max + 2 ≤ m + lc → chain c n lc f = chain c m lc f := by
  intro n
  induction n with
  | zero =>
    intro m lc f h1 h2
    cases m with
    | zero => rfl
    | succ m =>
      have : Gen.Call.callBudgetHit lc c.max = true := by simp [Gen.Call.callBudgetHit]; omega
      simp [chain, this]
  | succ n ih =>
    intro m lc f h1 h2
    cases m with
    | zero =>
      have : Gen.Call.callBudgetHit lc c.max = true := by simp [Gen.Call.callBudgetHit]; omega
      simp [chain, this]
    | succ m =>
      unfold chain
      split
      · rfl
      · split
        · rfl
        · exact loopWith_congr c f (chain c n) (chain c m) (lc + 1) (fun lc g => chain_mono c n lc g)
            (fun lc' g hl => ih m lc' g (by omega) (by omega)) _ _ (Nat.le_refl _)

/-! ### completeness when the budget test never fired -/

theorem loopWith_trunc_false (c : Cfg) (f : String) (rec : Nat → String → List Item × Nat × Bool) :
    ∀ (cs : List String) (lc : Nat), (loopWith c rec f cs lc).2.2 = false →
      ∀ ch ∈ cs, (c.mm (c.di ch)).isEmpty = false →
        ∃ lc', (rec lc' (c.di ch)).2.2 = false ∧ ∀ e ∈ edgesOf (rec lc' (c.di ch)).1, e ∈ edgesOf (loopWith c rec f cs lc).1 := by
  intro cs
  induction cs with
  | nil => intro _ _ ch h; simp at h
  | cons x rest ih =>
    intro lc ht ch hch hne
    simp only [loopWith, Bool.or_eq_false_iff] at ht
    rcases List.mem_cons.mp hch with h | h
    · subst h
      refine ⟨lc, ?_, ?_⟩
      · have := ht.1; simpa [hne] using this
      · intro e he
        simp only [loopWith, edgesOf_append, List.mem_append]
        left; left; simpa [hne] using he
    · obtain ⟨lc', h1, h2⟩ := ih _ ht.2 ch h hne
      refine ⟨lc', h1, ?_⟩
      intro e he
      simp only [loopWith, edgesOf_append, List.mem_append]
      right; exact h2 e he

theorem chain_complete (c : Cfg) :
    ∀ (fuel lc : Nat) (f : String), (chain c fuel lc f).2.2 = false →
      ∀ a b, Reach c f a → Calls c a b → (a, b) ∈ edgesOf (chain c fuel lc f).1 := by
  intro fuel
  induction fuel with
  | zero => intro lc f h; simp [chain] at h
  | succ n ih =>
    intro lc f ht a b hr hc
    have hne_of_calls : ∀ x y, Calls c x y → (c.mm x).isEmpty = false := by
      intro x y ⟨ch, hch, _⟩
      cases hm : c.mm x with
      | nil => simp [hm] at hch
      | cons _ _ => rfl
    unfold chain at ht ⊢
    split
    · rename_i hh; simp [hh] at ht
    · rename_i hh
      simp only [hh] at ht
      split
      · rename_i he
        -- f has no callees: then a = f is impossible (a has a call) and no step from f exists
        cases hr with
        | refl => have := hne_of_calls _ _ hc; simp [this] at he
        | head h1 _ => have := hne_of_calls _ _ h1; simp [this] at he
      · rename_i he
        simp only [he] at ht
        cases hr with
        | refl =>
          obtain ⟨ch, hch, rfl⟩ := hc
          exact loopWith_all_edges c f (chain c n) _ _ ch hch
        | head h1 h2 =>
          obtain ⟨ch, hch, rfl⟩ := h1
          have hne : (c.mm (c.di ch)).isEmpty = false := by
            cases h2 with
            | refl => exact hne_of_calls _ _ hc
            | head h3 _ => exact hne_of_calls _ _ h3
          obtain ⟨lc', h1', h2'⟩ := loopWith_trunc_false c f (chain c n) _ _ ht ch hch hne
          exact h2' _ (ih lc' (c.di ch) h1' a b h2 hc)

end CocaVerif.Call
