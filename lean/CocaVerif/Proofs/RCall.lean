import CocaVerif.Proofs.Call

namespace CocaVerif.GoMap
variable {κ ν : Type} [BEq κ]

theorem get?_set (m : List (κ × ν)) (k : κ) (v : ν) (q : κ) :
    get? (set m k v) q = if k == q then some v else get? m q := by
  unfold set
  induction m with
  | nil => simp [get?]
  | cons p r ih =>
    obtain ⟨k', v'⟩ := p
    simp only [List.cons_append, get?, ih]
    by_cases h : (k == q) = true
    · simp [h]
    · simp [h]

theorem getL_set (m : List (κ × List ν)) (k : κ) (v : List ν) (q : κ) :
    getL (set m k v) q = if k == q then v else getL m q := by
  unfold getL
  rw [get?_set]
  by_cases h : (k == q) = true <;> simp [h]

end CocaVerif.GoMap

namespace CocaVerif.Call

theorem filterMap_congr' {α β : Type} {f g : α → Option β} (l : List α) (h : ∀ x ∈ l, f x = g x) :
    l.filterMap f = l.filterMap g := by
  induction l with
  | nil => rfl
  | cons x xs ih =>
    rw [List.filterMap_cons, List.filterMap_cons, h x (by simp), ih (fun y hy => h y (by simp [hy]))]

/-! ### the reverse-call map built by the Go loop is the exact inverse relation -/

theorem foldl_rmap (D : List String) (k : String) :
    ∀ (sites : List (String × String)) (m : List (String × List String)),
      GoMap.getL (sites.foldl (fun m s => if D.contains s.2 then GoMap.set m s.2 (GoMap.getL m s.2 ++ [s.1]) else m) m) k
        = GoMap.getL m k ++ sites.filterMap (fun s => if D.contains s.2 && s.2 == k then some s.1 else none) := by
  intro sites
  induction sites with
  | nil => intro m; simp
  | cons s rest ih =>
    intro m
    rw [List.foldl_cons, ih, List.filterMap_cons]
    cases hc : D.contains s.2 <;> cases hk : (s.2 == k) <;>
      simp only [hc, hk, Bool.false_eq_true, ↓reduceIte, Bool.and_false, Bool.and_true, Bool.and_self,
        Bool.false_and, GoMap.getL_set, List.append_assoc, List.singleton_append]
    have e : s.2 = k := by simpa using hk
    rw [e]

theorem buildMethodCallMap_get (clzs : List DS) (k : String) :
    GoMap.getL (buildMethodCallMap clzs) k = rmapOf clzs k := by
  unfold buildMethodCallMap rmapOf
  rw [foldl_rmap]
  have h0 : GoMap.getL ([] : List (String × List String)) k = [] := rfl
  rw [h0, List.nil_append]
  cases hD : (declared clzs).contains k
  · simp only [Bool.false_eq_true, ↓reduceIte]
    rw [List.filterMap_eq_nil_iff]
    intro s _
    cases hk : (s.2 == k)
    · simp
    · have e : s.2 = k := by simpa using hk
      rw [e, hD]; simp
  · simp only [↓reduceIte]
    apply filterMap_congr'
    intro s _
    cases hk : (s.2 == k)
    · simp
    · have e : s.2 = k := by simpa using hk
      rw [e, hD]; simp

/-! ### soundness of reverse edges -/

/-- `b` lies on a caller chain ending at the target `t` -/
inductive Up (c : RCfg) (t : String) : String → Prop
  | refl : Up c t t
  | step {a b : String} : Up c t b → a ∈ c.mm b → Up c t a

def RSound (c : RCfg) (t : String) (items : List Item) : Prop :=
  ∀ e ∈ edgesOf items, e.1 ∈ c.mm e.2 ∧ Up c t e.2

theorem RSound_nil (c : RCfg) (t : String) : RSound c t [] := by intro e he; simp at he

theorem RSound_append {c : RCfg} {t : String} {a b : List Item} (ha : RSound c t a) (hb : RSound c t b) :
    RSound c t (a ++ b) := by
  intro e he
  simp only [edgesOf_append, List.mem_append] at he
  rcases he with h | h
  · exact ha e h
  · exact hb e h

theorem rsub_sound (c : RCfg) (t f : String) (rec : RSt → String → List Item × RSt × Bool)
    (hrec : ∀ st g, Up c t g → RSound c t (rec st g).1) (hf : Up c t f)
    (acc : List Item) (st : RSt) (ch : String) (hch : ch ∈ c.mm f) (ha : RSound c t acc) :
    RSound c t (rsub c rec acc st ch).1 := by
  unfold rsub
  split
  · exact ha
  · exact RSound_append ha (hrec _ _ (.step hf hch))

theorem rloopWith_sound (c : RCfg) (t f : String) (rec : RSt → String → List Item × RSt × Bool)
    (hrec : ∀ st g, Up c t g → RSound c t (rec st g).1) (hf : Up c t f) :
    ∀ (cs : List String) (acc : List Item) (st : RSt), (∀ ch ∈ cs, ch ∈ c.mm f) → RSound c t acc →
      RSound c t (rloopWith c rec f cs acc st).1 := by
  intro cs
  induction cs with
  | nil => intro acc st _ ha; simpa [rloopWith] using ha
  | cons ch rest ih =>
    intro acc st hsub ha
    have hch : ch ∈ c.mm f := hsub ch (by simp)
    have hrest : ∀ x ∈ rest, x ∈ c.mm f := fun x hx => hsub x (by simp [hx])
    have hS := rsub_sound c t f rec hrec hf acc st ch hch ha
    unfold rloopWith
    split
    · exact RSound_nil c t
    · split
      · exact ih _ _ hrest hS
      · refine ih _ _ hrest (RSound_append hS ?_)
        intro e he
        simp at he
        subst he
        exact ⟨hch, hf⟩

theorem rchain_sound (c : RCfg) (t : String) :
    ∀ (fuel : Nat) (st : RSt) (f : String), Up c t f → RSound c t (rchain c fuel st f).1 := by
  intro fuel
  induction fuel with
  | zero => intro st f _ e he; simp [rchain] at he
  | succ n ih =>
    intro st f hf
    unfold rchain
    split
    · intro e he; simp at he
    · split
      · intro e he; simp at he
      · exact rloopWith_sound c t f (rchain c n) (fun st g hg => ih st g hg) hf _ _ _ (fun _ h => h) (RSound_nil c t)

/-! ### direct callers are present unless the `return ""` is taken -/

theorem rsub_keeps (c : RCfg) (rec : RSt → String → List Item × RSt × Bool) (acc : List Item) (st : RSt) (ch : String) :
    ∀ e ∈ edgesOf acc, e ∈ edgesOf (rsub c rec acc st ch).1 := by
  intro e he
  unfold rsub
  split
  · exact he
  · simp only [edgesOf_append, List.mem_append]; exact Or.inl he

theorem rloopWith_keeps (c : RCfg) (f : String) (rec : RSt → String → List Item × RSt × Bool) :
    ∀ (cs : List String) (acc : List Item) (st : RSt), (rloopWith c rec f cs acc st).2.2 = false →
      (∀ e ∈ edgesOf acc, e ∈ edgesOf (rloopWith c rec f cs acc st).1) ∧
      (∀ ch ∈ cs, ch ≠ f → (ch, f) ∈ edgesOf (rloopWith c rec f cs acc st).1) := by
  intro cs
  induction cs with
  | nil => intro acc st _; simp [rloopWith]
  | cons ch rest ih =>
    intro acc st hna
    have hacc := rsub_keeps c rec acc st ch
    unfold rloopWith at hna ⊢
    split
    · rename_i h; simp [h] at hna
    · rename_i h
      simp only [h] at hna
      split
      · rename_i hfc
        simp only [hfc] at hna
        have := ih _ _ hna
        refine ⟨fun e he => this.1 e (hacc e he), ?_⟩
        intro x hx hne
        rcases List.mem_cons.mp hx with h1 | h1
        · subst h1; exact absurd (by simpa using hfc : f = x).symm hne
        · exact this.2 x h1 hne
      · rename_i hfc
        simp only [hfc] at hna
        have := ih _ _ hna
        refine ⟨fun e he => this.1 e (by simp only [edgesOf_append, List.mem_append]; exact Or.inl (hacc e he)), ?_⟩
        intro x hx hne
        rcases List.mem_cons.mp hx with h1 | h1
        · subst h1; exact this.1 _ (by simp)
        · exact this.2 x h1 hne

/-! ### the depth budget bounds the traversal -/

theorem rloopWith_bound (c : RCfg) (B : Nat) (f : String) (rec : RSt → String → List Item × RSt × Bool)
    (hrec : ∀ st g, st.lc ≤ B → (rec st g).2.1.lc ≤ B) :
    ∀ (cs : List String) (acc : List Item) (st : RSt), st.lc ≤ B → (rloopWith c rec f cs acc st).2.1.lc ≤ B := by
  intro cs
  induction cs with
  | nil => intro acc st h; simpa [rloopWith] using h
  | cons ch rest ih =>
    intro acc st h
    have hs : (rsub c rec acc st ch).2.lc ≤ B := by
      unfold rsub
      split
      · exact h
      · exact hrec _ _ h
    unfold rloopWith
    split
    · exact h
    · split
      · exact ih _ _ hs
      · exact ih _ _ hs

theorem rchain_bound (c : RCfg) : ∀ (fuel : Nat) (st : RSt) (f : String), st.lc ≤ c.depth → (rchain c fuel st f).2.1.lc ≤ c.depth := by
  intro fuel
  induction fuel with
  | zero => intro st f h; simpa [rchain] using h
  | succ n ih =>
    intro st f h
    unfold rchain
    split
    · exact h
    · rename_i hh
      have hlt : st.lc < c.depth := by simp [Gen.Call.rcallBudgetHit] at hh; omega
      split
      · simp; omega
      · exact rloopWith_bound c c.depth f (rchain c n) (fun st g hl => ih st g hl) _ _ _ (by simp; omega)

end CocaVerif.Call
