import CocaVerif.Model.Tbs

namespace CocaVerif.Tbs
open CocaVerif.Gen.Tbs

def ofType (t : String) (l : List TF) : List TF := l.filter fun f => f.type == t

@[simp] theorem ofType_nil (t : String) : ofType t [] = [] := rfl
@[simp] theorem ofType_append (t : String) (a b : List TF) : ofType t (a ++ b) = ofType t a ++ ofType t b := by
  simp [ofType, List.filter_append]

theorem ofType_ne {l : List TF} {k t : String} (h : ∀ f ∈ l, f.type = k) (hne : k ≠ t) : ofType t l = [] := by
  unfold ofType
  rw [List.filter_eq_nil_iff]
  intro f hf; rw [h f hf]; simpa using hne

theorem ofType_same {l : List TF} {k : String} (h : ∀ f ∈ l, f.type = k) : ofType k l = l := by
  unfold ofType
  rw [List.filter_eq_self]
  intro f hf; rw [h f hf]; simp

theorem printF_type (file : String) (c : Call) : ∀ f ∈ printF file c, f.type = "RedundantPrintTest" := by
  intro f hf; unfold printF at hf; split at hf <;> simp at hf; subst hf; rfl
theorem sleepF_type (file : String) (c : Call) : ∀ f ∈ sleepF file c, f.type = "SleepyTest" := by
  intro f hf; unfold sleepF at hf; split at hf <;> simp at hf; subst hf; rfl
theorem redundantF_type (file : String) (m : Fn) (c : Call) : ∀ f ∈ redundantF file m c, f.type = "RedundantAssertionTest" := by
  intro f hf; unfold redundantF at hf; split at hf <;> simp at hf; subst hf; rfl
theorem assertF_type (file : String) (m : Fn) (b : Bool) : ∀ f ∈ assertF file m b, f.type = "UnknownTest" := by
  intro f hf; unfold assertF at hf; split at hf <;> simp at hf; subst hf; rfl
theorem ignoreF_type (file : String) (a : Anno) : ∀ f ∈ ignoreF file a, f.type = "IgnoreTest" := by
  intro f hf; unfold ignoreF at hf; split at hf <;> simp at hf; subst hf; rfl
theorem emptyF_type (file : String) (m : Fn) (n : Nat) (a : Anno) : ∀ f ∈ emptyF file m n a, f.type = "EmptyTest" := by
  intro f hf; unfold emptyF at hf
  split at hf
  · split at hf <;> simp at hf; subst hf; rfl
  · simp at hf
theorem dupF_type (file : String) (m : Fn) (cs : List Call) : ∀ f ∈ dupF file m cs, f.type = "DuplicateAssertTest" := by
  intro f hf; unfold dupF at hf; split at hf <;> simp at hf; subst hf; rfl

theorem condAssert_type (file : String) (m : Fn) (b c : Bool) :
    ∀ f ∈ (if c then assertF file m b else []), f.type = "UnknownTest" := by
  intro f hf; split at hf
  · exact assertF_type file m b f hf
  · simp at hf

/-- a non-creation call -/
def real (c : Call) : Bool := c.fn != ""

/-- per-call pieces of the three per-call detectors, for a type `t` different from UnknownTest -/
theorem callLoop_ofType (file : String) (m : Fn) (t : String) (ht : "UnknownTest" ≠ t) :
    ∀ (cs : List Call) (has : Bool), ofType t (callLoop file m cs has) =
      cs.flatMap fun c => if real c then ofType t (printF file c ++ sleepF file c ++ redundantF file m c) else [] := by
  intro cs
  induction cs with
  | nil => intro _; simp [callLoop]
  | cons c rest ih =>
    intro has
    unfold callLoop
    cases hc : (c.fn == "")
    · have hr : real c = true := by unfold real bne; rw [hc]; rfl
      simp only [Bool.false_eq_true, ↓reduceIte, ofType_append, ih, List.flatMap_cons, hr]
      rw [ofType_ne (condAssert_type file m _ _) ht]; simp
    · have hr : real c = false := by unfold real bne; rw [hc]; rfl
      simp only [↓reduceIte, ofType_append, ih, List.flatMap_cons, hr, Bool.false_eq_true, List.nil_append]
      rw [ofType_ne (condAssert_type file m has _) ht]; rfl

/-- UnknownTest is produced exactly once, when the last call is visited, iff no assertion was seen -/
theorem callLoop_unknown (file : String) (m : Fn) :
    ∀ (cs : List Call) (has : Bool), ofType "UnknownTest" (callLoop file m cs has) =
      if cs ≠ [] ∧ (has || cs.any fun c => real c && hasAssertion c) = false then
        [{ file := file, type := "UnknownTest", line := m.pos.startLine }] else [] := by
  intro cs
  induction cs with
  | nil => intro _; simp [callLoop]
  | cons c rest ih =>
    intro has
    unfold callLoop
    have hp := ofType_ne (printF_type file c) (t := "UnknownTest") (by decide)
    have hs := ofType_ne (sleepF_type file c) (t := "UnknownTest") (by decide)
    have hr' := ofType_ne (redundantF_type file m c) (t := "UnknownTest") (by decide)
    cases hc : (c.fn == "")
    case true =>
      have hr : real c = false := by unfold real bne; rw [hc]; rfl
      simp only [↓reduceIte, ofType_append, ih, hr, List.any_cons, Bool.false_and, Bool.false_or]
      cases rest with
      | nil =>
        simp only [List.isEmpty_nil, ↓reduceIte, ne_eq, not_true_eq_false, false_and, List.append_nil, List.any_nil,
          Bool.or_false, List.cons_ne_nil, not_false_eq_true, true_and]
        rw [ofType_same (assertF_type file m has)]
        cases has <;> simp [assertF]
      | cons r rs => simp
    case false =>
      have hr : real c = true := by unfold real bne; rw [hc]; rfl
      simp only [Bool.false_eq_true, ↓reduceIte, ofType_append, ih, hp, hs, hr', List.nil_append, hr, List.any_cons,
        Bool.true_and]
      cases rest with
      | nil =>
        simp only [List.isEmpty_nil, ↓reduceIte, ne_eq, not_true_eq_false, false_and, List.append_nil, List.any_nil,
          Bool.or_false, List.cons_ne_nil, not_false_eq_true, true_and]
        rw [ofType_same (assertF_type file m _)]
        cases has <;> cases hasAssertion c <;> simp [assertF]
      | cons r rs => simp [Bool.or_assoc]

end CocaVerif.Tbs
