/-
  Lemmas about the Java full-listener model: what the events inside a method or constructor body can
  and cannot change (used by Props/C01 and Props/C02).
-/
import CocaVerif.Model.JavaFull
import CocaVerif.Proofs.GoMapLemmas

namespace CocaVerif.JavaFull
open CocaVerif

/-- events the walker fires between the entry and the exit of a method or constructor declaration of a
    conventional unit: parameters, annotations on parameters, local declarations, block / for / switch
    scopes, invocations, creations, method references -/
def bodyEv : Ev → Bool
  | .localVar _ _ | .creator _ _ _ _ | .call _ _ _ _ _ _ _ _ | .mref _ _ _ | .enterBlock | .exitBlock | .enterStmtScope
  | .forVar _ _ | .exitStmtScope | .formalParam _ _ | .anno _ => true
  | _ => false

/-- the invocations, creations and method references among them -/
def isInv : Ev → Bool
  | .call _ _ _ _ _ _ _ _ => true
  | .creator _ _ (_ :: _) _ => true
  | .mref _ _ _ => true
  | _ => false

/-- the regenerated width functions: all three positions count characters (`utf8.RuneCountInString`) -/
theorem width_method (x : String) : width Gen.JavaFull.methodStopWidth x = x.length := by
  simp [width, Gen.JavaFull.methodStopWidth]
theorem width_call (x : String) : width Gen.JavaFull.callStopWidth x = x.length := by
  simp [width, Gen.JavaFull.callStopWidth]
theorem width_mref (x : String) : width Gen.JavaFull.mrefStopWidth x = x.length := by
  simp [width, Gen.JavaFull.mrefStopWidth]

/-- what C02 says a recorded call carries, for the event it was recorded from: the callee name, the
    position that selects the callee identifier (line, column .. column + length), the arguments; for a
    creation the created type; for a method reference the method name -/
def Rec (c : Call) : Ev → Prop
  | .call _ _ callee _ args sl sc el =>
      c.fn = callee ∧ c.pos = { startLine := sl, startCol := sc, stopLine := el, stopCol := sc + callee.length } ∧
      c.params = args.map fun a => { typeType := "", typeValue := a }
  | .creator _ _ (i :: _) pos => c.type = "CreatorClass" ∧ c.node = i ∧ c.fn = "" ∧ c.pos = buildPosition pos i
  | .mref _ mn pos => c.type = "lambda" ∧ c.fn = mn ∧
      c.pos = { startLine := pos.startLine, startCol := pos.startCol, stopLine := pos.startLine, stopCol := pos.startCol + mn.length }
  | _ => False

/-- `cs` are, one for one and in order, records of the events `es` -/
inductive AllRec : List Call → List Ev → Prop
  | nil : AllRec [] []
  | cons {c : Call} {e : Ev} {cs : List Call} {es : List Ev} : Rec c e → AllRec cs es → AllRec (c :: cs) (e :: es)

theorem AllRec.length {cs : List Call} {es : List Ev} (h : AllRec cs es) : cs.length = es.length := by
  induction h with
  | nil => rfl
  | cons _ _ ih => simp [ih]

/-- the part of the listener state that no body event touches -/
structure Core where
  pkg : String
  clz : String
  clzExtend : String
  curType : String
  fileName : String
  curMethod : Fn
  node : DS
  classNodes : List DS
  fields : List Field
  hasEnterClass : Bool
  methodQueue : List Fn
  imports : List String
  clzs : List String
  identKeys : List String
  mapFields : List (String × String)

def core (st : FSt) : Core :=
  { pkg := st.pkg, clz := st.clz, clzExtend := st.clzExtend, curType := st.curType, fileName := st.fileName, curMethod := st.curMethod,
    node := st.node, classNodes := st.classNodes, fields := st.fields, hasEnterClass := st.hasEnterClass, methodQueue := st.methodQueue,
    imports := st.imports, clzs := st.clzs, identKeys := st.identKeys, mapFields := st.mapFields }

theorem keyOf_core (st st' : FSt) (h : core st' = core st) (m : Fn) : keyOf st' m = keyOf st m := by
  have h1 : st'.pkg = st.pkg := congrArg Core.pkg h
  have h2 : st'.clz = st.clz := congrArg Core.clz h
  have h3 : st'.methodQueue = st.methodQueue := congrArg Core.methodQueue h
  simp [keyOf, h1, h2, h3]

/-- the effect of a step on the method table, seen from the current method's entry `f` under key `k` -/
structure Eff (st st' : FSt) (k : String) (f : Fn) (cs : List Call) : Prop where
  hcore : core st' = core st
  keys : GoMap.keys st'.methodMap = GoMap.keys st.methodMap
  others : ∀ q, q ≠ k → GoMap.get? st'.methodMap q = GoMap.get? st.methodMap q
  mine : GoMap.get? st'.methodMap k = some { f with calls := f.calls ++ cs }

theorem Eff.refl (st : FSt) (k : String) (f : Fn) (hf : GoMap.get? st.methodMap k = some f) : Eff st st k f [] :=
  ⟨rfl, rfl, fun _ _ => rfl, by simpa using hf⟩

/-- a step that leaves the method table alone -/
theorem Eff.of_same (st st' : FSt) (k : String) (f : Fn) (hf : GoMap.get? st.methodMap k = some f)
    (hc : core st' = core st) (hm : st'.methodMap = st.methodMap) : Eff st st' k f [] :=
  ⟨hc, by rw [hm], fun _ _ => by rw [hm], by rw [hm]; simpa using hf⟩

theorem addCall_eff (st : FSt) (c : Call) (f : Fn) (hf : GoMap.get? st.methodMap (keyOf st st.curMethod) = some f) :
    Eff st (addCall st c) (keyOf st st.curMethod) f [c] := by
  have hk : keyOf st st.curMethod ∈ GoMap.keys st.methodMap :=
    (GoMap.get?_isSome_iff_mem_keys _ _).mp (by rw [hf]; rfl)
  refine ⟨rfl, ?_, ?_, ?_⟩
  · simp only [addCall]; exact GoMap.keys_set_mem _ _ _ hk
  · intro q hq
    simp only [addCall, GoMap.get?_set]
    have : (keyOf st st.curMethod == q) = false := by simpa using fun h => hq h.symm
    simp [this]
  · simp only [addCall, GoMap.get?_set, hf, Option.getD_some, beq_self_eq_true, if_true]

/-- a state change outside the method table and the core, before a call is appended -/
theorem addCall_eff' (st s1 : FSt) (c : Call) (f : Fn) (hf : GoMap.get? st.methodMap (keyOf st st.curMethod) = some f)
    (hc : core s1 = core st) (hm : s1.methodMap = st.methodMap) :
    Eff st (addCall s1 c) (keyOf st st.curMethod) f [c] := by
  have hk : keyOf s1 s1.curMethod = keyOf st st.curMethod := by
    rw [keyOf_core st s1 hc]; congr 1; exact congrArg Core.curMethod hc
  have hf1 : GoMap.get? s1.methodMap (keyOf s1 s1.curMethod) = some f := by rw [hm, hk]; exact hf
  have e := addCall_eff s1 c f hf1
  rw [hk] at e
  exact ⟨e.hcore.trans hc, by rw [e.keys, hm], fun q hq => by rw [e.others q hq, hm], e.mine⟩

theorem saveLocalVars_core (st : FSt) : core (saveLocalVars st) = core st ∧ (saveLocalVars st).methodMap = st.methodMap := by
  unfold saveLocalVars; split <;> exact ⟨rfl, rfl⟩

theorem restoreLocalVars_core (st : FSt) : core (restoreLocalVars st) = core st ∧ (restoreLocalVars st).methodMap = st.methodMap := by
  unfold restoreLocalVars; split <;> exact ⟨rfl, rfl⟩

/-- ONE body event: the entry of the current method gets exactly the one call written by the event (or
    none), nothing else in the method table moves, nothing outside the scope tables moves -/
theorem body_step (st : FSt) (e : Ev) (hb : bodyEv e = true) (hc : st.hasEnterClass = true) (f : Fn)
    (hf : GoMap.get? st.methodMap (keyOf st st.curMethod) = some f) :
    ∃ cs, Eff st (onEv st e) (keyOf st st.curMethod) f cs ∧
      (if isInv e then ∃ c, cs = [c] ∧ Rec c e else cs = []) := by
  cases e with
  | localVar t n =>
    refine ⟨[], ?_, by simp [isInv]⟩
    cases n <;> exact Eff.of_same _ _ _ _ hf rfl rfl
  | creator v av idents pos =>
    cases idents with
    | nil => exact ⟨[], by simpa [onEv] using Eff.refl st _ f hf, by simp [isInv]⟩
    | cons i rest =>
      have key : ∀ s1 : FSt, core s1 = core st → s1.methodMap = st.methodMap →
          ∃ cs, Eff st (addCall s1 { pkg := removeTarget (warp s1 i).1, type := "CreatorClass", node := i, pos := buildPosition pos i })
              (keyOf st st.curMethod) f cs ∧ ∃ c, cs = [c] ∧ Rec c (.creator v av (i :: rest) pos) :=
        fun s1 h1 h2 => ⟨[_], addCall_eff' st s1 _ f hf h1 h2, _, rfl, rfl, rfl, rfl, rfl⟩
      simp only [onEv, isInv, if_true]
      apply key
      · split <;> (try split) <;> rfl
      · split <;> (try split) <;> rfl
  | call tt tci callee ctx args sl sc el =>
    simp only [onEv, onCall]
    exact ⟨[_], addCall_eff st _ f hf, by simp only [isInv, if_true]; exact ⟨_, rfl, rfl, rfl, rfl⟩⟩
  | mref x mn pos =>
    simp only [onEv]
    exact ⟨[_], addCall_eff st _ f hf, by simp only [isInv, if_true]; exact ⟨_, rfl, rfl, rfl, rfl⟩⟩
  | enterBlock =>
    refine ⟨[], ?_, by simp [isInv]⟩
    simp only [onEv]; split
    · exact Eff.of_same _ _ _ _ hf (saveLocalVars_core st).1 (saveLocalVars_core st).2
    · exact Eff.refl _ _ _ hf
  | exitBlock =>
    refine ⟨[], ?_, by simp [isInv]⟩
    simp only [onEv]; split
    · exact Eff.of_same _ _ _ _ hf (restoreLocalVars_core st).1 (restoreLocalVars_core st).2
    · exact Eff.refl _ _ _ hf
  | enterStmtScope =>
    refine ⟨[], ?_, by simp [isInv]⟩
    simp only [onEv]; split
    · exact Eff.of_same _ _ _ _ hf (saveLocalVars_core st).1 (saveLocalVars_core st).2
    · exact Eff.refl _ _ _ hf
  | exitStmtScope =>
    refine ⟨[], ?_, by simp [isInv]⟩
    simp only [onEv]; split
    · exact Eff.of_same _ _ _ _ hf (restoreLocalVars_core st).1 (restoreLocalVars_core st).2
    · exact Eff.refl _ _ _ hf
  | forVar t n =>
    refine ⟨[], ?_, by simp [isInv]⟩
    simp only [onEv]; split
    · exact Eff.of_same _ _ _ _ hf rfl rfl
    · exact Eff.refl _ _ _ hf
  | formalParam n t => exact ⟨[], Eff.of_same _ _ _ _ hf rfl rfl, by simp [isInv]⟩
  | anno a =>
    refine ⟨[], ?_, by simp [isInv]⟩
    simp only [onEv, hc, Bool.not_true, Bool.false_eq_true, if_false]
    exact Eff.of_same _ _ _ _ hf (by simp [core, hc]) rfl
  | pkg _ => simp [bodyEv] at hb
  | imp _ => simp [bodyEv] at hb
  | enterClass _ _ _ => simp [bodyEv] at hb
  | enterInterface _ _ => simp [bodyEv] at hb
  | interfaceBodyDecl => simp [bodyEv] at hb
  | interfaceMethod _ _ _ _ _ _ => simp [bodyEv] at hb
  | field _ _ _ => simp [bodyEv] at hb
  | enterCtor _ _ _ _ => simp [bodyEv] at hb
  | exitCtor => simp [bodyEv] at hb
  | enterMethod _ _ _ _ _ _ _ _ => simp [bodyEv] at hb
  | exitMethod => simp [bodyEv] at hb
  | exitBody => simp [bodyEv] at hb

/-- a whole body: the entry of the current method gets, in order, exactly one call per invocation /
    creation / method reference written in the body -/
theorem body_run (b : List Ev) : ∀ (st : FSt) (f : Fn), (∀ e ∈ b, bodyEv e = true) → st.hasEnterClass = true →
    GoMap.get? st.methodMap (keyOf st st.curMethod) = some f →
    ∃ cs, Eff st (b.foldl onEv st) (keyOf st st.curMethod) f cs ∧ AllRec cs (b.filter isInv) := by
  induction b with
  | nil => intro st f _ _ hf; exact ⟨[], Eff.refl _ _ _ hf, AllRec.nil⟩
  | cons e b ih =>
    intro st f hb hc hf
    obtain ⟨cs1, e1, r1⟩ := body_step st e (hb e (by simp)) hc f hf
    have hcur : (onEv st e).curMethod = st.curMethod := congrArg Core.curMethod e1.hcore
    have hk : keyOf (onEv st e) (onEv st e).curMethod = keyOf st st.curMethod := by
      rw [keyOf_core _ _ e1.hcore, hcur]
    have hc' : (onEv st e).hasEnterClass = true := by
      have := congrArg Core.hasEnterClass e1.hcore; simpa [core, hc] using this
    obtain ⟨cs2, e2, r2⟩ := ih (onEv st e) { f with calls := f.calls ++ cs1 } (fun x hx => hb x (by simp [hx])) hc'
      (by rw [hk]; exact e1.mine)
    rw [hk] at e2
    refine ⟨cs1 ++ cs2, ⟨e2.hcore.trans e1.hcore, e2.keys.trans e1.keys, fun q hq => (e2.others q hq).trans (e1.others q hq), ?_⟩, ?_⟩
    · simpa [List.append_assoc] using e2.mine
    · simp only [List.filter_cons]
      by_cases hi : isInv e = true
      · simp only [hi, if_true] at r1 ⊢
        obtain ⟨c, rfl, hr⟩ := r1
        exact AllRec.cons hr r2
      · simp only [hi] at r1 ⊢
        subst r1
        simpa using r2

end CocaVerif.JavaFull
