import CocaVerif.Base.GoMap
import CocaVerif.Proofs.RCall

/-! Lemmas about the Go-map log representation: lookup after erase, keys, and the sum of a weight
    over the current bindings (used for "counts add up" theorems in C15 and C18). -/
namespace CocaVerif.GoMap
variable {κ ν : Type} [BEq κ] [LawfulBEq κ]

omit [LawfulBEq κ] in
theorem keys_nodup (m : List (κ × ν)) [LawfulBEq κ] : (keys m).Nodup := by
  induction m with
  | nil => simp [keys]
  | cons p r ih =>
    obtain ⟨k, v⟩ := p
    simp only [keys, List.nodup_cons]
    refine ⟨?_, ih.sublist List.filter_sublist⟩
    intro h
    have := (List.mem_filter.mp h).2
    simp at this

theorem entries_keys_nodup (m : List (κ × ν)) : ((entries m).map (·.1)).Nodup := by
  unfold entries
  have hk := keys_nodup m
  generalize keys m = ks at hk
  induction ks with
  | nil => simp
  | cons k ks ih =>
    rw [List.nodup_cons] at hk
    rw [List.filterMap_cons]
    cases hg : get? m k with
    | none => simpa [hg] using ih hk.2
    | some v =>
      simp only [hg, Option.map_some, List.map_cons, List.nodup_cons]
      refine ⟨?_, ih hk.2⟩
      intro hmem
      simp only [List.mem_map, List.mem_filterMap] at hmem
      obtain ⟨⟨k', v'⟩, ⟨k'', hk'', hsome⟩, rfl⟩ := hmem
      cases hg' : get? m k'' with
      | none => simp [hg'] at hsome
      | some w =>
        simp only [hg', Option.map_some, Option.some.injEq, Prod.mk.injEq] at hsome
        exact hk.1 (hsome.1 ▸ hk'')


theorem get?_erase (m : List (κ × ν)) (q k : κ) :
    get? (erase m q) k = if q == k then none else get? m k := by
  unfold erase
  induction m with
  | nil => simp [get?]
  | cons p r ih =>
    obtain ⟨k', v'⟩ := p
    simp only [List.filter_cons]
    cases hq : (k' == q)
    · -- kept
      simp only [Bool.not_false, ↓reduceIte, get?, ih]
      cases hqk : (q == k)
      · simp
      · have e1 : q = k := by simpa using hqk
        have : (k' == k) = false := by rw [← e1]; exact hq
        simp [this]
    · -- dropped
      have e1 : k' = q := by simpa using hq
      simp only [Bool.not_true, Bool.false_eq_true, ↓reduceIte, ih, get?]
      cases hqk : (q == k)
      · have : (k' == k) = false := by rw [e1]; exact hqk
        simp only [this, Bool.false_eq_true, ↓reduceIte]
        cases get? r k <;> rfl
      · simp

theorem get?_isSome_iff_mem_keys (m : List (κ × ν)) (q : κ) : (get? m q).isSome = true ↔ q ∈ keys m := by
  induction m with
  | nil => simp [get?, keys]
  | cons p r ih =>
    obtain ⟨k, v⟩ := p
    simp only [get?, keys, List.mem_cons, List.mem_filter]
    cases hg : get? r q with
    | some x =>
      have hm : q ∈ keys r := ih.mp (by simp [hg])
      simp only [Option.isSome_some, true_iff]
      by_cases hqk : q = k
      · exact Or.inl hqk
      · exact Or.inr ⟨hm, by simpa using hqk⟩
    | none =>
      have hm : ¬ q ∈ keys r := fun h => by have := ih.mpr h; simp [hg] at this
      cases hkq : (k == q)
      · have : ¬ q = k := fun e => by rw [e] at hkq; simp at hkq
        simp [hm, this]
      · have e : k = q := by simpa using hkq
        simp [e]

theorem keys_append_single (m : List (κ × ν)) (k : κ) (v : ν) :
    (k ∈ keys m → keys (m ++ [(k, v)]) = keys m) ∧ (¬ k ∈ keys m → keys (m ++ [(k, v)]) = keys m ++ [k]) := by
  induction m with
  | nil => simp [keys]
  | cons p r ih =>
    obtain ⟨k', v'⟩ := p
    simp only [List.cons_append, keys, List.mem_cons, List.mem_filter]
    constructor
    · intro h
      by_cases h1 : k ∈ keys r
      · rw [ih.1 h1]
      · rcases h with e | ⟨hm, _⟩
        · subst e
          rw [ih.2 h1, List.filter_append]
          simp
        · exact absurd hm h1
    · intro h
      have h1 : ¬ k ∈ keys r := by
        intro hm
        apply h
        by_cases e : k = k'
        · exact Or.inl e
        · exact Or.inr ⟨hm, by simpa using e⟩
      have e : ¬ k = k' := fun e => h (Or.inl e)
      rw [ih.2 h1, List.filter_append]
      have : (List.filter (fun x => !x == k') [k]) = [k] := by simp [e]
      rw [this]

theorem keys_set_mem (m : List (κ × ν)) (k : κ) (v : ν) (h : k ∈ keys m) : keys (set m k v) = keys m :=
  (keys_append_single m k v).1 h

theorem keys_set_not_mem (m : List (κ × ν)) (k : κ) (v : ν) (h : ¬ k ∈ keys m) : keys (set m k v) = keys m ++ [k] :=
  (keys_append_single m k v).2 h

/-- Σ over the current bindings of a weight of the value -/
def sumW (w : ν → Nat) (m : List (κ × ν)) : Nat := ((keys m).map fun q => (get? m q).elim 0 w).sum

theorem sum_update_nodup (L : List κ) (hL : L.Nodup) (k : κ) (g : κ → Nat) (x : Nat) (hk : k ∈ L) :
    (L.map fun q => if k == q then x else g q).sum + g k = (L.map g).sum + x := by
  induction L with
  | nil => simp at hk
  | cons a as ih =>
    rw [List.nodup_cons] at hL
    simp only [List.map_cons, List.sum_cons]
    rcases List.mem_cons.mp hk with e | h
    · subst e
      have : (as.map fun q => if k == q then x else g q) = as.map g := by
        apply List.map_congr_left
        intro q hq
        have : (k == q) = false := by
          cases hkq : (k == q)
          · rfl
          · have : k = q := by simpa using hkq
            exact absurd (this ▸ hq) hL.1
        simp [this]
      rw [this]; simp; omega
    · have hne : (k == a) = false := by
        cases hka : (k == a)
        · rfl
        · have : k = a := by simpa using hka
          exact absurd (this ▸ h) hL.1
      have := ih hL.2 h
      simp only [hne, Bool.false_eq_true, ↓reduceIte]; omega

theorem sum_same_of_not_mem (L : List κ) (k : κ) (g : κ → Nat) (x : Nat) (hk : ¬ k ∈ L) :
    (L.map fun q => if k == q then x else g q) = L.map g := by
  apply List.map_congr_left
  intro q hq
  have : (k == q) = false := by
    cases hkq : (k == q)
    · rfl
    · have : k = q := by simpa using hkq
      exact absurd (this ▸ hq) hk
  simp [this]

/-- replacing (or adding) the binding of `k`: the weighted sum loses the old weight and gains the new -/
theorem sumW_set (w : ν → Nat) (m : List (κ × ν)) (k : κ) (v : ν) :
    sumW w (set m k v) + (get? m k).elim 0 w = sumW w m + w v := by
  unfold sumW
  have hfun : (fun q => (get? (set m k v) q).elim 0 w) = fun q => if k == q then w v else (get? m q).elim 0 w := by
    funext q; rw [get?_set]; cases (k == q) <;> rfl
  rw [hfun]
  by_cases hk : k ∈ keys m
  · rw [keys_set_mem m k v hk]
    exact sum_update_nodup (keys m) (keys_nodup m) k _ _ hk
  · rw [keys_set_not_mem m k v hk]
    simp only [List.map_append, List.sum_append, List.map_cons, List.map_nil, List.sum_cons, List.sum_nil,
      beq_self_eq_true]
    rw [sum_same_of_not_mem _ _ _ _ hk]
    have : get? m k = none := by
      cases hg : get? m k with
      | none => rfl
      | some x => exact absurd ((get?_isSome_iff_mem_keys m k).mp (by simp [hg])) hk
    simp [this]

/-- the weighted sum over `entries` is `sumW` -/
theorem sum_entries (w : ν → Nat) (m : List (κ × ν)) : ((entries m).map fun e => w e.2).sum = sumW w m := by
  unfold entries sumW
  have hall : ∀ q ∈ keys m, (get? m q).isSome = true := fun q hq => (get?_isSome_iff_mem_keys m q).mpr hq
  generalize keys m = ks at hall
  induction ks with
  | nil => rfl
  | cons q qs ih =>
    have hq := hall q (by simp)
    cases hg : get? m q with
    | none => simp [hg] at hq
    | some x =>
      simp only [List.filterMap_cons, hg, Option.map_some, List.map_cons, List.sum_cons, Option.elim_some]
      rw [ih (fun q' h' => hall q' (by simp [h']))]


theorem keys_erase (m : List (κ × ν)) (k : κ) : keys (erase m k) = (keys m).filter fun q => !(q == k) := by
  unfold erase
  induction m with
  | nil => rfl
  | cons p r ih =>
    obtain ⟨a, v⟩ := p
    simp only [List.filter_cons]
    cases ha : (a == k)
    · simp only [Bool.not_false, if_true, keys, List.filter_cons, ha, ih]
      congr 1
      simp only [List.filter_filter]
      apply List.filter_congr
      intro x _
      exact Bool.and_comm _ _
    · have e : a = k := by simpa using ha
      subst e
      simp only [Bool.not_true, Bool.false_eq_true, if_false, keys, List.filter_cons, beq_self_eq_true, ih]
      simp only [List.filter_filter, Bool.and_self]

end CocaVerif.GoMap
