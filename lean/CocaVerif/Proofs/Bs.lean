import CocaVerif.Model.Bs

namespace CocaVerif.Bs
open CocaVerif.Gen.Bs

theorem filter_flatMap' {α β : Type} (p : β → Bool) (l : List α) (f : α → List β) :
    (l.flatMap f).filter p = l.flatMap (fun x => (f x).filter p) := by
  induction l with
  | nil => rfl
  | cons x xs ih => simp [List.flatMap_cons, List.filter_append, ih]

/-- which kind a piece produces -/
theorem lazyF_kind (n : BSNode) : ∀ f ∈ lazyF n, f.bs = "lazyElement" := by
  intro f hf; unfold lazyF at hf; split at hf <;> simp at hf; subst hf; rfl
theorem dataClassF_kind (n : BSNode) : ∀ f ∈ dataClassF n, f.bs = "dataClass" := by
  intro f hf; unfold dataClassF at hf; split at hf <;> simp at hf; subst hf; rfl
theorem largeClassF_kind (n : BSNode) : ∀ f ∈ largeClassF n, f.bs = "largeClass" := by
  intro f hf; unfold largeClassF at hf; split at hf <;> simp at hf; subst hf; rfl
theorem longMethodF_kind (n : BSNode) (m : BSFn) : ∀ f ∈ longMethodF n m, f.bs = "longMethod" := by
  intro f hf; unfold longMethodF at hf; split at hf <;> simp at hf; subst hf; rfl
theorem longParamsF_kind (n : BSNode) (m : BSFn) : ∀ f ∈ longParamsF n m, f.bs = "longParameterList" := by
  intro f hf; unfold longParamsF at hf; split at hf <;> simp at hf; subst hf; rfl
theorem repeatedIfF_kind (n : BSNode) (m : BSFn) : ∀ f ∈ repeatedIfF n m, f.bs = "repeatedSwitches" := by
  intro f hf; unfold repeatedIfF at hf; split at hf <;> simp at hf; subst hf; rfl
theorem repeatedSwitchF_kind (n : BSNode) (m : BSFn) : ∀ f ∈ repeatedSwitchF n m, f.bs = "repeatedSwitches" := by
  intro f hf; unfold repeatedSwitchF at hf; split at hf <;> simp at hf; subst hf; rfl
theorem complexIfF_kind (n : BSNode) (m : BSFn) : ∀ f ∈ complexIfF n m, f.bs = "complexCondition" := by
  intro f hf; unfold complexIfF at hf
  simp only [List.mem_flatMap] at hf
  obtain ⟨i, _, hi⟩ := hf
  split at hi <;> simp at hi; subst hi; rfl

theorem filter_all_kind {l : List Finding} {k k' : String} (h : ∀ f ∈ l, f.bs = k) (hne : k ≠ k') :
    l.filter (fun f => f.bs == k') = [] := by
  rw [List.filter_eq_nil_iff]
  intro f hf
  rw [h f hf]
  simpa using hne

theorem filter_same_kind {l : List Finding} {k : String} (h : ∀ f ∈ l, f.bs = k) :
    l.filter (fun f => f.bs == k) = l := by
  rw [List.filter_eq_self]
  intro f hf
  rw [h f hf]; simp

end CocaVerif.Bs
