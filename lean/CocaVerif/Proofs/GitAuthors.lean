import CocaVerif.Proofs.Git
import CocaVerif.Proofs.GoMapLemmas

/-! C15, top authors: what the author map holds for every author after any history -/

namespace CocaVerif.GoMap
variable {κ ν : Type} [BEq κ] [LawfulBEq κ]

/-- the current bindings of a Go map are exactly its successful lookups -/
theorem mem_entries (m : List (κ × ν)) (k : κ) (v : ν) : (k, v) ∈ entries m ↔ get? m k = some v := by
  unfold entries
  simp only [List.mem_filterMap]
  constructor
  · rintro ⟨k', _, h⟩
    cases hg : get? m k' with
    | none => simp [hg] at h
    | some w =>
      simp only [hg, Option.map_some, Option.some.injEq, Prod.mk.injEq] at h
      obtain ⟨rfl, rfl⟩ := h
      exact hg
  · intro h
    refine ⟨k, ?_, by simp [h]⟩
    exact (get?_isSome_iff_mem_keys m k).mp (by simp [h])

end CocaVerif.GoMap

namespace CocaVerif.Git

/-- net added-minus-deleted lines of a list of commits, on top of `l` -/
def netFrom (l : Int) (cs : List Commit) : Int :=
  cs.foldl (fun l c => c.changes.foldl (fun l ch => l + ch.added - ch.deleted) l) l

/-- the commits of one author, in history order -/
def commitsBy (a : String) (cs : List Commit) : List Commit := cs.filter fun c => c.author == a

/-- one step of the author map, seen at one key -/
def bumpAt (a : String) (o : Option TopAuthor) (c : Commit) : Option TopAuthor :=
  if c.author == a then
    let cur := o.getD { name := c.author, commitCount := 0, lineCount := 0 }
    some { cur with commitCount := cur.commitCount + 1,
                    lineCount := c.changes.foldl (fun l ch => l + ch.added - ch.deleted) cur.lineCount }
  else o

theorem get?_bumpAuthor (m : List (String × TopAuthor)) (c : Commit) (a : String) :
    GoMap.get? (bumpAuthor m c) a = bumpAt a (GoMap.get? m a) c := by
  unfold bumpAuthor bumpAt
  rw [GoMap.get?_set]
  by_cases h : (c.author == a) = true
  · have e : c.author = a := by simpa using h
    subst e
    simp
  · simp [h]

theorem get?_authorFold (a : String) : ∀ (cs : List Commit) (m : List (String × TopAuthor)),
    GoMap.get? (cs.foldl bumpAuthor m) a = cs.foldl (bumpAt a) (GoMap.get? m a) := by
  intro cs
  induction cs with
  | nil => intro m; rfl
  | cons c rest ih => intro m; rw [List.foldl_cons, List.foldl_cons, ih, get?_bumpAuthor]

/-- from an existing record: the name stays, the counters grow by this author's commits -/
theorem fold_bumpAt_some (a : String) : ∀ (cs : List Commit) (t : TopAuthor),
    cs.foldl (bumpAt a) (some t) =
      some { name := t.name, commitCount := t.commitCount + (commitsBy a cs).length,
             lineCount := netFrom t.lineCount (commitsBy a cs) } := by
  intro cs
  induction cs with
  | nil => intro t; simp [commitsBy, netFrom]
  | cons c rest ih =>
    intro t
    rw [List.foldl_cons]
    by_cases h : (c.author == a) = true
    · simp only [bumpAt, h, ↓reduceIte, Option.getD_some]
      rw [ih]
      simp only [commitsBy, List.filter_cons, h, ↓reduceIte, List.length_cons, netFrom, List.foldl_cons]
      congr 2
      omega
    · simp only [bumpAt, h, Bool.false_eq_true, ↓reduceIte]
      rw [ih]
      simp [commitsBy, h]

/-- from no record: nothing if the author never commits, else the record of exactly his commits -/
theorem fold_bumpAt_none (a : String) : ∀ (cs : List Commit),
    cs.foldl (bumpAt a) none =
      if commitsBy a cs = [] then none
      else some { name := a, commitCount := (commitsBy a cs).length, lineCount := netFrom 0 (commitsBy a cs) } := by
  intro cs
  induction cs with
  | nil => simp [commitsBy]
  | cons c rest ih =>
    rw [List.foldl_cons]
    by_cases h : (c.author == a) = true
    · have e : c.author = a := by simpa using h
      simp only [bumpAt, h, ↓reduceIte, Option.getD_none]
      rw [fold_bumpAt_some]
      have hne : commitsBy a (c :: rest) = c :: commitsBy a rest := by simp [commitsBy, h]
      rw [hne]
      simp only [reduceCtorEq, ↓reduceIte, List.length_cons, netFrom, List.foldl_cons, e, Option.some.injEq, TopAuthor.mk.injEq, true_and]
      exact ⟨by omega, trivial⟩
    · simp only [bumpAt, h, Bool.false_eq_true, ↓reduceIte]
      rw [ih]
      simp [commitsBy, h]

/-- THE AUTHOR MAP, exactly: after any history an author has a record iff he has a commit, and the record
    carries his name, the number of his commits and his net added-minus-deleted lines -/
theorem authorMap_exact (commits : List Commit) (a : String) :
    GoMap.get? (authorMap commits) a =
      if commitsBy a commits = [] then none
      else some { name := a, commitCount := (commitsBy a commits).length, lineCount := netFrom 0 (commitsBy a commits) } := by
  unfold authorMap
  rw [get?_authorFold]
  exact fold_bumpAt_none a commits

end CocaVerif.Git
