import CocaVerif.Model.Git
import CocaVerif.Proofs.GoMapLemmas

namespace CocaVerif.Git

/-! ### C15: the Go-map implementation refines an abstract file-identity semantics -/

/-- abstract state: a finite map path ↦ file record, as a function -/
abbrev FSpec := String → Option Info

def upd (F : FSpec) (k : String) (v : Option Info) : FSpec := fun q => if k == q then v else F q

/-- a rename moves the record of `old` to `new` (only if `old` is known) -/
def specSwitch (F : FSpec) (old new : String) : FSpec :=
  match F old with
  | some i => upd (upd F old none) new (some { i with name := new })
  | none => F

/-- one change of one commit, on the abstract state -/
def specApply (F : FSpec) (c : Commit) (ch : Change) : FSpec :=
  let r : FSpec × String := match fileOp ch.file with
    | .plain f => (F, f)
    | .move old new => (specSwitch F old new, new)
  let F2 := upd r.1 r.2 (some (touch c r.2 (r.1 r.2)))
  if ch.mode == "delete" then upd F2 r.2 none else F2

def specRun (commits : List Commit) : FSpec :=
  commits.foldl (fun F c => c.changes.foldl (fun F ch => specApply F c ch) F) (fun _ => none)

/-- abstraction map -/
def abs (m : List (String × Info)) : FSpec := fun q => GoMap.get? m q

theorem abs_set (m : List (String × Info)) (k : String) (v : Info) : abs (GoMap.set m k v) = upd (abs m) k (some v) := by
  funext q; simp only [abs, upd, GoMap.get?_set]

theorem abs_erase (m : List (String × Info)) (k : String) : abs (GoMap.erase m k) = upd (abs m) k none := by
  funext q; simp only [abs, upd, GoMap.get?_erase]

theorem abs_switch (m : List (String × Info)) (old new : String) :
    abs (switchFile m old new) = specSwitch (abs m) old new := by
  unfold switchFile specSwitch
  have : abs m old = GoMap.get? m old := rfl
  rw [this]
  cases GoMap.get? m old with
  | none => rfl
  | some i => simp only [abs_set, abs_erase]

theorem abs_applyChange (m : List (String × Info)) (c : Commit) (ch : Change) :
    abs (applyChange m c ch) = specApply (abs m) c ch := by
  unfold applyChange specApply
  cases fileOp ch.file with
  | plain f =>
    simp only
    split
    · rw [abs_erase, abs_set]; rfl
    · rw [abs_set]; rfl
  | move old new =>
    have hg : GoMap.get? (switchFile m old new) new = specSwitch (abs m) old new new :=
      congrFun (abs_switch m old new) new
    simp only
    split
    · rw [abs_erase, abs_set, abs_switch, hg]
    · rw [abs_set, abs_switch, hg]

theorem abs_changes (c : Commit) : ∀ (chs : List Change) (m : List (String × Info)),
    abs (chs.foldl (fun i ch => applyChange i c ch) m) = chs.foldl (fun F ch => specApply F c ch) (abs m) := by
  intro chs
  induction chs with
  | nil => intro m; rfl
  | cons ch rest ih => intro m; rw [List.foldl_cons, List.foldl_cons, ih, abs_applyChange]

theorem abs_commits : ∀ (cs : List Commit) (m : List (String × Info)),
    abs (cs.foldl (fun infos c => c.changes.foldl (fun i ch => applyChange i c ch) infos) m) =
      cs.foldl (fun F c => c.changes.foldl (fun F ch => specApply F c ch) F) (abs m) := by
  intro cs
  induction cs with
  | nil => intro m; rfl
  | cons c rest ih => intro m; rw [List.foldl_cons, List.foldl_cons, ih, abs_changes]

/-! ### C15: top authors -/

def tcount (t : TopAuthor) : Nat := t.commitCount

theorem sumW_bump (m : List (String × TopAuthor)) (c : Commit) :
    GoMap.sumW tcount (bumpAuthor m c) = GoMap.sumW tcount m + 1 := by
  unfold bumpAuthor
  have h := GoMap.sumW_set tcount m c.author
    { (GoMap.get? m c.author).getD { name := c.author, commitCount := 0, lineCount := 0 } with
      commitCount := ((GoMap.get? m c.author).getD { name := c.author, commitCount := 0, lineCount := 0 }).commitCount + 1,
      lineCount := c.changes.foldl (fun l ch => l + ch.added - ch.deleted)
        ((GoMap.get? m c.author).getD { name := c.author, commitCount := 0, lineCount := 0 }).lineCount }
  cases hg : GoMap.get? m c.author with
  | none => simp only [hg, Option.getD_none, Option.elim_none, tcount] at h ⊢; omega
  | some t => simp only [hg, Option.getD_some, Option.elim_some, tcount] at h ⊢; omega

theorem sumW_authorMap : ∀ (cs : List Commit) (m : List (String × TopAuthor)),
    GoMap.sumW tcount (cs.foldl bumpAuthor m) = GoMap.sumW tcount m + cs.length := by
  intro cs
  induction cs with
  | nil => intro m; simp
  | cons c rest ih => intro m; rw [List.foldl_cons, ih, sumW_bump, List.length_cons]; omega

/-! ### C14: the state machine attributes every change to its own commit -/

theorem runC_append (σ : Oracle) : ∀ (a b : List LineClass) (st : PState),
    runC σ st (a ++ b) = match runC σ st a with
      | .ok st' => runC σ st' b
      | .error e => .error e := by
  intro a
  induction a with
  | nil => intro b st; rfl
  | cons l ls ih =>
    intro b st
    simp only [List.cons_append, runC]
    cases stepC σ st l with
    | ok st' => exact ih b st'
    | error e => rfl

/-- body lines of a commit block: numstat and mode lines only -/
def isBody : LineClass → Bool
  | .numstat .. => true
  | .mode .. => true
  | _ => false

/-- body lines never fail and only touch the file map and the pending change list -/
theorem runC_body (σ : Oracle) : ∀ (body : List LineClass) (st : PState), (∀ l ∈ body, isBody l = true) →
    ∃ fm cc, runC σ st body = .ok { st with fmap := fm, curChanges := cc } := by
  intro body
  induction body with
  | nil => intro st _; exact ⟨st.fmap, st.curChanges, rfl⟩
  | cons l ls ih =>
    intro st h
    have hl := h l (by simp)
    have hls : ∀ x ∈ ls, isBody x = true := fun x hx => h x (by simp [hx])
    cases l with
    | numstat a d f =>
      simp only [runC, stepC]
      obtain ⟨fm, cc, e⟩ := ih { st with fmap := GoMap.set st.fmap f { added := a, deleted := d, file := f, mode := "" } } hls
      exact ⟨fm, cc, e⟩
    | mode m f =>
      simp only [runC, stepC]
      cases GoMap.get? st.fmap f with
      | some ch =>
        obtain ⟨fm, cc, e⟩ := ih { st with fmap := GoMap.set st.fmap f { ch with mode := m } } hls
        exact ⟨fm, cc, e⟩
      | none =>
        cases hm : (m == "delete")
        · simp only [Bool.false_eq_true, ↓reduceIte]
          obtain ⟨fm, cc, e⟩ := ih st hls
          exact ⟨fm, cc, e⟩
        · simp only [↓reduceIte]
          obtain ⟨fm, cc, e⟩ := ih { st with curChanges := st.curChanges ++ [{ added := 0, deleted := 0, file := f, mode := "delete" }] } hls
          exact ⟨fm, cc, e⟩
    | header => simp [isBody] at hl
    | other => simp [isBody] at hl
    | panic => simp [isBody] at hl

end CocaVerif.Git
