import CocaVerif.Model.Todo

namespace CocaVerif.Todo

/-! ### the lexer on rendered segments -/

/-- a character that cannot start a comment or a literal -/
def inert (c : Char) : Bool := c != '/' && c != '#' && c != '"' && c != '\'' && c != '`'

theorem stepAt_inert (c : Char) (rest : List Char) (h : inert c = true) : stepAt (c :: rest) = .skip 1 := by
  simp only [inert, Bool.and_eq_true, bne_iff_ne, ne_eq] at h
  obtain ⟨⟨⟨⟨h1, h2⟩, h3⟩, h4⟩, h5⟩ := h
  unfold stepAt
  split <;> simp_all

/-- inert text is dropped character by character; only the line counter moves -/
theorem lexFrom_inert : ∀ (cs : List Char) (rest : List Char) (fuel line : Nat),
    (∀ c ∈ cs, inert c = true) → fuel > cs.length + rest.length →
    lexFrom fuel line (cs ++ rest) = lexFrom (fuel - cs.length) (line + countNl cs) rest := by
  intro cs
  induction cs with
  | nil => intro rest fuel line _ _; simp [countNl]
  | cons c cs ih =>
    intro rest fuel line hin hf
    cases fuel with
    | zero => simp at hf
    | succ f =>
      simp only [List.cons_append, lexFrom, stepAt_inert c (cs ++ rest) (hin c (by simp))]
      simp only [Nat.one_ne_zero, ↓reduceIte, List.take_succ_cons, List.take_zero, List.drop_succ_cons, List.drop_zero,
        beq_iff_eq]
      rw [ih rest f _ (fun x hx => hin x (by simp [hx])) (by simp at hf; omega)]
      congr 1
      · simp
      · simp only [countNl, List.filter_cons]
        by_cases hc : c = '\n' <;> simp [hc] <;> omega

theorem findClose_append (rest : List Char) : ∀ (body : List Char), findClose body = none →
    findClose (body ++ '*' :: '/' :: rest) = some body.length := by
  intro body
  induction body using List.rec with
  | nil => intro _; simp [findClose]
  | cons a r ih =>
    intro h
    cases r with
    | nil => simp [findClose]
    | cons b r' =>
      simp only [findClose] at h
      split at h
      · simp at h
      · rename_i hab
        have hn : findClose (b :: r') = none := by
          cases hf : findClose (b :: r') with
          | none => rfl
          | some x => simp [hf] at h
        have := ih hn
        simp only [List.cons_append] at this ⊢
        simp only [findClose, hab, Bool.false_eq_true, ↓reduceIte, this, Option.map_some, List.length_cons]

/-- a block comment `/*body*/` (body without `*/`) followed by anything is ONE block token -/
theorem stepAt_block (body rest : List Char) (h : findClose body = none) :
    stepAt ('/' :: '*' :: (body ++ '*' :: '/' :: rest)) = .tok .block (body.length + 4) := by
  simp [stepAt, findClose_append rest body h]

theorem takeWhile_append_stop {p : Char → Bool} : ∀ (txt rest : List Char), (∀ c ∈ txt, p c = true) →
    (match rest with | [] => True | c :: _ => p c = false) → (txt ++ rest).takeWhile p = txt := by
  intro txt
  induction txt with
  | nil =>
    intro rest _ hr
    cases rest with
    | nil => rfl
    | cons c r => simp [List.takeWhile_cons, hr]
  | cons c cs ih =>
    intro rest h hr
    simp only [List.cons_append, List.takeWhile_cons, h c (by simp), ↓reduceIte]
    rw [ih rest (fun x hx => h x (by simp [hx])) hr]

/-- a line comment `//txt` up to (not including) the line end is ONE line token -/
theorem stepAt_line (txt rest : List Char) (h : ∀ c ∈ txt, lineEnd c = false)
    (hr : match rest with | [] => True | c :: _ => lineEnd c = true) :
    stepAt ('/' :: '/' :: (txt ++ rest)) = .tok .line (2 + txt.length) := by
  have := takeWhile_append_stop (p := fun c => !lineEnd c) txt rest (fun c hc => by simp [h c hc])
    (by cases rest with | nil => trivial | cons c r => simpa using hr)
  simp [stepAt, this]

theorem stepAt_hash (txt rest : List Char) (h : ∀ c ∈ txt, hashEnd c = false)
    (hr : match rest with | [] => True | c :: _ => hashEnd c = true) :
    stepAt ('#' :: (txt ++ rest)) = .tok .hash (1 + txt.length) := by
  have := takeWhile_append_stop (p := fun c => !hashEnd c) txt rest (fun c hc => by simp [h c hc])
    (by cases rest with | nil => trivial | cons c r => simpa using hr)
  simp [stepAt, this]

/-- plain string-literal characters -/
def strPlain (c : Char) : Bool := c != '"' && c != '\\' && c != '\r' && c != '\n'

theorem strScan_plain (rest : List Char) : ∀ (body : List Char) (fuel : Nat), (∀ c ∈ body, strPlain c = true) →
    fuel > body.length → strScan fuel (body ++ '"' :: rest) = (true, body.length + 1) := by
  intro body
  induction body with
  | nil => intro fuel _ hf; cases fuel with | zero => simp at hf | succ f => simp [strScan]
  | cons c cs ih =>
    intro fuel h hf
    cases fuel with
    | zero => simp at hf
    | succ f =>
      have hc := h c (by simp)
      simp only [strPlain, Bool.and_eq_true, bne_iff_ne, ne_eq] at hc
      obtain ⟨⟨⟨h1, h2⟩, h3⟩, h4⟩ := hc
      have hq : (c == '"') = false := by simpa using h1
      have hb : (c == '\\') = false := by simpa using h2
      have hcr : (c == '\r' || c == '\n') = false := by simp [h3, h4]
      simp only [List.cons_append, strScan, hq, hb, hcr, Bool.false_eq_true, ↓reduceIte]
      rw [ih f (fun x hx => h x (by simp [hx])) (by simp at hf; omega)]
      simp

/-- a string literal with a plain body is ONE string token (whatever markers or TODOs it contains) -/
theorem stepAt_str (body rest : List Char) (h : ∀ c ∈ body, strPlain c = true) :
    stepAt ('"' :: (body ++ '"' :: rest)) = .tok .str (body.length + 2) := by
  have := strScan_plain rest body ((body ++ '"' :: rest).length + 1) h (by simp; omega)
  show (if (strScan ((body ++ '"' :: rest).length + 1) (body ++ '"' :: rest)).1 = true
        then Step.tok Kind.str ((strScan ((body ++ '"' :: rest).length + 1) (body ++ '"' :: rest)).2 + 1)
        else Step.skip ((strScan ((body ++ '"' :: rest).length + 1) (body ++ '"' :: rest)).2 + 1)) = _
  rw [this]; simp

/-! ### escapes in strings, character literals, template literals -/

/-- one element of a string body: a plain character or a two-character escape `\x` -/
inductive SItem where
  | plain (c : Char)
  | esc (c : Char)
  deriving Repr

/-- the one-character escapes of the grammar's EscapeSequence -/
def simpleEsc (c : Char) : Bool := "btnfr\"'\\".toList.contains c

def SItem.text : SItem → List Char
  | .plain c => [c]
  | .esc c => ['\\', c]

def SItem.ok : SItem → Bool
  | .plain c => strPlain c
  | .esc c => simpleEsc c

def itemsText : List SItem → List Char
  | [] => []
  | i :: r => i.text ++ itemsText r

theorem escapeScan_simple (c : Char) (rest : List Char) (h : simpleEsc c = true) :
    escapeScan ('\\' :: c :: rest) = .inl 2 := by
  unfold simpleEsc at h
  simp only [escapeScan, h, ↓reduceIte]

/-- a string body of plain characters and escapes (`\"` and `\\` among them) followed by the closing quote -/
theorem strScan_items (rest : List Char) : ∀ (items : List SItem) (fuel : Nat), (∀ i ∈ items, i.ok = true) →
    fuel > (itemsText items).length → strScan fuel (itemsText items ++ '"' :: rest) = (true, (itemsText items).length + 1) := by
  intro items
  induction items with
  | nil => intro fuel _ hf; cases fuel with | zero => simp at hf | succ f => simp [strScan, itemsText]
  | cons i is ih =>
    intro fuel h hf
    cases fuel with
    | zero => simp at hf
    | succ f =>
      have hi := h i (by simp)
      cases i with
      | plain c =>
        simp only [SItem.ok, strPlain, Bool.and_eq_true, bne_iff_ne, ne_eq] at hi
        obtain ⟨⟨⟨h1, h2⟩, h3⟩, h4⟩ := hi
        have hq : (c == '"') = false := by simpa using h1
        have hb : (c == '\\') = false := by simpa using h2
        have hcr : (c == '\r' || c == '\n') = false := by simp [h3, h4]
        simp only [itemsText, SItem.text, List.cons_append, List.nil_append, strScan, hq, hb, hcr, Bool.false_eq_true, ↓reduceIte]
        rw [ih f (fun x hx => h x (by simp [hx])) (by simp [itemsText, SItem.text] at hf; omega)]
        simp
      | esc c =>
        simp only [SItem.ok] at hi
        have hq : ('\\' == '"') = false := by decide
        simp only [itemsText, SItem.text, List.cons_append, List.nil_append, strScan, hq, Bool.false_eq_true, ↓reduceIte,
          beq_self_eq_true, escapeScan_simple c _ hi, List.drop_succ_cons, List.drop_zero]
        rw [ih f (fun x hx => h x (by simp [hx])) (by simp [itemsText, SItem.text] at hf; omega)]
        simp

theorem stepAt_estr (items : List SItem) (rest : List Char) (h : ∀ i ∈ items, i.ok = true) :
    stepAt ('"' :: (itemsText items ++ '"' :: rest)) = .tok .str ((itemsText items).length + 2) := by
  have := strScan_items rest items ((itemsText items ++ '"' :: rest).length + 1) h (by simp; omega)
  show (if (strScan ((itemsText items ++ '"' :: rest).length + 1) (itemsText items ++ '"' :: rest)).1 = true
        then Step.tok Kind.str ((strScan ((itemsText items ++ '"' :: rest).length + 1) (itemsText items ++ '"' :: rest)).2 + 1)
        else Step.skip ((strScan ((itemsText items ++ '"' :: rest).length + 1) (itemsText items ++ '"' :: rest)).2 + 1)) = _
  rw [this]; simp

/-- a plain character of a character literal -/
def chrPlain (c : Char) : Bool := c != '\\' && c != '\'' && c != '\r' && c != '\n'

theorem stepAt_chr (c : Char) (rest : List Char) (h : chrPlain c = true) :
    stepAt ('\'' :: c :: '\'' :: rest) = .tok .chr 3 := by
  simp only [chrPlain, Bool.and_eq_true, bne_iff_ne, ne_eq] at h
  obtain ⟨⟨⟨h1, h2⟩, h3⟩, h4⟩ := h
  simp [stepAt, chrScan, h1, h2, h3, h4]

theorem stepAt_echr (c : Char) (rest : List Char) (h : simpleEsc c = true) :
    stepAt ('\'' :: '\\' :: c :: '\'' :: rest) = .tok .chr 4 := by
  simp [stepAt, chrScan, escapeScan_simple c _ h]

/-- a plain character of a template literal -/
def tmplPlain (c : Char) : Bool := c != '`' && c != '\\'

theorem tmplScan_plain (rest : List Char) : ∀ (body : List Char) (pos : Nat) (cand : Option Nat),
    (∀ c ∈ body, tmplPlain c = true) → tmplScan false pos cand (body ++ '`' :: rest) = some (pos + body.length + 1) := by
  intro body
  induction body with
  | nil => intro pos cand _; simp [tmplScan]
  | cons c cs ih =>
    intro pos cand h
    have hc := h c (by simp)
    simp only [tmplPlain, Bool.and_eq_true, bne_iff_ne, ne_eq] at hc
    have h1 : (c == '`') = false := by simpa using hc.1
    have h2 : (c == '\\') = false := by simpa using hc.2
    simp only [List.cons_append, tmplScan, h1, h2, Bool.false_eq_true, ↓reduceIte]
    rw [ih (pos + 1) cand (fun x hx => h x (by simp [hx]))]
    simp; omega

theorem stepAt_tmpl (body rest : List Char) (h : ∀ c ∈ body, tmplPlain c = true) :
    stepAt ('`' :: (body ++ '`' :: rest)) = .tok .tmpl (body.length + 2) := by
  have := tmplScan_plain rest body 0 none h
  simp [stepAt, tmplBody, this]

end CocaVerif.Todo


namespace CocaVerif.Todo

/-! ### segments, rendering, and the lexer theorem -/

inductive Seg where
  | code (cs : List Char)      -- anything that cannot start a comment or literal (may contain newlines)
  | str (body : List Char)     -- "body"
  | block (body : List Char)   -- /*body*/
  | line (txt : List Char)     -- //txt
  | hash (txt : List Char)     -- #txt
  | estr (items : List SItem)  -- "…" with escapes (\" \\ \n …)
  | chr (c : Char)             -- 'c'
  | echr (c : Char)            -- '\c'
  | tmpl (body : List Char)    -- `body`
  deriving Repr

def Seg.text : Seg → List Char
  | .code cs => cs
  | .str b => '"' :: (b ++ ['"'])
  | .block b => '/' :: '*' :: (b ++ ['*', '/'])
  | .line t => '/' :: '/' :: t
  | .hash t => '#' :: t
  | .estr items => '"' :: (itemsText items ++ ['"'])
  | .chr c => ['\'', c, '\'']
  | .echr c => ['\'', '\\', c, '\'']
  | .tmpl b => '`' :: (b ++ ['`'])

def render : List Seg → List Char
  | [] => []
  | s :: r => s.text ++ render r

def segOK : Seg → Bool
  | .code cs => cs.all inert
  | .str b => b.all strPlain
  | .block b => (findClose b).isNone
  | .line t => t.all fun c => !lineEnd c
  | .hash t => t.all fun c => !hashEnd c
  | .estr items => items.all SItem.ok
  | .chr c => chrPlain c
  | .echr c => simpleEsc c
  | .tmpl b => b.all tmplPlain

/-- a line/hash comment runs to the end of its line: what follows is a line end or nothing -/
def followOK : Seg → List Char → Bool
  | .line _, c :: _ => lineEnd c
  | .hash _, c :: _ => hashEnd c
  | _, _ => true

def WF : List Seg → Bool
  | [] => true
  | s :: r => segOK s && followOK s (render r) && WF r

def Seg.kind? : Seg → Option Kind
  | .code _ => none
  | .str _ => some .str
  | .block _ => some .block
  | .line _ => some .line
  | .hash _ => some .hash
  | .estr _ => some .str
  | .chr _ => some .chr
  | .echr _ => some .chr
  | .tmpl _ => some .tmpl

/-- the tokens a correct lexer must produce: one per literal/comment segment, with its text and the
    line it starts on; code produces none -/
def toks : Nat → List Seg → List Tok
  | _, [] => []
  | l, s :: r =>
    match s.kind? with
    | some k => { kind := k, text := s.text, line := l } :: toks (l + countNl s.text) r
    | none => toks (l + countNl s.text) r

theorem lexFrom_tok (k : Kind) (t rest : List Char) (fuel line : Nat) (hne : t ≠ [])
    (hstep : stepAt (t ++ rest) = .tok k t.length) :
    lexFrom (fuel + 1) line (t ++ rest) = { kind := k, text := t, line := line } :: lexFrom fuel (line + countNl t) rest := by
  cases t with
  | nil => exact absurd rfl hne
  | cons c t' =>
    simp only [List.cons_append] at hstep ⊢
    simp only [lexFrom, hstep]
    have h1 : (c :: (t' ++ rest)).take (c :: t').length = c :: t' := by
      rw [← List.cons_append]; exact List.take_left
    have h2 : (c :: (t' ++ rest)).drop (c :: t').length = rest := by
      rw [← List.cons_append]; exact List.drop_left
    rw [h1, h2]

/-- THE LEXER THEOREM: for every well-formed segment list, of any length, the lexer produces exactly
    the expected tokens (kind, text, start line) -/
theorem lexFrom_render : ∀ (segs : List Seg) (fuel line : Nat), WF segs = true → fuel > (render segs).length →
    lexFrom fuel line (render segs) = toks line segs := by
  intro segs
  induction segs with
  | nil => intro fuel line _ _; cases fuel <;> simp [render, toks, lexFrom]
  | cons s r ih =>
    intro fuel line hwf hf
    simp only [WF, Bool.and_eq_true] at hwf
    obtain ⟨⟨hs, hfo⟩, hr⟩ := hwf
    cases s with
    | code cs =>
      simp only [segOK, List.all_eq_true] at hs
      simp only [render, Seg.text, toks, Seg.kind?] at hf ⊢
      rw [lexFrom_inert cs (render r) fuel line hs (by simp at hf; omega)]
      exact ih _ _ hr (by simp at hf; omega)
    | str b =>
      simp only [segOK, List.all_eq_true] at hs
      simp only [render, toks, Seg.kind?] at hf ⊢
      cases fuel with
      | zero => simp at hf
      | succ f =>
        rw [lexFrom_tok .str _ _ f line (by simp [Seg.text])]
        · rw [ih _ _ hr (by simp [Seg.text] at hf; omega)]
        · have := stepAt_str b (render r) hs
          simp only [Seg.text, List.cons_append, List.append_assoc, List.nil_append, List.length_cons,
            List.length_append, List.length_nil] at this ⊢
          rw [this]
    | block b =>
      simp only [segOK, Option.isNone_iff_eq_none] at hs
      simp only [render, toks, Seg.kind?] at hf ⊢
      cases fuel with
      | zero => simp at hf
      | succ f =>
        rw [lexFrom_tok .block _ _ f line (by simp [Seg.text])]
        · rw [ih _ _ hr (by simp [Seg.text] at hf; omega)]
        · have := stepAt_block b (render r) hs
          simp only [Seg.text, List.cons_append, List.append_assoc, List.nil_append, List.length_cons, List.length_append,
            List.length_nil] at this ⊢
          rw [this]
    | line t =>
      simp only [segOK, List.all_eq_true, Bool.not_eq_true'] at hs
      simp only [render, toks, Seg.kind?] at hf ⊢
      cases fuel with
      | zero => simp at hf
      | succ f =>
        rw [lexFrom_tok .line _ _ f line (by simp [Seg.text])]
        · rw [ih _ _ hr (by simp [Seg.text] at hf; omega)]
        · have := stepAt_line t (render r) hs (by
            cases hrr : render r with
            | nil => trivial
            | cons c cs => simpa [followOK, hrr] using hfo)
          simp only [Seg.text, List.cons_append, List.length_cons] at this ⊢
          rw [this]; congr 1; omega
    | hash t =>
      simp only [segOK, List.all_eq_true, Bool.not_eq_true'] at hs
      simp only [render, toks, Seg.kind?] at hf ⊢
      cases fuel with
      | zero => simp at hf
      | succ f =>
        rw [lexFrom_tok .hash _ _ f line (by simp [Seg.text])]
        · rw [ih _ _ hr (by simp [Seg.text] at hf; omega)]
        · have := stepAt_hash t (render r) hs (by
            cases hrr : render r with
            | nil => trivial
            | cons c cs => simpa [followOK, hrr] using hfo)
          simp only [Seg.text, List.cons_append, List.length_cons] at this ⊢
          rw [this]; congr 1; omega

    | estr items =>
      simp only [segOK, List.all_eq_true] at hs
      simp only [render, toks, Seg.kind?] at hf ⊢
      cases fuel with
      | zero => simp at hf
      | succ f =>
        rw [lexFrom_tok .str _ _ f line (by simp [Seg.text])]
        · rw [ih _ _ hr (by simp [Seg.text] at hf; omega)]
        · have := stepAt_estr items (render r) hs
          simp only [Seg.text, List.cons_append, List.append_assoc, List.nil_append, List.length_cons,
            List.length_append, List.length_nil] at this ⊢
          rw [this]
    | chr c =>
      simp only [segOK] at hs
      simp only [render, toks, Seg.kind?] at hf ⊢
      cases fuel with
      | zero => simp at hf
      | succ f =>
        rw [lexFrom_tok .chr _ _ f line (by simp [Seg.text])]
        · rw [ih _ _ hr (by simp [Seg.text] at hf; omega)]
        · have := stepAt_chr c (render r) hs
          simp only [Seg.text, List.cons_append, List.nil_append, List.length_cons, List.length_nil] at this ⊢
          rw [this]
    | echr c =>
      simp only [segOK] at hs
      simp only [render, toks, Seg.kind?] at hf ⊢
      cases fuel with
      | zero => simp at hf
      | succ f =>
        rw [lexFrom_tok .chr _ _ f line (by simp [Seg.text])]
        · rw [ih _ _ hr (by simp [Seg.text] at hf; omega)]
        · have := stepAt_echr c (render r) hs
          simp only [Seg.text, List.cons_append, List.nil_append, List.length_cons, List.length_nil] at this ⊢
          rw [this]
    | tmpl b =>
      simp only [segOK, List.all_eq_true] at hs
      simp only [render, toks, Seg.kind?] at hf ⊢
      cases fuel with
      | zero => simp at hf
      | succ f =>
        rw [lexFrom_tok .tmpl _ _ f line (by simp [Seg.text])]
        · rw [ih _ _ hr (by simp [Seg.text] at hf; omega)]
        · have := stepAt_tmpl b (render r) hs
          simp only [Seg.text, List.cons_append, List.append_assoc, List.nil_append, List.length_cons,
            List.length_append, List.length_nil] at this ⊢
          rw [this]

end CocaVerif.Todo
