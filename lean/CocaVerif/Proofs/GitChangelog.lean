import CocaVerif.Proofs.Git
import CocaVerif.Proofs.GoMapLemmas

/-! C15, changelog summary: what the two-level map holds for every (type, file) after any history -/

namespace CocaVerif.Git
open CocaVerif.Rx

/-- the conventional-commit type of a commit's subject (`^(\w*)(?:\((.*)\))?: (.*)$`, group 1), if it has one -/
def typeOf (c : Commit) : Option String :=
  (find changeLogRe c.message.toList).map fun mt => String.ofList (mt.group c.message.toList 1)

/-- the name a change is counted under: the new name of a brace-notation rename, else the text as it stands -/
def countedFile (ch : Change) : String :=
  let r := updateMessageForChange ch.file
  if r.1 != r.2.1 then r.2.2 else r.1

def innerStep (im : List (String × Nat)) (ch : Change) : List (String × Nat) :=
  GoMap.set im (countedFile ch) ((GoMap.get? im (countedFile ch)).getD 0 + 1)

def outerStep (m : List (String × List (String × Nat))) (c : Commit) : List (String × List (String × Nat)) :=
  match typeOf c with
  | some kw => GoMap.set m kw (c.changes.foldl innerStep ((GoMap.get? m kw).getD []))
  | none => m

theorem changeMap_eq_fold (commits : List Commit) : changeMap commits = commits.foldl outerStep [] := by
  unfold changeMap
  congr 1
  funext m c
  simp only [outerStep, typeOf]
  cases h : find changeLogRe c.message.toList with
  | none => simp
  | some mt =>
    simp only [Option.map_some]
    congr 2

/-- the count the inner map shows for a file (absent = 0) -/
def cnt (im : List (String × Nat)) (f : String) : Nat := (GoMap.get? im f).getD 0

/-- the count the changelog shows for a type and a file (absent type or file = 0) -/
def cntK (m : List (String × List (String × Nat))) (kw f : String) : Nat := cnt ((GoMap.get? m kw).getD []) f

theorem cnt_innerStep (im : List (String × Nat)) (ch : Change) (f : String) :
    cnt (innerStep im ch) f = cnt im f + (if countedFile ch == f then 1 else 0) := by
  unfold cnt innerStep
  rw [GoMap.get?_set]
  by_cases h : (countedFile ch == f) = true
  · have e : countedFile ch = f := by simpa using h
    simp [e]
  · simp [h]

theorem cnt_inner_fold (f : String) : ∀ (chs : List Change) (im : List (String × Nat)),
    cnt (chs.foldl innerStep im) f = cnt im f + (chs.map countedFile).count f := by
  intro chs
  induction chs with
  | nil => intro im; simp
  | cons ch rest ih =>
    intro im
    rw [List.foldl_cons, ih, cnt_innerStep, List.map_cons, List.count_cons]
    omega

theorem cntK_outerStep (m : List (String × List (String × Nat))) (c : Commit) (kw f : String) :
    cntK (outerStep m c) kw f = cntK m kw f + (if typeOf c = some kw then (c.changes.map countedFile).count f else 0) := by
  unfold outerStep
  cases ht : typeOf c with
  | none => simp
  | some k =>
    simp only [Option.some.injEq]
    unfold cntK
    rw [GoMap.get?_set]
    by_cases h : (k == kw) = true
    · have e : k = kw := by simpa using h
      subst e
      simp [cnt_inner_fold]
    · have e : ¬ k = kw := by simpa using h
      simp [h, e]

/-- the files counted for one type over a history: every change of every commit of that type, under its counted name -/
def countedOf (kw : String) (commits : List Commit) : List String :=
  (commits.filter fun c => typeOf c == some kw).flatMap fun c => c.changes.map countedFile

theorem cntK_fold (kw f : String) : ∀ (cs : List Commit) (m : List (String × List (String × Nat))),
    cntK (cs.foldl outerStep m) kw f = cntK m kw f + (countedOf kw cs).count f := by
  intro cs
  induction cs with
  | nil => intro m; simp [countedOf]
  | cons c rest ih =>
    intro m
    rw [List.foldl_cons, ih, cntK_outerStep]
    unfold countedOf
    by_cases h : typeOf c = some kw
    · simp [h, List.filter_cons, List.count_append]; omega
    · have hb : (typeOf c == some kw) = false := by simpa using h
      simp [h, List.filter_cons, hb]

/-- THE CHANGELOG SUMMARY, exactly: for every type and file, the number shown (absent = 0) is the number of changes to
    that file in commits of that type -/
theorem changeMap_exact (commits : List Commit) (kw f : String) :
    cntK (changeMap commits) kw f = (countedOf kw commits).count f := by
  rw [changeMap_eq_fold, cntK_fold]
  simp [cntK, cnt, GoMap.get?]

end CocaVerif.Git
