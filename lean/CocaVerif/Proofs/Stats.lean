import CocaVerif.Model.Stats
import CocaVerif.Base.Oracle
import CocaVerif.Proofs.RCall
import CocaVerif.Proofs.GoMapLemmas



namespace CocaVerif.Stats

/-- the counting fold: lookup of `k` after processing callees `cs` -/
theorem foldl_count (D : List String) (k : String) :
    ∀ (cs : List String) (m : List (String × Nat)),
      GoMap.get? (cs.foldl (fun m c => if D.contains c then GoMap.set m c ((GoMap.get? m c).getD 0 + 1) else m) m) k
        = (if (cs.filter fun c => D.contains c && c == k).length = 0 then GoMap.get? m k
           else some ((GoMap.get? m k).getD 0 + (cs.filter fun c => D.contains c && c == k).length)) := by
  intro cs
  induction cs with
  | nil => intro m; simp
  | cons c rest ih =>
    intro m
    rw [List.foldl_cons, ih, List.filter_cons]
    cases hc : D.contains c <;> cases hk : (c == k)
    · simp
    · simp
    · simp only [Bool.true_and, Bool.false_eq_true, ↓reduceIte, GoMap.get?_set, hk]
    · have e : c = k := by simpa using hk
      subst e
      simp only [Bool.and_self, ↓reduceIte, GoMap.get?_set, beq_self_eq_true, List.length_cons,
        Option.getD_some]
      generalize (List.filter (fun c_1 => D.contains c_1 && c_1 == c) rest).length = n
      cases n with
      | zero => simp
      | succ n => simp; omega


/-! ### the concept report: counts add up -/

theorem countFold_get (q : String) : ∀ (ws : List String) (m : List (String × Nat)),
    GoMap.get? (ws.foldl (fun m w => GoMap.set m w ((GoMap.get? m w).getD 0 + 1)) m) q
      = if ws.count q = 0 then GoMap.get? m q else some ((GoMap.get? m q).getD 0 + ws.count q) := by
  intro ws
  induction ws with
  | nil => intro m; simp
  | cons w rest ih =>
    intro m
    rw [List.foldl_cons, ih, List.count_cons]
    cases hq : (w == q)
    · simp only [GoMap.get?_set, hq, Bool.false_eq_true, if_false, Nat.add_zero]
    · have e : w = q := by simpa using hq
      subst e
      simp only [GoMap.get?_set, beq_self_eq_true, if_true, Option.getD_some]
      cases hc : List.count w rest with
      | zero => simp
      | succ n => simp; omega

theorem countWords_get (ws : List String) (q : String) :
    GoMap.get? (countWords ws) q = if ws.count q = 0 then none else some (ws.count q) := by
  have := countFold_get q ws []
  simpa [countWords, GoMap.get?] using this

theorem removeStop_get (S : List String) : ∀ (m : List (String × Nat)) (q : String),
    GoMap.get? (S.foldl GoMap.erase m) q = if S.contains q then none else GoMap.get? m q := by
  induction S with
  | nil => intro m q; simp
  | cons k S ih =>
    intro m q
    rw [List.foldl_cons, ih, GoMap.get?_erase, List.contains_cons]
    have hsym : (q == k) = (k == q) := by
      by_cases h : q = k
      · subst h; rfl
      · rw [beq_false_of_ne h, beq_false_of_ne (fun e => h e.symm)]
    rw [hsym]
    cases hs : S.contains q <;> cases hk : (k == q) <;>
      simp only [Bool.or_false, Bool.or_true, Bool.false_eq_true, if_true, if_false]

theorem removeStop_keys (S : List String) : ∀ (m : List (String × Nat)),
    GoMap.keys (S.foldl GoMap.erase m) = (GoMap.keys m).filter fun q => !S.contains q := by
  induction S with
  | nil =>
    intro m
    simp only [List.foldl_nil, List.contains_nil, Bool.not_false]
    exact (List.filter_eq_self.mpr (fun _ _ => rfl)).symm
  | cons k S ih =>
    intro m
    rw [List.foldl_cons, ih, GoMap.keys_erase, List.filter_filter]
    apply List.filter_congr
    intro q _
    simp only [List.contains_cons]
    cases hs : S.contains q <;> cases hk : (q == k) <;> simp

/-- over a duplicate-free list of words, the occurrence counts add up to the number of occurrences of those words -/
theorem sum_count_nodup (D : List String) (hD : D.Nodup) : ∀ (ws : List String),
    (D.map fun q => ws.count q).sum = (ws.filter fun w => D.contains w).length := by
  intro ws
  induction ws with
  | nil =>
    simp only [List.count_nil, List.filter_nil, List.length_nil]
    clear hD
    induction D with
    | nil => rfl
    | cons d D ihd => simp only [List.map_cons, List.sum_cons, ihd]
  | cons w ws ih =>
    simp only [List.count_cons, List.filter_cons]
    have hsplit : (D.map fun q => List.count q ws + if (w == q) = true then 1 else 0).sum
        = (D.map fun q => List.count q ws).sum + (D.map fun q => if (w == q) = true then 1 else 0).sum := by
      clear ih hD
      induction D with
      | nil => rfl
      | cons d D ihd => simp only [List.map_cons, List.sum_cons, ihd]; omega
    have hone : (D.map fun q => if (w == q) = true then 1 else 0).sum = if D.contains w then 1 else 0 := by
      clear ih hsplit
      induction D with
      | nil => rfl
      | cons d D ihd =>
        rw [List.nodup_cons] at hD
        simp only [List.map_cons, List.sum_cons, List.contains_cons, ihd hD.2]
        cases hwd : (w == d)
        · simp
        · have e : w = d := by simpa using hwd
          subst e
          have hn : D.contains w = false := by
            cases hh : D.contains w
            · rfl
            · exact absurd (List.contains_iff_mem.mp hh) hD.1
          rw [hn]
          simp only [beq_self_eq_true, if_true, Bool.true_or, Bool.false_eq_true, if_false]
    rw [hsplit, hone, ih]
    cases D.contains w <;> simp

end CocaVerif.Stats
