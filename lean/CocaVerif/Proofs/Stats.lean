import CocaVerif.Model.Stats
import CocaVerif.Base.Oracle
import CocaVerif.Proofs.RCall
import CocaVerif.Proofs.GoMapLemmas



namespace CocaVerif.Stats

/-- the counting fold: lookup of `k` after processing callees `cs` -/
theorem foldl_count (D : List String) (k : String) :
    ∀ (cs : List String) (m : List (String × Nat)),
      GoMap.get? (cs.foldl (fun m c => if D.contains c then GoMap.set m c ((GoMap.get? m c).getD 0 + 1) else m) m) k
        = (if (cs.filter fun c => D.contains c && c == k).length = 0 then GoMap.get? m k
           else some ((GoMap.get? m k).getD 0 + (cs.filter fun c => D.contains c && c == k).length)) := by
  intro cs
  induction cs with
  | nil => intro m; simp
  | cons c rest ih =>
    intro m
    rw [List.foldl_cons, ih, List.filter_cons]
    cases hc : D.contains c <;> cases hk : (c == k)
    · simp
    · simp
    · simp only [Bool.true_and, Bool.false_eq_true, ↓reduceIte, GoMap.get?_set, hk]
    · have e : c = k := by simpa using hk
      subst e
      simp only [Bool.and_self, ↓reduceIte, GoMap.get?_set, beq_self_eq_true, List.length_cons,
        Option.getD_some]
      generalize (List.filter (fun c_1 => D.contains c_1 && c_1 == c) rest).length = n
      cases n with
      | zero => simp
      | succ n => simp; omega

end CocaVerif.Stats
