import CocaVerif.Model.Stats
import CocaVerif.Base.Oracle
import CocaVerif.Proofs.RCall

namespace CocaVerif.GoMap
variable {κ ν : Type} [BEq κ] [LawfulBEq κ]

theorem mem_keys_filter {k : κ} {l : List κ} {p : κ → Bool} (h : k ∈ l.filter p) : k ∈ l :=
  (List.mem_filter.mp h).1

omit [LawfulBEq κ] in
theorem keys_nodup (m : List (κ × ν)) [LawfulBEq κ] : (keys m).Nodup := by
  induction m with
  | nil => simp [keys]
  | cons p r ih =>
    obtain ⟨k, v⟩ := p
    simp only [keys, List.nodup_cons]
    refine ⟨?_, ih.sublist List.filter_sublist⟩
    intro h
    have := (List.mem_filter.mp h).2
    simp at this

theorem entries_keys_nodup (m : List (κ × ν)) : ((entries m).map (·.1)).Nodup := by
  unfold entries
  have hk := keys_nodup m
  generalize keys m = ks at hk
  induction ks with
  | nil => simp
  | cons k ks ih =>
    rw [List.nodup_cons] at hk
    rw [List.filterMap_cons]
    cases hg : get? m k with
    | none => simpa [hg] using ih hk.2
    | some v =>
      simp only [hg, Option.map_some, List.map_cons, List.nodup_cons]
      refine ⟨?_, ih hk.2⟩
      intro hmem
      simp only [List.mem_map, List.mem_filterMap] at hmem
      obtain ⟨⟨k', v'⟩, ⟨k'', hk'', hsome⟩, rfl⟩ := hmem
      cases hg' : get? m k'' with
      | none => simp [hg'] at hsome
      | some w =>
        simp only [hg', Option.map_some, Option.some.injEq, Prod.mk.injEq] at hsome
        exact hk.1 (hsome.1 ▸ hk'')

end CocaVerif.GoMap

namespace CocaVerif.Stats

/-- the counting fold: lookup of `k` after processing callees `cs` -/
theorem foldl_count (D : List String) (k : String) :
    ∀ (cs : List String) (m : List (String × Nat)),
      GoMap.get? (cs.foldl (fun m c => if D.contains c then GoMap.set m c ((GoMap.get? m c).getD 0 + 1) else m) m) k
        = (if (cs.filter fun c => D.contains c && c == k).length = 0 then GoMap.get? m k
           else some ((GoMap.get? m k).getD 0 + (cs.filter fun c => D.contains c && c == k).length)) := by
  intro cs
  induction cs with
  | nil => intro m; simp
  | cons c rest ih =>
    intro m
    rw [List.foldl_cons, ih, List.filter_cons]
    cases hc : D.contains c <;> cases hk : (c == k)
    · simp
    · simp
    · simp only [Bool.true_and, Bool.false_eq_true, ↓reduceIte, GoMap.get?_set, hk]
    · have e : c = k := by simpa using hk
      subst e
      simp only [Bool.and_self, ↓reduceIte, GoMap.get?_set, beq_self_eq_true, List.length_cons,
        Option.getD_some]
      generalize (List.filter (fun c_1 => D.contains c_1 && c_1 == c) rest).length = n
      cases n with
      | zero => simp
      | succ n => simp; omega

end CocaVerif.Stats
