/-
  Executable model of ast_api_java/java_api_listener.go + api/java_api_app.go (property C12, and the
  API clause of C07).  One Java file = the list of listener events in ANTLR walker order for a
  conventional controller file; the process-global variables of the listener package are the explicit
  state `ASt`, of which `NewJavaAPIListener` resets the part given by the regenerated `Gen.Api.resets`.
-/
import CocaVerif.Gen.Api

namespace CocaVerif.Api

/-- the argument form of an annotation -/
inductive AArgs where
  | none                                  -- @X
  | positional (text : String)            -- @X("…") / @X(CONST): ElementValue text (quotes included)
  | pairs (kvs : List (String × String))  -- @X(k = v, …): ElementValue texts
  deriving Repr, DecidableEq

structure AnnoEv where
  name : String
  args : AArgs
  deriving Repr, DecidableEq

structure ParamEv where
  annos : List String
  type : String
  name : String
  deriving Repr, DecidableEq

inductive Ev where
  | pkg (name : String)
  | imp (name : String)
  | anno (a : AnnoEv)
  | enterClass (name : String) (implementsText : String)
  | exitClass
  | method (name : String) (params : List ParamEv)     -- EnterMethodDeclaration (class methods only)
  deriving Repr, DecidableEq

structure RestAPI where
  uri : String := ""
  httpMethod : String := ""
  methodName : String := ""
  requestBodyClass : String := ""
  pkg : String := ""
  cls : String := ""
  deriving Repr, DecidableEq

structure ASt where
  hasEnterClass : Bool := false
  isController : Bool := false
  hasEnterRest : Bool := false
  baseApiUrl : String := ""
  requestBodyClass : String := ""
  current : RestAPI := {}
  apis : List RestAPI := []
  curClz : String := ""
  curPkg : String := ""
  curImplements : String := ""
  deriving Repr

/-- `NewJavaAPIListener`: which globals are re-initialised per file is regenerated from the source -/
def newListener (st : ASt) : ASt :=
  { hasEnterClass := if Gen.Api.resetsHasEnterClass then false else st.hasEnterClass,
    isController := false,
    hasEnterRest := if Gen.Api.resetsHasEnterRest then false else st.hasEnterRest,
    baseApiUrl := if Gen.Api.resetsBaseApiUrl then "" else st.baseApiUrl,
    requestBodyClass := if Gen.Api.resetsRequestBodyClass then "" else st.requestBodyClass,
    current := {}, apis := [], curClz := "", curPkg := "", curImplements := "" }

/-- `text[1:len(text)-1]` on bytes: modelled for ASCII first/last characters; `none` = out-of-range panic -/
def stripEnds (t : String) : Option String :=
  if t.utf8ByteSize < 2 then none else some (String.ofList ((t.toList.drop 1).dropLast))

/-- `addApiMethod` -/
def verbOf (name : String) : Option String :=
  if name == "GetMapping" || name == "RequestMethod.GET" || name == "GET" then some "GET"
  else if name == "PutMapping" || name == "RequestMethod.PUT" || name == "PUT" then some "PUT"
  else if name == "PostMapping" || name == "RequestMethod.POST" || name == "POST" then some "POST"
  else if name == "DeleteMapping" || name == "RequestMethod.DELETE" || name == "DELETE" then some "DELETE"
  else none

def setVerb (api : RestAPI) (name : String) : RestAPI :=
  match verbOf name with
  | some v => { api with httpMethod := v }
  | none => api

def isMapping (n : String) : Bool :=
  n == "RequestMapping" || n == "GetMapping" || n == "PutMapping" || n == "PostMapping" || n == "DeleteMapping"

/-- `buildBaseApiUrlString` (class-level @RequestMapping); a value shorter than two bytes is left alone -/
def baseOf (st : ASt) (a : AnnoEv) : ASt :=
  if a.name == "RequestMapping" then
    match a.args with
    | .pairs kvs =>
      kvs.foldl (fun s kv => if kv.1 == "value" then
          (match stripEnds kv.2 with
           | some t => { s with baseApiUrl := t }
           | none => s)
        else s) st
    | .positional t =>
      match stripEnds t with
      | some x => { st with baseApiUrl := x }
      | none => st
    | .none => { st with baseApiUrl := "/" }
  else st

def removeQuotes (s : String) : String := s.replace "\"" ""

/-- `EnterAnnotation` -/
def onAnno (st : ASt) (a : AnnoEv) : ASt :=
  let st1 := if a.name == "RestController" || a.name == "Controller" then { st with isController := true } else st
  -- class-level annotation: only the base path, whether before or after the controller annotation
  if !st1.hasEnterClass && Gen.Api.classLevelReturns then baseOf st1 a else
  let st2 := if !st1.hasEnterClass then baseOf st1 a else st1
  if !st2.isController then st2 else
  if !isMapping a.name then st2 else
  let uri := match a.args with
    | .positional t => st2.baseApiUrl ++ t
    | _ => st2.baseApiUrl
  let st3 := { st2 with hasEnterRest := true, current := { uri := removeQuotes uri } }
  let st4 := if a.name != "RequestMapping" then
      (if st3.hasEnterClass then { st3 with current := setVerb st3.current a.name } else st3) else st3
  if a.name != "RequestMapping" && Gen.Api.nonRequestMappingReturns then st4 else
  match a.args with
  | .pairs kvs =>
    kvs.foldl (fun s kv =>
      let s1 := if kv.1 == "method" && a.name == "RequestMapping" then { s with current := setVerb s.current kv.2 } else s
      if kv.1 == "value" then
        (match stripEnds kv.2 with
         | some t => { s1 with current := { s1.current with uri := s1.baseApiUrl ++ t } }
         | none => s1)
      else s1) st4
  | _ => st4

/-- `EnterMethodDeclaration` (the `implements … @ServiceMethod` path is not modelled: `curImplements`
    is empty for the conventional controllers of C12) -/
def onMethod (st : ASt) (name : String) (params : List ParamEv) : ASt :=
  if st.hasEnterRest then
    let cur := { st.current with pkg := st.curPkg, cls := st.curClz, methodName := name }
    if params.isEmpty then
      { st with current := { cur with requestBodyClass := st.requestBodyClass }, hasEnterRest := false, requestBodyClass := "",
                apis := st.apis ++ [{ cur with requestBodyClass := st.requestBodyClass }] }
    else
      let rb := params.foldl (fun rb p => if p.annos.contains "RequestBody" then p.type else rb) st.requestBodyClass
      { st with current := { cur with requestBodyClass := rb }, hasEnterRest := false, requestBodyClass := "",
                apis := st.apis ++ [{ cur with requestBodyClass := rb }] }
  else st

def onEv (st : ASt) : Ev → Except String ASt
  | .pkg n => .ok { st with curPkg := n }
  | .imp _ => .ok st
  | .anno a => .ok (onAnno st a)
  | .enterClass n impl => .ok { st with hasEnterClass := true, curClz := n, curImplements := impl }
  | .exitClass => .ok { st with hasEnterClass := false }
  | .method n ps => .ok (onMethod st n ps)

def runFile (st : ASt) (evs : List Ev) : Except String ASt :=
  evs.foldl (fun acc e => match acc with | .error x => .error x | .ok s => onEv s e) (.ok (newListener st))

/-- `JavaApiApp.AnalysisPath`: all files in order, APIs concatenated -/
def runFiles (st : ASt) (files : List (List Ev)) : Except String (List RestAPI × ASt) :=
  files.foldl (fun acc f => match acc with
    | .error x => .error x
    | .ok (apis, s) => match runFile s f with
      | .ok s' => .ok (apis ++ s'.apis, s')
      | .error x => .error x) (.ok ([], st))

end CocaVerif.Api
