/-
  Executable model of the Java identifier pass (pkg/infrastructure/ast/ast_java/java_identify/
  java_identifier_listener.go + javaapp/java_identifier_app.go) for conventional units: C01 (second
  pass) and the identifier clause of C07.  Events are the listener callbacks in walker order.  The
  package variables of the listener are the explicit state; `NewJavaIdentifierListener` assigns all of
  them (regenerated: `Gen.Ident.unresetGlobals = []`).
-/
import CocaVerif.Base.CodeModel
import CocaVerif.Gen.Ident

namespace CocaVerif.JavaIdent

structure IP where
  startLine : Int
  startCol : Int
  stopLine : Int
  stopCol : Int
  deriving Repr, DecidableEq, Inhabited

inductive IEv where
  | pkg (name : String)
  | imp (name : String)
  | anno (a : Anno)
  | enterClass (name : String) (ext : Option String) (impls : List String)
  | enterInterface (name : String)
  | enterCtor (name : String) (pos : IP)
  | exitCtor
  /-- `annos`: the annotations among the modifiers of the declaration (all of them, in source order); `mods`: the other modifiers -/
  | enterMethod (name ret : String) (annos : List Anno) (mods : List String) (pos : IP)
  | exitMethod
  /-- an interface method: the modifiers before the member and the ones from `default` on, in source order -/
  | interfaceMethod (name ret : String) (annos : List Anno) (mods : List String) (pos : IP)
  | exitInterfaceMethod
  /-- the expression of a `return` statement: does it contain a null literal token? -/
  | returnExpr (hasNull : Bool)
  | exitType
  deriving Repr

structure ISt where
  node : DS := {}
  nodes : List DS := []
  cur : Fn := {}
  hasEnterClass : Bool := false
  imports : List String := []
  isOverride : Bool := false
  deriving Repr

/-- `NewJavaIdentifierListener()` -/
def newListener (st : ISt) : ISt :=
  if Gen.Ident.unresetGlobals == [] then {} else { st with nodes := [], node := {}, cur := {} }

def posOf (p : IP) : Pos := { startLine := p.startLine, startCol := p.startCol, stopLine := p.stopLine, stopCol := p.stopCol }

def containsSub (s sub : String) : Bool := (s.splitOn sub).length > 1

def pushNode (st : ISt) : ISt :=
  let st1 := { st with hasEnterClass := false }
  if st1.node.node != "" then { st1 with nodes := st1.nodes ++ [st1.node], node := {} } else { st1 with node := {} }

def onEv (st : ISt) : IEv → ISt
  | .pkg n => { st with node := { st.node with pkg := n } }
  | .imp n => { st with imports := st.imports ++ [n] }
  | .anno a =>
    let st1 := if a.name == "Override" then { st with isOverride := true } else st
    if !st1.hasEnterClass then { st1 with node := { st1.node with annos := st1.node.annos ++ [a] } } else st1
  | .enterClass name ext impls =>
    let nd := { st.node with type := "Class", node := name }
    let nd := match ext with | some e => { nd with ext := e } | none => nd
    let nd := impls.foldl (fun (d : DS) t => st.imports.foldl (fun d imp => if imp.endsWith ("." ++ t) then { d with impls := d.impls ++ [imp] } else d) d) nd
    { st with hasEnterClass := true, node := nd, cur := {} }
  | .enterInterface name => { st with hasEnterClass := true, node := { st.node with type := "Interface", node := name } }
  | .enterCtor name pos =>
    { st with cur := { name := name, ret := "", override := st.isOverride, annos := st.cur.annos, isConstructor := true, pos := posOf pos } }
  | .exitCtor => { st with node := { st.node with fns := st.node.fns ++ [st.cur] } }
  | .enterMethod name ret declared mods pos =>
    let annos := st.cur.annos ++ declared
    { st with hasEnterClass := true, isOverride := false,
              cur := { name := name, ret := ret, override := st.isOverride, annos := annos, pos := posOf pos, modifiers := mods } }
  | .exitMethod => { st with node := { st.node with fns := st.node.fns ++ [st.cur] }, cur := {} }
  | .interfaceMethod name ret declared mods pos =>
    let annos := st.cur.annos ++ declared
    { st with cur := { name := name, ret := ret, override := st.isOverride, annos := annos, pos := posOf pos, modifiers := mods } }
  | .exitInterfaceMethod => { st with node := { st.node with fns := st.node.fns ++ [st.cur] }, cur := {} }
  | .returnExpr hasNull => { st with cur := { st.cur with isReturnNull := st.cur.isReturnNull || hasNull } }
  | .exitType => pushNode st

def runFile (st : ISt) (evs : List IEv) : ISt := evs.foldl onEv (newListener st)

/-- `JavaIdentifierApp.AnalysisFiles` -/
def runFiles (st : ISt) (files : List (List IEv)) : List DS × ISt :=
  files.foldl (fun acc f => let s := runFile acc.2 f; (acc.1 ++ s.nodes, s)) ([], st)

end CocaVerif.JavaIdent
