/-
  Executable model for property C16: the glue of cmd/cloc.go + pkg/application/cloc + domain/cloc
  around the external line counter scc.  scc is a PARAMETER of the model: `FileStat` lists, for every
  file scc counts, its language and its number of code lines (the generator knows them by
  construction); the model computes what the by-directory CSV and the top-file report must contain.
-/
import CocaVerif.Base.GoMap
import CocaVerif.Gen.Cloc

namespace CocaVerif.Cloc

structure FileStat where
  path : String            -- relative to the analysed root, '/'-separated
  lang : String
  code : Nat
  deriving Repr, DecidableEq

/-- `IsIgnoreDir` -/
def isIgnoreDir (d : String) : Bool := Gen.Cloc.ignoredDirs.contains d

/-- first path segment, if the path has more than one -/
def topDir (p : String) : Option String :=
  match p.splitOn "/" with
  | d :: _ :: _ => some d
  | _ => none

/-- languages found in the whole tree (header of the CSV), each once -/
def languages (files : List FileStat) : List String := GoMap.dedup (files.map (·.lang))

/-- code lines of language `k` inside immediate subdirectory `d` -/
def cell (files : List FileStat) (d k : String) : Nat :=
  ((files.filter fun f => topDir f.path == some d && f.lang == k).map (·.code)).sum

structure Row where
  dir : String
  summary : Nat
  cells : List (String × Nat)
  deriving Repr, DecidableEq

/-- one row per immediate subdirectory that is not a VCS/IDE/report directory -/
def rows (files : List FileStat) (subdirs : List String) : List Row :=
  let keys := languages files
  (subdirs.filter fun d => !isIgnoreDir d).map fun d =>
    let cs := keys.map fun k => (k, cell files d k)
    { dir := d, summary := (cs.map (·.2)).sum, cells := cs }

def codeGe (a b : FileStat) : Bool := decide (a.code ≥ b.code)

/-- `SortLangeByCode`: files of each language in non-increasing order of code lines -/
def topFiles (files : List FileStat) : List (String × List FileStat) :=
  (languages files).map fun k => (k, (files.filter (·.lang == k)).mergeSort codeGe)

/-- the printed table: truncated to the requested size -/
def topTable (files : List FileStat) (size : Nat) : List (String × List FileStat) :=
  (topFiles files).map fun (k, fs) => (k, fs.take size)

end CocaVerif.Cloc
