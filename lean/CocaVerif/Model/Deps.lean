/-
  Executable model for property C19: xmlparse.ParseXML (stack machine over the token stream of
  encoding/xml), deps.AnalysisMaven / BuildDeps, the Gradle dependency listener at the level of
  abstract `dependencies { … }` statements, and DepAnalysisApp.AnalysisPath (unused report).
  Contracts (trusted, exercised by the correspondence): encoding/xml turns a well-formed document
  into the token stream `tokens tree` (plus blank character data, comments, processing
  instructions); the Groovy parser delivers each statement of the dependencies block with its
  configuration name and argument text.
-/
import CocaVerif.Base.GoMap

namespace CocaVerif.Deps

inductive X where
  | node (name : String) (kids : List X)
  | text (s : String)
  deriving Repr, Inhabited

inductive XTok where
  | start (name : String)
  | stop
  | chars (s : String)
  | other            -- comment, processing instruction, directive
  deriving Repr, DecidableEq

def goSpace (c : Char) : Bool :=
  c == ' ' || c == '\t' || c == '\n' || c == '\x0b' || c == '\x0c' || c == '\r' || c == '\u0085' || c == ' '

def trimSpace (s : String) : String :=
  String.ofList (((s.toList.dropWhile goSpace).reverse.dropWhile goSpace).reverse)

structure PSt where
  stack : List (String × List X)     -- innermost open element first: (name, children so far)
  root : X

def pstep (st : PSt) : XTok → PSt
  | .start name => { st with stack := (name, []) :: st.stack }
  | .stop =>
    match st.stack with
    | [] => st
    | (n, kids) :: rest =>
      match rest with
      | [] => { stack := [], root := .node n kids }
      | (pn, pkids) :: rest' => { st with stack := (pn, pkids ++ [.node n kids]) :: rest' }
  | .chars s =>
    match st.stack with
    | [] => st
    | (n, kids) :: rest =>
      let content := trimSpace s
      if content != "" then { st with stack := (n, kids ++ [.text content]) :: rest } else st
  | .other => st

/-- `ParseXML`; `.error` = the Go code panics ("there is tag no close") -/
def parseXML (toks : List XTok) : Except String X :=
  let st := toks.foldl pstep { stack := [], root := .node "" [] }
  if st.stack.isEmpty then .ok st.root else .error "Parse xml error, there is tag no close"

structure Dep where
  group : String := ""
  artifact : String := ""
  scope : String := ""
  deriving Repr, DecidableEq

/-- the texts directly inside an element; `.error` when a child is an element (`textNode.Val.(string)`) -/
def lastText (kids : List X) (init : String) : Except String String :=
  kids.foldl (fun acc k => match acc, k with
    | .error e, _ => .error e
    | .ok _, .text s => .ok s
    | .ok _, .node _ _ => .error "interface conversion: not a string") (.ok init)

/-- one `<dependency>` element -/
def buildDep (kids : List X) : Except String Dep :=
  kids.foldl (fun acc k => match acc, k with
    | .error e, _ => .error e
    | .ok _, .text _ => .error "interface conversion: not an XMLNode"
    | .ok d, .node name sub =>
      if name == "groupId" then (lastText sub d.group).map fun s => { d with group := s }
      else if name == "artifactId" then (lastText sub d.artifact).map fun s => { d with artifact := s }
      else if name == "scope" then (lastText sub d.scope).map fun s => { d with scope := s }
      else .ok d) (.ok {})

/-- `BuildDeps` -/
def buildDeps (kids : List X) : Except String (List Dep) :=
  kids.foldl (fun acc k => match acc, k with
    | .error e, _ => .error e
    | .ok _, .text _ => .error "interface conversion: not an XMLNode"
    | .ok l, .node _ sub => (buildDep sub).map fun d => l ++ [d]) (.ok [])

/-- `AnalysisMaven` on the parsed root: the FIRST direct child named `dependencies` -/
def analysisRoot : List X → Except String (List Dep)
  | [] => .ok []
  | .text _ :: _ => .error "interface conversion: not an XMLNode"
  | .node name sub :: rest => if name == "dependencies" then buildDeps sub else analysisRoot rest

def analysisMaven (toks : List XTok) : Except String (List Dep) :=
  match parseXML toks with
  | .error e => .error e
  | .ok (.node _ kids) => analysisRoot kids
  | .ok (.text _) => .ok []

/-! ### Gradle -/

inductive Notation where
  | str (quote : Char) (paren : Bool) (closure : Bool) (text : String)   -- 'g:a:v' / "g:a:v" / ('g:a:v') / ("g:a:v") {…}
  | strs (paren : Bool) (texts : List String)                            -- several string notations in one statement: 'a:b', 'c:d'
  | other (what : String)                                                 -- map notation, project(..), fileTree(..), GString, a string
                                                                          -- without ':', and statements that are no entries at all
                                                                          -- (def, assignment, if, nested block)
  deriving Repr, DecidableEq

structure GStmt where
  conf : String
  nota : Notation
  deriving Repr, DecidableEq

/-- `ConvertToJDep` on the text between the quotes -/
def convert (conf text : String) : Option Dep :=
  match text.splitOn ":" with
  | g :: a :: _ => some { group := g, artifact := a, scope := conf }
  | _ => none

def stmtDeps (s : GStmt) : List Dep :=
  match s.nota with
  | .str _ _ _ t => (convert s.conf t).toList
  | .strs _ ts => ts.filterMap (convert s.conf)
  | .other _ => []

def gradleDeps (stmts : List GStmt) : List Dep := stmts.flatMap stmtDeps

/-! ### unused report -/

def containsSub (s sub : String) : Bool := (s.splitOn sub).length > 1

/-- `AnalysisPath`: the declared dependencies whose group id occurs in no import -/
def unused (declared : List Dep) (imports : List String) : List Dep :=
  declared.filter fun d => !(imports.any fun i => containsSub i d.group)

end CocaVerif.Deps
