/-
  Executable model of pkg/application/bs/bs_app.go (AnalysisBadSmell, for the kinds property C10
  names), bs_domain.FilterBadSmellList and bs_domain.SortSmellByType + cmd.isSmellHaveSize.
  Every threshold, comparison and kind string comes from Gen/Bs.lean (regenerated from the Go source).
  `refusedBequest` and `graphConnectedCall` are outside the statement of C10 and are not modelled
  (both sides are filtered before comparison).
-/
import CocaVerif.Base.J
import CocaVerif.Gen.Bs

namespace CocaVerif.Bs
open CocaVerif.Gen.Bs

structure IfInfo where
  startLine : Int
  endLine : Int
  deriving Repr, DecidableEq

structure BSFn where
  name : String
  startLine : Int
  stopLine : Int
  nParams : Nat
  ifSize : Int
  switchSize : Int
  ifs : List IfInfo
  deriving Repr, DecidableEq

structure BSNode where
  path : String
  type : String
  fns : List BSFn
  deriving Repr, DecidableEq

structure Finding where
  file : String
  line : String := ""
  bs : String
  desc : String := ""
  size : Int := 0
  deriving Repr, DecidableEq

/-- `strconv.Itoa` -/
def itoa (i : Int) : String := toString i

def longMethodF (n : BSNode) (m : BSFn) : List Finding :=
  if longMethodCond (m.stopLine - m.startLine) BS_METHOD_LENGTH then
    [{ file := n.path, line := itoa m.startLine, bs := SMELL_LONG_METHOD,
       desc := "method length: " ++ itoa (m.stopLine - m.startLine), size := m.stopLine - m.startLine }]
  else []

def longParamsF (n : BSNode) (m : BSFn) : List Finding :=
  if longParamsCond m.nParams BS_LONG_PARAS_LENGTH then
    [{ file := n.path, line := itoa m.startLine, bs := SMELL_LONG_PARAMETER_LIST, desc := "<params json>", size := m.nParams }]
  else []

def repeatedIfF (n : BSNode) (m : BSFn) : List Finding :=
  if repeatedIfCond m.ifSize BS_IF_SWITCH_LENGTH then
    [{ file := n.path, line := itoa m.startLine, bs := SMELL_REPEATED_SWITCHES, desc := "ifSize", size := m.ifSize }]
  else []

def repeatedSwitchF (n : BSNode) (m : BSFn) : List Finding :=
  if repeatedSwitchCond m.switchSize BS_IF_SWITCH_LENGTH then
    [{ file := n.path, line := itoa m.startLine, bs := SMELL_REPEATED_SWITCHES, desc := "switchSize", size := m.switchSize }]
  else []

def complexIfF (n : BSNode) (m : BSFn) : List Finding :=
  m.ifs.flatMap fun i =>
    if complexIfCond i.endLine i.startLine BS_IF_LINES_LENGTH then
      [{ file := n.path, line := itoa i.startLine, bs := SMELL_COMPLEX_CONDITION, desc := SMELL_COMPLEX_CONDITION }]
    else []

/-- the per-method checks, in the order of the loop body of `AnalysisBadSmell` -/
def fnFindings (n : BSNode) (m : BSFn) : List Finding :=
  longMethodF n m ++ longParamsF n m ++ repeatedIfF n m ++ repeatedSwitchF n m ++ complexIfF n m

def lazyF (n : BSNode) : List Finding :=
  if lazyCond n.type n.fns.length then [{ file := n.path, bs := SMELL_LAZY_ELEMENT }] else []

/-- `onlyHaveGetterAndSetter` after the method loop -/
def onlyGetSet (n : BSNode) : Bool := n.fns.all fun m => isGetterSetter m.name

def dataClassF (n : BSNode) : List Finding :=
  if dataClassCond (onlyGetSet n) n.type n.fns.length then
    [{ file := n.path, bs := SMELL_DATA_CLASS, size := n.fns.length }]
  else []

/-- `WithoutGetterSetterClass` -/
def normalLen (n : BSNode) : Nat := (n.fns.filter fun m => !isGetterSetter m.name).length

def largeClassF (n : BSNode) : List Finding :=
  if largeClassCond n.type (normalLen n) BS_LARGE_LENGTH then
    [{ file := n.path, bs := SMELL_LARGE_CLASS,
       desc := "methods number (without getter/setter): " ++ toString (normalLen n), size := normalLen n }]
  else []

def nodeFindings (n : BSNode) : List Finding :=
  lazyF n ++ n.fns.flatMap (fnFindings n) ++ dataClassF n ++ largeClassF n

/-- `AnalysisBadSmell` restricted to the kinds of C10 -/
def analysis (nodes : List BSNode) : List Finding := nodes.flatMap nodeFindings

/-- `IdentifyBadSmell`: analysis, then `FilterBadSmellList` with the ignore set -/
def identify (nodes : List BSNode) (ignore : List String) : List Finding :=
  (analysis nodes).filter fun f => !ignore.contains f.bs

/-- `isSmellHaveSize` (cmd/bs.go) — membership in the regenerated list -/
def isSized (k : String) : Bool := sizedKinds.contains k

/-- kinds in first-occurrence order -/
def kindsOf (l : List Finding) : List String := (l.map (·.bs)).eraseDups

def sizeGe (a b : Finding) : Bool := decide (a.size ≥ b.size)

/-- `SortSmellByType(models, isSmellHaveSize)`: group by kind; sized kinds sorted by non-increasing
    size. Go's `sort.Slice` is not stable: the order among equal sizes is unspecified, the model
    picks the stable one and the comparison canonicalises ties. -/
def sortByType (l : List Finding) : List (String × List Finding) :=
  (kindsOf l).map fun k =>
    let g := l.filter (·.bs == k)
    (k, if isSized k then g.mergeSort sizeGe else g)

end CocaVerif.Bs
