/-
  Executable model for property C17: the part of CommentLexer.g4 that decides where comments and
  literals start and end (`lex`), astitodo.ParseComment (`parseComment`) and todo_app's file selection.

  Lexer model ("coarse lexer"): at every position the rules that can START a comment or a literal are
  tried (COMMENT `/*…*/` non-greedy, LINE_COMMENT `//…`, PYTHON_COMMENT `#…`, STRING_LITERAL,
  CHAR_LITERAL, TemplateStringLiteral); otherwise ONE character is consumed.  No other rule of the
  grammar contains `/ # " ' \`` except at its first character (DIV, DIV_ASSIGN), so consuming the
  other tokens character by character visits the same comment/literal start positions as ANTLR's
  maximal munch; an unmatched character is skipped exactly as ANTLR's error recovery does.
-/
import CocaVerif.Base.Regex
import CocaVerif.Gen.Todo

namespace CocaVerif.Todo
open CocaVerif.Rx

inductive Kind where
  | block | line | hash | str | chr | tmpl
  deriving Repr, DecidableEq

structure Tok where
  kind : Kind
  text : List Char
  line : Nat
  deriving Repr, DecidableEq

def isPrefixL : List Char → List Char → Bool
  | [], _ => true
  | _ :: _, [] => false
  | a :: as, b :: bs => a == b && isPrefixL as bs

/-- length of the prefix before the first occurrence of "*/" (none if there is none) -/
def findClose : List Char → Option Nat
  | [] => none
  | [_] => none
  | a :: b :: rest => if a == '*' && b == '/' then some 0 else (findClose (b :: rest)).map (· + 1)

def lineEnd (c : Char) : Bool := c == '\r' || c == '\n' || c == ' ' || c == ' '
def hashEnd (c : Char) : Bool := c == '\r' || c == '\n' || c == '\x0c'

def isOct (c : Char) : Bool := c ≥ '0' && c ≤ '7'
def isHex (c : Char) : Bool := isDigit c || (c ≥ 'a' && c ≤ 'f') || (c ≥ 'A' && c ≤ 'F')

/-- EscapeSequence of the grammar at a backslash. `.inl n`: a valid escape of n characters (the
    shortest complete one: further octal digits are ordinary characters of the enclosing literal);
    `.inr n`: no escape matches — n characters were consumed up to and INCLUDING the offending one. -/
def escapeScan : List Char → Nat ⊕ Nat
  | '\\' :: c :: rest =>
    if "btnfr\"'\\".toList.contains c then .inl 2
    else if isOct c then .inl 2
    else if c == 'u' then
      let us := (c :: rest).takeWhile (· == 'u')
      let after := (c :: rest).dropWhile (· == 'u')
      let hs := (after.take 4).takeWhile isHex
      if hs.length == 4 then .inl (1 + us.length + 4)
      else .inr (1 + us.length + hs.length + (if after.length > hs.length then 1 else 0))
    else .inr 2
  | [_] => .inr 1
  | _ => .inr 0

/-- STRING_LITERAL after the opening quote: (matched?, characters consumed). On failure the count
    includes the offending character (ANTLR's error recovery drops everything up to and including it). -/
def strScan : Nat → List Char → Bool × Nat
  | 0, _ => (false, 0)
  | _, [] => (false, 0)
  | fuel + 1, c :: rest =>
    if c == '"' then (true, 1)
    else if c == '\\' then
      match escapeScan (c :: rest) with
      | .inl n => let r := strScan fuel ((c :: rest).drop n); (r.1, r.2 + n)
      | .inr n => (false, n)
    else if c == '\r' || c == '\n' then (false, 1)
    else let r := strScan fuel rest; (r.1, r.2 + 1)

/-- CHAR_LITERAL including the opening quote: (matched?, characters consumed) -/
def chrScan : List Char → Bool × Nat
  | '\'' :: c :: rest =>
    if c == '\\' then
      match escapeScan (c :: rest) with
      | .inl n =>
        match (c :: rest).drop n with
        | '\'' :: _ => (true, n + 2)
        | _ :: _ => (false, n + 2)
        | [] => (false, n + 1)
      | .inr n => (false, n + 1)
    else if c == '\'' || c == '\r' || c == '\n' then (false, 2)
    else match rest with
      | '\'' :: _ => (true, 3)
      | _ :: _ => (false, 3)
      | [] => (false, 2)
  | _ => (false, 1)

/-- TemplateStringLiteral ``'`' ('\\`' | ~'`')* '`'`` after the opening backquote, LONGEST match (ANTLR
    keeps simulating after an accept state and falls back to the last one): a backquote closes the
    literal; if it is preceded by a backslash it may also be an escaped one, so scanning goes on and it
    is only remembered as the last possible end. Returns the length up to and including the closing
    backquote, or none when the literal is never closed. -/
def tmplScan : Bool → Nat → Option Nat → List Char → Option Nat
  | _, _, cand, [] => cand
  | pb, pos, cand, c :: rest =>
    if c == '`' then (if pb then tmplScan false (pos + 1) (some (pos + 1)) rest else some (pos + 1))
    else tmplScan (c == '\\') (pos + 1) cand rest

def tmplBody (rest : List Char) : Option Nat := tmplScan false 0 none rest

def countNl (s : List Char) : Nat := (s.filter (· == '\n')).length

inductive Step where
  | tok (k : Kind) (n : Nat)
  | skip (n : Nat)

/-- what the lexer does at this position: emit one of the six token kinds, or drop characters
    (another token, or ANTLR's error recovery) -/
def stepAt (s : List Char) : Step :=
  match s with
  | '/' :: '*' :: rest =>
    match findClose rest with
    | some n => .tok .block (n + 4)
    | none => .skip 1
  | '/' :: '/' :: rest => .tok .line (2 + (rest.takeWhile (fun c => !lineEnd c)).length)
  | '#' :: rest => .tok .hash (1 + (rest.takeWhile (fun c => !hashEnd c)).length)
  | '"' :: rest =>
    let r := strScan (rest.length + 1) rest
    if r.1 then .tok .str (r.2 + 1) else .skip (r.2 + 1)
  | '\'' :: _ =>
    let r := chrScan s
    if r.1 then .tok .chr r.2 else .skip r.2
  | '`' :: rest =>
    match tmplBody rest with
    | some n => .tok .tmpl (n + 1)
    | none => .skip s.length
  | _ => .skip 1

def lexFrom : Nat → Nat → List Char → List Tok
  | 0, _, _ => []
  | _, _, [] => []
  | fuel + 1, line, c :: rest =>
    match stepAt (c :: rest) with
    | .tok k n =>
      let txt := (c :: rest).take n
      { kind := k, text := txt, line := line } :: lexFrom fuel (line + countNl txt) ((c :: rest).drop n)
    | .skip n =>
      let n' := if n == 0 then 1 else n
      lexFrom fuel (line + countNl ((c :: rest).take n')) ((c :: rest).drop n')

def lex (s : List Char) : List Tok := lexFrom (s.length + 1) 1 s

/-! ### ParseComment -/

/-- `unicode.IsSpace` -/
def goSpace (c : Char) : Bool :=
  c == ' ' || c == '\t' || c == '\n' || c == '\x0b' || c == '\x0c' || c == '\r' || c == '\u0085' || c == ' ' ||
  c == ' ' || (c ≥ ' ' && c ≤ ' ') || c == ' ' || c == ' ' || c == ' ' || c == ' ' || c == '　'

def trimSpace (s : List Char) : List Char := ((s.dropWhile goSpace).reverse.dropWhile goSpace).reverse

def upperAscii (c : Char) : Char := if c ≥ 'a' && c ≤ 'z' then Char.ofNat (c.toNat - 32) else c

structure Todo where
  assignee : String
  line : Nat
  message : String
  deriving Repr, DecidableEq

/-- `IsTodoIdentifier`: length of the matching identifier (prefix test on the upper-cased text) -/
def todoIdentLen (t : List Char) : Option Nat :=
  (Gen.Todo.todoIdentifiers.find? fun id => isPrefixL id.toList (t.map upperAscii)).map (·.length)

def assigneeSet (c : Char) : Bool := isWord c || c == ' ' || c == '.' || c == '_' || c == '+' || c == '-' || c == '@'
/-- `^\([\w \._\+\-@]+\)` -/
def assigneeRe : Re := .seq .bol (.seq (lit '(') (.seq (plus (.chr assigneeSet)) (lit ')')))

def stripColons (t : List Char) : List Char :=
  match t with
  | ':' :: _ => trimSpace (t.dropWhile (· == ':'))
  | _ => t

/-- `strings.ReplaceAll(t, "*/", " ")` -/
def replClose : List Char → List Char
  | [] => []
  | [c] => [c]
  | a :: b :: rest => if a == '*' && b == '/' then ' ' :: replClose rest else a :: replClose (b :: rest)

/-- `handleForMultipleLine` -/
def multiLine (t : List Char) : List Char :=
  (replClose t).map fun c => if c == '*' || c == '\n' then ' ' else c

/-- how many leading characters `ParseComment` strips as the comment marker (regenerated: the code
    strips `len(marker)` after the fix; the marker texts come from the Go source) -/
def markerLen (t : List Char) : Nat :=
  match Gen.Todo.markers.find? fun m => isPrefixL m.toList t with
  | some m => Gen.Todo.markerStrip m
  | none => 0

/-- `ParseComment(token, file)`; `.error` = the Go code panics (slice out of range) -/
def parseComment (text : List Char) (line : Nat) : Except String (Option Todo) :=
  let t0 := trimSpace text
  let n := markerLen t0
  if n > t0.length then .error "slice bounds out of range" else
  let t1 := if n > 0 then trimSpace (t0.drop n) else t0
  match todoIdentLen t1 with
  | none => .ok none
  | some len =>
    let t2 := stripColons (trimSpace (t1.drop len))
    match find assigneeRe t2 with
    | some m =>
      let a := slice t2 m.start m.stop
      let t3 := stripColons (trimSpace (t2.drop a.length))
      .ok (some { assignee := String.ofList ((a.drop 1).dropLast), line := line, message := String.ofList (multiLine t3) })
    | none => .ok (some { assignee := "", line := line, message := String.ofList (multiLine t2) })

def isComment (k : Kind) : Bool := k == .block || k == .line || k == .hash

/-- todos of one file: only comment tokens are looked at -/
def scanText (s : List Char) : Except String (List Todo) :=
  ((lex s).filter fun t => isComment t.kind).foldl (fun acc t =>
    match acc, parseComment t.text t.line with
    | .ok l, .ok (some td) => .ok (l ++ [td])
    | .ok l, .ok none => .ok l
    | .ok _, .error e => .error e
    | .error e, _ => .error e) (.ok [])

def containsSub (s sub : String) : Bool := (s.splitOn sub).length > 1

/-- file selection of `AnalysisPath`: some extension is a suffix of the path, and `testData` is not in it -/
def selected (filters : List String) (path : String) : Bool :=
  filters.any (fun e => path.endsWith e) && !containsSub path "testData"

end CocaVerif.Todo
