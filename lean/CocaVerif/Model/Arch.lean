/-
  Executable model of pkg/application/arch (arch_app.go, tequila/incl_viz.go, merge_viz.go,
  path_trie.go) for property C13.
  Go keeps nodes in `map[string]string` and relations in a map keyed by the text `from + "->" + to`
  (`from + "->" + to` in MergeHeaderFile too, after the fix).  For names that do not contain "->"
  that key determines the pair, so the model keys relations by the PAIR (from, to); the maps are
  Go-map logs, and only membership (`GoMap.has`) and the key sets are observable.
-/
import CocaVerif.Base.CodeModel
import CocaVerif.Base.GoMap

namespace CocaVerif.Arch

abbrev Pair := String × String

/-- the relations contributed by one type, in the order arch_app.go inserts them -/
def relPairs (identKeys : List String) (clz : DS) : List Pair :=
  let src := clz.pkg ++ "." ++ clz.node
  clz.impls.map (fun i => (src, i)) ++
  clz.calls.map (fun f => (src, f.pkg ++ "." ++ f.node)) ++
  (if clz.ext != "" then [(src, clz.ext)] else []) ++
  ((clz.fns.filter fun m => m.name != "main").flatMap fun m =>
    (m.calls.filter fun c => src != c.pkg ++ "." ++ c.node && identKeys.contains (c.pkg ++ "." ++ c.node)).map
      fun c => (src, c.pkg ++ "." ++ c.node))

def included (clz : DS) : Bool := clz.node != "Main"

structure Graph where
  nodes : List (String × Unit)
  rels : List (Pair × Unit)

def insertAll {κ : Type} [BEq κ] (ks : List κ) : List (κ × Unit) := ks.foldl (fun m k => GoMap.set m k ()) []

/-- `ArchApp.Analysis(deps, identifiersMap)` -/
def analysis (deps : List DS) (identKeys : List String) : Graph :=
  let ds := deps.filter included
  { nodes := insertAll (ds.map fun c => c.pkg ++ "." ++ c.node),
    rels := insertAll (ds.flatMap (relPairs identKeys)) }

/-- `FullGraph.MergeHeaderFile(merge)` -/
def mergeGraph (merge : String → String) (g : Graph) : Graph :=
  { nodes := insertAll ((GoMap.keys g.nodes).map merge),
    rels := insertAll ((GoMap.keys g.rels).filterMap fun p =>
      if merge p.1 != merge p.2 then some (merge p.1, merge p.2) else none) }

/-- `tequila.MergeHeaderFunc`: drop the last dotted segment (the type name) -/
def mergeHeader (input : String) : String :=
  let tmp := input.splitOn "."
  if tmp.length > 1 then ".".intercalate tmp.dropLast else input

def containsSub (s sub : String) : Bool := (s.splitOn sub).length > 1

/-- `tequila.MergePackageFunc` with `Level = 7` -/
def mergePackage (input : String) : String :=
  let split := if containsSub input "/" then "/" else if containsSub input "." then "." else "::"
  let tmp := input.splitOn split
  let pkg := match tmp with | x :: _ => x | [] => input
  let pkg := if pkg == input then "main" else pkg
  if tmp.length > 7 then split.intercalate (tmp.take 7) else pkg

/-- node keys selected by the `-x` filter: some filter word occurs in the key -/
def selectKeys (filters : List String) (g : Graph) : List String :=
  (GoMap.keys g.nodes).filter fun k => filters.any fun f => containsSub k f || f == ""

/-- a key that is a proper dotted prefix of another selected key becomes a cluster of the package
    trie, not a node -/
def leaves (sel : List String) : List String :=
  sel.filter fun k => !(sel.any fun k' => k' != k && k'.startsWith (k ++ "."))

/-- what `ToMapDot` draws: (displayed nodes, edges between displayed nodes) -/
def display (filters : List String) (g : Graph) : List String × List Pair :=
  let lv := leaves (selectKeys filters g)
  (lv, (GoMap.keys g.rels).filter fun p => lv.contains p.1 && lv.contains p.2)

end CocaVerif.Arch
