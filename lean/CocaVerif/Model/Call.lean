/-
  Executable model of pkg/application/call/call_graph.go and pkg/application/rcall/rcall_graph.go
  (properties C03, C04, and the call/rcall clauses of C07).

  * Go's process-global counters (`call.loopCount`, `rcall.loopCount`, `rcall.lastChild`) are the
    explicit state `St`; whether an entry point resets them is a REGENERATED fact (`Gen.Call.*Resets*`).
  * The recursion of `BuildCallChain` / `BuildRCallChain` is structural on a fuel argument; the
    theorems `chain_fuel_irrelevant` / `rchain_fuel_irrelevant` (Proofs/Call.lean) show that the fuel
    used by the entry points is never exhausted, so the `0` branches are unreachable.
  * The emitted text is the concatenation of `Item.render`; a Go `return "\n"` is `Item.blank`.
-/
import CocaVerif.Base.CodeModel
import CocaVerif.Base.GoMap
import CocaVerif.Gen.Call

namespace CocaVerif.Call

inductive Item where
  | blank
  | edge (a b : String)
  deriving Repr, DecidableEq, Inhabited

/-- `escapeStr`: `strings.ReplaceAll(s, "\"", "\\\"")` -/
def esc (s : String) : String := s.replace "\"" "\\\""

def Item.render : Item → String
  | .blank => "\n"
  | .edge a b => "\"" ++ esc a ++ "\" -> \"" ++ esc b ++ "\";\n"

def renderAll (l : List Item) : String := String.join (l.map Item.render)

def edgesOf : List Item → List (String × String)
  | [] => []
  | .blank :: r => edgesOf r
  | .edge a b :: r => (a, b) :: edgesOf r

/-- `jpackage.GetClassName` -/
def className (p : String) : String := ".".intercalate (p.splitOn ".").dropLast
/-- `jpackage.GetMethodName` -/
def methodName (p : String) : String := (p.splitOn ".").getLast!

structure Cfg where
  mm : String → List String      -- methodMap[f]  (missing ⇒ [])
  di : String → String           -- the DI replacement applied to a callee
  max : Nat                      -- maxLoopCount

/-- the body of the `for _, child := range methodMap[funcName]` loop of `BuildCallChain`;
    `rec lc child` is the recursive call. Returns (items, loopCount, truncated). -/
def loopWith (c : Cfg) (rec : Nat → String → List Item × Nat × Bool) (f : String) :
    List String → Nat → List Item × Nat × Bool
  | [], lc => ([], lc, false)
  | ch :: rest, lc =>
    let ch' := c.di ch
    let sub := if (c.mm ch').isEmpty then ([], lc, false) else rec lc ch'
    let more := loopWith c rec f rest sub.2.1
    (sub.1 ++ [Item.edge f ch'] ++ more.1, more.2.1, sub.2.2 || more.2.2)

/-- `BuildCallChain(funcName, methodMap, diMap)` with the global counter threaded. The Boolean is
    set when the budget test fired (it is not part of Go's result; it names "truncated"). -/
def chain (c : Cfg) : Nat → Nat → String → List Item × Nat × Bool
  | 0, lc, _ => ([.blank], lc, true)
  | fuel + 1, lc, f =>
    if Gen.Call.callBudgetHit lc c.max then ([.blank], lc, true)
    else if (c.mm f).isEmpty then ([.blank], lc + 1, false)
    else loopWith c (chain c fuel) f (c.mm f) (lc + 1)

/-- fuel that is always enough when starting from counter `lc` -/
def fuelFor (c : Cfg) (lc : Nat) : Nat := c.max + 2 - lc + 1

/-! ### reverse chain -/

structure RCfg where
  mm : String → List String      -- rcall map: callee ↦ callers
  depth : Nat

structure RSt where
  lc : Nat
  last : String
  deriving Repr, DecidableEq

/-- loop body of `BuildRCallChain`. The Boolean is set when the `return ""` on `child == lastChild`
    was taken by THIS loop (everything accumulated for this node is then discarded). -/
def rsub (c : RCfg) (rec : RSt → String → List Item × RSt × Bool) (acc : List Item) (st : RSt) (ch : String) :
    List Item × RSt :=
  if (c.mm ch).isEmpty then (acc, st)
  else (acc ++ (rec { st with last := ch } ch).1, (rec { st with last := ch } ch).2.1)

def rloopWith (c : RCfg) (rec : RSt → String → List Item × RSt × Bool) (f : String) :
    List String → List Item → RSt → List Item × RSt × Bool
  | [], acc, st => (acc, st, false)
  | ch :: rest, acc, st =>
    if ch == st.last then ([], st, true)
    else if f == ch then rloopWith c rec f rest (rsub c rec acc st ch).1 (rsub c rec acc st ch).2
    else rloopWith c rec f rest ((rsub c rec acc st ch).1 ++ [Item.edge ch f]) (rsub c rec acc st ch).2

def rchain (c : RCfg) : Nat → RSt → String → List Item × RSt × Bool
  | 0, st, _ => ([.blank], st, false)
  | fuel + 1, st, f =>
    if Gen.Call.rcallBudgetHit st.lc c.depth then ([.blank], st, false)
    else if (c.mm f).isEmpty then ([.blank], { st with lc := st.lc + 1 }, false)
    else rloopWith c (rchain c fuel) f (c.mm f) [] { st with lc := st.lc + 1 }

def rfuelFor (c : RCfg) (lc : Nat) : Nat := c.depth + 1 - lc + 1

/-! ### building the maps from a code model -/

/-- `BuildMethodMap`: full method name ↦ call strings, later duplicates overwrite. -/
def buildMethodMap (clzs : List DS) : List (String × List String) :=
  clzs.flatMap fun d => d.fns.map fun f => (Fn.full d f, f.callStrings)

/-- `BuildProjectMethodMap`: the set of declared full method names. -/
def declared (clzs : List DS) : List String :=
  clzs.flatMap fun d => d.fns.map fun f => Fn.full d f

/-- all call sites (caller, callee) of the model in source order, with non-empty NodeName -/
def callSites (clzs : List DS) : List (String × String) :=
  clzs.flatMap fun d => d.fns.flatMap fun f =>
    (f.calls.filter (fun c => c.node != "")).map fun c => (Fn.full d f, c.full)

/-- `BuildMethodCallMap`: callee ↦ callers (one per call site, source order), project callees only.
    Represented as the function of the callee. -/
def rmapOf (clzs : List DS) (callee : String) : List String :=
  if (declared clzs).contains callee then
    (callSites clzs).filterMap fun s => if s.2 == callee then some s.1 else none
  else []

/-- `BuildMethodCallMap` as the Go loop: `methodCallMap[callee] = append(methodCallMap[callee], caller)`
    for every call site whose callee is a declared project method. -/
def buildMethodCallMap (clzs : List DS) : List (String × List String) :=
  (callSites clzs).foldl (fun m s =>
    if (declared clzs).contains s.2 then GoMap.set m s.2 (GoMap.getL m s.2 ++ [s.1]) else m) []

/-- keys of the rcall map, in first-insertion order -/
def rmapKeys (clzs : List DS) : List String :=
  ((callSites clzs).map (·.2)).eraseDups.filter fun k => (declared clzs).contains k

def rmapEntries (clzs : List DS) : List (String × List String) :=
  (rmapKeys clzs).map fun k => (k, rmapOf clzs k)

/-! ### entry points; `St` = the three Go globals -/

structure St where
  callLoop : Nat := 0
  rLoop : Nat := 0
  rLast : String := ""
  deriving Repr, DecidableEq

def cfgOf (clzs : List DS) (di : List (String × String)) : Cfg :=
  let mmap := buildMethodMap clzs
  { mm := fun f => GoMap.getL mmap f,
    di := fun ch => match GoMap.get? di (className ch) with
                    | some v => v ++ "." ++ methodName ch
                    | none => ch,
    max := Gen.Call.maxLoopCount }

def rcfgOf (clzs : List DS) : RCfg :=
  let m := buildMethodCallMap clzs
  { mm := fun k => GoMap.getL m k, depth := Gen.Call.loopDepth }

/-- `NewRCallGraph()` followed by `BuildRCallChain` -/
def rcallChain (clzs : List DS) (st : St) (target : String) : List Item × St :=
  let st0 : RSt := RSt.mk (Gen.Call.newRCallGraphResetsLoop.getD st.rLoop)
                    (Gen.Call.newRCallGraphResetsLast.getD st.rLast)
  let r := rchain (rcfgOf clzs) (rfuelFor (rcfgOf clzs) st0.lc) st0 target
  (r.1, { st with rLoop := r.2.1.lc, rLast := r.2.1.last })

/-- `rcall.NewRCallGraph().Analysis(target, clzs, cb)`: (rcall map entries, DOT text) -/
def rcallAnalysis (clzs : List DS) (st : St) (target : String) : (List (String × List String) × String) × St :=
  let r := rcallChain clzs st target
  ((GoMap.entries (buildMethodCallMap clzs), "digraph G {\n" ++ renderAll r.1 ++ "}\n"), r.2)

/-- `call.NewCallGraph().Analysis(root, clzs, lookup)` -/
def callAnalysisItems (clzs : List DS) (st : St) (root : String) (lookup : Bool) : (List Item × Bool) × St :=
  let c := cfgOf clzs []
  let lc0 := Gen.Call.analysisResets.getD st.callLoop
  let r := chain c (fuelFor c lc0) lc0 root
  let st1 := { st with callLoop := r.2.1 }
  if lookup then
    let rr := rcallChain clzs st1 root
    ((r.1 ++ rr.1, r.2.2), rr.2)
  else ((r.1, r.2.2), st1)

def callAnalysis (clzs : List DS) (st : St) (root : String) (lookup : Bool) : String × St :=
  let r := callAnalysisItems clzs st root lookup
  ("digraph G {\nrankdir = LR;\n" ++ renderAll r.1.1 ++ "}\n", r.2)

structure Api where
  httpMethod : String
  uri : String
  pkg : String
  cls : String
  method : String
  deriving Repr, DecidableEq

def Api.caller (a : Api) : String := a.pkg ++ "." ++ a.cls ++ "." ++ a.method

structure CallApi where
  httpMethod : String
  uri : String
  caller : String
  size : Nat
  deriving Repr, DecidableEq

/-- items of the chain of one API (counter reset per API) -/
def apiChain (c : Cfg) (a : Api) : List Item × Nat × Bool := chain c (fuelFor c 0) 0 a.caller

/-- `len(strings.Split(s, " -> "))` -/
def splitCount (s : String) : Nat := (s.splitOn " -> ").length

/-- `AnalysisByFiles(apis, deps, diMap)` -/
def analysisByFiles (clzs : List DS) (di : List (String × String)) (apis : List Api) (st : St) :
    (String × List CallApi) × St :=
  let c := cfgOf clzs di
  let step := fun (acc : String × List CallApi × Nat) (a : Api) =>
    let r := apiChain c a
    let text := renderAll r.1
    let head := "\"" ++ a.httpMethod ++ " " ++ a.uri ++ "\" -> \"" ++ esc a.caller ++ "\";\n"
    (acc.1 ++ "\n" ++ head ++ text,
     acc.2.1 ++ [{ httpMethod := a.httpMethod, uri := a.uri, caller := a.caller, size := splitCount text }],
     r.2.1)
  let r := apis.foldl step ("digraph G { \n", [], st.callLoop)
  ((r.1 ++ "}\n", r.2.1), { st with callLoop := r.2.2 })

end CocaVerif.Call
