/-
  C09, static part: a listener callback that dereferences `ctx.X()` without a nil test is safe exactly
  when the symbol X occurs in every children word of the rule of `ctx`.  Parse-tree nodes, conformance to
  the shipped grammar (regenerated: Gen/JavaGrammar.lean) and ANTLR's child accessor are modelled here;
  the sites are regenerated from the listeners' Go source (Gen/NavSites.lean).
-/
import CocaVerif.Base.Rx
import CocaVerif.Base.NavTree
import CocaVerif.Gen.JavaGrammar
import CocaVerif.Gen.NavSites

namespace CocaVerif.Nav

/-- a parse-tree node as a listener sees it: its rule and the symbols of its children (rule names and token names) in order -/
structure Node where
  rule : String
  kids : List String
  deriving Repr

/-- the node was built by an error-free parse with the grammar `g` -/
def Conforms (g : String → Rx) (n : Node) : Prop := Matches (g n.rule) n.kids

/-- `ctx.X()` / `ctx.X(0)`: the first child with that symbol, nil (none) if there is none -/
def accessor (n : Node) (x : String) : Option Nat := n.kids.findIdx? (· == x)

/-- a site is discharged when it is nil-guarded in the code, or when in every possible children word of the rule
    that contains the symbols already known to be present (`given`: the accessors tested non-nil around the use)
    the symbol of the accessor occurs too; the star certificates of the profile computation must check -/
def siteSafe (g : String → Rx) (s : Gen.NavSites.Site) : Bool :=
  s.guarded ||
    ((Rx.pv (s.sym :: s.given) (g s.rule)).2 &&
      (Rx.pv (s.sym :: s.given) (g s.rule)).1.all fun p => !(s.given.all fun y => p.contains y) || p.contains s.sym)

def unsafeSites (g : String → Rx) (l : List Gen.NavSites.Site) : List Gen.NavSites.Site := l.filter fun s => !siteSafe g s

/-- the start symbol of the parse the tool runs (`parser.CompilationUnit()`) -/
def startRule : String := "compilationUnit"

/-- a navigation chain is discharged when the abstract run over the grammar, from a non-nil node of the chain's rule, is safe -/
def pathSafe (g : String → Rx) (names : List String) (s : Gen.NavSites.PathSite) : Bool :=
  NavTree.runA g names startRule { syms := [s.rule], mayNil := false } s.steps

def unsafePaths (g : String → Rx) (names : List String) (l : List Gen.NavSites.PathSite) : List Gen.NavSites.PathSite :=
  l.filter fun s => !pathSafe g names s

end CocaVerif.Nav
