/-
  Executable model for property C18: count.BuildCallMap + string_helper.SortWord,
  evaluate.Analysis (the Summary counters the property names + the nullable list),
  concept.Analysis (SegmentCamelcase with a model of strcase.ToDelimited, removeNormalWords).
-/
import CocaVerif.Base.CodeModel
import CocaVerif.Base.GoMap
import CocaVerif.Gen.Stats

namespace CocaVerif.Stats

/-! ### reference counts -/

def declared (clzs : List DS) : List String := clzs.flatMap fun d => d.fns.map fun f => Fn.full d f

/-- every recorded call site's callee full name, in source order (note: NO NodeName filter here) -/
def allCallees (clzs : List DS) : List String :=
  clzs.flatMap fun d => d.fns.flatMap fun f => f.calls.map Call.full

/-- `BuildCallMap` as the Go loop over a Go-map log: `callMap[callee]++` for project callees -/
def buildCallMap (clzs : List DS) : List (String × Nat) :=
  (allCallees clzs).foldl (fun m c =>
    if (declared clzs).contains c then GoMap.set m c ((GoMap.get? m c).getD 0 + 1) else m) []

def strLe (a b : String) : Bool := decide (a ≤ b)

/-- `SortWord`: the map's entries radix-sorted by key (bytewise lexicographic; keys are unique) -/
def sortWord (m : List (String × Nat)) : List (String × Nat) :=
  (GoMap.entries m).mergeSort fun a b => strLe a.1 b.1

def countReport (clzs : List DS) : List (String × Nat) := sortWord (buildCallMap clzs)

/-! ### evaluation summary -/

/-- `StringArrayContains(m.Modifiers, "static")` -/
def isStatic (f : Fn) : Bool := f.modifiers.contains Gen.Stats.staticLiteral

/-- `strings.Contains(strings.ToLower(name), "util")` (the `|| "utils"` disjunct is implied) -/
def containsSub (s sub : String) : Bool := (s.splitOn sub).length > 1
def isUtilClass (d : DS) : Bool := containsSub d.node.toLower "util" || containsSub d.node.toLower "utils"

structure Summary where
  utilsCount : Nat
  classCount : Nat
  methodCount : Nat
  staticMethodCount : Nat
  deriving Repr, DecidableEq

def summary (classNodes identifiers : List DS) : Summary :=
  { utilsCount := (classNodes.filter isUtilClass).length,
    classCount := identifiers.length,
    methodCount := (identifiers.map (·.fns.length)).sum,
    staticMethodCount := (identifiers.map fun d => (d.fns.filter isStatic).length).sum }

def isNullableFn (f : Fn) : Bool :=
  f.isReturnNull || f.annos.any fun a => Gen.Stats.nullableAnnoCond a.name

/-- the nullable map's keys in first-insertion order (each once); Go ranges over the map, so the
    emitted order is unspecified — compared as a sorted list -/
def nullableNames (identifiers : List DS) : List String :=
  GoMap.dedup (identifiers.flatMap fun d => (d.fns.filter isNullableFn).map fun f => Fn.full d f)

/-! ### concept words -/

def isLetter (c : Char) : Bool := (c ≥ 'a' && c ≤ 'z') || (c ≥ 'A' && c ≤ 'Z')
def isCap (c : Char) : Bool := c ≥ 'A' && c ≤ 'Z'
def isLow (c : Char) : Bool := c ≥ 'a' && c ≤ 'z'
def isDig (c : Char) : Bool := c ≥ '0' && c ≤ '9'

/-- strcase.addWordBoundariesToNumbers: ReplaceAll of `([a-zA-Z])(\d+)([a-zA-Z]?)` by `$1 $2 $3`
    (leftmost, non-overlapping, greedy digits, optional trailing letter consumed). -/
def addBoundaries : Nat → List Char → List Char
  | 0, s => s
  | _, [] => []
  | _, [c] => [c]
  | fuel + 1, c :: d :: rest =>
    if isLetter c && isDig d then
      let digs := (d :: rest).takeWhile isDig
      let after := (d :: rest).dropWhile isDig
      match after with
      | l :: after' =>
        if isLetter l then c :: ' ' :: digs ++ ' ' :: l :: addBoundaries fuel after'
        else c :: ' ' :: digs ++ ' ' :: addBoundaries fuel after
      | [] => c :: ' ' :: digs ++ [' ']
    else c :: addBoundaries fuel (d :: rest)

def trimSpaces (s : List Char) : List Char :=
  ((s.dropWhile (· == ' ')).reverse.dropWhile (· == ' ')).reverse

/-- the main loop of `ToScreamingDelimited` (delimiter '.', ignore 0), ASCII view -/
def delimLoop : List Char → Bool → List Char → List Char
  | [], _, n => n
  | v :: rest, first, n =>
    let changed := match rest with
      | next :: _ => (isCap v && isLow next) || (isLow v && isCap next)
      | [] => false
    let lastIsDelim := match n.getLast? with | some c => c == '.' | none => false
    let n' :=
      if !first && !lastIsDelim && changed then
        if isCap v then n ++ ['.', v] else if isLow v then n ++ [v, '.'] else n
      else if v == ' ' || v == '_' || v == '-' then n ++ ['.']
      else n ++ [v]
    delimLoop rest false n'

def toDelimited (s : String) : String :=
  let cs := trimSpaces (addBoundaries (s.length + 1) s.toList)
  (String.ofList (delimLoop cs true [])).toLower

/-- `FilterString(word) == ""`: digits only, or blank -/
def dropWord (w : String) : Bool := (w.toList.all isDig && w != "") || w.trimAscii.toString == ""

/-- words contributed by one method name -/
def wordsOf (name : String) : List String := ((toDelimited name).splitOn ".").filter fun w => !dropWord w

def allWords (clzs : List DS) : List String := clzs.flatMap fun d => d.fns.flatMap fun f => wordsOf f.name

/-- `strMap[word]++` -/
def countWords (ws : List String) : List (String × Nat) :=
  ws.foldl (fun m w => GoMap.set m w ((GoMap.get? m w).getD 0 + 1)) []

def stopWords : List String := Gen.Stats.englishStopWords ++ Gen.Stats.techStopWords

/-- `removeNormalWords`: delete every stop word -/
def removeStop (m : List (String × Nat)) : List (String × Nat) := stopWords.foldl GoMap.erase m

def conceptReport' (ws : List String) : List (String × Nat) := sortWord (removeStop (countWords ws))

def conceptReport (clzs : List DS) : List (String × Nat) := conceptReport' (allWords clzs)

end CocaVerif.Stats
