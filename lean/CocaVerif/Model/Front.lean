/-
  Executable models of the Go front-end (pkg/infrastructure/ast/ast_go: `CocagoParser.Visitor`,
  `AddStructType`, `AddInterface`, `AddFunctionDecl`, `BuildFunction`, `BuildFieldToProperty`,
  `BuildPropertyField`, `BuildImport`) and of the Python front-end (`PythonIdentListener`), for C20.
  What is modelled: declarations, names, fields, parameters, decorators, imports and the (receiver,
  callee) of call / defer statements.  Not modelled: the call-target resolution of the Go front-end
  (`getPackageName` / `ParseTarget`: Package and Type of a call) and nested property structure.
-/
import CocaVerif.Base.GoMap
import CocaVerif.Gen.Front

namespace CocaVerif.Front

/-! ### Go -/

inductive GTy where
  | ident (n : String)
  | sel (p n : String)
  | star (t : GTy)
  | arr (t : GTy)
  | func
  | iface
  | other
  deriving Repr, Inhabited, DecidableEq

structure GGroup where
  names : List String
  ty : GTy
  deriving Repr, Inhabited

/-- (ParamName, TypeType, TypeValue) -/
structure GProp where
  name : String
  typeType : String
  typeValue : String
  deriving Repr, DecidableEq, Inhabited

/-- `BuildPropertyField` -/
def propertyOf (name : String) : GTy → GProp
  | .ident n => ⟨name, "Identify", n⟩
  | .arr (.ident n) => ⟨name, "ArrayType", n⟩
  | .arr (.sel p n) => ⟨name, "ArrayType", p ++ "." ++ n⟩
  | .arr _ => ⟨name, "ArrayType", ""⟩
  | .func => ⟨name, "Function", "func"⟩
  | .star (.ident n) => ⟨name, "Star", n⟩
  | .star (.sel p n) => ⟨name, "Star", p ++ "." ++ n⟩
  | .star _ => ⟨name, "Star", ""⟩
  | .sel p n => ⟨name, "", p ++ "." ++ n⟩
  | .iface => ⟨name, "interface{}", "interface{}"⟩
  | .other => ⟨name, "", ""⟩

/-- `BuildFieldToProperty`: `a, b T` gives two properties; an unnamed field one with the empty name -/
def groupProps (g : GGroup) : List GProp :=
  if g.names.length < 2 then [propertyOf (g.names.headD "") g.ty] else g.names.map fun n => propertyOf n g.ty

def fieldsToProps (gs : List GGroup) : List GProp := gs.flatMap groupProps

inductive GStmt where
  | call (recv fn : String)        -- `recv.fn(…)` as an expression statement
  | defer (recv fn : String)
  | other                           -- assignment, if, for, return without call: no (receiver, callee) recorded
  deriving Repr, Inhabited

structure GCall where
  node : String
  fn : String
  deriving Repr, DecidableEq, Inhabited

structure GFn where
  name : String
  params : List GProp
  calls : List GCall
  deriving Repr, DecidableEq, Inhabited

inductive GDecl where
  | struct (name : String) (fields : List GGroup)
  | iface (name : String) (methods : List (String × List GGroup))
  | func (recv : String) (name : String) (params : List GGroup) (body : Option (List GStmt))   -- recv = "" for a function
  deriving Repr, Inhabited

structure GDS where
  name : String
  pkg : String := ""
  props : List GProp := []
  fns : List GFn := []
  deriving Repr, DecidableEq, Inhabited

structure GMember where
  dsId : String
  type : String
  fns : List GFn := []
  deriving Repr, DecidableEq, Inhabited

structure GState where
  dsMap : List (String × GDS) := []
  members : List GMember := []
  deriving Repr

/-- `BuildFunction` -/
def buildFunction (name : String) (params : List GGroup) (body : Option (List GStmt)) : GFn :=
  { name := name, params := fieldsToProps params,
    calls := (body.getD []).filterMap fun s => match s with
      | .call r f => some ⟨r, f⟩
      | .defer r f => some ⟨r, f⟩
      | .other => none }

/-- one declaration, in `ast.Inspect` order: TypeSpec then StructType / InterfaceType; FuncDecl -/
def onDecl (pkg : String) (st : GState) : GDecl → GState
  | .struct name fields =>
    -- TypeSpec: a cell of its own, keeping the methods that were declared before the type
    let fns := match GoMap.get? st.dsMap name with | some d => d.fns | none => []
    let cell : GDS := { name := name, pkg := pkg, fns := fns }
    -- StructType: the member, the properties
    { dsMap := GoMap.set st.dsMap name { cell with props := fieldsToProps fields },
      members := st.members ++ [{ dsId := name, type := "struct" }] }
  | .iface name methods =>
    let fns := match GoMap.get? st.dsMap name with | some d => d.fns | none => []
    let cell : GDS := { name := name, pkg := pkg, fns := fns }
    if methods.length < 1 then { st with dsMap := GoMap.set st.dsMap name cell }
    else
      -- AddInterface: a fresh data structure (no package) with the methods as properties
      { dsMap := GoMap.set st.dsMap name { name := name, props := methods.map fun m => propertyOf m.1 .func },
        members := st.members ++ [{ dsId := name, type := "interface" }] }
  | .func recv name params body =>
    let f := buildFunction name params body
    if recv == "" then { st with members := st.members ++ [{ dsId := "default", type := "method", fns := [f] }] }
    else
      let cell : GDS := match GoMap.get? st.dsMap recv with | some d => d | none => { name := recv, pkg := pkg }
      { st with dsMap := GoMap.set st.dsMap recv { cell with fns := cell.fns ++ [f] } }

def strLe (a b : String) : Bool := decide (a ≤ b)

/-- `Visitor`: the data structures are the values of dsMap, sorted by name -/
def visitGo (pkg : String) (decls : List GDecl) : List GDS × List GMember :=
  let st := decls.foldl (onDecl pkg) {}
  (((GoMap.entries st.dsMap).map (·.2)).mergeSort (fun a b => strLe a.name b.name), st.members)

/-- `BuildImport` without go.mod: the module prefix github.com/modernizing/coca is cut, `/` becomes `.` -/
def importSource (path : String) : String :=
  let s := (path.replace "github.com/modernizing/coca" "").replace "/" "."
  if s.startsWith "." then (s.drop 1).toString else s

/-! ### Python -/

structure PAnno where
  name : String
  args : List String
  deriving Repr, DecidableEq, Inhabited

structure PFn where
  name : String
  annos : List PAnno
  deriving Repr, DecidableEq, Inhabited

structure PDS where
  name : String
  annos : List PAnno
  fns : List PFn := []
  deriving Repr, DecidableEq, Inhabited

structure PImport where
  source : String
  usage : List String
  deriving Repr, DecidableEq, Inhabited

inductive PEv where
  | importStmt (names : List (String × String × String))      -- (dotted name, `as` name or "", whole text)
  | fromStmt (source names : String)                           -- names = the text after `import`, parentheses removed
  | enterClass (name : String) (annos : List PAnno)
  | exitClass
  | enterFunc (name : String) (annos : List PAnno)
  | exitFunc
  deriving Repr, Inhabited

structure PState where
  imports : List PImport := []
  dss : List PDS := []
  members : List PFn := []          -- one member per module-level function
  cur : Option PDS := none
  stack : List (Option PDS) := []   -- the enclosing classes while a nested class is open
  deriving Repr

/-- `none` where the Go code would dereference a nil `currentDataStruct` (an unguarded ExitClassdef without an open class);
    whether it is guarded, and whether classes nest on a stack, are regenerated facts -/
def onPy (st : PState) : PEv → Option PState
  | .importStmt names =>
    match names with
    | [] => none
    | (d, a, _) :: rest =>
      some { st with imports := st.imports ++ [{ source := d, usage := (if a != "" then [a] else []) ++ rest.map fun r => r.2.2 }] }
  | .fromStmt source names =>
    some { st with imports := st.imports ++ [{ source := source, usage := if (names.splitOn ",").length > 1 then names.splitOn "," else [names] }] }
  | .enterClass name annos =>
    some { st with cur := some { name := name, annos := annos },
                   stack := if Gen.Front.pyEnterClassPushes then st.cur :: st.stack else st.stack }
  | .exitClass =>
    -- the class that ends is listed; the enclosing class (if any) is taken up again
    let listed : Option (List PDS) := match st.cur with
      | some d => some (st.dss ++ [d])
      | none => if Gen.Front.pyExitClassGuardsNil then some st.dss else none      -- the nil dereference of the unguarded code
    match listed with
    | none => none
    | some dss =>
      if Gen.Front.pyExitClassPops then
        match st.stack with
        | top :: rest => some { st with dss := dss, cur := top, stack := rest }
        | [] => some { st with dss := dss, cur := none }
      else some { st with dss := dss, cur := none }
  | .enterFunc name annos =>
    match st.cur with
    | some d => some { st with cur := some { d with fns := d.fns ++ [⟨name, annos⟩] } }
    | none => some { st with members := st.members ++ [⟨name, annos⟩] }
  | .exitFunc => some st

/-- one module; `currentDataStruct` is a package variable: it is threaded from file to file unless `NewPythonIdentListener`
    assigns it (regenerated list of the variables it leaves alone) -/
def runPy (cur : Option PDS) (evs : List PEv) : Option PState :=
  evs.foldlM onPy { cur := if Gen.Front.pythonListenerUnreset.contains "currentDataStruct" then cur else none }

end CocaVerif.Front
