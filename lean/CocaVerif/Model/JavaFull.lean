/-
  Executable model of pkg/infrastructure/ast/ast_java/{java_full_listener.go, java_full_converter.go,
  ast_java_target_handler.go} + javaapp/java_full_app.go for conventional Java files (one top-level
  class or interface, no nested/anonymous types): properties C01, C02 and the model clause of C07.

  One file = the list of listener events in ANTLR walker order (`Ev`), each carrying exactly the texts
  and token positions the Go callbacks read.  The package-level variables of the listener are the
  explicit state `FSt`; which of them `NewJavaFullListener` re-initialises is regenerated
  (`Gen.JavaFull.*`).  Functions of a type come out of a Go map: their order is an iteration oracle.
-/
import CocaVerif.Base.CodeModel
import CocaVerif.Base.GoMap
import CocaVerif.Gen.JavaFull

namespace CocaVerif.JavaFull

structure P where
  startLine : Int
  startCol : Int
  stopLine : Int
  stopCol : Int
  deriving Repr, DecidableEq, Inhabited

inductive Ev where
  | pkg (name : String)
  | imp (name : String)
  | anno (a : Anno)
  | enterClass (name : String) (ext : Option String) (impls : List String)
  | enterInterface (name : String) (exts : List String)
  | interfaceBodyDecl
  | interfaceMethod (name ret : String) (annos : List Anno) (params : List (String × String)) (emptyParams : Bool) (pos : P)
  | formalParam (name type : String)
  | field (typeIdent : Option String) (names : List String) (pos : P)
  | localVar (typeText : String) (name : Option String)
  | enterCtor (name : String) (params : List (String × String)) (emptyParams : Bool) (pos : P)
  | exitCtor
  | enterMethod (name ret : String) (annos : List Anno) (params : List (String × String)) (emptyParams : Bool)
      (startLine nameCol stopLine : Int)
  | exitMethod
  | creator (varText : String) (assignVar : Option String) (idents : List String) (pos : P)
  | call (targetText : String) (targetCallIdent : Option String) (callee ctxText : String) (args : List String)
      (startLine startCol stopLine : Int)
  | mref (exprText methodName : String) (pos : P)
  | enterBlock
  | exitBlock
  | enterStmtScope
  | forVar (type name : String)
  | exitStmtScope
  | exitBody
  deriving Repr

structure FSt where
  imports : List String := []
  pkg : String := ""
  classNodes : List DS := []
  node : DS := {}
  methodQueue : List Fn := []
  clz : String := ""
  clzExtend : String := ""
  curMethod : Fn := {}
  methodMap : List (String × Fn) := []
  fields : List Field := []
  isOverride : Bool := false
  mapFields : List (String × String) := []
  localVars : List (String × String) := []
  formalParams : List (String × String) := []
  outerLocals : List (List (String × String)) := []
  curType : String := ""
  hasEnterClass : Bool := false
  clzs : List String := []
  identKeys : List String := []
  fileName : String := ""
  deriving Repr

def initClass (st : FSt) : FSt :=
  { st with clz := "", clzExtend := "", curMethod := {}, node := { st.node with calls := [] }, methodMap := [], fields := [],
            isOverride := false }

/-- `NewJavaFullListener(identMap, file)` + `AppendClasses(classes)` -/
def newListener (st : FSt) (identKeys clzs : List String) (file : String) : FSt :=
  initClass { st with
    identKeys := identKeys, imports := [], fileName := file, pkg := "", classNodes := [], node := {}, methodQueue := [], clzs := clzs,
    mapFields := if Gen.JavaFull.resetsMapFields then [] else st.mapFields,
    localVars := if Gen.JavaFull.resetsLocalVars then [] else st.localVars,
    formalParams := if Gen.JavaFull.resetsFormalParameters then [] else st.formalParams,
    outerLocals := if Gen.JavaFull.resetsOuterBlocks then [] else st.outerLocals,
    curType := if Gen.JavaFull.resetsCurrentType then "" else st.curType,
    hasEnterClass := if Gen.JavaFull.resetsHasEnterClass then false else st.hasEnterClass }

def lookup (m : List (String × String)) (k : String) : String := (GoMap.get? m k).getD ""

def lowerAscii (s : String) : String := s.toLower
/-- `strings.EqualFold` (ASCII identifiers) -/
def equalFold (a b : String) : Bool := lowerAscii a == lowerAscii b

def containsSub (s sub : String) : Bool := (s.splitOn sub).length > 1

/-- `RemoveTarget`: drop the last dotted segment -/
def removeTarget (full : String) : String := ".".intercalate (full.splitOn ".").dropLast

/-- one arm of the if / else-if chain of `ParseTargetType`, by its printed condition -/
def precLookup (st : FSt) (t : String) : String → String
  | "localVarType != \"\"" => lookup st.localVars t
  | "formalType != \"\"" => lookup st.formalParams t
  | "fieldType != \"\"" => lookup st.mapFields t
  | _ => ""

/-- `ParseTargetType`: the first non-empty table entry in the order of the code's if-chain (regenerated) -/
def parseTargetType (st : FSt) (t : String) : String :=
  match (Gen.JavaFull.receiverPrecedence.map (precLookup st t)).find? (· != "") with
  | some x => x
  | none => t

/-- the simple name `WarpTargetFullType` matches: the first dotted segment without brackets -/
def pureOf (t : String) : String :=
  ((match t.splitOn "." with | x :: _ => x | [] => t).replace "[" "").replace "]" ""

/-- `WarpTargetFullType`: (full type or "", call type); the three match conditions are regenerated -/
def warp (st : FSt) (targetType : String) : String × String :=
  if equalFold st.clz targetType then (st.pkg ++ "." ++ targetType, "self") else
  let pure := pureOf targetType
  match (if pure != "" then st.imports.find? (fun imp => Gen.JavaFull.importMatches imp pure) else none) with
  | some imp => (imp, "chain")
  | none =>
    match st.clzs.find? (fun c => Gen.JavaFull.samePackageMatches c st.pkg pure) with
    | some c => (c, "same package")
    | none =>
    -- the package of an on-demand import (`import p.*;` is recorded as `p`) that holds a type of that name
    match st.imports.findSome? (fun imp => st.clzs.find? (fun c => Gen.JavaFull.onDemandMatches c imp pure)) with
    | some c => (c, "same package")
    | none =>
    match st.clzs.find? (fun c => Gen.JavaFull.projectTypeMatches c pure) with
    | some c => (c, "same package")
    | none =>
      match (if pure == "super" || pure == "this" then st.imports.find? (fun imp => imp.endsWith st.clzExtend) else none) with
      | some imp => (imp, "super")
      | none =>
        if st.identKeys.contains (st.pkg ++ "." ++ targetType) then (st.pkg ++ "." ++ targetType, "same package 2")
        else ("", "")

def buildExtend (st : FSt) (name : String) : String := let t := (warp st name).1; if t != "" then t else name

/-- `getMethodMapName` -/
def keyOf (st : FSt) (m : Fn) : String :=
  let name := if m.name == "" && st.methodQueue.length > 1 then
      (match st.methodQueue.getLast? with | some q => q.name | none => m.name) else m.name
  st.pkg ++ "." ++ st.clz ++ "." ++ name ++ ":" ++ toString m.pos.startLine

def updateMethod (st : FSt) (m : Fn) : FSt :=
  let st1 := { st with curMethod := m, methodQueue := st.methodQueue ++ [m] }
  { st1 with methodMap := GoMap.set st1.methodMap (keyOf st1 m) m }

/-- append a call to the entry of the current method (created empty when absent) -/
def addCall (st : FSt) (c : Call) : FSt :=
  let k := keyOf st st.curMethod
  let m := (GoMap.get? st.methodMap k).getD {}
  { st with methodMap := GoMap.set st.methodMap k { m with calls := m.calls ++ [c] } }

def posOf (p : P) : Pos := { startLine := p.startLine, startCol := p.startCol, stopLine := p.stopLine, stopCol := p.stopCol }

/-- the width of an identifier as the code computes it (regenerated: `utf8.RuneCountInString(x)` or `len(x)`) -/
def width (how : String) (x : String) : Nat := if how == "runes" then x.length else x.utf8ByteSize

/-- `BuildPosition(ctx, name)`: stop column = column of the last token + byte length of `name` -/
def buildPosition (p : P) (name : String) : Pos :=
  { startLine := p.startLine, startCol := p.startCol, stopLine := p.stopLine, stopCol := p.stopCol + name.utf8ByteSize }

/-- `resetMethodScope` -/
def resetMethodScope (st : FSt) : FSt :=
  if Gen.JavaFull.methodScopeKeepsCreatorClass && st.curType == "CreatorClass" then st
  else { st with localVars := if Gen.JavaFull.methodScopeResetsLocalVars then [] else st.localVars,
                 formalParams := if Gen.JavaFull.methodScopeResetsFormalParameters then [] else st.formalParams }

/-- `saveLocalVars` -/
def saveLocalVars (st : FSt) : FSt :=
  if Gen.JavaFull.saveAppends then { st with outerLocals := st.outerLocals ++ [st.localVars] } else st

/-- `restoreLocalVars` -/
def restoreLocalVars (st : FSt) : FSt :=
  match st.outerLocals.getLast? with
  | some lv => { st with localVars := if Gen.JavaFull.restoreAssigns then lv else st.localVars, outerLocals := st.outerLocals.dropLast }
  | none => st

def setParams (st : FSt) (m : Fn) (params : List (String × String)) (emptyParams : Bool) : FSt × Bool :=
  -- `buildMethodParameters`: returns (state, returnedEarly)
  if emptyParams then (updateMethod st m, true)
  else
    let st1 := { st with localVars := params.foldl (fun lv p => GoMap.set lv p.2 p.1) st.localVars }
    let m' := { m with params := params.map fun p => { typeType := p.1, typeValue := p.2 } }
    (updateMethod st1 m', false)

def isChainCall (t : String) : Bool := containsSub t "(" && containsSub t ")" && containsSub t "."

/-- `HandleEmptyFullType` -/
def handleEmpty (st : FSt) (ctxText targetType methodName pkgName : String) : String × String :=
  if ctxText == targetType then
    let r := st.imports.foldl (fun (acc : String × String) imp =>
      if imp.endsWith ("." ++ methodName) then (imp, "") else acc) (pkgName, st.clz)
    (r.2, r.1)
  else if containsSub targetType "this." then
    -- `buildSelfThisTarget`
    let t := targetType.replace "this." ""
    (st.fields.foldl (fun tt f => if f.typeValue == tt then f.typeType else tt) t, pkgName)
  else (targetType, pkgName)

def onCall (st : FSt) (targetText : String) (targetCallIdent : Option String) (callee ctxText : String) (args : List String)
    (startLine startCol stopLine : Int) : FSt :=
  let tt0 := match targetCallIdent with | some i => i | none => parseTargetType st targetText
  let w := warp st tt0
  let isSuper := tt0 == "super" || callee == "super"
  let callType := if isSuper then "super" else w.2
  let tt1 := if isSuper then st.clzExtend else tt0
  let r := if w.1 != "" then (tt1, removeTarget w.1) else handleEmpty st ctxText tt1 callee st.pkg
  let tt2 := if isChainCall r.1 then parseTargetType st (match r.1.splitOn "." with | x :: _ => x | [] => r.1) else r.1
  let c : Call := { pkg := r.2, type := callType, node := tt2, fn := callee,
                    params := args.map fun a => { typeType := "", typeValue := a },
                    pos := { startLine := startLine, startCol := startCol, stopLine := stopLine, stopCol := startCol + width Gen.JavaFull.callStopWidth callee } }
  addCall st c

/-- `EnterClassDeclaration` up to the `extends` clause -/
def classHeader (st : FSt) (name : String) (ext : Option String) : FSt :=
  let st1 := { st with curType := "Class", hasEnterClass := true, clzExtend := "", clz := name, node := { st.node with node := name } }
  match ext with
  | some e => let s := { st1 with clzExtend := e }; { s with node := { s.node with ext := buildExtend s e } }
  | none => st1

/-- the `implements` list -/
def addImpls (st : FSt) (impls : List String) : FSt :=
  impls.foldl (fun s i => { s with node := { s.node with impls := s.node.impls ++ [(warp s i).1] } }) st

def onEv (st : FSt) : Ev → FSt
  | .pkg n => { st with node := { st.node with pkg := n }, pkg := n }
  | .imp n => { st with imports := st.imports ++ [n], node := { st.node with imports := st.node.imports ++ [n] } }
  | .anno a =>
    let st1 := { st with isOverride := a.name == "Override" }
    if !st1.hasEnterClass then { st1 with node := { st1.node with annos := st1.node.annos ++ [a] } } else st1
  | .enterClass name ext impls =>
    let st3 := addImpls (classHeader st name ext) impls
    { st3 with node := { st3.node with type := "Class" } }
  | .enterInterface name exts =>
    let st1 := { st with hasEnterClass := true, curType := "Interface", node := { st.node with node := name } }
    let st2 := exts.foldl (fun s e => { s with node := { s.node with ext := buildExtend s e } }) st1
    { st2 with node := { st2.node with type := "Interface" } }
  | .interfaceBodyDecl => { st with hasEnterClass := true }
  | .interfaceMethod name ret annos params emptyParams pos =>
    let st1 := { st with curMethod := { st.curMethod with annos := st.curMethod.annos ++ annos } }
    let m : Fn := { name := name, ret := ret, pos := buildPosition pos name }
    let st1 := if Gen.JavaFull.interfaceMethodEntryResetsScope then resetMethodScope st1 else st1
    let r := setParams st1 m params emptyParams
    if r.2 then r.1 else updateMethod r.1 r.1.curMethod
  | .formalParam name type => { st with formalParams := GoMap.set st.formalParams name type }
  | .field typeIdent names pos =>
    match typeIdent with
    | none => st
    | some ti =>
      names.foldl (fun s n =>
        let s1 := { s with mapFields := GoMap.set s.mapFields n ti, fields := s.fields ++ [{ typeType := ti, typeValue := n }] }
        let target := (warp s1 ti).1
        if target != "" then
          { s1 with node := { s1.node with calls := s1.node.calls ++
              [{ pkg := removeTarget target, type := "field", node := ti, pos := buildPosition pos target }] } }
        else s1) st
  | .localVar typeText name =>
    match name with
    | some n => { st with localVars := GoMap.set st.localVars n typeText }
    | none => st
  | .enterCtor name params emptyParams pos =>
    let m : Fn := { name := name, ret := "", override := st.isOverride, annos := st.curMethod.annos, isConstructor := true,
                    pos := buildPosition pos name }
    let st := if Gen.JavaFull.ctorEntryResetsScope then resetMethodScope st else st
    let r := setParams st m params emptyParams
    if r.2 then r.1 else updateMethod r.1 r.1.curMethod
  | .exitCtor => { st with curMethod := {}, isOverride := false }
  | .enterMethod name ret annos params emptyParams startLine nameCol stopLine =>
    let st1 := { st with curMethod := { st.curMethod with annos := st.curMethod.annos ++ annos } }
    let m : Fn := { name := name, ret := ret, annos := st1.curMethod.annos, override := st1.isOverride,
                    pos := { startLine := startLine, startCol := nameCol, stopLine := stopLine, stopCol := nameCol + width Gen.JavaFull.methodStopWidth name } }
    let st1 := if Gen.JavaFull.methodEntryResetsScope then resetMethodScope st1 else st1
    let r := setParams st1 m params emptyParams
    if r.2 then r.1 else updateMethod r.1 r.1.curMethod
  | .exitMethod => { st with curMethod := {} }
  | .creator varText assignVar idents pos =>
    -- the loop returns after the first identifier when there is no current method or no class body
    match idents with
    | [] => st
    | _ =>
      let step := fun (s : FSt) (ident : String) =>
        let v := if Gen.JavaFull.creatorVarOnlyFromAssignment then assignVar.getD "" else varText
        let s1 := if v != "" || !Gen.JavaFull.creatorVarGuarded then { s with localVars := GoMap.set s.localVars v ident } else s
        let full := (warp s1 ident).1
        addCall s1 { pkg := removeTarget full, type := "CreatorClass", node := ident, pos := buildPosition pos ident }
      match idents with
      | i :: _ => step st i
      | [] => st
  | .call targetText tci callee ctxText args sl sc el => onCall st targetText tci callee ctxText args sl sc el
  | .mref exprText methodName pos =>
    let tt := parseTargetType st exprText
    let full := (warp st tt).1
    -- `pos` = the token of the method's name
    addCall st { pkg := removeTarget full, type := "lambda", node := tt, fn := methodName,
                 pos := { startLine := pos.startLine, startCol := pos.startCol, stopLine := pos.startLine,
                          stopCol := pos.startCol + width Gen.JavaFull.mrefStopWidth methodName } }
  | .enterBlock => if Gen.JavaFull.blockSavesLocals then saveLocalVars st else st
  | .exitBlock => if Gen.JavaFull.blockRestoresLocals then restoreLocalVars st else st
  | .enterStmtScope => if Gen.JavaFull.forSavesLocals then saveLocalVars st else st
  | .forVar type name => if Gen.JavaFull.forVarRecorded then { st with localVars := GoMap.set st.localVars name type } else st
  | .exitStmtScope => if Gen.JavaFull.forRestoresLocals then restoreLocalVars st else st
  | .exitBody =>
    let st0 := { st with hasEnterClass := false }
    if st0.node.node == "" then initClass { st0 with node := {} }
    else
      let nd := { st0.node with fields := st0.fields, path := st0.fileName, fns := (GoMap.entries st0.methodMap).map (·.2) }
      initClass { st0 with classNodes := st0.classNodes ++ [nd], node := {} }

def runFile (st : FSt) (identKeys clzs : List String) (file : String) (evs : List Ev) : FSt :=
  evs.foldl onEv (newListener st identKeys clzs file)

/-- `JavaFullApp.AnalysisFiles(identNodes, files)` -/
def runFiles (st : FSt) (identKeys : List String) (files : List (String × List Ev)) : List DS × FSt :=
  files.foldl (fun acc f =>
    let s := runFile acc.2 identKeys identKeys f.1 f.2
    (acc.1 ++ s.classNodes, s)) ([], st)

end CocaVerif.JavaFull
