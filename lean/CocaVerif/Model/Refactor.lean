/-
  Executable model of the two text-rewriting refactorings:
  * pkg/application/refactor/rename/rename_method.go (C05): the sites come from the code model
    (declaration position of the method, position of every call attributed to it); each site is
    rewritten by `line[:start] + new + line[stop:]` on the runes of its line, the file being split
    and joined on "\n"; sites are applied from the end of each line backwards, each once.
  * pkg/application/refactor/unused/remove_unused_import.go (C06): per file, the import lines whose
    last segment is neither `*` nor a referenced name are deleted, by line number shifted by the
    number of lines already deleted.
  Lines are lists of characters (runes), files lists of lines.
-/
import CocaVerif.Base.GoMap
import CocaVerif.Gen.Refactor

namespace CocaVerif.Refactor

/-- `string(r[:s]) + new + string(r[e:])`; `none` where Go panics (slice bounds out of range) -/
def splice (line : List Char) (s e : Nat) (new : List Char) : Option (List Char) :=
  if s ≤ line.length ∧ e ≤ line.length then some (line.take s ++ new ++ line.drop e) else none

structure Site where
  line : Nat          -- 1-based
  s : Nat
  e : Nat
  deriving Repr, DecidableEq, Inhabited

/-- `updateSelfRefs`: the line `site.line` (if the file has it) is spliced, every other line is kept -/
def applySite (new : List Char) (lines : List (List Char)) (site : Site) : Option (List (List Char)) :=
  if site.line = 0 ∨ lines.length < site.line then some lines
  else match splice (lines.getD (site.line - 1) []) site.s site.e new with
    | some l => some (lines.set (site.line - 1) l)
    | none => none

/-- all sites of one file in the order the code applies them -/
def applySites (new : List Char) (lines : List (List Char)) (sites : List Site) : Option (List (List Char)) :=
  sites.foldlM (applySite new) lines

/-- the order of the edits: later lines first, and inside a line from the right; each site once -/
def siteLt (a b : Site) : Bool :=
  if a.line != b.line then Gen.Refactor.laterLineFirst a.line b.line else Gen.Refactor.rightmostFirst a.s b.s
def insertSite (x : Site) : List Site → List Site
  | [] => [x]
  | y :: ys => if siteLt y x then y :: insertSite x ys else x :: y :: ys
/-- stable insertion sort (what sort.SliceStable gives) -/
def sortSites (l : List Site) : List Site := l.foldr (fun x acc => insertSite x acc) []
def dedupAdjacent : List Site → List Site
  | a :: b :: r => if a = b then dedupAdjacent (b :: r) else a :: dedupAdjacent (b :: r)
  | l => l

def renameFile (new : List Char) (lines : List (List Char)) (sites : List Site) : Option (List (List Char)) :=
  let sorted := if Gen.Refactor.renameSortsEdits then sortSites sites else sites
  applySites new lines (if Gen.Refactor.renameSkipsRepeatedSite then dedupAdjacent sorted else sorted)

/-! ### unused imports -/

def lastSeg (name : String) : String := (name.splitOn ".").getLast!

/-- `BuildErrorLines`: (import name, line) in file order; `names` = the referenced names of the file -/
def errorLines (imports : List (String × Nat)) (names : List String) : List Nat :=
  imports.filterMap fun imp =>
    let last := lastSeg imp.1
    let ok := if Gen.Refactor.wildcardTestedInLoop then names.any (fun n => n == last || last == "*")
              else last == "*" || names.contains last
    if ok then none else some imp.2

/-- `append(array[:i], array[i+1:]...)`; `none` where Go panics -/
def removeAt {α : Type} (ls : List α) (i : Nat) : Option (List α) :=
  if i < ls.length then some (ls.take i ++ ls.drop (i + 1)) else none

/-- `removeImportByLines`: the k-th deletion (k = 1, 2, …) removes index `line - k` -/
def removeLines {α : Type} (ls : List α) (errs : List Nat) : Option (List α) :=
  (errs.foldlM (fun (acc : List α × Nat) l =>
    if l < acc.2 then none else (removeAt acc.1 (l - acc.2)).map fun r => (r, acc.2 + 1)) (ls, 1)).map (·.1)

end CocaVerif.Refactor
