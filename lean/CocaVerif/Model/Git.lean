/-
  Executable model of pkg/application/git (log_parser.go, git.go, changelog.go): properties C14, C15.
  * The seven regular expressions are `Rx.Re` values written next to their Go source strings; the
    source strings are regenerated into Gen/Git.lean and pinned in Props (`regex_sources_pinned`).
  * `ParseLog` = `stepC st (classify line)`: `classify` evaluates the regexes (and reproduces the
    `strings.Split(...)[1]` field extraction, including its panics), `stepC` is the pure state machine
    over classified lines that the theorems of C14 are about.
  * Flushing ranges over a Go map: the order of the changes inside a commit is an iteration oracle.
-/
import CocaVerif.Base.Regex
import CocaVerif.Base.GoMap
import CocaVerif.Base.Oracle
import CocaVerif.Gen.Git

namespace CocaVerif.Git
open CocaVerif.Rx

/-! ### the regular expressions -/

def hexish (c : Char) : Bool := isDigit c || c == '|' || (c ≥ 'a' && c ≤ 'f')
/-- `\[([\d|a-f]{5,12})\]` -/
def revRe : Re := .seq (lit '[') (.seq (.grp 1 (rep 5 12 (.chr hexish))) (lit ']'))
def d2 : Re := times 2 (.chr isDigit)
def d4 : Re := times 4 (.chr isDigit)
/-- `\d{4}-\d{2}-\d{2}` -/
def dateRe : Re := .seq d4 (.seq (lit '-') (.seq d2 (.seq (lit '-') d2)))
/-- `(.*?)\s\d{4}-\d{2}-\d{2}` -/
def authorRe : Re := .seq (.grp 1 (.star (.chr anyChar) false)) (.seq (.chr isSpace) dateRe)
def digDash (c : Char) : Bool := isDigit c || c == '-'
/-- `([\d-]+)[\t\s]+([\d-]+)[\t\s]+(.*)` -/
def changesRe : Re :=
  .seq (.grp 1 (plus (.chr digDash))) (.seq (plus (.chr isSpace)) (.seq (.grp 2 (plus (.chr digDash)))
    (.seq (plus (.chr isSpace)) (.grp 3 (.star (.chr anyChar) true)))))
def anyStar : Re := .star (.chr anyChar) true
def arrow : Re := .seq (.chr isSpace) (.seq (str "=>") (.chr isSpace))
/-- `(.*)\{(.*)\s=>\s(.*)\}(.*)` -/
def complexMoveRe : Re :=
  .seq (.grp 1 anyStar) (.seq (lit '{') (.seq (.grp 2 anyStar) (.seq arrow (.seq (.grp 3 anyStar) (.seq (lit '}') (.grp 4 anyStar))))))
/-- `(.*)\s=>\s(.*)` -/
def basicMoveRe : Re := .seq (.grp 1 anyStar) (.seq arrow (.grp 2 anyStar))
/-- `\s(\w{1,6})\s(mode 100(\d){3})?\s?(.*)(\s\(\d{2}%\))?` -/
def changeModeRe : Re :=
  .seq (.chr isSpace) (.seq (.grp 1 (rep 1 6 (.chr isWord))) (.seq (.chr isSpace)
    (.seq (opt (.grp 2 (.seq (str "mode 100") (times 3 (.grp 3 (.chr isDigit))))))
      (.seq (opt (.chr isSpace)) (.seq (.grp 4 anyStar)
        (opt (.grp 5 (.seq (.chr isSpace) (.seq (lit '(') (.seq d2 (.seq (lit '%') (lit ')'))))))))))))
/-- `^(\w*)(?:\((.*)\))?: (.*)$` -/
def changeLogRe : Re :=
  .seq .bol (.seq (.grp 1 (.star (.chr isWord) true)) (.seq (opt (.seq (lit '(') (.seq (.grp 2 anyStar) (lit ')'))))
    (.seq (str ": ") (.seq (.grp 3 anyStar) .eol))))

/-! ### Go string helpers on `List Char` -/

def isPrefixL : List Char → List Char → Bool
  | [], _ => true
  | _ :: _, [] => false
  | a :: as, b :: bs => a == b && isPrefixL as bs

/-- `strings.Split(s, sep)` for a NON-EMPTY `sep` -/
def splitOnL (sep : List Char) : Nat → List Char → List Char → List (List Char)
  | 0, cur, _ => [cur.reverse]
  | _ + 1, cur, [] => [cur.reverse]
  | fuel + 1, cur, c :: cs =>
    if isPrefixL sep (c :: cs) then cur.reverse :: splitOnL sep fuel [] ((c :: cs).drop sep.length)
    else splitOnL sep fuel (c :: cur) cs

/-- `strings.Split(s, sep)`; empty `sep` explodes into characters (Go: UTF-8 sequences) -/
def goSplit (s sep : List Char) : List (List Char) :=
  if sep.isEmpty then s.map fun c => [c] else splitOnL sep (s.length + 1) [] s

/-- `strings.SplitN(s, sep, 2)`: at most two pieces — everything before and everything after the
    FIRST occurrence of `sep` (Go's `explode` for an empty `sep`) -/
def goSplitN2 (s sep : List Char) : List (List Char) :=
  if sep.isEmpty then
    match s with
    | [] => []
    | [c] => [[c]]
    | c :: cs => [[c], cs]
  else
    let rec loop : List Char → List Char → List (List Char)
      | cur, [] => [cur.reverse]
      | cur, c :: cs =>
        if isPrefixL sep (c :: cs) then [cur.reverse, (c :: cs).drop sep.length] else loop (c :: cur) cs
    loop [] s

def utf8Len (s : List Char) : Nat := (String.ofList s).utf8ByteSize

def natOfDigits (ds : List Char) : Nat := ds.foldl (fun n c => n * 10 + (c.toNat - '0'.toNat)) 0

def allDigits (ds : List Char) : Bool := !ds.isEmpty && ds.all Rx.isDigit

/-- `strconv.Atoi` with the error ignored (0): optional sign, then decimal digits only
    (values beyond the int range are not modelled: numstat counts are small) -/
def atoi (s : List Char) : Int :=
  match s with
  | '-' :: ds => if allDigits ds then -(Int.ofNat (natOfDigits ds)) else 0
  | '+' :: ds => if allDigits ds then Int.ofNat (natOfDigits ds) else 0
  | ds => if allDigits ds then Int.ofNat (natOfDigits ds) else 0

/-! ### classification of one log line -/

structure Change where
  added : Int
  deleted : Int
  file : String
  mode : String
  deriving Repr, DecidableEq, Inhabited

structure Commit where
  rev : String := ""
  author : String := ""
  date : String := ""
  message : String := ""
  changes : List Change := []
  deriving Repr, DecidableEq, Inhabited

inductive LineClass where
  | header (rev author date msg : String)
  | numstat (added deleted : Int) (file : String)
  | mode (m : String) (file : String)
  | other
  | panic (why : String)
  deriving Repr, DecidableEq

/-- drop the first BYTE of a Go string: only modelled for an ASCII first character -/
def dropFirstByte (s : List Char) : Except String (List Char) :=
  match s with
  | [] => .error "slice bounds out of range [1:0]"
  | c :: cs => if c.toNat < 128 then .ok cs else .error "unmodelled: slicing inside a multi-byte character"

def headerFields (text : List Char) : LineClass :=
  match find revRe text with
  | none => .other
  | some mid =>
    let id0 := slice text mid.start mid.stop
    let id1 := mid.group text 1
    match goSplitN2 text id0 with
    | _ :: str1 :: _ =>
      match find authorRe str1 with
      | none => .panic "index out of range [1] with length 0"
      | some ma =>
        let a1 := ma.group str1 1
        match goSplitN2 str1 a1 with
        | _ :: str2 :: _ =>
          match find dateRe str2 with
          | none => .panic "index out of range [0] with length 0"
          | some md =>
            let d0 := slice str2 md.start md.stop
            match goSplitN2 str2 d0 with
            | _ :: msg :: _ =>
              let msg' : Except String (List Char) := if utf8Len msg > 1 then dropFirstByte msg else .ok msg
              match msg', dropFirstByte a1 with
              | .ok m, .ok a => .header (String.ofList id1) (String.ofList a) (String.ofList d0) (String.ofList m)
              | .error e, _ => .panic e
              | _, .error e => .panic e
            | _ => .panic "index out of range [1] with length 1"
        | _ => .panic "index out of range [1] with length 1"
    | _ => .panic "index out of range [1] with length 1"

/-- which branch of `ParseLog` a line takes, with the fields it extracts -/
def classify (line : String) : LineClass :=
  let text := line.toList
  -- `len(allString) >= 1 && strings.HasPrefix(text, allString[0])`: the first (leftmost) match starts the line
  if (match findAll revRe text with
      | (a, b) :: _ => isPrefixL (slice text a b) text
      | [] => false) then headerFields text
  else match find changesRe text with
    | some m => .numstat (atoi (m.group text 1)) (atoi (m.group text 2)) (String.ofList (m.group text 3))
    | none =>
      match find changeModeRe text with
      | some m => .mode (String.ofList (m.group text 1)) (String.ofList (m.group text 4))
      | none => .other

/-! ### the state machine of `ParseLog` over classified lines -/

structure PState where
  cur : Commit := {}
  fmap : List (String × Change) := []      -- currentFileChangeMap (Go-map log)
  curChanges : List Change := []           -- currentFileChanges
  commits : List Commit := []
  deriving Repr

abbrev Oracle := List (String × Change) → List (String × Change)

def stepC (σ : Oracle) (st : PState) : LineClass → Except String PState
  | .header rev author date msg => .ok { st with cur := { rev := rev, author := author, date := date, message := msg, changes := [] } }
  | .numstat a d f => .ok { st with fmap := GoMap.set st.fmap f { added := a, deleted := d, file := f, mode := "" } }
  | .mode m f =>
    match GoMap.get? st.fmap f with
    | some ch => .ok { st with fmap := GoMap.set st.fmap f { ch with mode := m } }
    | none =>
      if m == "delete" then .ok { st with curChanges := st.curChanges ++ [{ added := 0, deleted := 0, file := f, mode := "delete" }] }
      else .ok st
  | .other =>
    if st.cur.rev != "" then
      let chs := st.curChanges ++ (σ (GoMap.entries st.fmap)).map (·.2)
      .ok { cur := {}, fmap := [], curChanges := [],
            commits := if chs.isEmpty then st.commits else st.commits ++ [{ st.cur with changes := chs }] }
    else .ok st
  | .panic why => .error why

def runC (σ : Oracle) : PState → List LineClass → Except String PState
  | st, [] => .ok st
  | st, l :: ls => match stepC σ st l with
    | .ok st' => runC σ st' ls
    | .error e => .error e

/-- `BuildMessageByInput(text)`: resets everything except `currentCommit` (as the Go code does) -/
def buildMessages (σ : Oracle) (prevCur : Commit) (text : String) : Except String (List Commit × Commit) :=
  let lines := (goSplit text.toList ['\n']).map String.ofList
  match runC σ { cur := prevCur } (lines.map classify) with
  | .ok st => .ok (st.commits, st.cur)
  | .error e => .error e

/-! ### summaries (git.go) -/

structure Info where
  name : String
  authors : List String      -- distinct, insertion order
  revs : List String
  date : String              -- first commit date (text; parsed by Go with time.Parse)
  deriving Repr, DecidableEq

inductive FileOp where
  | plain (f : String)
  | move (old new : String)
  deriving Repr, DecidableEq

/-- `UpdateMessageForChange` -/
def updateMessageForChange (f : String) : String × String × String :=
  let t := f.toList
  match find complexMoveRe t with
  | some m =>
    let g1 := m.group t 1; let g2 := m.group t 2; let g3 := m.group t 3; let g4 := m.group t 4
    let oldLast := if g2.isEmpty then (match g4 with | '/' :: r => r | r => r) else g4
    let newLast := if g3.isEmpty then (match g4 with | '/' :: r => r | r => r) else g4
    let old := String.ofList (g1 ++ g2 ++ oldLast)
    let new := String.ofList (g1 ++ g3 ++ newLast)
    (new, old, new)
  | none => (f, f, f)

/-- how `BuildCommitMessageMap` reads a change's file field -/
def fileOp (f : String) : FileOp :=
  let t := f.toList
  if isMatch complexMoveRe t then
    let r := updateMessageForChange f
    if r.1 != r.2.1 then .move r.2.1 r.2.2 else .plain r.1
  else match find basicMoveRe t with
    | some m => .move (String.ofList (m.group t 1)) (String.ofList (m.group t 2))
    | none => .plain f

def addUnique (l : List String) (x : String) : List String := if l.contains x then l else l ++ [x]

/-- `switchMapFile` -/
def switchFile (infos : List (String × Info)) (old new : String) : List (String × Info) :=
  match GoMap.get? infos old with
  | some i => GoMap.set (GoMap.erase infos old) new { i with name := new }
  | none => infos

def fresh (c : Commit) (name : String) : Info := { name := name, authors := [c.author], revs := [c.rev], date := c.date }

/-- the record stored for a touched file: a new one if there is none (Go: `EntityName == ""`), else
    the old one with this commit's author and revision added to its sets -/
def touch (c : Commit) (name : String) : Option Info → Info
  | some i => if i.name == "" then fresh c name
              else { i with authors := addUnique i.authors c.author, revs := addUnique i.revs c.rev }
  | none => fresh c name

def applyChange (infos : List (String × Info)) (c : Commit) (ch : Change) : List (String × Info) :=
  let r := match fileOp ch.file with
    | .plain f => (infos, f)
    | .move old new => (switchFile infos old new, new)
  let infos2 := GoMap.set r.1 r.2 (touch c r.2 (GoMap.get? r.1 r.2))
  if ch.mode == "delete" then GoMap.erase infos2 r.2 else infos2

/-- `BuildCommitMessageMap` -/
def buildInfos (commits : List Commit) : List (String × Info) :=
  commits.foldl (fun infos c => c.changes.foldl (fun i ch => applyChange i c ch) infos) []

structure TeamRow where
  name : String
  authorCount : Nat
  revsCount : Nat
  deriving Repr, DecidableEq

def revsGe (a b : TeamRow) : Bool := decide (a.revsCount ≥ b.revsCount)

/-- `GetTeamSummary`: rows in an unspecified (map) order, then sorted by non-increasing revisions -/
def teamSummary (σ : List (String × Info) → List (String × Info)) (commits : List Commit) : List TeamRow :=
  ((σ (GoMap.entries (buildInfos commits))).map fun (_, i) =>
    { name := i.name, authorCount := i.authors.length, revsCount := i.revs.length : TeamRow }).mergeSort revsGe

structure TopAuthor where
  name : String
  commitCount : Nat
  lineCount : Int
  deriving Repr, DecidableEq

def bumpAuthor (m : List (String × TopAuthor)) (c : Commit) : List (String × TopAuthor) :=
  let cur := (GoMap.get? m c.author).getD { name := c.author, commitCount := 0, lineCount := 0 }
  GoMap.set m c.author { cur with commitCount := cur.commitCount + 1,
                                  lineCount := c.changes.foldl (fun l ch => l + ch.added - ch.deleted) cur.lineCount }

def authorMap (commits : List Commit) : List (String × TopAuthor) := commits.foldl bumpAuthor []

def commitsGe (a b : TopAuthor) : Bool := decide (a.commitCount ≥ b.commitCount)

/-- `GetTopAuthors` -/
def topAuthors (σ : List (String × TopAuthor) → List (String × TopAuthor)) (commits : List Commit) : List TopAuthor :=
  ((σ (GoMap.entries (authorMap commits))).map (·.2)).mergeSort commitsGe

structure Basic where
  commits : Nat
  entities : Nat
  changes : Int
  authors : Nat
  deriving Repr, DecidableEq

/-- `BasicSummary` -/
def basicSummary (commits : List Commit) : Basic :=
  { commits := commits.length,
    entities := (GoMap.dedup (commits.flatMap fun c => c.changes.map (·.file))).length,
    changes := (commits.flatMap (·.changes)).foldl (fun n ch => n + (if ch.added > 0 then 1 else 0) - (if ch.deleted > 0 then 1 else 0)) 0,
    authors := (GoMap.dedup (commits.map (·.author))).length }

def dateLe (a b : String × String) : Bool := decide (a.2 ≤ b.2)

/-- `CalculateCodeAge`: (file, first-commit date) oldest first. Dates are `YYYY-MM-DD` texts, whose
    lexicographic order is the chronological order (`time.Parse` of a malformed date gives year 1). -/
def codeAge (σ : List (String × Info) → List (String × Info)) (commits : List Commit) : List (String × String) :=
  ((σ (GoMap.entries (buildInfos commits))).map fun (_, i) => (i.name, i.date)).mergeSort dateLe

/-- `BuildChangeMap`: conventional-commit type ↦ file ↦ number of commits(changes) of that type -/
def changeMap (commits : List Commit) : List (String × List (String × Nat)) :=
  commits.foldl (fun m c =>
    let t := c.message.toList
    match find changeLogRe t with
    | some mt =>
      let kw := String.ofList (mt.group t 1)
      let inner0 := (GoMap.get? m kw).getD []
      let inner := c.changes.foldl (fun im ch =>
        let r := updateMessageForChange ch.file
        let f := if r.1 != r.2.1 then r.2.2 else r.1
        GoMap.set im f ((GoMap.get? im f).getD 0 + 1)) inner0
      GoMap.set m kw inner
    | none => m) []

end CocaVerif.Git
