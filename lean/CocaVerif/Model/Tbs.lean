/-
  Executable model of pkg/application/tbs/tbs_app.go (TbsApp.AnalysisPath) for property C11.
  Predicates and limits come from Gen/Tbs.lean (regenerated).
-/
import CocaVerif.Base.CodeModel
import CocaVerif.Base.GoMap
import CocaVerif.Gen.Tbs

namespace CocaVerif.Tbs
open CocaVerif.Gen.Tbs

structure TF where
  file : String
  type : String
  line : Int
  deriving Repr, DecidableEq

/-- `CodeCall.HasAssertion`: lower-cased function name has a prefix in ASSERTION_LIST -/
def hasAssertion (c : Call) : Bool := assertionList.any fun a => c.fn.toLower.startsWith a

/-- `CodeFunction.IsJunitTest` -/
def isJunitTest (m : Fn) : Bool := m.annos.any fun a => isTestAnno a.name || isIgnoreAnno a.name

/-- `BuildCallMethodMap`: full method name ↦ function (last wins) -/
def callMethodMap (clzs : List DS) : List (String × Fn) := clzs.flatMap fun d => d.fns.map fun f => (Fn.full d f, f)

/-- `updateMethodCallsForSelfCall`: calls of same-class helpers appended at the end (one level) -/
def inlined (clzs : List DS) (d : DS) (m : Fn) : List Call :=
  m.calls ++ m.calls.flatMap fun c =>
    if c.node == d.node then
      match GoMap.get? (callMethodMap clzs) c.full with
      | some j => if j.name != "" then j.calls else []
      | none => []
    else []

def ignoreF (file : String) (a : Anno) : List TF :=
  if isIgnoreAnno a.name then [{ file := file, type := "IgnoreTest", line := 0 }] else []

def emptyF (file : String) (m : Fn) (n : Nat) (a : Anno) : List TF :=
  if isTestAnno a.name then
    (if emptyTestCond n then [{ file := file, type := "EmptyTest", line := m.pos.startLine }] else [])
  else []

def printF (file : String) (c : Call) : List TF :=
  if isSystemOutput c.node c.fn then [{ file := file, type := "RedundantPrintTest", line := c.pos.startLine }] else []

def sleepF (file : String) (c : Call) : List TF :=
  if isThreadSleep c.node c.fn then [{ file := file, type := "SleepyTest", line := c.pos.startLine }] else []

def sameTwoArgs (c : Call) : Bool :=
  match c.params with
  | [a, b] => a.typeValue == b.typeValue
  | _ => false

def redundantF (file : String) (m : Fn) (c : Call) : List TF :=
  if twoParamsCond c.params.length 2 && sameTwoArgs c then
    [{ file := file, type := "RedundantAssertionTest", line := m.pos.startLine }] else []

def assertF (file : String) (m : Fn) (has : Bool) : List TF :=
  if !has then [{ file := file, type := "UnknownTest", line := m.pos.startLine }] else []

/-- the loop over the (inlined) calls; `has` = `hasAssert` so far -/
def callLoop (file : String) (m : Fn) : List Call → Bool → List TF
  | [], _ => []
  | c :: rest, has =>
    if c.fn == "" then
      (if rest.isEmpty then assertF file m has else []) ++ callLoop file m rest has
    else
      printF file c ++ sleepF file c ++ redundantF file m c ++
        (if rest.isEmpty then assertF file m (has || hasAssertion c) else []) ++
        callLoop file m rest (has || hasAssertion c)

/-- `checkDuplicateAssertTest`: some full name with at least `limit` (non-creation) calls whose last
    one is an assertion. Ranging over the Go map only computes a disjunction: order-independent. -/
def isDupAssert (cs : List Call) : Bool :=
  let nc := cs.filter fun c => c.fn != ""
  (GoMap.dedup (nc.map Call.full)).any fun k =>
    let g := nc.filter fun c => c.full == k
    dupAssertCond g.length dupAssertLimit && (match g.getLast? with | some c => hasAssertion c | none => false)

def dupF (file : String) (m : Fn) (cs : List Call) : List TF :=
  if isDupAssert cs then [{ file := file, type := "DuplicateAssertTest", line := m.pos.startLine }] else []

def methodFindings (clzs : List DS) (d : DS) (m : Fn) : List TF :=
  if isJunitTest m then
    let cs := inlined clzs d m
    (m.annos.flatMap fun a => ignoreF d.path a ++ emptyF d.path m cs.length a) ++
      callLoop d.path m cs false ++ dupF d.path m cs
  else []

/-- `TbsApp.AnalysisPath(deps, _)` -/
def analysis (clzs : List DS) : List TF := clzs.flatMap fun d => d.fns.flatMap fun m => methodFindings clzs d m

end CocaVerif.Tbs
