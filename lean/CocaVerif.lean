import CocaVerif.Base.J
import CocaVerif.Base.CodeModel
import CocaVerif.Base.GoMap
import CocaVerif.Model.Call
import CocaVerif.Proofs.Call
import CocaVerif.Proofs.RCall
import CocaVerif.Props.C03
import CocaVerif.Props.C04
