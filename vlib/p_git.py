"""C14 (git log parsing) and C15 (git summaries): generators and oracles."""
import json
import re

FAMILY = "git"
GEN_GROUPS = ["Git"]

AUTHORS = ["Ann Lee", "bob", "Zoë Ünal", "J. R. R. 3rd", "Li  Wei", "team-bot 2000"]
WORDS = ["fix", "add", "update", "refactor: split", "feat(api): new", "docs", "bump 1.2.3", "a => b", "x {y => z}", "see [abc] note",
         "done: 100%", "merge", "tmp", "[WIP] start", "fix: #12 crash", "chore(deps): up", "éclair", "x"]
ADVERSARIAL_SUBJECTS = ["revert [abcde12] again", "by Ann Lee 2020-01-01 confirmed", "released 2020-02-02 build", "cafe [deadbeef]", "double  space",
                        "tab\tinside", "[12345] only", "fix: date 2020-03-04",
                        # subjects that BEGIN with digits, a date, a dash: nothing of them belongs to the date field before them
                        "2020-01-02 release notes", "10 more fixtures", "- drop the old parser", "0", "1-2-3 go", "2 + 2 = 4", "-- 2020 --"]
DIRS = ["", "src/", "src/main/", "docs/", "a b/", "domain/", "core/domain/x/", "ünï/"]
# (names git prints C-quoted: non-ASCII bytes under its default core.quotepath, a double quote always)
NAMES = ["f.txt", "g.go", "Main.java", "read me.md", "x.bin", "h.txt", "k.py", "说明.md", "café.txt", 'q"uote.txt']


def cq(p, quotepath=True):
    """git's quote_c_style: a path with a control character, a double quote or a backslash - and, unless core.quotepath is off,
    with a byte above 0x7f - is printed in double quotes with C escapes (octal for the bytes)"""
    b = p.encode("utf-8")
    esc = {0x07: "a", 0x08: "b", 0x09: "t", 0x0a: "n", 0x0b: "v", 0x0c: "f", 0x0d: "r", 0x22: '"', 0x5c: "\\"}
    if not any(c < 0x20 or c == 0x7f or c in (0x22, 0x5c) or (quotepath and c >= 0x80) for c in b):
        return p
    out = bytearray(b'"')
    for c in b:
        if c in esc:
            out += b"\\" + esc[c].encode()
        elif c < 0x20 or c == 0x7f or (quotepath and c >= 0x80):
            out += ("\\%03o" % c).encode()
        else:
            out.append(c)
    out += b'"'
    return out.decode("utf-8")


def hexrev(rng):
    return "".join(rng.choice("0123456789abcdef") for _ in range(7))


# ---------------------------------------------------------------------------------------------
# abstract histories for the synthetic-log and real-repository legs

def rand_history(rng, adversarial=False, n=None, real=False):
    files = {}   # path -> number of lines
    hist = []
    n = n or rng.choice([1, 2, 3, 5, 8])
    day = 1
    for i in range(n):
        ops = []
        k = rng.choice([1, 1, 2, 3])
        touched = set()
        for _ in range(k):
            r = rng.random()
            existing = [p for p in files if p not in touched]
            if r < 0.45 or not existing:
                p = rng.choice(DIRS) + rng.choice(NAMES)
                if p in touched:
                    continue
                if p.endswith(".bin"):
                    ops.append({"Op": "binary", "Path": p, "Content": "v%d" % i})
                    files[p] = 0
                else:
                    nl = rng.choice([1, 2, 5])
                    ops.append({"Op": "write", "Path": p, "Content": "".join("l%d-%d-%d\n" % (i, j, rng.randint(0, 999)) for j in range(nl))})
                    files[p] = nl
                touched.add(p)
            elif r < 0.65:
                p = rng.choice(existing)
                if p.endswith(".bin"):
                    ops.append({"Op": "binary", "Path": p, "Content": "w%d" % i})
                else:
                    nl = files[p] + rng.choice([1, 3])
                    ops.append({"Op": "write", "Path": p, "Content": "".join("m%d-%d-%d\n" % (i, j, rng.randint(0, 999)) for j in range(nl))})
                    files[p] = nl
                touched.add(p)
            elif r < 0.8:
                p = rng.choice(existing)
                ops.append({"Op": "rm", "Path": p})
                del files[p]
                touched.add(p)
            else:
                p = rng.choice(existing)
                kind = rng.choice(["same", "cross", "root"])
                base = p.split("/")[-1]
                d = p[:len(p) - len(base)]
                if kind == "same":
                    to = d + "r%d_%s" % (i, base)
                elif kind == "cross":
                    to = rng.choice([x for x in DIRS if x != d] or ["zz/"]) + base
                else:
                    to = "root%d_%s" % (i, base)
                if to in files or to in touched:
                    continue
                ops.append({"Op": "mv", "Path": p, "To": to})
                files[to] = files.pop(p)
                touched.add(p)
                touched.add(to)
        subj = rng.choice(WORDS) + " " + rng.choice(WORDS)
        if adversarial and rng.random() < 0.5:
            subj = rng.choice(ADVERSARIAL_SUBJECTS)
        c = {"Author": rng.choice(AUTHORS), "Email": "a@b.c", "Date": "2020-%02d-%02d" % (1 + (day // 28) % 12, 1 + day % 28), "Subject": subj.strip() if real else subj, "Ops": ops}
        if real and c["Subject"] == "":
            c["Subject"] = "x"
        if real and rng.random() < 0.12 and i > 0:
            c["SideOps"] = [{"Op": "write", "Path": "side%d.txt" % i, "Content": "s\n"}]
            files["side%d.txt" % i] = 1
        day += rng.choice([0, 1, 3, 40])
        hist.append(c)
    if real and len(hist) > 1 and rng.random() < 0.25:
        # rebased / cherry-picked / amended commits keep their old author dates: the dates along the log are in any order
        dates = [c["Date"] for c in hist]
        rng.shuffle(dates)
        for c, d in zip(hist, dates):
            c["Date"] = d
    return hist


def render_synthetic(rng, hist, quoted=False):
    """what `git log --pretty=format:[%h] %aN %ad %s --date=short --numstat --reverse --summary` prints for a
    linear history (layout confirmed against git 2.39 by the gitrepo leg); returns (text, expected commits)"""
    files = {}
    out = []
    exp = []
    qp = rng.random() < 0.6      # core.quotepath as it is by default / switched off
    for c in hist:
        rev = hexrev(rng)
        numstat, summary, changes = [], [], []
        for o in c["Ops"]:
            raw = o["Path"]
            p = cq(raw, qp)       # the spelling git prints, in the numstat line and in the summary line alike
            if o["Op"] == "write":
                nl = o["Content"].count("\n")
                if p in files:
                    numstat.append("%d\t%d\t%s" % (nl, files[p], p))
                    changes.append({"Added": nl, "Deleted": files[p], "File": p, "Mode": ""})
                else:
                    numstat.append("%d\t0\t%s" % (nl, p))
                    summary.append(" create mode 100644 %s" % p)
                    changes.append({"Added": nl, "Deleted": 0, "File": p, "Mode": "create"})
                files[p] = nl
            elif o["Op"] == "binary":
                numstat.append("-\t-\t%s" % p)
                if p not in files:
                    summary.append(" create mode 100644 %s" % p)
                    changes.append({"Added": 0, "Deleted": 0, "File": p, "Mode": "create"})
                else:
                    changes.append({"Added": 0, "Deleted": 0, "File": p, "Mode": ""})
                files[p] = 0
            elif o["Op"] == "rm":
                numstat.append("0\t%d\t%s" % (files[p], p))
                summary.append(" delete mode 100644 %s" % p)
                changes.append({"Added": 0, "Deleted": files[p], "File": p, "Mode": "delete"})
                del files[p]
            elif o["Op"] == "mv":
                to = cq(o["To"], qp)
                # (when one of the names is quoted git prints both in full, without the brace notation)
                arrow = git_arrow(p, to) if (p == raw and to == o["To"]) else "%s => %s" % (p, to)
                numstat.append("0\t0\t%s" % arrow)
                summary.append(" rename %s (100%%)" % arrow)
                changes.append({"Added": 0, "Deleted": 0, "File": arrow, "Mode": ""})
                files[to] = files.pop(p)
        if not c["Ops"]:
            # empty commit: header only
            pass
        header = "[%s] %s %s %s" % (rev, c["Author"], c["Date"], c["Subject"])
        if quoted:
            out.append('"format:' + header + '"')
            out.append("")
            out += numstat + summary
        else:
            out.append(header)
            out += numstat + summary
            out.append("")
        if c["Ops"]:
            exp.append({"Rev": rev, "Author": c["Author"], "Date": c["Date"], "Message": c["Subject"], "Changes": changes})
    text = "\n".join(out)
    if quoted:
        text += "\n"
    return text, exp


def git_arrow(a, b):
    """git's rename notation: common leading directories and common trailing path in braces form"""
    pa, pb = a.split("/"), b.split("/")
    i = 0
    while i < len(pa) - 1 and i < len(pb) - 1 and pa[i] == pb[i]:
        i += 1
    j = 0
    while j < len(pa) - 1 - i and j < len(pb) - 1 - i and pa[len(pa) - 1 - j] == pb[len(pb) - 1 - j]:
        j += 1
    if i == 0 and j == 0:
        return "%s => %s" % (a, b)
    pre = "/".join(pa[:i])
    suf = "/".join(pa[len(pa) - j:]) if j else ""
    ma = "/".join(pa[i:len(pa) - j])
    mb = "/".join(pb[i:len(pb) - j])
    return (pre + "/" if pre else "") + "{%s => %s}" % (ma, mb) + ("/" + suf if suf else "")


REGEX_LINES = [
    "[abc12] A 2020-01-01 m", "[abcd] A 2020-01-01 m", "[abcdef0123456] x", "[abc|12] pipe", "[ABCDE] upper", "x [abcde] y [12345] z",
    "1\t2\tf.txt", "-\t-\tx.bin", "12 3 a b", "1\t2\t", "--\t-1\tp", " create mode 100644 a/b.txt", " delete mode 100644 x", " rename a => b (100%)",
    " rename d/{g.txt => h.txt} (95%)", " mode change 100644 => 100755 run.sh", "a => b", "src/{a => b}/c.txt", "{ => x}/f", "{x => }/f", "a{b => c}d{e => f}g",
    "a => b => c", "a =>b", "a\t=>\tb", "feat(api): new thing", "fix: x", ": empty", "feat(a)(b): c", "feat : spaced", "no colon", "fix(scope):tight",
    "Ann Lee 2020-01-01 rest", "\t2020-01-01", "x 20200-01-011", "", " ", "é => ü", "[abcde] Zoë 2021-12-31 ünï", "  9\t9\tpath with  spaces",
]


def rand_line(rng):
    r = rng.random()
    if r < 0.3:
        return rng.choice(REGEX_LINES)
    alphabet = ["[", "]", "a", "b", "f", "1", "2", "0", "-", " ", "\t", "=>", " => ", "{", "}", "(", ")", ":", "%", "mode 100644", "create", "x", "|", ".", "/", "é", "2020-01-02", "abcde", "12"]
    return "".join(rng.choice(alphabet) for _ in range(rng.choice([1, 2, 4, 8, 14])))


# ---------------------------------------------------------------------------------------------
# C14

def parse_numstat(text):
    changes = {}
    order = []
    for line in text.split("\n"):
        if not line:
            continue
        m = re.match(r"^(-|\d+)\t(-|\d+)\t(.*)$", line)
        if m:
            a = 0 if m.group(1) == "-" else int(m.group(1))
            d = 0 if m.group(2) == "-" else int(m.group(2))
            changes[m.group(3)] = {"Added": a, "Deleted": d, "File": m.group(3), "Mode": ""}
            order.append(m.group(3))
            continue
        m = re.match(r"^ (create|delete) mode \d{6} (.*)$", line)
        if m and m.group(2) in changes:
            changes[m.group(2)]["Mode"] = m.group(1)
    return [changes[k] for k in order]


def canon_changes(chs):
    return sorted(chs, key=lambda c: json.dumps(c, sort_keys=True))


def classify_c14(exp, got, case):
    """compare expected commit list with parsed one; returns discrepancy classes"""
    ds = []
    e = [dict(c, Changes=canon_changes(c["Changes"])) for c in exp]
    g = [dict(c, Changes=canon_changes(c["Changes"])) for c in got]
    if e == g:
        return ds
    for i in range(max(len(e), len(g))):
        if i >= len(e) or i >= len(g) or e[i] != g[i]:
            ds.append(("git-parse-mismatch", "commit #%d differs: expected %s got %s" % (i, json.dumps(e[i] if i < len(e) else None)[:300], json.dumps(g[i] if i < len(g) else None)[:300])))
            break
    return ds


def oracle_c14(case, out, raw):
    if case["op"] == "regex":
        return []
    if out is None or "panic" in out:
        if case["op"] == "parse" and "expected" not in case:
            return []      # raw malformed text: not a git history, only model == implementation is judged
        return [("panic", "log parsing panicked (%s): %s" % ((raw or {}).get("site"), (raw or {}).get("panic")))]
    if case["op"] == "gitrepo":
        exp = []
        for t in out["truth"]:
            chs = parse_numstat(t["numstat"])
            if t["parents"] <= 1 and chs:
                exp.append({"Rev": t["hash"], "Author": t["author"], "Date": t["date"], "Message": t["subject"], "Changes": chs})
        return classify_c14(exp, out["commits"], case)
    if case["op"] == "parse" and "expected" in case:
        return classify_c14(case["expected"], out["commits"], case)
    return []


def augment_c14(case, impl):
    if case.get("op") == "gitrepo" and impl and impl.get("out"):
        c = dict(case)
        c["text"] = impl["out"]["text"]
        return c
    return case


def view_c14(o):
    if isinstance(o, dict) and "commits" in o:
        return {"commits": o["commits"]}
    return o


def gen_c14(rng, tier):
    nsh = 16
    shards = []
    nreg, npar, nrepo = (120, 60, 3) if tier == "quick" else (3000, 1500, 30)
    for s in range(nsh):
        sh = []
        for _ in range(nreg):
            sh.append({"op": "regex", "line": rand_line(rng)})
        for _ in range(npar):
            adv = rng.random() < 0.25
            h = rand_history(rng, adversarial=adv)
            text, exp = render_synthetic(rng, h, quoted=False)
            sh.append({"op": "parse", "text": text, "expected": exp})
        for _ in range(nrepo):
            sh.append({"op": "gitrepo", "history": rand_history(rng, adversarial=rng.random() < 0.2, n=rng.choice([1, 3, 6, 8]), real=True)})
            if rng.random() < 0.5:
                sh[-1]["quotepath"] = True      # git's default: non-ASCII paths are printed C-quoted ("docs/\350\257...")
            if rng.random() < 0.3:
                sh[-1]["cli"] = True     # parsed by the real `coca git` run in that repository (coca_reporter/commits.json)
        # a few raw malformed texts (no expectation: only model == implementation and no crash)
        for _ in range(5):
            sh.append({"op": "parse", "text": "\n".join(rand_line(rng) for _ in range(rng.choice([1, 3, 6])))})
        shards.append(sh)
    # one log whose middle commit has a subject of 70 000 characters (git prints the whole first paragraph of a message on the
    # header line): every commit is still there, in log order
    h = rand_history(rng, adversarial=False, n=3)
    h[1]["Subject"] = "squash " + "wxyz " * 14000
    text, exp = render_synthetic(rng, h, quoted=False)
    shards[0].append({"op": "parse", "text": text, "expected": exp})
    return shards


# ---------------------------------------------------------------------------------------------
# C15

def rand_commits(rng):
    files = {}
    commits = []
    n = rng.choice([0, 1, 2, 4, 7, 12])
    for i in range(n):
        chs = []
        touched = set()
        for _ in range(rng.choice([0, 1, 1, 2, 3])):
            r = rng.random()
            existing = [p for p in files if p not in touched]
            if r < 0.4 or not existing:
                p = rng.choice(DIRS) + rng.choice(NAMES)
                if p in touched:
                    continue
                mode = "" if p in files else "create"
                files[p] = True
                chs.append({"Added": rng.choice([0, 1, 5]), "Deleted": rng.choice([0, 0, 2]), "File": p, "Mode": mode})
                touched.add(p)
            elif r < 0.6:
                p = rng.choice(existing)
                chs.append({"Added": rng.choice([0, 3]), "Deleted": rng.choice([0, 1]), "File": p, "Mode": ""})
                touched.add(p)
            elif r < 0.75:
                p = rng.choice(existing)
                chs.append({"Added": 0, "Deleted": 4, "File": p, "Mode": "delete"})
                del files[p]
                touched.add(p)
            else:
                p = rng.choice(existing)
                base = p.split("/")[-1]
                d = p[:len(p) - len(base)]
                to = rng.choice([d + "n%d_%s" % (i, base), rng.choice(DIRS) + "m%d_%s" % (i, base), "top%d_%s" % (i, base)])
                arrow = None
                r2 = rng.random()
                if r2 < 0.2:
                    # brace notation with an EMPTY old or new part, with and without a common prefix (synthesised
                    # directly: git itself only prints the prefixed variants)
                    parts = p.split("/")
                    if len(parts) >= 2 and rng.random() < 0.5:
                        k = rng.randint(0, len(parts) - 1)
                        pre = "/".join(parts[:k])
                        suf = "/".join(parts[k:])
                        to = (pre + "/" if pre else "") + "nd%d/" % i + suf
                        arrow = (pre + "/" if pre else "") + "{ => nd%d}/" % i + suf
                    elif len(parts) >= 3:
                        k = rng.randint(0, len(parts) - 2)
                        pre = "/".join(parts[:k])
                        suf = "/".join(parts[k + 1:])
                        to = (pre + "/" if pre else "") + suf
                        arrow = (pre + "/" if pre else "") + "{%s => }/" % parts[k] + suf
                if arrow is None and rng.random() < 0.15:
                    # `git mv -f a b` onto a path that still exists: git prints the rename only; the moved file takes the path over
                    # (its history is the moved file's, what was collected for the overwritten file is gone)
                    live = [x for x in files if x != p and x not in touched]
                    if live:
                        to = rng.choice(live)
                        del files[to]
                if to in files or to in touched:
                    continue
                chs.append({"Added": rng.choice([0, 1]), "Deleted": 0, "File": arrow or git_arrow(p, to), "Mode": ""})
                del files[p]
                files[to] = True
                touched.add(p)
                touched.add(to)
        commits.append({"Rev": hexrev(rng), "Author": rng.choice(AUTHORS[:4]), "Date": "20%02d-%02d-%02d" % (rng.choice([19, 20, 21]), rng.randint(1, 12), rng.randint(1, 28)),
                        "Message": rng.choice(WORDS) + " " + rng.choice(WORDS), "Changes": chs})
    return commits


def split_arrow(f):
    """the two rename notations git prints -> (old, new) or None"""
    m = re.match(r"^(.*)\{(.*) => (.*)\}(.*)$", f)
    if m:
        pre, a, b, suf = m.groups()
        old = pre + a + (suf[1:] if a == "" and suf.startswith("/") else suf)
        new = pre + b + (suf[1:] if b == "" and suf.startswith("/") else suf)
        return old.replace("//", "/"), new.replace("//", "/")
    m = re.match(r"^(.*) => (.*)$", f)
    if m:
        return m.group(1), m.group(2)
    return None


TABLE_HEADERS = {"basic": ["STATISTIC", "NUMBER"], "team": ["ENTITYNAME", "REVSCOUNT", "AUTHORCOUNT"], "top": ["AUTHOR", "COMMITCOUNT", "LINECOUNT"]}


def from_tables(o):
    """the tables `coca git -b -t -o` printed, as the summaries they show; a summary whose table is not there (under its own
    header, with rows of its own width) is None"""
    res = {"team": None, "top": None, "basic": None}
    for t in o.get("tables", []):
        for k, hdr in TABLE_HEADERS.items():
            if t["header"] == hdr and res[k] is None and all(len(r) == len(hdr) for r in t["rows"]):
                try:
                    if k == "team":
                        res[k] = [{"EntityName": r[0], "RevsCount": int(r[1]), "AuthorCount": int(r[2])} for r in t["rows"]]
                    elif k == "top":
                        res[k] = [{"Name": r[0], "CommitCount": int(r[1]), "LineCount": int(r[2])} for r in t["rows"]]
                    else:
                        d = {r[0]: int(r[1]) for r in t["rows"]}
                        res[k] = {x: d[x] for x in ("Commits", "Entities", "Changes", "Authors")} if set(d) == {"Commits", "Entities", "Changes", "Authors"} else None
                except (ValueError, KeyError):
                    res[k] = None
    return res


def augment_c15(case, impl):
    """summaryrepo: the model summarises the commits the real command parsed (its commits.json)"""
    if case.get("op") == "summaryrepo" and impl and isinstance(impl.get("out"), dict) and "commits" in impl["out"]:
        c = dict(case)
        c["commits"] = impl["out"]["commits"]
        return c
    return case


def oracle_c15(case, out, raw):
    if out is None or "panic" in out:
        return [("panic", "git summary panicked: %s" % (raw or {}).get("panic"))]
    ds = []
    if case["op"] == "summaryrepo":
        if "reportUnreadable" in out:
            return [("git-report-unreadable", out["reportUnreadable"])]
        t = from_tables(out)
        missing = [k for k in ("basic", "team", "top") if t[k] is None]
        if missing:
            return [("git-tables-garbled", "`coca git -b -t -o` does not print the %s summary as a table of its own (headers printed: %s)" % (
                "/".join(missing), [x["header"] for x in out.get("tables", [])]))]
        case = {"op": "summary", "commits": out["commits"]}
        out = dict(t)
    commits = case["commits"]
    files = {}
    for c in commits:
        for ch in c.get("Changes") or []:
            f = ch["File"]
            mv = split_arrow(f)
            if mv:
                old, new = mv
                if old in files:
                    files[new] = files.pop(old)
                f = new
            if f not in files:
                files[f] = {"revs": set(), "authors": set(), "date": c["Date"]}
            files[f]["revs"].add(c["Rev"])
            files[f]["authors"].add(c["Author"])
            if ch.get("Mode") == "delete":
                del files[f]
    exp_team = sorted((n, len(v["authors"]), len(v["revs"])) for n, v in files.items())
    got_team = [(t["EntityName"], t["AuthorCount"], t["RevsCount"]) for t in out["team"]]
    if sorted(got_team) != exp_team:
        ds.append(("team-summary-wrong", "got %s expected %s" % (sorted(got_team)[:4], exp_team[:4])))
    if any(a[2] < b[2] for a, b in zip(got_team, got_team[1:])):
        ds.append(("team-summary-order", "not in non-increasing order of revisions"))
    top = {}
    for c in commits:
        t = top.setdefault(c["Author"], [0, 0])
        t[0] += 1
        for ch in c.get("Changes") or []:
            t[1] += ch["Added"] - ch["Deleted"]
    got_top = sorted((t["Name"], t["CommitCount"], t["LineCount"]) for t in out["top"])
    if got_top != sorted((k, v[0], v[1]) for k, v in top.items()):
        ds.append(("top-authors-wrong", "got %s" % got_top[:4]))
    if sum(t["CommitCount"] for t in out["top"]) != len(commits):
        ds.append(("top-authors-sum", "commit counts do not sum to the number of commits"))
    b = out["basic"]
    paths = set(ch["File"] for c in commits for ch in c.get("Changes") or [])
    if (b["Commits"], b["Authors"], b["Entities"]) != (len(commits), len(set(c["Author"] for c in commits)), len(paths)):
        ds.append(("basic-summary-wrong", "got %s" % b))
    if "age" not in out:
        return ds          # (the tables of the command: the age table shows months since today, the changelog is not a table)
    exp_age = sorted((n, v["date"]) for n, v in files.items())
    got_age = [(a["EntityName"], a["Date"]) for a in out["age"]]
    if sorted(got_age) != exp_age:
        ds.append(("code-age-wrong", "got %s expected %s" % (sorted(got_age)[:3], exp_age[:3])))
    if any(a[1] > b2[1] for a, b2 in zip(got_age, got_age[1:])):
        ds.append(("code-age-order", "not oldest first"))
    cl = {}
    for c in commits:
        m = re.match(r"^(\w*)(?:\((.*)\))?: (.*)$", c["Message"])
        if m:
            inner = cl.setdefault(m.group(1), {})
            for ch in c.get("Changes") or []:
                mv = split_arrow(ch["File"])
                f = mv[1] if (mv and re.match(r"^(.*)\{(.*)\s=>\s(.*)\}(.*)$", ch["File"])) else ch["File"]
                inner[f] = inner.get(f, 0) + 1
    if out["changelog"] != cl:
        ds.append(("changelog-wrong", "got %s expected %s" % (str(out["changelog"])[:200], str(cl)[:200])))
    return ds


def view_c15(o):
    """ties of the unstable sorts: compare team/top/age rows sorted by (key desc/asc, rest)"""
    if isinstance(o, dict) and "tables" in o:
        t = from_tables(o)
        if any(v is None for v in t.values()):
            return {"tables": "garbled"}
        o = t
    if not isinstance(o, dict) or "team" not in o:
        return o
    r = dict(o)
    r["team"] = sorted(o["team"], key=lambda t: (-t["RevsCount"], t["EntityName"], t["AuthorCount"]))
    r["top"] = sorted(o["top"], key=lambda t: (-t["CommitCount"], t["Name"]))
    if "age" in o:
        r["age"] = sorted(o["age"], key=lambda t: (t["Date"], t["EntityName"]))
    return r


def view_det_c15(o):
    """for run-to-run comparison (C08): the promised ORDER is kept; only rows with a tied sort key are compared as a set
    (consecutive rows with the same key form one group, sorted inside) — an output that is not sorted by its key, or whose
    order depends on map iteration, then differs between runs"""
    if isinstance(o, dict) and "tables" in o:
        t = from_tables(o)
        if any(v is None for v in t.values()):
            return {"tables": "garbled"}
        o = t
    if not isinstance(o, dict) or "team" not in o:
        return o

    def groups(rows, key):
        out = []
        for r in rows:
            k = key(r)
            if out and out[-1][0] == k:
                out[-1][1].append(json.dumps(r, sort_keys=True))
            else:
                out.append([k, [json.dumps(r, sort_keys=True)]])
        return [[k, sorted(v)] for k, v in out]
    r = dict(o)
    r["team"] = groups(o["team"], lambda t: t["RevsCount"])
    r["top"] = groups(o["top"], lambda t: t["CommitCount"])
    if "age" in o:
        r["age"] = groups(o["age"], lambda t: t["Date"])
    return r


def gen_c15(rng, tier):
    nsh, per = (16, 90) if tier == "quick" else (32, 1500)
    shards = [[{"op": "summary", "commits": rand_commits(rng)} for _ in range(per)] for _ in range(nsh)]
    # the tables of the real command: repositories built with git, `coca git -b -t -o` run in them in a fresh process; the
    # summaries it prints are judged against the commits it parsed (its commits.json)
    for sh in shards:
        for _ in range(3 if tier == "quick" else 20):
            sh.append({"op": "summaryrepo", "cli": True, "history": rand_history(rng, adversarial=False, n=rng.choice([1, 3, 6, 8]), real=True)})
        # a wide one: more files and more authors than the default --size of the tables (20): every one has its row
        n = rng.choice([21, 24, 27])
        sh.append({"op": "summaryrepo", "cli": True, "history": [
            {"Author": "Dev %02d" % (i if rng.random() < 0.9 else 0), "Email": "d@e.f", "Date": "2021-%02d-%02d" % (1 + i // 28, 1 + i % 28), "Subject": "add %d" % i,
             "Ops": [{"Op": "write", "Path": "mod%d/f%d.txt" % (i % 5, i), "Content": "x\n" * (1 + i % 3)}]} for i in range(n)]})
    return shards


# ---------------------------------------------------------------------------------------------

def make(prop):
    class M:
        pass
    m = M()
    m.PROP = prop
    m.FAMILY = FAMILY
    m.GEN_GROUPS = GEN_GROUPS
    m.PROPS = [prop]
    m.WITNESSES = {}
    if prop == "C14":
        m.gen = gen_c14
        m.oracle = oracle_c14
        m.augment = augment_c14
        m.view = view_c14
        m.nontrivial = lambda c, mo: bool(mo.get("commits")) or (c["op"] == "regex" and any(v for k, v in mo.items() if k != "revAll"))
        m.RULE = ("per shard: random/adversarial single lines through all eight regexes (Lean engine vs Go regexp); synthetic logs rendered from abstract "
                  "histories (adds, modifications, deletions, renames in all three notations, binaries; authors with spaces/digits/unicode; subjects with "
                  "brackets, colons, arrows, dates, hex words) with expectation; real repositories built with git (incl. merges) whose log is produced by "
                  "the exact argv of cmd/git.go and judged against `git diff-tree --numstat --summary -M`; raw malformed texts; non-trivial = at least one "
                  "commit parsed or one regex matched")
        m.ASSUMPTIONS = ["git 2.39 is the ground truth for hashes/authors/dates/subjects/numstat", "dates are valid ISO dates"]
        m.TRUSTED = ["git", "Go regexp (compared with the Lean engine on every generated line)"]
    else:
        m.gen = gen_c15
        m.oracle = oracle_c15
        m.augment = augment_c15
        m.view = view_c15
        m.view_det = view_det_c15
        m.nontrivial = lambda c, mo: bool(mo.get("team")) or bool(mo.get("top"))
        m.RULE = ("random commit lists (0-12 commits, 4 authors, creates/modifies/deletes/renames in both notations incl. chains and delete-then-recreate, "
                  "conventional-commit and free subjects, tied sort keys); oracle = independent file-identity semantics; plus real repositories built with git in which "
                  "the REAL `coca git -b -t -o` runs in a fresh process: the tables it prints are judged against the commits it parsed; non-trivial = non-empty summary")
        m.ASSUMPTIONS = ["a rename's old name exists and its new name does not (as git guarantees)", "dates are valid ISO dates (time.Parse)"]
        m.TRUSTED = ["Go sort.Slice (ties canonicalised)", "Go regexp"]
    return m
