"""C19 build dependencies: pom.xml / build.gradle generators with ground truth, oracle."""

PROP = "C19"
FAMILY = "deps"
PROPS = ["C19"]
GEN_GROUPS = []

GROUPS = ["org.springframework.boot", "junit", "com.google.guava", "org.a", "io.b.c", "${project.groupId}", "g"]
ARTS = ["spring-boot-starter", "junit", "guava", "lib-a", "core", "x"]
SCOPES = ["test", "compile", "provided", "runtime", None, None]
CONFS = ["implementation", "testImplementation", "api", "compileOnly", "runtimeOnly", "developmentOnly"]


def esc(s):
    return s.replace("&", "&amp;").replace("<", "&lt;")


class Xml:
    """tiny XML writer producing the text and the token stream encoding/xml yields for it"""

    def __init__(self, rng):
        self.rng = rng
        self.text = ""
        self.toks = []

    def ws(self):
        w = self.rng.choice(["\n  ", "\n", " ", "", "\n\t\t"])
        if w:
            self.text += w
            self.toks.append({"t": "chars", "v": w})

    def comment(self):
        if self.rng.random() < 0.15:
            self.text += "<!-- " + self.rng.choice(["note", "<dependency>", "a > b"]) + " -->"
            self.toks.append({"t": "other"})

    def start(self, name, attrs=""):
        self.text += "<" + name + attrs + ">"
        self.toks.append({"t": "start", "v": name})

    def stop(self, name):
        self.text += "</" + name + ">"
        self.toks.append({"t": "stop"})

    def chars(self, s, pad=True):
        p1 = self.rng.choice(["", "", " ", "\n    "]) if pad else ""
        p2 = self.rng.choice(["", "", " ", "\n  "]) if pad else ""
        self.text += p1 + esc(s) + p2
        self.toks.append({"t": "chars", "v": p1 + s + p2})

    def leaf(self, name, value):
        self.start(name)
        self.chars(value)
        self.stop(name)


def gen_pom(rng):
    x = Xml(rng)
    if rng.random() < 0.6:
        x.text += '<?xml version="1.0" encoding="UTF-8"?>'
        x.toks.append({"t": "other"})
        x.ws()
    x.start("project", ' xmlns="http://maven.apache.org/POM/4.0.0"' if rng.random() < 0.5 else "")
    x.ws()
    deps = []

    def section_before():
        for name in rng.sample(["modelVersion", "groupId", "artifactId", "version", "properties", "parent", "dependencyManagement", "build", "reporting"], rng.choice([0, 2, 4])):
            x.comment()
            if name == "properties":
                x.start(name); x.ws(); x.leaf("java.version", "1.8"); x.ws(); x.stop(name)
            elif name in ("build", "reporting"):
                # a build / reporting section written ABOVE the dependencies, with a plugin configuration whose elements have
                # names an HTML reader would treat specially (link, param, meta, base, br, img): XML knows no such thing
                x.start(name); x.ws(); x.start("plugins"); x.ws(); x.start("plugin"); x.ws()
                x.leaf("groupId", "org.apache.maven.plugins"); x.ws(); x.leaf("artifactId", "maven-javadoc-plugin"); x.ws()
                x.start("configuration"); x.ws(); x.start("links"); x.ws()
                for _ in range(rng.choice([1, 2])):
                    x.leaf("link", "https://docs.example.org/api/"); x.ws()
                x.stop("links"); x.ws()
                for el in rng.sample(["param", "meta", "base", "br", "img", "input", "source"], rng.choice([0, 1, 2])):
                    x.leaf(el, "v"); x.ws()
                x.stop("configuration"); x.ws(); x.stop("plugin"); x.ws(); x.stop("plugins"); x.ws(); x.stop(name)
            elif name == "parent":
                x.start(name); x.ws(); x.leaf("groupId", "org.parent"); x.ws(); x.leaf("artifactId", "p"); x.ws(); x.stop(name)
            elif name == "dependencyManagement":
                x.start(name); x.ws(); x.start("dependencies"); x.ws(); x.start("dependency"); x.leaf("groupId", "managed.g"); x.leaf("artifactId", "m"); x.stop("dependency"); x.ws(); x.stop("dependencies"); x.ws(); x.stop(name)
            else:
                x.leaf(name, rng.choice(["4.0.0", "com.me", "app", "1.0-SNAPSHOT"]))
            x.ws()
    section_before()
    has_deps = rng.random() < 0.9
    if has_deps:
        x.start("dependencies")
        x.ws()
        for _ in range(rng.choice([0, 1, 2, 3, 6])):
            x.comment()
            g, a, sc = rng.choice(GROUPS), rng.choice(ARTS), rng.choice(SCOPES)
            x.start("dependency")
            x.ws()
            fields = [("groupId", g), ("artifactId", a)]
            if sc:
                fields.append(("scope", sc))
            extra = rng.sample(["version", "type", "optional", "exclusions", "classifier"], rng.choice([0, 1, 2]))
            for e in extra:
                fields.append((e, None))
            rng.shuffle(fields)
            for k, v in fields:
                if k == "exclusions":
                    x.start("exclusions"); x.ws(); x.start("exclusion"); x.leaf("groupId", "excluded.g"); x.leaf("artifactId", "ex"); x.stop("exclusion"); x.ws(); x.stop("exclusions")
                elif v is None:
                    x.leaf(k, rng.choice(["1.2.3", "jar", "true", "${v}"]))
                else:
                    x.leaf(k, v)
                x.ws()
            x.stop("dependency")
            x.ws()
            deps.append({"GroupId": g, "ArtifactId": a, "Scope": sc or ""})
        x.stop("dependencies")
        x.ws()
    for name in rng.sample(["build", "repositories", "profiles"], rng.choice([0, 1, 2])):
        if name in x.text:
            continue
        x.start(name); x.ws()
        if name == "build":
            x.start("plugins"); x.start("plugin"); x.leaf("groupId", "plugin.g"); x.leaf("artifactId", "pl"); x.stop("plugin"); x.stop("plugins"); x.ws()
        x.stop(name); x.ws()
    x.stop("project")
    x.text += "\n"
    x.toks.append({"t": "chars", "v": "\n"})
    return x.text, x.toks, deps


STR_KINDS = ["single", "double", "parenSingle", "parenDouble", "parenSingleClosure"]
MULTI_KINDS = ["multi", "parenMulti"]
OTHER_KINDS = ["map", "project", "parenProject", "fileTree", "gstring", "files", "nocolon", "platform",
               # statements inside the dependencies block that are no entries at all
               "def", "assign", "ifblock", "constraints", "call"]


def gen_gradle(rng):
    lines = []
    stmts = []
    exp = []
    for blk in rng.sample(["plugins {\n    id 'java'\n}", "repositories {\n    mavenCentral()\n}", "group = 'com.me'", "apply plugin: 'java'"], rng.choice([0, 1, 3])):
        lines.append(blk)
    body = []
    n = rng.choice([0, 1, 2, 3, 5])      # 0: an empty dependencies block
    for _ in range(n):
        conf = rng.choice(CONFS)
        g, a = rng.choice([x for x in GROUPS if "$" not in x]), rng.choice(ARTS)
        v = rng.choice([":1.0", ":2.3.4.RELEASE", "", ":1.0:linux-x86_64", ":1.0@aar", ":28.+", ":[4.12,5.0)"])      # classifier, extension, dynamic version, range
        r_k = rng.random()
        kind = rng.choice(STR_KINDS) if r_k < 0.6 else rng.choice(MULTI_KINDS) if r_k < 0.7 else rng.choice(OTHER_KINDS)
        text = g + ":" + a + v
        texts = None
        if kind in MULTI_KINDS:
            texts = [text] + ["%s:%s%s" % (rng.choice([x for x in GROUPS if "$" not in x]), rng.choice(ARTS), rng.choice([":1", ""]))
                              for _ in range(rng.choice([1, 2]))]
            q = rng.choice(["'", '"'])
            joined = ", ".join(q + t + q for t in texts)
            body.append(("    %s %s" if kind == "multi" else "    %s(%s)") % (conf, joined))
        elif kind == "nocolon":
            body.append("    %s 'libs'" % conf)
        elif kind == "platform":
            body.append("    %s platform('%s')" % (conf, text))
        elif kind == "def":
            body.append("    def ver = '1.0'")
        elif kind == "assign":
            body.append("    ver = 3")
        elif kind == "ifblock":
            body.append("    if (flag) {\n        %s '%s'\n    }" % (conf, text))
        elif kind == "constraints":
            body.append("    constraints {\n        %s '%s'\n    }" % (conf, text))
        elif kind == "call":
            body.append("    println('%s')" % text.replace(":", " "))
        if kind == "single":
            body.append("    %s '%s'" % (conf, text))
        elif kind == "double":
            body.append('    %s "%s"' % (conf, text))
        elif kind == "parenSingle":
            body.append("    %s('%s')" % (conf, text))
        elif kind == "parenDouble":
            body.append('    %s("%s")' % (conf, text))
        elif kind == "parenSingleClosure":
            body.append("    %s('%s') {\n        exclude group: 'x.y'\n    }" % (conf, text))
        elif kind == "map":
            body.append("    %s group: '%s', name: '%s', version: '1'" % (conf, g, a))
        elif kind == "project":
            body.append("    %s project(':%s')" % (conf, a))
        elif kind == "parenProject":
            body.append("    %s(project(':%s'))" % (conf, a))
        elif kind == "fileTree":
            body.append("    %s fileTree(dir: 'libs', include: ['*.jar'])" % conf)
        elif kind == "files":
            body.append("    %s files('libs/a.jar')" % conf)
        elif kind == "gstring":
            body.append('    %s "%s:%s:${ver}"' % (conf, g, a))
        stmts.append({"conf": conf, "kind": kind, "text": text, "texts": texts or []})
        if kind in STR_KINDS:
            exp.append({"GroupId": g, "ArtifactId": a, "Scope": conf})
        for t in texts or []:
            exp.append({"GroupId": t.split(":")[0], "ArtifactId": t.split(":")[1], "Scope": conf})
    # the layout of the block header is free
    lines.append(rng.choice(["dependencies {", "dependencies {", "dependencies{", "dependencies  {", "dependencies\t{"]) + "\n" + "\n".join(body) + "\n}")
    for blk in rng.sample(["test {\n    useJUnitPlatform()\n}", "sourceCompatibility = '1.8'"], rng.choice([0, 1])):
        lines.append(blk)
    return "\n\n".join(lines) + "\n", stmts, exp


# statements a real build.gradle contains, inside and outside the dependencies block (Groovy DSL)
SOUP = ["def ver = '1.0'", "ver = 3", "ext.kotlin = '1.9'", "String s", "int k = 3", "println 'x'", "println \"v=$ver\"", "apply plugin: 'java'",
        "apply from: 'other.gradle'", "group = 'com.x'", "version '1.0'", "sourceCompatibility = JavaVersion.VERSION_17", "foo", "foo()", "x.y.z", "x.y.z()",
        "return", "assert ver != null", "import org.x.Y", "throw new GradleException('no')", "if (flag) {\n%s\n}", "if (a) {\n%s\n} else {\n%s\n}",
        "for (p in projects) {\n%s\n}", "while (false) {\n%s\n}", "try {\n%s\n} catch (Exception e) {\n%s\n}", "plugins {\n    id 'java'\n    id 'x' version '1'\n}",
        "repositories {\n    mavenCentral()\n    maven { url 'https://x' }\n}", "task foo {\n%s\n}", "task bar(type: Copy) {\n    from 'a'\n    into 'b'\n}",
        "tasks.withType(JavaCompile) {\n%s\n}", "tasks.named('test') {\n    useJUnitPlatform()\n}", "test {\n    useJUnitPlatform()\n}", "java {\n    toolchain {\n%s\n    }\n}",
        "configurations.all {\n%s\n}", "configurations {\n    extra\n}", "allprojects {\n%s\n}", "subprojects {\n%s\n}", "buildscript {\n%s\n}", "ext {\n    v = '1'\n}",
        "dependencies {\n%s\n}", "dependencies{\n%s\n}", "dependencies {\n}", "constraints {\n%s\n}", "implementation 'a:b:1'", "implementation \"a:b:$ver\"", "implementation('a:b') {\n    exclude group: 'c'\n}",
        "implementation platform('a:b:1')", "implementation project(':x')", "implementation(project(':x'))", "implementation files('a.jar', 'b.jar')", "implementation fileTree(dir: 'libs', include: ['*.jar'])",
        "implementation group: 'a', name: 'b', version: '1'", "implementation libs.guava", "implementation 'a:b', 'c:d'", "implementation(['a:b', 'c:d'])", "testImplementation(platform('a:b'))",
        "add('implementation', 'a:b')", "implementation 'nocolon'", "implementation()", "implementation ''", "implementation \"\"", "implementation 'a:b:1:cls@jar'", "runtimeOnly(\"a:b\")",
        "api 'a:b'; implementation 'c:d'", "[1, 2].each { println it }", "def m = [a: 1, b: 2]", "def c = { x -> x + 1 }", "x = y ? 1 : 2", "x += 1", "list << 'a'", "assert 1 == 1 : 'msg'",
        "class Foo {\n    String n\n}", "@Grab('a:b')\nimport x.Z", "wrapper { gradleVersion = '8' }", "dependencies.add('api', 'a:b')", "project.dependencies {\n%s\n}",
        "// comment", "/* block */", "/** doc */", "", "'just a string'", "\"gstring ${x}\"", "1 + 2", "new File('x').text", "this.foo = 1", "super.foo()", "a.b { c { d 'e' } }"]


def soup(rng, depth=0):
    out = []
    for _ in range(rng.choice([1, 2, 3, 5])):
        s = rng.choice(SOUP)
        while "%s" in s:
            inner = soup(rng, depth + 1) if depth < 2 else "println 'deep'"
            s = s.replace("%s", "\n".join("    " + l for l in inner.split("\n")), 1)
        out.append(s)
    return "\n".join(out)


def gen(rng, tier):
    nsh, per = (16, 50) if tier == "quick" else (32, 1200)
    shards = []
    for s in range(nsh):
        sh = []
        for i in range(per):
            r = rng.random()
            if r < 0.45:
                text, toks, deps = gen_pom(rng)
                sh.append({"op": "maven", "text": text, "tokens": toks, "expected": deps})
            elif r < 0.8:
                text, stmts, exp = gen_gradle(rng)
                sh.append({"op": "gradle", "text": text, "stmts": stmts, "expected": exp})
            else:
                files, poms, gradles, declared = {}, [], [], []
                layout = []
                if rng.random() < 0.8:
                    text, toks, deps = gen_pom(rng)
                    layout.append(("pom.xml", text)); poms.append({"tokens": toks}); declared += deps
                if rng.random() < 0.3:
                    text, toks, deps = gen_pom(rng)
                    layout.append(("sub/pom.xml", text)); poms.append({"tokens": toks}); declared += deps
                gdecl = []
                if rng.random() < 0.6:
                    text, stmts, exp = gen_gradle(rng)
                    layout.append(("build.gradle", text)); gradles.append({"stmts": stmts}); gdecl += exp
                for p, t in layout:
                    files[p] = t
                declared += gdecl
                imports = []
                for d in declared:
                    if rng.random() < 0.5 and "$" not in d["GroupId"]:
                        imports.append(d["GroupId"] + "." + rng.choice(["Foo", "util.Bar"]))
                imports += ["java.util.List"]
                clzs = [{"NodeName": "A", "Package": "p", "Imports": [{"Source": i} for i in imports[:len(imports) // 2 + 1]]},
                        {"NodeName": "B", "Package": "p", "Imports": [{"Source": i} for i in imports[len(imports) // 2 + 1:]]}]
                exp = [d for d in declared if not any(d["GroupId"] in i for i in imports)]
                sh.append({"op": "unused", "files": files, "poms": poms, "gradles": gradles, "imports": imports, "clzs": clzs, "expected": exp})
                if rng.random() < 0.25:
                    # through the dependency sub-command itself (analysis/dep: `deps -p dir`) in a fresh process, the imports
                    # written as Java sources into the tree; its printed table is read back
                    sh[-1]["cli"] = True
                    if rng.random() < 0.5:
                        # half of them with the importing class among the TEST sources (src/test/java/p/BTest.java): what only
                        # tests import is imported
                        sh[-1]["testSources"] = True
                        sh[-1]["clzs"] = [{"NodeName": "A", "Package": "p", "Imports": [{"Source": "java.util.Map"}]},
                                          {"NodeName": "B", "Package": "p", "Imports": [{"Source": i} for i in imports]}]
        # any Gradle script must be survived: the declared dependencies cannot be extracted from a crash
        for i in range(per // 2):
            sh.append({"op": "gradlesoup", "text": soup(rng) + "\n"})
        shards.append(sh)
    return shards


def oracle(case, out, raw):
    if out is None or "panic" in out:
        return [("panic", "%s extraction panicked at %s: %s" % (case["op"], (raw or {}).get("site"), (raw or {}).get("panic")))]
    if case["op"] == "gradlesoup":
        return []
    if out["deps"] != case["expected"]:
        got, exp = out["deps"], case["expected"]
        return [("deps-differ", "got %s expected %s" % (str(got)[:300], str(exp)[:300]))]
    return []


def nontrivial(case, mo):
    return bool(mo.get("deps"))


RULE = ("pom.xml files (XML declaration, namespace, comments, sections before/after incl. parent, properties and dependencyManagement with nested "
        "<dependencies>, 0-6 dependencies with children in any order and optional scope/version/type/optional/classifier/exclusions, property "
        "placeholders) rendered together with the token stream encoding/xml yields; build.gradle scripts (blocks around; single-/double-quoted, "
        "parenthesised, parenthesised-with-closure notation; map notation, project(), fileTree(), files(), GStrings to be skipped); projects combining "
        "both with Java import sets for the unused report; non-trivial = at least one dependency returned")
ASSUMPTIONS = ["encoding/xml tokenises a well-formed document as the writer in vlib/p_deps.py records it (contract, exercised on every case)",
               "the Groovy parser is exercised, the model works on abstract statements"]
TRUSTED = ["encoding/xml", "ANTLR Groovy parser"]
WITNESSES = {}
