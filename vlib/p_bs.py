"""C10 bad-smell thresholds: generators (decision layer on JSON nodes; rendered Java classes through
the real listener) and the oracle written from the property's own numbers."""
import itertools
import json

from . import javagen

PROP = "C10"
FAMILY = "bs"
PROPS = ["C10", "C10Shape"]
GEN_GROUPS = ["Bs"]
KINDS = ["lazyElement", "longMethod", "dataClass", "largeClass", "complexCondition", "repeatedSwitches", "longParameterList"]
SIZED = ["largeClass", "repeatedSwitches", "longParameterList", "longMethod", "dataClass"]


def fn_json(name, start, stop, nparams, ifsize, swsize, ifs):
    return {"Name": name, "Parameters": [{"TypeValue": "int", "TypeType": "a%d" % i} for i in range(nparams)],
            "Position": {"StartLine": start, "StopLine": stop},
            "FunctionBS": {"IfSize": ifsize, "SwitchSize": swsize, "IfInfo": [{"StartLine": a, "EndLine": b} for a, b in ifs]}}


def rand_fn(rng, line):
    name = rng.choice(["run", "getX", "setY", "work", "get", "settle", "gets", "compute", "isOk"])
    ln = rng.choice([0, 1, 5, 29, 30, 31, 32, 60])
    npar = rng.choice([0, 1, 4, 5, 6, 7])
    ifs = []
    nif = rng.choice([0, 0, 1, 2, 7, 8, 9])
    for i in range(nif):
        h = rng.choice([0, 1, 2, 3, 4])
        ifs.append((line + 1 + i, line + 1 + i + h))
    # IfSize normally equals len(IfInfo) but the decision layer must not assume it
    ifsize = nif if rng.random() < 0.8 else rng.choice([7, 8, 9])
    sw = rng.choice([0, 0, 1, 7, 8, 9])
    return fn_json(name, line, line + ln, npar, ifsize, sw, ifs), line + ln + 2


def rand_nodes(rng):
    nodes = []
    for i in range(rng.choice([1, 1, 2, 3])):
        ty = rng.choice(["Class", "Class", "Class", "Interface", ""])
        r = rng.random()
        fns = []
        line = 5
        if r < 0.15:
            nf = 0
        elif r < 0.35:
            nf = rng.choice([19, 20, 21, 25])
        else:
            nf = rng.choice([1, 2, 3, 4])
        gs = rng.choice([0.0, 0.3, 1.0])
        for j in range(nf):
            f, line = rand_fn(rng, line)
            if rng.random() < gs:
                f["Name"] = rng.choice(["getA", "setB", "getter", "set"])
            elif nf >= 19:
                f["Name"] = "m%d" % j
            fns.append(f)
        nodes.append({"NodeName": "C%d" % i, "Type": ty, "Package": "p", "FilePath": "src/C%d.java" % i, "Functions": fns})
    return nodes


def rand_ignore(rng):
    r = rng.random()
    if r < 0.4:
        return [""]           # what `-x ""` gives
    k = rng.choice([1, 1, 2, 3])
    return rng.sample(KINDS + ["refusedBequest", "nope"], k)


# ---- rendered classes -------------------------------------------------------------------------

def rand_unit(rng, idx):
    kind = "class" if rng.random() < 0.85 else "interface"
    members = []
    r = rng.random()
    if r < 0.12:
        nm = 0
    elif r < 0.25:
        nm = rng.choice([19, 20, 21])
    else:
        nm = rng.choice([1, 2, 3])
    gs = rng.choice([0.0, 0.0, 0.4, 1.0])
    for j in range(nm):
        name = "m%d" % j
        if rng.random() < gs:
            name = rng.choice(["get", "set"]) + "V%d" % j
        npar = rng.choice([0, 1, 2, 5, 6]) if nm < 10 else rng.choice([0, 1])
        params = [{"type": rng.choice(["int", "String", "List<String>", "int[]"]), "name": "a%d" % i} for i in range(npar)]
        body = None
        if kind == "class":
            body = [("local", "int", "tick", ("lit", "0"))]
            if nm < 10:
                shape = rng.choice(["plain", "ifs", "switches", "long", "cond", "mixed"])
                if shape == "ifs":
                    for _ in range(rng.choice([7, 8, 9])):
                        body.append(("if", ("bin", ">", ("name", "tick"), ("lit", "1")), 1, [("filler", 1)], None))
                elif shape == "switches":
                    arrow = rng.choice([0.0, 0.0, 0.5, 1.0])        # old-style, mixed, or all arrow-form switch statements
                    for _ in range(rng.choice([7, 8, 9])):
                        if rng.random() < arrow:
                            body.append(("switch_arrow", ("name", "tick"), [[("filler", 1)], [("filler", 1)]], rng.random() < 0.3))
                        else:
                            body.append(("switch", ("name", "tick"), [[("filler", 1)], [("filler", 1)]]))
                elif shape == "long":
                    body.append(("filler", rng.choice([25, 26, 27, 28, 29, 30, 40])))
                elif shape == "cond":
                    for _ in range(rng.choice([1, 2, 3])):
                        body.append(("if", ("bin", ">", ("name", "tick"), ("lit", "1")), rng.choice([1, 2, 3, 4, 5]),
                                     [("if", ("name", "true"), 4, [("filler", 1)], None)], rng.choice([None, [("filler", 1)]])))
                elif shape == "mixed":
                    body.append(("while", ("bin", "<", ("name", "tick"), ("lit", "3")), [("if", ("name", "true"), 4, [("filler", 2)], None)]))
                    body.append(("try", [("filler", 1)], "Exception", [("switch", ("name", "tick"), [[("filler", 1)]])]))
                    body.append(("if", ("name", "true"), 1, [("filler", 1)], [("if", ("name", "false"), 1, [("filler", 1)], None)]))
                    body.append(("filler", rng.choice([1, 20, 24])))
            body.append(("return", None))
        mods = ["public"] if kind == "class" else []
        if kind == "interface" and rng.random() < 0.3:
            # a default method: an interface method with a body, as long as any other method
            mods = ["default"]
            body = [("local", "int", "tick", ("lit", "0")), ("filler", rng.choice([1, 5, 27, 28, 29, 30, 40])), ("return", None)]
        m = {"kind": "method", "annos": ([{"name": "Override", "args": None}] if rng.random() < 0.2 and kind == "class" else []),
             "mods": mods, "ret": "void", "name": name, "params": params, "body": body,
             "pre_nl": rng.choice([1, 2]), "mods_own_line": rng.random() < 0.15}
        members.append(m)
    u = {"pkg": "p.k%d" % idx, "imports": ["java.util.List"], "kind": kind, "name": "K%d" % idx, "members": members,
         "fields": ([{"mods": ["private"], "type": "int", "name": "f"}] if rng.random() < 0.5 and kind == "class" else [])}
    return u


def facts_to_node(path, facts):
    fns = []
    for f in facts["functions"]:
        fns.append(fn_json(f["name"], f["startLine"], f["stopLine"], len(f["params"]), f["ifSize"], f["switchSize"], f["ifs"]))
    return {"NodeName": facts["name"], "Type": "Class" if facts["kind"] == "class" else "Interface", "Package": facts["pkg"],
            "FilePath": path, "Functions": fns}


def cluster_unit(idx, n):
    """one class of a cluster in which every class holds and calls every other one (many connected call chains)"""
    others = [j for j in range(n) if j != idx]
    body = [("expr", ("call", ("name", "fK%d" % j), "sayHi", [])) for j in others] + [("return", None)]
    return {"pkg": "p.cluster", "imports": [], "kind": "class", "name": "K%d" % idx,
            "fields": [{"mods": ["private"], "type": "K%d" % j, "name": "fK%d" % j} for j in others],
            "members": [{"kind": "method", "annos": [], "mods": ["public"], "ret": "void", "name": "sayHi", "params": [], "body": body,
                         "pre_nl": 1, "mods_own_line": False}]}


def rand_dir_case(rng):
    files, nodes = {}, []
    n = rng.choice([1, 2, 3])
    layout = rng.choice(["flat", "maven"])
    cluster = rng.random() < 0.12
    if cluster:
        n = rng.choice([3, 4, 5])
    for i in range(n):
        u = cluster_unit(i, n) if cluster else rand_unit(rng, i)
        if cluster:
            text, facts = javagen.render_unit(u, rng, wild=0.0, comments=["note"])
            path = ("src/main/java/p/cluster/K%d.java" % i) if layout == "maven" else "K%d.java" % i
            files[path] = text
            nodes.append(facts_to_node(path, facts))
            continue
        text, facts = javagen.render_unit(u, rng, wild=rng.choice([0.0, 0.0, 0.05]), comments=["note", "if (x) {", "switch"])
        path = ("src/main/java/p/k%d/K%d.java" % (i, i)) if layout == "maven" else "K%d.java" % i
        files[path] = text
        nodes.append(facts_to_node(path, facts))
    if rng.random() < 0.3:
        files["src/test/java/p/KTest.java" if layout == "maven" else "KTest.java"] = "package p; public class KTest { }\n"
        files["README.md"] = "class X {}"
    nodes.sort(key=lambda x: x["FilePath"])   # filepath.Walk is lexical
    return {"op": "bsdir", "files": files, "nodes": nodes}


def gen(rng, tier):
    nsh = 16
    per = 60 if tier == "quick" else 1200
    shards = []
    # boundary-exhaustive decision layer: one method around every threshold x every single-kind ignore x sort
    bnd = []
    for ln, npar, nif, sw, h in itertools.product([29, 30, 31], [4, 5, 6], [7, 8, 9], [7, 8, 9], [2, 3, 4]):
        f = fn_json("work", 10, 10 + ln, npar, nif, sw, [(12, 12 + h)])
        bnd.append({"op": "bs", "nodes": [{"NodeName": "B", "Type": "Class", "Package": "p", "FilePath": "B.java", "Functions": [f]}],
                    "ignore": [""], "sort": (ln + npar + nif) % 2 == 0})
    for nm in [0, 1, 19, 20, 21]:
        for gsn in [0, 1, nm]:
            for ty in ["Class", "Interface"]:
                fns = [fn_json(("get%d" if j < gsn else "m%d") % j, 5 + j, 6 + j, 0, 0, 0, []) for j in range(nm)]
                for ig in [[""]] + [[k] for k in KINDS]:
                    bnd.append({"op": "bs", "nodes": [{"NodeName": "B", "Type": ty, "Package": "p", "FilePath": "B.java", "Functions": fns}],
                                "ignore": ig, "sort": False})
    shards.append(bnd)
    for s in range(nsh):
        sh = []
        for i in range(per):
            if rng.random() < 0.55:
                sh.append({"op": "bs", "nodes": rand_nodes(rng), "ignore": rand_ignore(rng), "sort": rng.random() < 0.5})
            else:
                c = rand_dir_case(rng)
                c["ignore"] = rand_ignore(rng)
                c["sort"] = rng.random() < 0.5
                # a fifth of the rendered trees go through the real `coca bs -p dir [-x kinds] [-s type]` in a fresh process
                # (coca_reporter/bs.json); ignore rules must survive the command line
                if (rng.random() < 0.2 or any("cluster" in f or len(c["files"]) >= 4 for f in c["files"])) and all("," not in x for x in c["ignore"]) \
                        and rng.random() < 0.6:
                    c["cli"] = True
                sh.append(c)
        shards.append(sh)
    return shards


# ---- oracle: the statement's own numbers ------------------------------------------------------

def is_gs(name):
    return name.startswith("get") or name.startswith("set")


def expected(nodes):
    out = []
    for n in nodes:
        fns = n.get("Functions") or []
        is_class = n.get("Type") == "Class"
        path = n.get("FilePath", "")
        if is_class and len(fns) == 0:
            out.append(("lazyElement", path, "", 0))
        for f in fns:
            p = f["Position"]
            ln = p["StopLine"] - p["StartLine"]
            if ln > 30:
                out.append(("longMethod", path, str(p["StartLine"]), ln))
            np_ = len(f.get("Parameters") or [])
            if np_ > 5:
                out.append(("longParameterList", path, str(p["StartLine"]), np_))
            b = f["FunctionBS"]
            if b["IfSize"] >= 8:
                out.append(("repeatedSwitches", path, str(p["StartLine"]), b["IfSize"]))
            if b["SwitchSize"] >= 8:
                out.append(("repeatedSwitches", path, str(p["StartLine"]), b["SwitchSize"]))
            for i in b.get("IfInfo") or []:
                if i["EndLine"] - i["StartLine"] + 1 >= 4:
                    out.append(("complexCondition", path, str(i["StartLine"]), 0))
        if is_class and fns and all(is_gs(f["Name"]) for f in fns):
            out.append(("dataClass", path, "", len(fns)))
        normal = sum(1 for f in fns if not is_gs(f["Name"]))
        if is_class and normal >= 20:
            out.append(("largeClass", path, "", normal))
    return out


def oracle(case, out, raw):
    if out is None or "panic" in out:
        return [("panic", "bad-smell analysis panicked: %s" % (raw or {}).get("panic"))]
    ds = []
    ig = set(case.get("ignore") or [])
    exp = [e for e in expected(case["nodes"]) if e[0] not in ig]
    if "list" in out:
        got = [(f["Bs"], f["File"], f["Line"], f["Size"]) for f in out["list"]]
    else:
        got = [(f["Bs"], f["File"], f["Line"], f["Size"]) for k, g in out["sorted"].items() for f in g]
        for k, g in out["sorted"].items():
            if any(f["Bs"] != k for f in g):
                ds.append(("sort-grouping", "group %s holds a finding of another kind" % k))
            if k in SIZED:
                sizes = [f["Size"] for f in g]
                if any(a < b for a, b in zip(sizes, sizes[1:])):
                    ds.append(("sort-sized-not-nonincreasing", "kind %s sizes %s" % (k, sizes[:8])))
    if sorted(got) != sorted(exp):
        miss = sorted(set(exp) - set(got))[:3]
        extra = sorted(set(got) - set(exp))[:3]
        ds.append(("findings-differ-from-thresholds", "missing %s spurious %s" % (miss, extra)))
    return ds


def view(o):
    """tie order of the unstable sort is unspecified: canonicalise sized groups by (-size, rest)"""
    if isinstance(o, dict) and "extra" in o:
        o = {k: v for k, v in o.items() if k != "extra"}      # kinds outside the modelled decision layer: compared between runs only (view_det)
    if not isinstance(o, dict) or "sorted" not in o:
        return o
    res = {}
    for k, g in o["sorted"].items():
        if k in SIZED:
            res[k] = sorted(g, key=lambda f: (-f["Size"], f["File"], f["Line"], f["Description"]))
        else:
            res[k] = g
    return {"sorted": res}


def view_det(o):
    """run-to-run comparison (C08): the promised order of the sized groups is kept, ties compared as sets"""
    if not isinstance(o, dict) or "sorted" not in o:
        return o
    from . import core
    r = {"sorted": {k: (core.tie_groups(g, lambda f: f["Size"]) if k in SIZED else sorted(json.dumps(f, sort_keys=True) for f in g))
                    for k, g in o["sorted"].items()}}
    if "extra" in o:
        r["extra"] = o["extra"]
    return r


def nontrivial(case, mo):
    return bool(mo.get("list") or mo.get("sorted"))


RULE = ("(a) boundary-exhaustive decision layer: every combination of {29,30,31} lines x {4,5,6} params x {7,8,9} ifs x {7,8,9} switches x "
        "condition heights {3,4,5 lines}, method counts {0,1,19,20,21} x getter shares x Class/Interface x each ignored kind; "
        "(b) random BSDataStruct lists; (c) rendered Java classes/interfaces (vlib/javagen.py, with ground-truth line numbers) through the real "
        "ANTLR listener and AnalysisPath, flat and Maven layouts; non-trivial = at least one finding; distinct by case JSON")
ASSUMPTIONS = ["for rendered classes the syntactic facts (start/stop lines, top-level if/switch counts, condition spans) are computed by the renderer; "
               "'start line' = line of the return-type token (DESIGN App. B C10)",
               "refusedBequest and graphConnectedCall are outside the statement and filtered from both sides"]
TRUSTED = ["vlib/javagen.py renderer ground truth", "ANTLR Java parser (exercised, not modelled)"]
WITNESSES = {}


def features(case):
    """which finding kinds the statement demands for this case, the ignore/sort configuration: printed into the evidence"""
    out = ["expects:" + k for k in sorted(set(e[0] for e in expected(case.get("nodes") or [])))] or ["expects:nothing"]
    out.append("ignore:%d" % len([x for x in case.get("ignore", []) if x]))
    out.append("sort:%s" % bool(case.get("sort")))
    return out
