"""C17 TODO scan: segment-based generator with ground truth, malformed stream, oracle."""
import re

PROP = "C17"
FAMILY = "todo"
PROPS = ["C17"]
GEN_GROUPS = ["Todo"]

CODE_TOKENS = ["x", "foo", "=", "1", "42", "+", "(", ")", "{", "}", ";", "a.b", "->", "::", "==", "/ 2", "* 3", "/= 4", "é", "if", "return", "@A", "%", "<<=", "0x1F", "1.5e3", "TODO", "todo"]
STR_PIECES = ["abc", "// TODO not a comment", "/* TODO */", "# TODO", "TODO", "\\\"", "\\\\", "\\n", "é", " ", "'", "`", "*/", "\\u00e9", "\\7", "\\177"]
TODO_TEXTS = ["TODO x", " TODO: fix this", "FIXME(bob): z", " todo(a.b@c-d_e+f)::: w", "todo", "FixMe", " TODO(ann lee) hello world", "TODO:", "TODO()", " TODO (x) y",
              "TODOS plural", "fixmeNOW", " TODO é unicode", "TODO(bob)", "  \tTODO\ttabbed", "TODO: a * b */ c", "Todo(a):b", "TODO: see http://x/y",
              # a colon between the word and the parenthesised name: the name is still the assignee
              " TODO: (alice) tidy this up", "FIXME: (bob): second", "todo:(carol) third", "TODO :(dan) x"]
PLAIN_TEXTS = ["", " ", "just a note", "x TODO later", "mention FIXME inside", "*", "/", "##", "(bob) TODO", "DOTO", " T ODO", "é", "!", "/ TODO"]


def rand_text(rng):
    return rng.choice(TODO_TEXTS) if rng.random() < 0.55 else rng.choice(PLAIN_TEXTS)


def rand_segments(rng):
    segs = []
    n = rng.choice([1, 2, 4, 7, 12])
    for _ in range(n):
        r = rng.random()
        if r < 0.22:
            segs.append(("code", [rng.choice(CODE_TOKENS) for _ in range(rng.choice([1, 2, 4]))]))
        elif r < 0.34:
            segs.append(("str", "".join(rng.choice(STR_PIECES) for _ in range(rng.choice([0, 1, 2, 4])))))
        elif r < 0.40:
            segs.append(("chr", rng.choice(["x", "\\'", "\"", "#", "/", "\\\\", "`", "é", "\\n", "\\u0041"])))
        elif r < 0.46:
            segs.append(("tmpl", rng.choice(["", "a // TODO b", "line1\n/* TODO x */\nline3", "\\` TODO", "#TODO\n"])))
        elif r < 0.62:
            segs.append(("line", rand_text(rng)))
        elif r < 0.76:
            t = rand_text(rng)
            if rng.random() < 0.4:
                t = t + "\n   more text\n "
            # the TODO word may stand on a later line than the `/*`: the comment still starts where its marker is
            if rng.random() < 0.3:
                t = rng.choice(["\n", "\n   ", " \n\n\t", "\r\n  "]) + t.lstrip()
            t = t.replace("*/", "* /")
            segs.append(("block", t))
        elif r < 0.88:
            segs.append(("hash", rand_text(rng)))
        else:
            segs.append(("nl", rng.choice([1, 1, 2])))
    return segs


def render(segs, crlf=False):
    """returns (text, [(kind, body, line)])"""
    out = ""
    comments = []
    line = 1
    prev = None
    for k, v in segs:
        if prev in ("line", "hash") and k != "nl":
            out += "\n"
            line += 1
        elif prev is not None and prev != "nl" and k != "nl":
            out += " "
        if k == "code":
            out += " ".join(v)
        elif k == "str":
            out += '"' + v + '"'
        elif k == "chr":
            out += "'" + v + "'"
        elif k == "tmpl":
            out += "`" + v + "`"
            line += v.count("\n")
        elif k == "line":
            comments.append(("line", v, line))
            out += "//" + v
        elif k == "block":
            comments.append(("block", v, line))
            out += "/*" + v + "*/"
            line += v.count("\n")
        elif k == "hash":
            comments.append(("hash", v, line))
            out += "#" + v
        elif k == "nl":
            out += "\n" * v
            line += v
        prev = k
    if crlf:
        out = out.replace("\n", "\r\n")
    return out, comments


SPACE = " \t\n\x0b\x0c\r\x85\xa0                　"


def expect(comments, path):
    exp = []
    for kind, body, line in comments:
        t = body.strip(SPACE)
        up = t.upper()
        n = 4 if up.startswith("TODO") else 5 if up.startswith("FIXME") else 0
        if not n:
            continue
        rest = t[n:].strip(SPACE)
        if rest.startswith(":"):
            rest = rest.lstrip(":").strip(SPACE)
        m = re.match(r"^\(([A-Za-z0-9_ .+\-@]+)\)", rest)
        assignee = ""
        if m:
            assignee = m.group(1)
            rest = rest[m.end():].strip(SPACE)
            if rest.startswith(":"):
                rest = rest.lstrip(":").strip(SPACE)
        exp.append({"Filename": path, "Line": line, "Assignee": assignee, "Message": rest, "Block": kind == "block"})
    return exp


def norm_msg(s):
    return re.sub(r"[\s*/]+", "", s)


EXTS = [".java", ".py", ".go", ".ts", ".js", ".kt", ".groovy", ".gradle"]
SOUP = ["/", "*", "#", "\"", "'", "`", "\\", "\n", " ", "TODO", "fixme", "(", ")", ":", "a", "é", "/*", "*/", "//", "\r\n", "\\\"", "x"]


def gen(rng, tier):
    nsh, per = (16, 110) if tier == "quick" else (32, 3000)
    shards = []
    for s in range(nsh):
        sh = []
        for i in range(per):
            r = rng.random()
            if r < 0.75:
                files, exp = [], []
                filters = rng.choice([EXTS, [".java"], [".py", ".go"], EXTS, [".d.ts", ".spec.js"], [".gradle.kts", ".java"]])
                for k in range(rng.choice([1, 1, 2, 3])):
                    # compound extensions are selected by their whole suffix: types.d.ts, app.spec.js, build.gradle.kts
                    ext = rng.choice(EXTS + [".txt", ".md", ".javax", ".d.ts", ".spec.js", ".gradle.kts"])
                    # (directories whose names begin with a dot are part of the tree like any other)
                    path = rng.choice(["", "src/", "a/b/", ".ci/", "src/.gen/"]) + "f%d%s" % (k, ext)
                    segs = rand_segments(rng)
                    if rng.random() < 0.1:
                        segs.append(("code", ["x"]))
                        segs.append(("rawtail", None))
                    tail = ""
                    if segs and segs[-1][0] == "rawtail":
                        segs = segs[:-1]
                        tail = " /* TODO never closed"
                    text, comments = render(segs, crlf=rng.random() < 0.15)
                    if tail and (not segs or segs[-1][0] not in ("line", "hash")):
                        text += tail
                    files.append({"path": path, "content": text})
                    if any(path.endswith(e) for e in filters):
                        exp += expect(comments, path)
                files.sort(key=lambda f: f["path"].split("/"))
                exp.sort(key=lambda e: (e["Filename"].split("/"), e["Line"]))
                c = {"op": "todo", "files": files, "filters": filters, "expected": exp}
                if rng.random() < (0.06 if tier == "quick" else 0.01):
                    c["cli"] = True      # through the real `coca todo -p dir -e exts` in a fresh process (coca_reporter/simple-todos.json)
                    if rng.random() < 0.5:
                        c["relroot"] = True      # ... run inside the tree with the command's default root `.`
                sh.append(c)
            else:
                text = "".join(rng.choice(SOUP) for _ in range(rng.choice([1, 2, 3, 5, 9, 20])))
                sh.append({"op": "todo", "files": [{"path": "soup.java", "content": text}], "filters": [".java"]})
        shards.append(sh)
    # every single comment shape alone at end of file (marker only, one character, ...)
    ex = []
    for marker, closer in [("//", ""), ("#", ""), ("/*", "*/"), ("/*", "")]:
        for body in ["", " ", "T", "TODO", " TODO", "TODO:", "é", "*", ":", "(", "TODO(", "TODO()", "TODO(a", "FIXME(bob)", "x"]:
            ex.append({"op": "todo", "files": [{"path": "e.py", "content": marker + body + closer}], "filters": [".py"]})
            ex.append({"op": "todo", "files": [{"path": "e.py", "content": "x = 1 " + marker + body + closer + "\n"}], "filters": [".py"]})
    shards.append(ex)
    # real-world sources, when they are on this machine (Go toolchain source in the module cache, the Python standard library, the Java
    # sources shipped with Isabelle): the model must agree with the real scan on them, nothing may crash, and every reported line must be
    # a line that carries the word TODO/FIXME
    import glob
    import os
    pools = [(".go", "/root/go/pkg/mod/golang.org/toolchain@*/src/**/*.go"), (".py", "/root/.pyenv/versions/*/lib/python3*/**/*.py"),
             (".java", "/opt/veriftools/tlapm/lib/tlapm/backends/Isabelle/**/*.java")]
    per = 24 if tier == "quick" else 1500
    real = []
    for ext, pat in pools:
        fs = sorted(f for f in glob.glob(pat, recursive=True) if os.path.isfile(f) and os.path.getsize(f) < 40000)
        rng.shuffle(fs)
        for f in fs[:per]:
            try:
                text = open(f, encoding="utf-8").read()
            except (OSError, UnicodeDecodeError):
                continue
            real.append({"op": "todo", "files": [{"path": "real" + ext, "content": text}], "filters": [ext], "source": f})
    for i in range(0, len(real), 100):
        shards.append(real[i:i + 100])
    return shards


def oracle(case, out, raw):
    if out is None or "panic" in out:
        return [("panic", "todo scan panicked at %s: %s on %r" % ((raw or {}).get("site"), (raw or {}).get("panic"), case["files"][0]["content"][:60]))]
    ds = []
    if "source" in case:
        lines = case["files"][0]["content"].split("\n")
        for t in out["todos"]:
            # the reported line is where the comment starts: a comment marker on it is followed, after blanks (a block comment may
            # continue on the next lines), by the word
            ln = lines[t["Line"] - 1] if 0 < t["Line"] <= len(lines) else ""
            rest = "\n".join(lines[t["Line"] - 1:t["Line"] + 40]) if ln else ""
            if not re.search(r"(//|/\*|#)\s*(todo|fixme)", rest, re.I) or not re.search(r"//|/\*|#", ln):
                ds.append(("todo-line-without-marker", "%s: reported line %d %r starts no TODO/FIXME comment" % (case["source"], t["Line"], ln[:80])))
    if "expected" not in case:
        return ds
    got = [(t["Filename"], t["Line"], t["Assignee"], norm_msg(t["Message"])) for t in out["todos"]]
    exp = [(t["Filename"], t["Line"], t["Assignee"], norm_msg(t["Message"])) for t in case["expected"]]
    if got != exp:
        miss = [e for e in exp if e not in got][:2]
        extra = [g for g in got if g not in exp][:2]
        ds.append(("todo-report-differs", "missing %s spurious %s" % (miss, extra)))
    else:
        for t, e in zip(out["todos"], case["expected"]):
            # the terminator of a block comment is not part of its text (one-line block comments included)
            if e.get("Block") and "*/" in t["Message"]:
                ds.append(("todo-message-keeps-terminator", "block comment at line %d: message %r carries the comment terminator" % (t["Line"], t["Message"])))
    return ds


def nontrivial(case, mo):
    return bool(mo.get("todos"))


RULE = ("files built from segments with ground truth: code tokens (incl. '/', '*', '/=' operators, TODO identifiers), string/char/template literals containing "
        "comment markers and TODO, line/block/hash comments with TODO/FIXME texts in any case, with/without colon and '(assignee)', multi-line blocks, "
        "non-TODO comments, CRLF, unterminated block at EOF, several files with selected and unselected extensions; a malformed stream (character soup of "
        "quotes, backslashes, markers); every comment shape alone at end of file; real-world Go / Python / Java files found on this machine (24 / 1500 "
        "per language: model == real scan, no crash, reported lines start a TODO/FIXME comment); non-trivial = at least one todo reported")
ASSUMPTIONS = ["block comments are written /* ... */ (javadoc '/**' starts its text with '*', which is not TODO)",
               "letters whose upper case is ASCII but which are not ASCII themselves (dotless i, long s) are not generated",
               "messages are compared up to blanks, '*' and '/' (the statement does not fix how continuation lines are joined)"]
TRUSTED = ["ANTLR lexer runtime (maximal munch, error recovery) — exercised, modelled by the coarse lexer"]
WITNESSES = {}
