"""property id -> factory of its check module"""


def _call(p):
    def f():
        from . import p_call
        return p_call.make(p)
    return f


REGISTRY = {
    "C03": _call("C03"),
    "C04": _call("C04"),
}
