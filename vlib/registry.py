"""property id -> factory of its check module"""


def _call(p):
    def f():
        from . import p_call
        return p_call.make(p)
    return f


def _mod(name):
    def f():
        import importlib
        return importlib.import_module("vlib." + name)
    return f


def _git(p):
    def f():
        from . import p_git
        return p_git.make(p)
    return f


def _java(p):
    def f():
        from . import p_java
        return p_java.make(p)
    return f


def _refactor(p):
    def f():
        from . import p_refactor
        return p_refactor.make(p)
    return f


REGISTRY = {
    "C09": _mod("p_panic"),
    "C20": _mod("p_front"),
    "C08": _mod("p_det"),
    "C05": _refactor("C05"),
    "C06": _refactor("C06"),
    "C01": _java("C01"),
    "C02": _java("C02"),
    "C07": _java("C07"),
    "C14": _git("C14"),
    "C15": _git("C15"),
    "C10": _mod("p_bs"),
    "C18": _mod("p_stats"),
    "C12": _mod("p_api"),
    "C16": _mod("p_cloc"),
    "C19": _mod("p_deps"),
    "C13": _mod("p_arch"),
    "C17": _mod("p_todo"),
    "C11": _mod("p_tbs"),
    "C03": _call("C03"),
    "C04": _call("C04"),
}
