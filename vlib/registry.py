"""property id -> factory of its check module"""


def _call(p):
    def f():
        from . import p_call
        return p_call.make(p)
    return f


def _mod(name):
    def f():
        import importlib
        return importlib.import_module("vlib." + name)
    return f


REGISTRY = {
    "C10": _mod("p_bs"),
    "C18": _mod("p_stats"),
    "C11": _mod("p_tbs"),
    "C03": _call("C03"),
    "C04": _call("C04"),
}
