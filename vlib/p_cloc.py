"""C16 per-directory line counts and top files: trees with ground truth, oracle."""

PROP = "C16"
FAMILY = "cloc"
PROPS = ["C16"]
GEN_GROUPS = ["Cloc"]
TIMEOUT = 3000

LANGS = {
    "Java": (".java", "//", lambda i: "int v%d = %d;" % (i, i)),
    "Go": (".go", "//", lambda i: "var v%d = %d" % (i, i)),
    "Python": (".py", "#", lambda i: "v%d = %d" % (i, i)),
    "JavaScript": (".js", "//", lambda i: "let v%d = %d;" % (i, i)),
    "C": (".c", "//", lambda i: "int v%d = %d;" % (i, i)),
    "Ruby": (".rb", "#", lambda i: "v%d = %d" % (i, i)),
    "Rust": (".rs", "//", lambda i: "let v%d = %d;" % (i, i)),
}
IGNORED = [".git", ".svn", ".hg", ".idea", "coca_reporter"]
SCC_DENY = [".git", ".svn", ".hg"]


def make_file(rng, lang, salt):
    ext, cm, code = LANGS[lang]
    n_code, n_cm, n_blank = rng.choice([1, 2, 5, 9, 20]), rng.choice([0, 1, 3]), rng.choice([0, 1, 2])
    lines = [code(i * 7 + salt) for i in range(n_code)] + [cm + " note %d" % i for i in range(n_cm)] + [""] * n_blank
    rng.shuffle(lines)
    return "\n".join(lines) + "\n", n_code


def rand_tree(rng):
    files, counted, dirs = {}, [], []
    subdirs = []
    # hidden directories that are no VCS / IDE / report directory have a row like any other
    pool = ["app", "lib", "core", "docs", "v1.2", "x-y", ".github", ".ci"] + IGNORED
    for d in rng.sample(pool, rng.choice([1, 2, 3, 5, 6])):
        subdirs.append(d)
        dirs.append(d)
    if rng.random() < 0.4:
        subdirs.append("empty%d" % rng.randint(0, 9))
        dirs.append(subdirs[-1])
    salt = 0
    nlang = rng.choice([1, 2, 3, 5, 7])
    langs = rng.sample(sorted(LANGS), nlang)
    places = [""] * 2 + [d + "/" for d in subdirs if not d.startswith("empty")] * 3 + [d + "/sub/deep/" for d in subdirs if not d.startswith("empty")]
    # an IDE / report directory BELOW a counted subdirectory belongs to that subdirectory's row (only the top-level ones are left out)
    places += [d + "/" + x + "/" for d in subdirs if not d.startswith("empty") and d not in IGNORED for x in (".idea", "coca_reporter")]
    for i in range(rng.choice([1, 3, 6, 12, 25])):
        lang = rng.choice(langs)
        place = rng.choice(places)
        salt += 1
        path = "%sf%d%s" % (place, salt, LANGS[lang][0])
        content, n = make_file(rng, lang, salt)
        files[path] = content
        top = path.split("/")[0] if "/" in path else None
        if top not in SCC_DENY:        # scc itself never descends into VCS directories
            counted.append({"path": path, "lang": lang, "code": n})
    if rng.random() < 0.5:
        files["README.txt"] = "hello\n"
        counted.append({"path": "README.txt", "lang": "Plain Text", "code": 1})
    return files, counted, dirs, subdirs


def gen(rng, tier):
    nsh, per = (16, 8) if tier == "quick" else (16, 80)
    shards = []
    for s in range(nsh):
        sh = []
        for i in range(per):
            files, counted, dirs, subdirs = rand_tree(rng)
            if rng.random() < 0.6:
                sh.append({"op": "bydir", "files": files, "dirs": dirs, "counted": counted, "subdirs": sorted(subdirs), "args": []})
            else:
                size = rng.choice([1, 2, 3, 30])
                sh.append({"op": "topfile", "files": files, "dirs": dirs, "counted": counted, "subdirs": sorted(subdirs),
                           "topSize": size, "args": ["--top-size", str(size)]})
        shards.append(sh)
    return shards


def oracle(case, out, raw):
    if out is None or "panic" in out:
        return [("panic", "cloc panicked: %s" % (raw or {}).get("panic"))]
    if "cliError" in out:
        return [("cli-error", "%s %s" % (out["cliError"], out.get("stdout", "")[-300:]))]
    ds = []
    counted = case["counted"]
    if case["op"] == "bydir":
        langs = sorted(set(f["lang"] for f in counted))
        hdr = out["header"]
        if hdr[:2] != ["package", "summary"] or sorted(hdr[2:]) != langs or len(set(hdr[2:])) != len(hdr[2:]):
            ds.append(("cloc-header", "header %s, languages in the tree %s" % (hdr, langs)))
        exp_dirs = sorted(d for d in case["subdirs"] if d not in IGNORED)
        if sorted(out["rows"]) != exp_dirs or out.get("duplicateRow"):
            ds.append(("cloc-rows", "rows %s expected one per %s" % (sorted(out["rows"]), exp_dirs)))
        for d in exp_dirs:
            row = out["rows"].get(d, {})
            for k in langs:
                exp = sum(f["code"] for f in counted if f["lang"] == k and f["path"].startswith(d + "/"))
                if row.get(k) != exp:
                    ds.append(("cloc-cell", "dir %s language %s: %s, expected %d code lines" % (d, k, row.get(k), exp)))
                    break
            if out["summary"].get(d) != sum(row.values()):
                ds.append(("cloc-summary", "dir %s: summary %s != sum of cells %d" % (d, out["summary"].get(d), sum(row.values()))))
    else:
        langs = sorted(set(f["lang"] for f in counted))
        if sorted(out["sorted"]) != langs:
            ds.append(("top-langs", "languages %s expected %s" % (sorted(out["sorted"]), langs)))
        for k in langs:
            got = out["sorted"].get(k, [])
            exp = sorted(((f["path"], f["code"]) for f in counted if f["lang"] == k))
            if sorted((g["Location"], g["Code"]) for g in got) != exp:
                ds.append(("top-files", "language %s: files/figures differ" % k))
            codes = [g["Code"] for g in got]
            if any(a < b for a, b in zip(codes, codes[1:])):
                ds.append(("top-order", "language %s not in non-increasing order of code lines: %s" % (k, codes[:8])))
            if len(langs) <= 5:
                tbl = out["tables"].get(k)
                expc = sorted((f["code"] for f in counted if f["lang"] == k), reverse=True)[:case["topSize"]]
                if tbl is None or [int(r[0]) for r in tbl] != expc:
                    ds.append(("top-table", "language %s table %s expected codes %s" % (k, tbl, expc)))
    return ds


def view(o):
    if not isinstance(o, dict):
        return o
    if "header" in o:
        return {"langs": sorted(o["header"][2:]), "rows": o["rows"], "summary": o["summary"]}
    if "langs" in o:
        return o
    if "sorted" in o:
        srt = {k: sorted(([f["Location"], f["Code"]] for f in v), key=lambda x: (-x[1], x[0])) for k, v in o["sorted"].items()}
        tb = {}
        for k, v in (o.get("tables") or {}).items():
            tb[k] = [int(r[0]) if isinstance(r, list) else int(r) for r in v]
        return {"sorted": srt, "tables": tb}
    return o


def view_det(o):
    """run-to-run comparison (C08): the top-file tables keep their order, files with equal code lines compared as sets"""
    if isinstance(o, dict) and "sorted" in o:
        from . import core
        v = view(o)
        v["sorted"] = {k: core.tie_groups([[f["Location"], f["Code"]] for f in rows], lambda x: x[1]) for k, rows in o["sorted"].items()}
        return v
    return view(o)


def nontrivial(case, mo):
    return bool(mo.get("rows")) or bool(mo.get("sorted"))


RULE = ("trees generated with ground truth (1-25 files in 1-7 of seven languages with known code/comment/blank lines, in the root, in 1-6 immediate "
        "subdirectories incl. .git/.svn/.hg/.idea/coca_reporter, dotted and dashed names, nested sub/deep/, empty subdirectories); the REAL CLI "
        "`coca cloc <tree> --by-directory` / `--top-file --top-size n` runs in a fresh process and its cloc.csv / sort_cloc.json / printed tables are "
        "compared with the model instantiated with the ground-truth counts; non-trivial = at least one row / language")
ASSUMPTIONS = ["scc's contract: per language the sum of code lines of the files below the given directory, never descending into .git/.svn/.hg (its "
               "default deny list); its concurrency and process-global options are exercised by the per-directory runs, not modelled",
               "column order of the CSV and the order of equal-sized files are not specified and are canonicalised"]
TRUSTED = ["boyter/scc line counting"]
WITNESSES = {}
