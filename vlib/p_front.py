"""C20 Go and Python front-ends: file generators with ground truth, statement-level oracle."""
import json
import os

PROP = "C20"
FAMILY = "front"
PROPS = ["C20"]
GEN_GROUPS = ["Front"]

GO_TYPES = ["int", "string", "error", "bool", "*Order", "Order", "[]string", "[]Order", "*svc.Client", "svc.Client", "[]svc.Item", "interface{}", "func(a int) string"]
GO_IMPORTS = [("fmt", None), ("strings", None), ("os", None), ("github.com/acme/shop/svc", None), ("github.com/acme/shop/store", "st"), ("io", "stdio")]
NAMES_S = ["Order", "Cart", "Repo", "Client", "Engine", "Zebra", "Alpha", "Überweisung", "X"]
NAMES_I = ["Store", "Runner", "Closer", "Visitor"]
NAMES_M = ["Run", "Save", "find", "Close", "Get", "apply", "String", "Größe", "RecalculateOutstandingBalanceForAllCustomersInRegion"]
NAMES_F = ["NewOrder", "main", "helper", "Parse", "BuildAll", "run2", "süß2"]
NAMES_V = ["a", "b", "id", "name", "cfg", "items", "out"]


def go_type_value(t):
    """what BuildPropertyField records as TypeValue for the type text"""
    if t.startswith("func"):
        return "func"
    if t.startswith("interface{"):
        return "interface{}"
    if t.startswith("[]"):
        return t[2:]
    if t.startswith("*"):
        return t[1:]
    return t


def go_params(rng, maxn=3):
    """list of groups ([names], type): `a, b int` is one group"""
    groups, used = [], set()
    for _ in range(rng.choice([0, 1, 1, 2, maxn])):
        k = rng.choice([1, 1, 1, 2])
        names = []
        for _ in range(k):
            if rng.random() < 0.08:
                names.append("_")         # the blank identifier is a parameter like any other (`_ string`, `_, _ int`)
                continue
            n = rng.choice([v for v in NAMES_V if v not in used] or ["zz%d" % len(used)])
            used.add(n)
            names.append(n)
        groups.append((names, rng.choice(GO_TYPES[:11])))
    return groups


def render_groups(groups):
    return ", ".join("%s %s" % (", ".join(ns), t) for ns, t in groups)


def go_body(rng, recv, params, imports):
    """flat body: call statements, defer, assignments, returns. returns (lines, calls) with calls = [(receiver text, method)] of call/defer statements"""
    lines, calls, stmts = [], [], []
    pkgs = [(a or p.split("/")[-1]) for p, a in imports]
    vars_ = [n for ns, _ in params for n in ns if n != "_"] + ([recv] if recv else [])
    for _ in range(rng.choice([0, 1, 2, 3, 5])):
        r = rng.random()
        if r < 0.35 and pkgs:
            p = rng.choice(pkgs)
            m = rng.choice(["Println", "Open", "New", "Join"])
            # arguments of every expression kind the front-end classifies: literals, identifiers, selectors, binary, index,
            # type assertion, function literal (without statements), composite / unary
            lines.append("%s.%s(%s)" % (p, m, rng.choice(['"x"', "1", ", ".join(vars_[:1]), "cfg.Name", "a + 1", "items[0]", "x.(string)",
                                                          "func() {}", "&Order{}", '"a", cfg.Name, 2', "-1", "os.Args[1:]"])))
            calls.append((p, m))
            stmts.append({"k": "call", "recv": p, "fn": m})
        elif r < 0.55 and vars_:
            v = rng.choice(vars_)
            m = rng.choice(NAMES_M)
            lines.append("%s.%s()" % (v, m))
            calls.append((v, m))
            stmts.append({"k": "call", "recv": v, "fn": m})
        elif r < 0.65 and (pkgs or vars_):
            x = rng.choice(pkgs + vars_)
            lines.append("defer %s.Close()" % x)
            calls.append((x, "Close"))
            stmts.append({"k": "defer", "recv": x, "fn": "Close"})
        elif r < 0.8:
            if rng.random() < 0.4:
                # assignments with several names: one call / map index / type assertion on the right, a swap, a blank name
                lines.append(rng.choice(["n, err := strconv.Atoi(text)", "v, ok := registry[key]", "s, isStr := x.(string)", "a1, b1 := 1, 2",
                                         "_, err2 := os.Open(name)", "lo, hi = hi, lo", "var q, w = 1, 2", "x1, y1, z1 := f3()"]))
                stmts.append({"k": "assign"})
            else:
                lines.append("%s := %s" % (rng.choice(["v1", "v2", "tmp"]), rng.choice(["1", '"s"', (pkgs[0] + ".New()") if pkgs else "2"])))
                lines.append("_ = " + lines[-1].split(" := ")[0])
                stmts += [{"k": "assign"}, {"k": "assign"}]
        elif r < 0.9:
            lines.append("if true {\n\t}")
            stmts.append({"k": "other"})
        else:
            lines.append("for i := 0; i < 2; i++ {\n\t}")
            stmts.append({"k": "other"})
    if rng.random() < 0.35:
        # a return as the last statement (a call in it is not a call statement; on a package it records nothing)
        lines.append(rng.choice(["return", "return nil", "return 1", 'return "s", nil', "return v9", (pkgs[0] + '.Sprintf("x")') if pkgs else "return 0"]))
        if not lines[-1].startswith("return"):
            lines[-1] = "return " + lines[-1]
        stmts.append({"k": "other"})
    return lines, calls, stmts


def go_file(rng, idx):
    pkg = rng.choice(["shop", "main", "store"])
    imports = rng.sample(GO_IMPORTS, rng.choice([0, 1, 2, 3]))
    structs, ifaces, funcs = [], [], []
    snames = rng.sample(NAMES_S, rng.choice([0, 1, 2, 3]))
    for s in snames:
        fields, used = [], set()
        for _ in range(rng.choice([0, 1, 2, 4])):
            k = rng.choice([1, 1, 1, 2])
            ns = []
            for _ in range(k):
                n = rng.choice([x for x in ["ID", "Name", "items", "cfg", "Next", "total", "Tags"] if x not in used] or ["F%d" % len(used)])
                used.add(n)
                ns.append(n)
            fields.append((ns, rng.choice(GO_TYPES)))
        structs.append({"name": s, "fields": fields, "methods": []})
    for i in rng.sample(NAMES_I, rng.choice([0, 0, 1, 2])):
        ms = []
        for m in rng.sample(NAMES_M, rng.choice([0, 1, 2, 3])):
            ms.append({"name": m, "params": go_params(rng, 2), "results": rng.choice(["", " string", " (int, error)"])})
        ifaces.append({"name": i, "methods": ms})
    decls = []
    for s in structs:
        decls.append(("struct", s))
        for m in rng.sample(NAMES_M, rng.choice([0, 1, 2, 3])):
            recv = rng.choice(["s", "o", "r"])
            ptr = rng.random() < 0.6
            params = go_params(rng)
            body, calls, stmts = go_body(rng, recv, params, imports)
            md = {"recv": recv, "ptr": ptr, "type": s["name"], "name": m, "params": params, "results": rng.choice(["", " error", " (string, error)"]), "body": body, "calls": calls,
                  "stmts": stmts}
            s["methods"].append(md)
            decls.append(("method", md))
    for i in ifaces:
        decls.append(("iface", i))
    for f in rng.sample(NAMES_F, rng.choice([0, 1, 2, 3])):
        params = go_params(rng)
        body, calls, stmts = go_body(rng, None, params, imports)
        fd = {"name": f, "params": params, "results": rng.choice(["", " int", " (*Order, error)"]), "body": body, "calls": calls, "stmts": stmts}
        if rng.random() < 0.08:
            fd["body"], fd["calls"], fd["stmts"], fd["nobody"] = [], [], [], True       # declared here, implemented outside Go
        funcs.append(fd)
        decls.append(("func", fd))
    order = rng.choice(["types-first", "shuffled", "shuffled"])
    if order == "shuffled":
        rng.shuffle(decls)
    out = ["package " + pkg, ""]
    if imports:
        if len(imports) == 1 and rng.random() < 0.5:
            p, a = imports[0]
            out.append('import %s"%s"' % ((a + " ") if a else "", p))
        else:
            out.append("import (")
            for p, a in imports:
                out.append('\t%s"%s"' % ((a + " ") if a else "", p))
            out.append(")")
        out.append("")
    if rng.random() < 0.4:
        # package-level variables and constants: declare nothing the statement lists, and must not disturb the rest
        out += rng.sample(['var defaultName = "x"', "const Max = 3", "var (\n\tcount = 1\n\tlabel string\n)", "var registry = map[string]int{}",
                           "var handler func(int) string"], rng.choice([1, 2, 3]))
        out.append("")
    for kind, d in decls:
        if kind == "struct":
            out.append("type %s struct {" % d["name"])
            for ns, t in d["fields"]:
                out.append("\t%s %s" % (", ".join(ns), t))
            out.append("}")
        elif kind == "iface":
            out.append("type %s interface {" % d["name"])
            for m in d["methods"]:
                out.append("\t%s(%s)%s" % (m["name"], render_groups(m["params"]), m["results"]))
            out.append("}")
        else:
            head = "func "
            if kind == "method":
                head += "(%s %s%s) " % (d["recv"], "*" if d["ptr"] else "", d["type"])
            ret = {"": "", " error": "\treturn nil", " (string, error)": '\treturn "", nil', " int": "\treturn 0", " (*Order, error)": "\treturn nil, nil"}[d["results"]]
            if d.get("nobody"):
                out.append("%s%s(%s)%s" % (head, d["name"], render_groups(d["params"]), d["results"]))
                out.append("")
                continue
            out.append("%s%s(%s)%s {" % (head, d["name"], render_groups(d["params"]), d["results"]))
            for l in d["body"]:
                out.append("\t" + l)
            if ret:
                out.append(ret)
            out.append("}")
        out.append("")
    path = "%s/f%d.go" % (rng.choice(["pkg/shop", "internal/store/deep", "cmd"]), idx)
    RES = {"": [], " error": ["error"], " (string, error)": ["string", "error"], " int": ["int"], " (*Order, error)": ["*Order", "error"], " string": ["string"],
           " (int, error)": ["int", "error"]}

    def groups(gs):
        return [{"names": ns, "type": ty} for ns, ty in gs]
    adecls = []
    for k, d in decls:
        if k == "struct":
            adecls.append({"k": "struct", "name": d["name"], "fields": groups(d["fields"])})
        elif k == "iface":
            adecls.append({"k": "iface", "name": d["name"], "methods": [{"name": m["name"], "params": groups(m["params"]), "results": RES[m["results"]]} for m in d["methods"]]})
        else:
            adecls.append({"k": "func", "recv": (d["type"] if k == "method" else ""), "name": d["name"], "params": groups(d["params"]), "results": RES[d["results"]],
                           "stmts": d["stmts"], "nobody": bool(d.get("nobody"))})
    truth = {"pkg": pkg, "imports": imports, "structs": structs, "ifaces": ifaces, "funcs": funcs, "order": [(k, d["name"]) for k, d in decls], "decls": adecls}
    return path, "\n".join(out), truth


# ---------------------------------------------------------------------------------------------
PY_IMPORTS = [("import", [("os", None)]), ("import", [("a.b", "c")]), ("import", [("x", None), ("y", None)]), ("import", [("json", None), ("re", "rx")]),
              ("from", ("m", ["n"])), ("from", ("pkg.sub", ["p", "q"])), ("from", ("flask", ["Flask"])), ("fromparen", ("mod", ["u", "v"]))]
PY_DECOS = [("staticmethod", None), ("app.route", ['"/x"', 'methods=["GET"]']), ("cached", None), ("dec2", ["1"])]


def py_def(rng, name, indent, nested_ok=True):
    lines, nested = [], []
    decos = rng.sample(PY_DECOS, rng.choice([0, 0, 1, 2]))
    for d, args in decos:
        lines.append("%s@%s%s" % (indent, d, "(%s)" % ", ".join(args) if args is not None else ""))
    lines.append("%sdef %s(%s):" % (indent, name, rng.choice(["", "self", "self, a, b=1", "*args, **kw"])))
    body = rng.choice(["pass", "return 1", "x = 1\n%s    return x" % indent])
    if nested_ok and rng.random() < 0.2:
        nn = "inner_" + name
        lines.append("%s    def %s():" % (indent, nn))
        lines.append("%s        pass" % indent)
        nested.append(nn)
    lines.append("%s    %s" % (indent, body))
    return lines, [{"name": d, "args": args or []} for d, args in decos], nested


def py_file(rng, idx):
    imports = rng.sample(PY_IMPORTS, rng.choice([0, 1, 2, 3]))
    out, truth_imports = [], []
    if rng.random() < 0.3:
        out.append("# -*- coding: utf-8 -*-")
    for kind, spec in imports:
        if kind == "import":
            out.append("import " + ", ".join("%s%s" % (m, " as " + a if a else "") for m, a in spec))
            for m, a in spec:
                truth_imports.append({"module": m, "names": [a] if a else []})
        elif kind == "from":
            out.append("from %s import %s" % (spec[0], ", ".join(spec[1])))
            truth_imports.append({"module": spec[0], "names": spec[1]})
        else:
            out.append("from %s import (%s)" % (spec[0], ", ".join(spec[1])))
            truth_imports.append({"module": spec[0], "names": spec[1]})
    out.append("")
    classes, funcs = [], []
    items = []
    for c in rng.sample(["Order", "Cart", "Repo", "Client", "Überweisung", "C"], rng.choice([0, 1, 2])):
        items.append(("class", c))
    for f in rng.sample(["main", "helper", "build_all", "run2", "größe_berechnen", "f"], rng.choice([0, 1, 2, 3])):
        items.append(("func", f))
    rng.shuffle(items)
    for kind, name in items:
        if kind == "class":
            decos = rng.sample(PY_DECOS[2:], rng.choice([0, 0, 1, 2]))
            for d, args in decos:
                out.append("@%s%s" % (d, "(%s)" % ", ".join(args) if args is not None else ""))
            out.append("class %s%s:" % (name, rng.choice(["", "(Base)", "(object)"])))
            methods = []
            if rng.random() < 0.15:
                out.append('    """doc"""')
            ms = rng.sample(["__init__", "save", "find", "run", "süß", "recalculate_outstanding_balance_for_all_customers_in_region"], rng.choice([0, 1, 2, 3]))
            if not ms:
                out.append("    pass")
            # an inner class somewhere among the methods (Django `class Meta:`, nested exceptions, ...): listed as a class of its
            # own with its methods; the methods after it still belong to the outer class
            inner = None
            inner_at = rng.randrange(len(ms) + 1) if rng.random() < 0.25 else -1
            for mi, m in enumerate(ms + [None]):
                if mi == inner_at:
                    iname = rng.choice(["Meta", "Inner", "NotFound"]) + "Of" + name      # unique in the module
                    out.append("    class %s%s:" % (iname, rng.choice(["", "(Exception)", "(object)"])))
                    ims = rng.sample(["check", "render", "__str__"], rng.choice([0, 1, 2]))
                    imethods = []
                    if not ims:
                        out.append("        %s" % rng.choice(["pass", "ordering = ['id']"]))
                    for im in ims:
                        lines, mdecos, nested = py_def(rng, im, "        ", nested_ok=False)
                        out += lines
                        imethods.append({"name": im, "decos": mdecos, "nested": nested})
                    inner = {"name": iname, "decos": [], "methods": imethods, "at": mi}
                if m is None:
                    break
                lines, mdecos, nested = py_def(rng, m, "    ")
                out += lines
                methods.append({"name": m, "decos": mdecos, "nested": nested})
                if rng.random() < 0.3:
                    out.append("")
            if inner is not None:
                classes.append({"name": inner["name"], "decos": [], "methods": inner["methods"], "innerOf": name})
            classes.append({"name": name, "decos": [{"name": d, "args": a or []} for d, a in decos], "methods": methods, "inner": inner})
        else:
            lines, decos, nested = py_def(rng, name, "")
            out += lines
            funcs.append({"name": name, "decos": decos, "nested": nested})
        out.append("")
    path = "%s/m%d.py" % (rng.choice(["app", "pkg/sub"]), idx)
    # the listener events in walker order
    evs = []
    for kind, spec in imports:
        if kind == "import":
            evs.append({"e": "import", "names": [{"dotted": m, "as": a or "", "text": m + ("as" + a if a else "")} for m, a in spec]})
        else:
            evs.append({"e": "from", "source": spec[0], "names": ",".join(spec[1])})

    def fn_events(f):
        evs.append({"e": "enterFunc", "name": f["name"], "decos": f["decos"]})
        for n in f["nested"]:
            evs.append({"e": "enterFunc", "name": n, "decos": []})
            evs.append({"e": "exitFunc"})
        evs.append({"e": "exitFunc"})
    for kind, name in items:
        if kind == "class":
            k = [c for c in classes if c["name"] == name][0]
            evs.append({"e": "enterClass", "name": name, "decos": k["decos"]})
            for mi, m in enumerate(k["methods"] + [None]):
                if k.get("inner") and k["inner"]["at"] == mi:
                    evs.append({"e": "enterClass", "name": k["inner"]["name"], "decos": []})
                    for im in k["inner"]["methods"]:
                        fn_events(im)
                    evs.append({"e": "exitClass"})
                if m is not None:
                    fn_events(m)
            evs.append({"e": "exitClass"})
        else:
            fn_events([f for f in funcs if f["name"] == name][0])
    return path, "\n".join(out) + "\n", {"imports": truth_imports, "classes": classes, "funcs": funcs, "events": evs,
                                         "fromSpecs": [[k, [sp[0], list(sp[1])]] for k, sp in imports if k in ("from", "fromparen")]}


def gen(rng, tier):
    nsh, per = (16, 20) if tier == "quick" else (32, 500)
    shards = []
    for s in range(nsh):
        sh = []
        for i in range(per):
            lang = "go" if rng.random() < 0.55 else "py"
            files, truth = {}, {}
            for k in range(rng.choice([1, 1, 2, 3])):
                p, t, tr = (go_file if lang == "go" else py_file)(rng, k)
                files[p] = t
                truth[p] = tr
            if lang == "py" and rng.random() < 0.3:
                files["tools/gen.go"] = "package tools\n\nfunc Gen() {}\n"      # a Go file in a Python project: not a Python module
            case = {"op": lang, "files": files, "truth": truth}
            if lang == "go" and rng.random() < 0.15:
                # anonymous (non-empty) interface types in signatures, after the declarations: outside the Lean model (the code lists
                # them under a neighbouring identifier, which the statement does not cover), but the DECLARED structs, interfaces
                # and functions of the file must still be listed exactly - judged by the oracle only
                p = rng.choice(sorted(files))
                extra, tr = [], truth[p]
                for j in range(rng.choice([1, 2])):
                    kind = rng.choice(["param", "result", "both"])
                    ps = [(["h"], "interface{ Handle(req string) }")] if kind in ("param", "both") else []
                    if rng.random() < 0.5:
                        ps.append((["n"], "int"))
                    res = " interface{ Close() error }" if kind in ("result", "both") else ""
                    name = "Extra%d" % j
                    extra.append("func %s(%s)%s {%s}\n" % (name, render_groups(ps), res, " return nil " if res else ""))
                    tr["funcs"].append({"name": name, "params": ps, "results": res, "body": [], "calls": [], "stmts": []})
                files[p] = files[p] + "\n" + "\n".join(extra)
                # and a function of the file the walk reaches FIRST that calls a method on a struct declared in a later file
                ps = sorted(files)
                later = [(q, st["name"]) for q in ps[1:] for st in truth[q]["structs"]]
                if later:
                    q, tname = rng.choice(later)
                    files[ps[0]] = files[ps[0]] + "\nfunc CrossUse(s *%s) {\n\ts.Touch()\n}\n" % tname
                    truth[ps[0]]["funcs"].append({"name": "CrossUse", "params": [(["s"], "*" + tname)], "results": "", "body": [], "calls": [("s", "Touch")], "stmts": []})
                case["unmodelled"] = True
            sh.append(case)
        shards.append(sh)
    # real-world sources, when they are on this machine (the Go toolchain's own source tree in the module cache, the Python
    # standard library): only "no crash on a file the parser accepts" is judged for them
    import glob
    import os
    gos = sorted(f for f in glob.glob("/root/go/pkg/mod/golang.org/toolchain@*/src/**/*.go", recursive=True) if os.path.getsize(f) < 80000)
    pys = sorted(f for f in glob.glob("/root/.pyenv/versions/*/lib/python3*/**/*.py", recursive=True) if os.path.getsize(f) < 80000)
    ng, npy = (120, 80) if tier == "quick" else (3000, 1500)
    rng.shuffle(gos)
    rng.shuffle(pys)
    corpus = [{"op": "gocorpus", "path": f} for f in gos[:ng]] + [{"op": "pycorpus", "path": f} for f in pys[:npy]]
    for i in range(0, len(corpus), 100):
        shards.append(corpus[i:i + 100])
    return shards


# ---------------------------------------------------------------------------------------------
# oracle

def once(ds, what, names, got_names, cls):
    for n in names:
        k = got_names.count(n)
        if k != 1:
            ds.append((cls, "%s %r is listed %d times" % (what, n, k)))


def oracle_go(path, t, c, ds):
    structs = {s["name"]: s for s in t["structs"]}
    ifaces = {i["name"]: i for i in t["ifaces"] if i["methods"]}
    got_ds = [d["NodeName"] for d in c["DataStructures"]]
    once(ds, "%s: struct" % path, list(structs), got_ds, "c20-go-struct-count")
    once(ds, "%s: interface" % path, list(ifaces), got_ds, "c20-go-interface-count")
    for d in c["DataStructures"]:
        if d["NodeName"] in structs and got_ds.count(d["NodeName"]) == 1:
            s = structs[d["NodeName"]]
            exp_fields = [(n, go_type_value(ty)) for ns, ty in s["fields"] for n in ns]
            got_fields = [(p["ParamName"], p["TypeValue"]) for p in d["InOutProperties"]]
            if got_fields != exp_fields:
                grouped = any(len(ns) > 1 for ns, _ in s["fields"])
                ds.append(("c20-go-grouped-names" if grouped and got_fields == [(ns[0], go_type_value(ty)) for ns, ty in s["fields"]] else "c20-go-struct-fields",
                           "%s: struct %s fields %s expected %s" % (path, s["name"], got_fields[:5], exp_fields[:5])))
            exp_m = sorted(m["name"] for m in s["methods"])
            got_m = sorted(f["Name"] for f in d["Functions"])
            if got_m != exp_m:
                ds.append(("c20-go-struct-methods", "%s: struct %s methods %s expected %s (declaration order %s)" % (path, s["name"], got_m, exp_m, t["order"])))
            else:
                check_go_fns(path, s["methods"], d["Functions"], ds)
        elif d["NodeName"] in ifaces and got_ds.count(d["NodeName"]) == 1:
            exp = [m["name"] for m in ifaces[d["NodeName"]]["methods"]]
            got = [p["ParamName"] for p in d["InOutProperties"]]
            if got != exp:
                ds.append(("c20-go-interface-methods", "%s: interface %s methods %s expected %s" % (path, d["NodeName"], got, exp)))
    free = [m for m in c["Members"] if m["DataStructID"] == "default"]
    got_f = [f["Name"] for m in free for f in m["FunctionNodes"]]
    once(ds, "%s: function" % path, [f["name"] for f in t["funcs"]], got_f, "c20-go-function-count")
    if sorted(got_f) == sorted(f["name"] for f in t["funcs"]):
        check_go_fns(path, t["funcs"], [f for m in free for f in m["FunctionNodes"]], ds)
    exp_imp = sorted(p.replace("github.com/modernizing/coca/", "").replace("/", ".") for p, _ in t["imports"])
    got_imp = sorted(i["Source"] for i in c["Imports"])
    if got_imp != exp_imp:
        ds.append(("c20-go-imports", "%s: imports %s expected %s" % (path, got_imp, exp_imp)))
    if c["PackageName"] != t["pkg"]:
        ds.append(("c20-go-package", "%s: package %r expected %r" % (path, c["PackageName"], t["pkg"])))


def check_go_fns(path, truth_fns, got_fns, ds):
    by = {}
    for f in got_fns:
        by.setdefault(f["Name"], []).append(f)
    for tf in truth_fns:
        g = by.get(tf["name"], [])
        if len(g) != 1:
            continue
        g = g[0]
        exp_p = [(n, go_type_value(ty)) for ns, ty in tf["params"] for n in ns]
        got_p = [(p["ParamName"], p["TypeValue"]) for p in g["Parameters"]]
        if got_p != exp_p:
            first_only = [(ns[0], go_type_value(ty)) for ns, ty in tf["params"]]
            ds.append(("c20-go-grouped-names" if got_p == first_only else "c20-go-parameters", "%s: %s parameters %s expected %s" % (path, tf["name"], got_p, exp_p)))
        exp_c = [tuple(x) for x in tf["calls"]]
        got_c = [(c["NodeName"], c["FunctionName"]) for c in g["FunctionCalls"] if c["FunctionName"] != ""]
        if got_c != exp_c:
            ds.append(("c20-go-calls", "%s: %s calls %s expected %s" % (path, tf["name"], got_c[:6], exp_c[:6])))


def oracle_py(path, t, c, ds):
    got_cls = [d["NodeName"] for d in c["DataStructures"]]
    once(ds, "%s: class" % path, [k["name"] for k in t["classes"]], got_cls, "c20-py-class-count")
    for k in t["classes"]:
        ms = [d for d in c["DataStructures"] if d["NodeName"] == k["name"]]
        if len(ms) != 1:
            continue
        d = ms[0]
        if [a["Name"] for a in d["Annotations"]] != [x["name"] for x in k["decos"]]:
            ds.append(("c20-py-class-decorators", "%s: class %s decorators %s expected %s" % (path, k["name"], [a["Name"] for a in d["Annotations"]], [x["name"] for x in k["decos"]])))
        got_m = [f["Name"] for f in d["Functions"]]
        nested = [n for m in k["methods"] for n in m["nested"]]
        for m in k["methods"]:
            if got_m.count(m["name"]) != 1:
                ds.append(("c20-py-method-count", "%s: method %s.%s listed %d times" % (path, k["name"], m["name"], got_m.count(m["name"]))))
            else:
                f = [x for x in d["Functions"] if x["Name"] == m["name"]][0]
                if [a["Name"] for a in f["Annotations"]] != [x["name"] for x in m["decos"]]:
                    ds.append(("c20-py-method-decorators", "%s: %s.%s decorators %s expected %s" % (path, k["name"], m["name"], [a["Name"] for a in f["Annotations"]], [x["name"] for x in m["decos"]])))
                exp_args = [x["args"] for x in m["decos"]]
                got_args = [[kv["Value"] for kv in a["KeyValues"]] for a in f["Annotations"]]
                if [[s.replace(" ", "") for s in a] for a in exp_args] != got_args and [a["Name"] for a in f["Annotations"]] == [x["name"] for x in m["decos"]]:
                    ds.append(("c20-py-decorator-arguments", "%s: %s.%s decorator arguments %s expected %s" % (path, k["name"], m["name"], got_args, exp_args)))
        extra = [n for n in got_m if n not in [m["name"] for m in k["methods"]] and n not in nested]
        if extra:
            ds.append(("c20-py-spurious-method", "%s: class %s lists %s which are not its methods" % (path, k["name"], extra)))
    got_f = [f["Name"] for m in c["Members"] for f in m["FunctionNodes"]]
    once(ds, "%s: function" % path, [f["name"] for f in t["funcs"]], got_f, "c20-py-function-count")
    for f in t["funcs"]:
        gs = [x for m in c["Members"] for x in m["FunctionNodes"] if x["Name"] == f["name"]]
        if len(gs) == 1 and [a["Name"] for a in gs[0]["Annotations"]] != [x["name"] for x in f["decos"]]:
            ds.append(("c20-py-function-decorators", "%s: %s decorators %s expected %s" % (path, f["name"], [a["Name"] for a in gs[0]["Annotations"]], [x["name"] for x in f["decos"]])))
    allowed = set(f["name"] for f in t["funcs"]) | set(n for f in t["funcs"] for n in f["nested"]) | set(n for k in t["classes"] for m in k["methods"] for n in m["nested"])
    extra = [n for n in got_f if n not in allowed]
    if extra:
        ds.append(("c20-py-spurious-function", "%s: module-level functions %s are not declared at module level" % (path, extra)))
    exp_imp = sorted(i["module"] for i in t["imports"])
    got_imp = sorted(i["Source"] for i in c["Imports"])
    if got_imp != exp_imp:
        ds.append(("c20-py-imports", "%s: imported modules %s expected each once: %s" % (path, got_imp, exp_imp)))
    # `from m import u, v` / `from m import (u, v)`: each imported name under its own name
    for kind, spec in t.get("fromSpecs", []):
        ents = [i for i in c["Imports"] if i["Source"] == spec[0]]
        if len(ents) == 1 and list(ents[0].get("UsageName") or []) != list(spec[1]):
            ds.append(("c20-py-from-names", "%s: `from %s import %s`: names listed as %s" % (path, spec[0], ", ".join(spec[1]), ents[0].get("UsageName"))))


def dedup(ds):
    seen, res = set(), []
    for d in ds:
        if d[0] not in seen:
            seen.add(d[0])
            res.append(d)
    return res


def oracle(case, out, raw):
    if out is None or "panic" in out:
        return [("panic", "%s front-end panicked at %s: %s%s" % (case.get("op"), (raw or {}).get("site"), (raw or {}).get("panic"),
                                                               (" on " + case["path"]) if "path" in case else ""))]
    if case.get("op") in ("gocorpus", "pycorpus"):
        st = (out or {}).get("status") or {}
        return [("corpus-unserialisable", "%s: %s" % (case["path"], st["unserialisable"]))] if "unserialisable" in st else []
    ds = []
    by = {c["File"]: c for c in out["containers"]}
    for path, t in case["truth"].items():
        c = by.get(path)
        if c is None:
            ds.append(("c20-file-missing", "%s is not analysed" % path))
            continue
        (oracle_go if case["op"] == "go" else oracle_py)(path, t, c, ds)
    for p in by:
        if p not in case["truth"]:
            ds.append(("c20-foreign-file", "%s analysed as a %s file" % (p, case["op"])))
    # the command itself (coca-<lang> analysis -p dir): every declared type of every file of that language is in its result
    flat = [d["NodeName"] for d in out.get("flat", [])]
    for path, t in case["truth"].items():
        names = [k["name"] for k in t["classes"]] if case["op"] == "py" else [s["name"] for s in t["structs"]] + [i["name"] for i in t["ifaces"] if i["methods"]]
        missing = [n for n in names if n not in flat]
        if missing:
            ds.append(("c20-cli-misses-types", "`analysis -p` of the %s project lists none of %s declared in %s (result has %d entries)" % (case["op"], missing, path, len(flat))))
    return dedup(ds)


def vprops(ps):
    return [p if isinstance(p, list) else [p["ParamName"], p["TypeType"], p["TypeValue"]] for p in ps]


def vfns(fs):
    return [{"Name": f["Name"], "Parameters": vprops(f["Parameters"]),
             "Calls": f["Calls"] if "Calls" in f else [[c["NodeName"], c["FunctionName"]] for c in f["FunctionCalls"] if c["FunctionName"] != ""],
             "Annotations": f["Annotations"]} for f in fs]


def view(o):
    if isinstance(o, dict) and "corpus" in o:
        return {"corpus": True}
    if isinstance(o, dict) and "unmodelled" in o:
        return {"unmodelled": True, "commandAgreesWithPasses": cli_agrees(o) if "containers" in o else True}
    return view_(o)


def cli_agrees(o):
    """does the result of the command itself (`coca-go analysis -p dir`: flat) carry, for every type and function whose name is unique in
    the tree, the same functions and the same call entries - package and type of the target included - as the two passes driven
    file by file (identifier pass over ALL files, then the full pass)? The call-target resolution is not modelled, but it must not
    depend on how the command walks the files."""
    if "flat" not in o:
        return True
    def calls(cs):
        return [[c.get("Package"), c.get("Type"), c["NodeName"], c["FunctionName"]] for c in cs]
    per = {}
    for c in o["containers"]:
        if "File" not in c:
            continue
        for d in c["DataStructures"]:
            per.setdefault(d["NodeName"], []).append(("ds", d))
        for m in c["Members"]:
            for f in m["FunctionNodes"]:
                per.setdefault(f["Name"], []).append(("fn", f))
    flat = {}
    for d in o["flat"]:
        flat.setdefault(d["NodeName"], []).append(d)
    for name, items in per.items():
        if len(items) != 1 or len(flat.get(name, [])) != 1:
            continue
        kind, x = items[0]
        y = flat[name][0]
        if kind == "fn":
            if calls(x["FunctionCalls"]) != calls(y["FunctionCalls"]):
                return False
        else:
            fx = {f["Name"]: calls(f["FunctionCalls"]) for f in x["Functions"]}
            fy = {f["Name"]: calls(f["FunctionCalls"]) for f in y["Functions"]}
            if fx != fy:
                return False
    return True


def view_(o):
    """what the models cover: names, fields, parameters, decorators, (receiver, callee) of call statements, imports; not the call-target resolution of the Go front-end"""
    if not isinstance(o, dict) or "containers" not in o:
        return o
    out = []
    for c in o["containers"]:
        if "File" not in c:          # the model's verdict for a file on which the listener dereferences nil
            out.append(c)
            continue
        out.append({"File": c["File"], "PackageName": c["PackageName"],
                    "Imports": [i if isinstance(i, list) else [i["Source"], i["AsName"], i["UsageName"]] for i in c["Imports"]],
                    "DataStructures": [{"NodeName": d["NodeName"], "Package": d["Package"], "InOutProperties": vprops(d["InOutProperties"]), "Functions": vfns(d["Functions"]),
                                        "Annotations": d["Annotations"]} for d in c["DataStructures"]],
                    "Members": [{"DataStructID": m["DataStructID"], "Type": m["Type"], "Name": m["Name"], "FunctionNodes": vfns(m["FunctionNodes"])} for m in c["Members"]]})
    return {"containers": out, "commandAgreesWithPasses": cli_agrees(o)}


def nontrivial(case, mo):
    return any(c.get("DataStructures") or c.get("Members") for c in (mo.get("containers") or []))


RULE = ("directories of 1-3 Go files (package, 0-3 imports single/grouped/aliased, 0-3 structs with 0-4 field lines incl. grouped names `a, b T`, pointer / "
        "selector / slice / func / interface{} types, methods on value and pointer receivers declared before or after their type (shuffled declaration order), "
        "0-2 interfaces with 0-3 methods, 0-3 functions with grouped parameters and results, flat bodies of package-qualified calls, receiver calls, defer, "
        "assignments, if/for, returns) or of 1-3 Python modules (import a / a.b as c / x, y; from m import n / (u, v); 0-2 decorated classes with 0-3 "
        "decorated methods, nested defs, docstrings; 0-3 decorated module-level functions), a .go file inside a Python project in 30%; non-trivial = a "
        "data structure or member is reported")
ASSUMPTIONS = ["Go: anonymous interface types in parameter position, embedded fields, generics, method expressions and nested selectors a.b.c() are not generated",
               "Python: nested classes, async defs and lambdas are not generated; a nested def may be listed with its enclosing class or module (not judged)"]
TRUSTED = ["go/parser", "ANTLR Python lexer (INDENT/DEDENT) and parser"]
WITNESSES = {}
_fdir = os.path.join(os.path.dirname(os.path.dirname(os.path.abspath(__file__))), "findings")
for _fn in sorted(os.listdir(_fdir)):
    if _fn.startswith("c20-") and _fn.endswith(".json"):
        _w = json.load(open(os.path.join(_fdir, _fn)))
        WITNESSES[_w["finding"]] = _w["history"]
