"""C01 / C02 / C07 (Java full pass): project generator with ground truth, listener events, oracles."""
import json

from . import javagen

FAMILY = "javafull"
GEN_GROUPS = ["JavaFull", "Ident"]

PKGS = ["com.shop.order", "com.shop.user", "com.shop"]
CLASSES = ["Order", "OrderService", "User", "UserRepo", "Item", "Helper", "MyOrder", "A", "AbstractTransactionalOrderProcessingStrategyFactoryBeanÉ"]
EXTERNAL = [("java.util", "List"), ("java.util", "ArrayList"), ("org.lib", "Tool"), ("org.lib.deep", "Order")]
PRIMS = ["int", "long", "boolean", "String"]
METHODS = ["run", "save", "find", "getName", "process", "of", "build", "f", "recalculateOutstandingBalanceForAllCustomersInRegionÜ"]
VARS = ["order", "user", "repo", "item", "x", "svc", "tool", "aVeryLongLocalVariableNameThatGoesOnAndOn_1"]
SCOPED, FIELDS = "<scoped>", "<fields>"


def names(env):
    return [k for k in env if k not in (SCOPED, FIELDS)]


def inner(env):
    e = dict(env)
    e[SCOPED] = set(env[SCOPED])
    return e


def pick_type(rng, project, allow_prim=True):
    r = rng.random()
    if r < 0.5 and project:
        return rng.choice(project)           # (pkg, name)
    if r < 0.75:
        return rng.choice(EXTERNAL)
    if allow_prim:
        return (None, rng.choice(PRIMS))
    return rng.choice(project) if project else rng.choice(EXTERNAL)


def gen_project(rng, wildcard=0.0, missing_import=0.0):
    n = rng.choice([1, 2, 3, 4, 5])
    decl = []
    used = set()
    while len(decl) < n:
        pk, nm = rng.choice(PKGS), rng.choice(CLASSES)
        if (pk, nm) in used or any(nm == d[1] and pk == d[0] for d in decl):
            continue
        used.add((pk, nm))
        decl.append((pk, nm))
    units = []
    for (pk, nm) in decl:
        kind = "class" if rng.random() < 0.8 else "interface"
        imports = []
        scope = {}     # simple name -> package, as imported / same package visible

        def use(t):
            p, n_ = t
            if p is None:
                return n_
            if n_ in scope and scope[n_] != p:
                return None      # a different type of that simple name is already in scope: do not use
            if n_.lower() == nm.lower() and p != pk:
                return None      # a type with the class's own simple name from another package: not conventional
            if p != pk and n_ not in scope and missing_import and rng.random() < missing_import and \
                    sum(1 for d in decl if d[1] == n_ and d[0] != pk) >= 2:
                # C07 only: legacy code in a broken state - the import of a name that two other packages declare is missing, so
                # the tool can only guess; the guess must still not depend on order or repetition
                scope[n_] = p
                return n_
            if p != pk and n_ not in scope:
                wild_pkgs = [i[:-2] for i in imports if i.endswith(".*")]
                # (a class of the own package shadows on-demand imports; a name that two on-demand packages declare is ambiguous)
                unambiguous = (pk, n_) not in decl and not any((w, n_) in decl for w in wild_pkgs if w != p) and \
                    not any((p, other) in decl for other, op in scope.items() if op in wild_pkgs and op != p and (op + "." + other) not in imports)
                if wildcard and p in PKGS and rng.random() < wildcard and unambiguous:
                    # an on-demand import of a project package: the type is visible, but only through `import p.*;`
                    if p + ".*" not in imports:
                        imports.append(p + ".*")
                else:
                    imports.append(p + "." + n_)
            scope[n_] = p
            return n_
        others = [d for d in decl if d != (pk, nm)]
        fields, members = [], []
        ext = None
        impls = []
        if kind == "class" and rng.random() < 0.3:
            t = use(pick_type(rng, others, allow_prim=False))
            if t:
                ext = t
        elif kind == "class" and rng.random() < 0.15:
            ext = rng.choice(["RuntimeException", "Exception", "Thread"])      # a java.lang supertype: not imported, not of the project
        if rng.random() < 0.3:
            t = use(pick_type(rng, others, allow_prim=False))
            if t and t != ext:
                impls.append(t)
        fnames = set()
        if kind == "class":
            for _ in range(rng.choice([0, 1, 2, 3])):
                t = use(pick_type(rng, others))
                fname = rng.choice(VARS)
                if t and fname not in fnames:
                    fnames.add(fname)
                    init = None
                    r_init = rng.random()
                    if r_init < 0.25 and t not in PRIMS:
                        init = ("new", t, [])
                    elif r_init < 0.45 and t not in PRIMS:
                        # an initializer that calls a method on an earlier field, or on a name that is no variable of this class
                        recv = rng.choice([f["name"] for f in fields] + [rng.choice(VARS)])
                        init = ("call", ("name", recv), rng.choice(METHODS), [])
                    ftype = t + rng.choice(["", "", "[]"]) if init is None else t
                    fields.append({"mods": [rng.choice(["private", "private final", "protected"])], "type": ftype, "name": fname,
                                   "init": init, "decl": t if ftype == t else None})
        field_types = {f["name"]: f["decl"] for f in fields}       # None: the declared type is not a plain class name
        nmem = rng.choice([0, 1, 2, 3, 4])
        for j in range(nmem):
            is_ctor = kind == "class" and rng.random() < 0.15
            mname = nm if is_ctor else rng.choice(METHODS)
            params = []
            pnames = set()
            for _ in range(rng.choice([0, 0, 1, 2, 3])):
                t = use(pick_type(rng, others))
                pn = rng.choice(VARS)
                if t and pn not in pnames:
                    pnames.add(pn)
                    ptype = t + rng.choice(["", "", "<String>"]) if t in ("List", "ArrayList") else t
                    params.append({"type": ptype, "name": pn, "decl": t if ptype == t else None})
                    if rng.random() < 0.08:
                        # a C-style array declarator: `String args[]` - the parameter's NAME is still args
                        params[-1]["dims"] = True
                        params[-1]["decl"] = None
            body = None
            env = dict(field_types)                 # java scoping: params and locals shadow fields
            env[SCOPED] = set(p["name"] for p in params)     # names a local of this method may not redeclare
            env[FIELDS] = sorted(field_types)
            for p in params:
                env[p["name"]] = p["decl"]
            if kind == "class":
                body = []
                for _ in range(rng.choice([0, 1, 2, 3, 5])):
                    body.append(gen_stmt(rng, env, use, others, nm, depth=0))
                if not is_ctor and rng.random() < 0.5:
                    body.append(("return", rng.choice([("lit", "null"), ("name", "x"), None, gen_expr_call(rng, env, use, others, nm, 1)])))
            annos = []
            if rng.random() < 0.2:
                annos.append({"name": "Override", "args": None})
            if rng.random() < 0.15:
                annos.append({"name": "Deprecated", "args": None})
            ret = "" if is_ctor else ((use(pick_type(rng, others)) or "void") if rng.random() < 0.8 else "void")
            if ret not in ("", "void") and rng.random() < 0.12:
                ret += rng.choice(["[]", "[]", "[][]"])      # an array return type is recorded with its dimensions
            tparams = None
            if kind == "class" and not is_ctor and rng.random() < 0.15:
                # a generic class method: `<T> T first(List<T> xs)`, `<K, V> V lookup(K k, V v)`
                tparams = rng.choice([["T"], ["T"], ["K", "V"], ["E extends Comparable<E>"]])
                tv = tparams[-1].split(" ")[0]
                if rng.random() < 0.6:
                    ret = tv
                if rng.random() < 0.6:
                    pn = rng.choice([v for v in VARS if v not in pnames] or ["gx"])
                    # the body was generated without this parameter: only add it when the body does not mention the name at all
                    if pn not in pnames and pn not in env[SCOPED] and pn not in env and ("'%s'" % pn) not in repr(body):
                        pnames.add(pn)
                        params.append({"type": rng.choice([tv, "List<%s>" % tv, tv + "[]"]), "name": pn, "decl": None})
                        env[pn] = None
            members.append({"kind": "ctor" if is_ctor else "method", "annos": annos if not is_ctor else [], "mods": ["public"] if kind == "class" else [],
                            "ret": ret, "name": mname, "params": params, "body": body, "tparams": tparams,
                            "pre_nl": rng.choice([1, 2]), "annos_same_line": rng.random() < 0.2, "_env": None})
        class_annos = []
        if rng.random() < 0.3:
            class_annos.append({"name": rng.choice(["Service", "Component", "Entity"]), "args": None})
        if rng.random() < 0.15:
            class_annos.append({"name": "Table", "args": [("name", '"t_x"')]})
        if rng.random() < 0.1:
            class_annos.append({"name": "SuppressWarnings", "args": '"unchecked"'})
        if rng.random() < 0.1:
            # argument values that contain `=` themselves: a string literal, a nested annotation with named arguments
            class_annos.append(rng.choice([{"name": "Where", "args": [("clause", '"deleted=0"')]},
                                           {"name": "Table", "args": [("name", '"t"'), ("indexes", '@Index(name = "i", columnList = "c")')]},
                                           {"name": "ConditionalOnExpression", "args": [("value", '"a==b"')]}]))
        if kind == "interface" and rng.random() < 0.25:
            # a client interface with a type-level mapping (Feign style): no controller, contributes no entry - and its base path
            # must not reach the next file
            class_annos.append({"name": "RequestMapping", "args": rng.choice(['"/remote%d"' % len(units), [("value", '"/rv%d"' % len(units))]])})
        if kind == "class" and rng.random() < 0.3:
            # a Spring controller: the API scan of C07's runs then has entries to compare
            class_annos.append({"name": rng.choice(["RestController", "Controller"]), "args": None})
            if rng.random() < 0.6:
                class_annos.append({"name": "RequestMapping", "args": rng.choice(['"/base%d"' % len(units), [("value", '"/v%d"' % len(units))]])})
            for mb in members:
                if mb["kind"] == "method" and rng.random() < 0.6:
                    mb["annos"] = list(mb["annos"]) + [rng.choice([
                        {"name": "GetMapping", "args": '"/g"'}, {"name": "PostMapping", "args": [("value", '"/p"')]},
                        {"name": "RequestMapping", "args": [("value", '"/r"'), ("method", "RequestMethod.PUT")]},
                        {"name": "DeleteMapping", "args": None}])]
        late_fields = []
        if kind == "class" and members and rng.random() < 0.2:
            # a field with an initialiser declared AFTER the methods: its creation / call belongs to no method
            t = use(pick_type(rng, others, allow_prim=False))
            if t:
                late_fields.append({"mods": ["private"], "type": t, "name": "late%d" % len(units),
                                    "init": rng.choice([("new", t, []), ("call", ("name", t), rng.choice(METHODS), [])]), "decl": t})
        units.append({"pkg": pk, "imports": imports, "annos": class_annos, "kind": kind, "name": nm, "ext": ext, "impls": impls,
                      "fields": fields, "late_fields": late_fields, "members": members, "_scope": dict(scope)})
    return units


def gen_expr_call(rng, env, use, others, cls, depth):
    r = rng.random()
    name = rng.choice(METHODS)
    args = []
    for _ in range(rng.choice([0, 0, 1, 2])):
        a = rng.random()
        if a < 0.4:
            args.append(("name", rng.choice(names(env) or ["x"])))
        elif a < 0.6:
            args.append(("lit", rng.choice(["1", '"s t"', "true", '"😀 ü"'])))
        elif a < 0.8 and depth < 2:
            args.append(gen_expr_call(rng, env, use, others, cls, depth + 1))
        else:
            t = use(pick_type(rng, others, allow_prim=False))
            args.append(("new", t, []) if t else ("lit", "0"))
    if r < 0.25:
        return ("call", None, name, args)                       # implicit receiver
    if r < 0.31:
        return ("call", ("this",), name, args)                   # this.m()
    if r < 0.33:
        return ("call", ("super",), name, args)                  # super.m()
    if r < 0.7 and names(env):
        v = rng.choice(names(env))
        return ("call", ("name", v), name, args, {"recvVar": v, "recvType": env[v]})   # field / parameter / local
    if r < 0.8:
        t = use(pick_type(rng, others, allow_prim=False))
        return ("call", ("name", t), name, args) if t else ("call", None, name, args)    # static Type.m()
    if r < 0.9 and depth < 2:
        inner = gen_expr_call(rng, env, use, others, cls, depth + 1)
        return ("call", inner, rng.choice(METHODS), args)       # chained a.b().c()
    return ("call", ("field", ("this",), rng.choice(env[FIELDS] or ["x"])), name, args)       # this.field.m()


def gen_stmt(rng, env, use, others, cls, depth):
    r = rng.random()
    if r < 0.25:
        t = use(pick_type(rng, others))
        if t:
            vn = rng.choice(VARS)
            if vn in env[SCOPED]:
                return ("filler", 1)     # a local may hide a field, not a parameter or an earlier local in scope
            ienv = {k: v for k, v in env.items() if k != vn}     # the initializer cannot mention the variable it initializes
            init = rng.choice([None, ("new", t, []), gen_expr_call(rng, ienv, use, others, cls, 1)]) if t not in PRIMS else rng.choice([None, ("lit", "1")])
            if t in PRIMS and t != "String" and init is not None and init[0] != "lit":
                init = ("lit", "1")
            env[vn] = t
            env[SCOPED].add(vn)
            return ("local", t, vn, init)
    if r < 0.65:
        return ("expr", gen_expr_call(rng, env, use, others, cls, 0))
    if r < 0.72:
        t = use(pick_type(rng, others, allow_prim=False))
        if t:
            if rng.random() < 0.25:
                # creation of a nested type through its outer class: `new Dialog.Builder(x)` is ONE creation
                return ("expr", ("new", t + "." + rng.choice(["Builder", "Entry", "Key"]), [("lit", "1")] if rng.random() < 0.5 else []))
            return ("expr", ("new", t, []))
    if r < 0.8 and depth < 2:
        return ("if", gen_expr_call(rng, env, use, others, cls, 1), 1, [gen_stmt(rng, inner(env), use, others, cls, depth + 1)], None)
    if r < 0.86 and depth < 2:
        k = rng.choice(["while", "while", "for", "switch", "try"])
        if k == "while":
            return ("while", ("name", "true"), [gen_stmt(rng, inner(env), use, others, cls, depth + 1)])
        if k == "for":
            t = use(pick_type(rng, others, allow_prim=False))
            vn = rng.choice(VARS)
            if t and vn not in env[SCOPED]:
                ie = inner(env)
                ie[vn] = t                   # the loop variable is a local variable of the loop body
                ie[SCOPED].add(vn)
                return ("for", t, vn, ("name", rng.choice(names(env) or ["items"])), [gen_stmt(rng, ie, use, others, cls, depth + 1) for _ in range(rng.choice([1, 2]))])
        if k == "switch":
            se = inner(env)          # the whole switch body is one scope
            return ("switch", ("name", rng.choice(names(env) or ["x"])), [[gen_stmt(rng, se, use, others, cls, depth + 1)] for _ in range(rng.choice([1, 2]))])
        if k == "try" and rng.random() < 0.5:
            # try-with-resources whose resource has the name of a FIELD: after the statement the name is the field again
            t = use(pick_type(rng, others, allow_prim=False))
            fields_ = [f for f in env[FIELDS] if f not in env[SCOPED]]
            if t and fields_:
                vn = rng.choice(fields_)
                ie = inner(env)
                ie[vn] = None          # (calls on the resource itself inside the block carry no expectation)
                tr = ("tryres", t, vn, ("new", t, []), [gen_stmt(rng, ie, use, others, cls, depth + 1) for _ in range(rng.choice([1, 2]))])
                if env.get(vn) and env[vn] not in PRIMS and env[vn] != t and depth < 2:
                    # ... followed by a call on the field of that name
                    return ("if", ("name", "true"), 1, [tr, ("expr", ("call", ("name", vn), rng.choice(METHODS), [], {"recvVar": vn, "recvType": env[vn]}))], None)
                return tr
        if k == "try":
            return ("try", [gen_stmt(rng, inner(env), use, others, cls, depth + 1)], "Exception", [gen_stmt(rng, inner(env), use, others, cls, depth + 1)])
        return ("filler", 1)
    if r < 0.9 and names(env):
        v = rng.choice(names(env))
        if env[v] and env[v] not in PRIMS:
            if rng.random() < 0.4:
                return ("expr", ("assign", v, gen_expr_call(rng, env, use, others, cls, 1)))     # v = a.b();
            return ("expr", ("assign", v, ("new", env[v], [])))      # type-correct: the declared type itself
    if r < 0.92:
        return ("expr", ("call", ("name", "list"), "forEach", [("lambda", ["e"], gen_expr_call(rng, env, use, others, cls, 1))]))
    if r < 0.95:
        # a lambda with explicitly typed parameters: calls on them resolve against the declared type like calls on any parameter
        t = use(pick_type(rng, others, allow_prim=False))
        if t:
            # (the name is either fresh or one of the usual variable names - which a LATER local of the method may then reuse)
            v = "lp%d" % rng.randrange(1000) if rng.random() < 0.5 else rng.choice(VARS)
            if v not in env and v not in env[SCOPED]:
                ps = [(t, v)] + ([("String", "k%d" % rng.randrange(100))] if rng.random() < 0.3 else [])
                lam = ("expr", ("call", ("name", "list"), "forEach", [("lambda", ps, ("call", ("name", v), rng.choice(METHODS), [], {"recvVar": v, "recvType": t}))]))
                t2 = use(pick_type(rng, others, allow_prim=False))
                if t2 and t2 != t and depth < 2 and rng.random() < 0.5:
                    # ... and, once the lambda has ended, a local variable of the same name and another type: a call on it is a
                    # call on the local
                    return ("if", ("name", "true"), 1, [lam, ("local", t2, v, ("new", t2, [])),
                                                        ("expr", ("call", ("name", v), rng.choice(METHODS), [], {"recvVar": v, "recvType": t2}))], None)
                return lam
    t = use(pick_type(rng, others, allow_prim=False))
    if t:
        return ("expr", ("call", ("name", "list"), "map", [("mref", ("name", t), rng.choice(METHODS))]))
    return ("filler", 1)


def render_project(rng, units, layout=None):
    layout = layout or rng.choice(["maven", "flat"])
    files, built = {}, []
    # multi-module trees: the main sources of a module may sit below any directory name - also one called `test` (only
    # `src/test/java/` and *Test(s).java files are test code)
    prefix = rng.choice(["", "", "", "core/", "test/", "modules/test/"]) if layout == "maven" else ""
    for u in units:
        if rng.random() < 0.03 and not u.get("header_comment"):
            # a generated file with a very long first line (a licence / generator banner of 70 000 characters): a line has no length limit
            u["header_comment"] = "// " + "generated " * 7000
        text, facts = javagen.render_unit(u, rng, wild=rng.choice([0.0, 0.0, 0.04, 0.1]), comments=["note", "run();", "new Foo()"])
        path = ("%ssrc/main/java/%s/%s.java" % (prefix, u["pkg"].replace(".", "/"), u["name"])) if layout == "maven" else ("%s_%s.java" % (u["pkg"].replace(".", "_"), u["name"]))
        built.append({"path": path, "text": text, "events": facts["events"], "facts": facts, "unit": u})
    built.sort(key=lambda b: b["path"].split("/"))
    for b in built:
        files[b["path"]] = b["text"]
    return files, built


def project_case(rng, wildcard=None, missing_import=0.0):
    # a fifth of the trees see some project types through on-demand imports (`import com.shop.order.*;`)
    units = gen_project(rng, rng.choice([0.0, 0.0, 0.0, 0.0, 0.5]) if wildcard is None else wildcard, missing_import)
    files, built = render_project(rng, units)
    extra = {}
    if rng.random() < 0.3:
        extra["src/test/java/x/SkipTest.java"] = "package x; public class SkipTest { void t() { run(); } }\n"
        extra["notes/readme.java.txt"] = "class Nope {}"
    if rng.random() < 0.3:
        # ignored files: matched by the .gitignore at the root of the analysed tree (a directory pattern, a name pattern,
        # a path pattern), and anything under a path containing `testData`
        extra[".gitignore"] = "generated/\n*Gen.java\n/legacy/old\n# a comment\n\n"
        extra["generated/x/Made.java"] = "package x; public class Made { void m() { run(); } }\n"
        extra["src/main/java/x/StubGen.java"] = "package x; public class StubGen { void g() { } }\n"
        # an ignored FILE that sorts before its siblings, in the directories of the real units (the walk must go on after it)
        for pth in list(files):
            if pth.endswith(".java"):
                extra[(pth.rsplit("/", 1)[0] + "/" if "/" in pth else "") + "AaaGen.java"] = "package gen; public class AaaGen { void g() { } }\n"
        extra["legacy/old/Old.java"] = "package old; public class Old { int f() { return 1; } }\n"
        extra["src/testData/x/Sample.java"] = "package x; public class Sample { }\n"
    files.update(extra)
    return {"op": "full", "cli": rng.random() < 0.1,     # one tree in ten through the real `coca analysis -p dir` (identify.json, deps.json)
            "files": files, "units": [{"path": b["path"], "events": b["events"], "ievents": b["facts"]["ievents"]} for b in built],
            "identKeys": [b["unit"]["pkg"] + "." + b["unit"]["name"] for b in built],
            "truth": [{"path": b["path"], "pkg": b["unit"]["pkg"], "name": b["unit"]["name"], "kind": b["unit"]["kind"], "ext": b["unit"].get("ext"),
                       "annos": [javagen.anno_model(a) for a in b["unit"].get("annos", [])], "imports": b["unit"]["imports"],
                       "functions": strip_fns(b["facts"]["functions"]), "unit": b["unit"]} for b in built]}


def strip_fns(fns):
    out = []
    for f in fns:
        out.append({k: f[k] for k in ("kind", "name", "ret", "params", "startLine", "fullStartLine", "stopLine", "nameLine", "nameCol", "calls", "annos")})
    return out


def view_det(o):
    """run-to-run comparison (C08): the code model and, for trees that went through the commands, the rows of `coca count`"""
    v = view(o)
    if isinstance(o, dict) and "countRows" in o and isinstance(v, dict):
        v = dict(v, countRows=o["countRows"])
    return v


def view(o):
    if isinstance(o, dict) and o.get("unmodelled"):
        return {"unmodelled": True}
    if isinstance(o, dict) and "nodes" in o:
        return {"nodes": o["nodes"], "identifiers": o.get("identifiers", [])}
    if isinstance(o, dict) and "runs" in o:
        return {"runs": [{"nodes": r["nodes"], "identifiers": r.get("identifiers", [])} for r in o["runs"]]}
    return o


def multi_case(rng):
    """C07: one tree, several runs in one process: every order / subset / repetition shape, identifier set fixed"""
    c = project_case(rng, missing_import=rng.choice([0.0, 0.0, 0.0, 0.6]))
    paths = [u["path"] for u in c["units"]]
    runs = [list(paths)]
    perm = list(paths)
    rng.shuffle(perm)
    runs.append(perm)
    runs.append(list(reversed(paths)))
    sub = [p for p in paths if rng.random() < 0.6] or paths[:1]
    rng.shuffle(sub)
    runs.append(sub)
    runs.append([rng.choice(paths)])
    if rng.random() < 0.5:
        runs.append([rng.choice(paths)] * 2)          # the same file twice in one run
    runs.append(list(paths))                          # the first run again
    rng.shuffle(runs)
    c["op"] = "fullmulti"
    c["runs"] = runs
    if len(paths) > 1 and rng.random() < 0.25:
        # the identifier set lags behind the tree: it does not know the type of one file (held fixed over all runs)
        k = rng.randrange(len(c["identKeys"]))
        c["identSkip"] = [c["identKeys"][k]]
        c["identKeys"] = [x for i, x in enumerate(c["identKeys"]) if i != k]
    return c


ANON_SHAPES = [
    # (interface, its import, return type of the anonymous method, its name, body)
    ("Runnable", None, "void", "run", "System.out.println(k);"),
    ("Callable<String>", "java.util.concurrent.Callable", "String", "call", "return \"x\" + k;"),
    ("Comparator<String>", "java.util.Comparator", "int", "compare", "return k;"),
    ("Supplier<Integer>", "java.util.function.Supplier", "Integer", "get", "return k;"),
]


def raw_multi_case(rng):
    """C07 for constructs outside the Lean model: every file has methods that create ANONYMOUS classes with methods of their own
    (and a class with none); several runs in one process, judged by the statement alone (same file => same entries)"""
    files, truth = {}, []
    names = rng.sample(["Alpha", "Beta", "Gamma", "Delta"], rng.choice([2, 3, 4]))
    for i, nm in enumerate(names):
        pkg = rng.choice(["com.shop.a", "com.shop.b"])
        imports, methods = set(), []
        for j in range(rng.choice([0, 1, 1, 2])):
            iface, imp, ret, mn, body = rng.choice(ANON_SHAPES)
            if imp:
                imports.add(imp)
            extra = ""
            if rng.random() < 0.4:
                extra = "\n            public String toString() {\n                return \"%s%d\";\n            }" % (nm, j)
            sig = "int compare(String a, String b)" if mn == "compare" else "%s %s()" % (ret, mn)
            methods.append("    public %s make%d(final int k) {\n        return new %s() {\n            public %s {\n                %s\n            }%s\n        };\n    }\n" % (
                iface, j, iface, sig, body, extra))
        methods.append("    public int plain(int k) {\n        return k + %d;\n    }\n" % i)
        text = "package %s;\n\n%s\npublic class %s {\n%s}\n" % (pkg, "".join("import %s;\n" % x for x in sorted(imports)), nm, "\n".join(methods))
        path = "src/main/java/%s/%s.java" % (pkg.replace(".", "/"), nm)
        files[path] = text
        truth.append({"path": path, "pkg": pkg, "name": nm, "kind": "class"})
    paths = sorted(files)
    runs = [list(paths), list(reversed(paths)), [rng.choice(paths)], list(paths)]
    perm = list(paths)
    rng.shuffle(perm)
    runs.append(perm)
    runs.append([p for p in paths if rng.random() < 0.6] or paths[:1])
    rng.shuffle(runs)
    return {"op": "fullmulti", "files": files, "units": [], "identKeys": [t["pkg"] + "." + t["name"] for t in truth], "truth": truth, "runs": runs, "unmodelled": True}


def gen_c07(rng, tier):
    nsh, per = (16, 12) if tier == "quick" else (32, 250)
    shards = [[multi_case(rng) for _ in range(per)] for _ in range(nsh)]
    shards.append([raw_multi_case(rng) for _ in range(10 if tier == "quick" else 150)])
    return shards


def oracle_c07(case, out, raw):
    if out is None or "panic" in out:
        return [("panic", "analysis panicked at %s: %s" % ((raw or {}).get("site"), (raw or {}).get("panic")))]
    ds = []
    key_of_path = {t["path"]: (t["pkg"], t["name"]) for t in case["truth"]}
    seen_full, seen_ident, seen_bs, seen_api = {}, {}, {}, {}
    for ri, (run, res) in enumerate(zip(case["runs"], out["runs"])):
        for p in set(run):
            reps = run.count(p)
            mine = [n for n in res["nodes"] if n["FilePath"] == p]
            per = len(mine) // reps if reps and len(mine) % reps == 0 else None
            if per is None:
                ds.append(("c07-full-entry-count", "file %s processed %d times in run %d gave %d entries" % (p, reps, ri, len(mine))))
                continue
            chunks = [mine[i * per:(i + 1) * per] for i in range(reps)]
            for ch in chunks:
                txt = json.dumps(ch, sort_keys=True)
                if p not in seen_full:
                    seen_full[p] = (ri, txt)
                elif seen_full[p][1] != txt:
                    ds.append(("c07-full-entry-differs", "model entries of %s differ between run %d %s and run %d %s: %s" % (
                        p, seen_full[p][0], case["runs"][seen_full[p][0]], ri, run, first_diff(json.loads(seen_full[p][1]), ch))))
            # the API entries of the file (the API scan over the run's files in the run's order), per run position
            for pos, q in enumerate(run):
                if q != p or not isinstance(res.get("api"), list) or pos >= len(res["api"]):
                    continue
                txt = json.dumps(res["api"][pos], sort_keys=True)
                if p not in seen_api:
                    seen_api[p] = (ri, txt)
                elif seen_api[p][1] != txt:
                    ds.append(("c07-api-entry-differs", "API entries of %s differ between run %d %s and run %d %s: %s vs %s" % (
                        p, seen_api[p][0], case["runs"][seen_api[p][0]], ri, run, seen_api[p][1][:300], txt[:300])))
            # what the bad-smell pass produced for the file (its node) and the findings that name it, per run position
            for pos, q in enumerate(run):
                if q != p or not isinstance(res.get("bs"), list) or pos >= len(res["bs"]):
                    continue
                ent = res["bs"][pos]
                fnd = sorted(ent.get("Findings") or [], key=lambda f: json.dumps(f, sort_keys=True))
                txt = json.dumps({"node": ent.get("Node"), "findings": fnd}, sort_keys=True)
                if p not in seen_bs:
                    seen_bs[p] = (ri, txt)
                elif seen_bs[p][1] != txt:
                    ds.append(("c07-bs-entry-differs", "bad-smell entry of %s differs between run %d %s and run %d %s: %s" % (
                        p, seen_bs[p][0], case["runs"][seen_bs[p][0]], ri, run, first_diff(json.loads(seen_bs[p][1]), json.loads(txt)))))
            k = key_of_path.get(p)
            idm = [n for n in res.get("identifiers", []) if (n["Package"], n["NodeName"]) == k]
            if idm and len(idm) % reps == 0:
                txt = json.dumps(idm[:len(idm) // reps], sort_keys=True)
                if p not in seen_ident:
                    seen_ident[p] = (ri, txt)
                elif seen_ident[p][1] != txt:
                    ds.append(("c07-ident-entry-differs", "identifier entries of %s differ between run %d %s and run %d %s: %s" % (
                        p, seen_ident[p][0], case["runs"][seen_ident[p][0]], ri, run, first_diff(json.loads(seen_ident[p][1]), idm[:len(idm) // reps]))))
        # a call graph and a reverse call graph generated twice in a row over the run's model
        for k in ("callTwice", "rcallTwice"):
            if res.get(k) is False:
                ds.append(("c07-graph-twice-differs", "%s: generating the graph twice in one process gave two different graphs (run %d %s)" % (k, ri, run)))
    return dedup(ds)


def first_diff(a, b, path=""):
    if type(a) != type(b):
        return "%s: %r vs %r" % (path, a, b)
    if isinstance(a, dict):
        for k in a:
            if a[k] != b.get(k):
                return first_diff(a[k], b.get(k), path + "." + k)
    if isinstance(a, list):
        if len(a) != len(b):
            return "%s: %d vs %d items" % (path, len(a), len(b))
        for i, (x, y) in enumerate(zip(a, b)):
            if x != y:
                return first_diff(x, y, "%s[%d]" % (path, i))
    return "%s: %r vs %r" % (path, a, b)


def nontrivial(case, mo):
    if "runs" in mo:
        return any(n.get("Functions") for r in mo["runs"] for n in r["nodes"])
    return any(n.get("Functions") for n in (mo.get("nodes") or []))


def gen(rng, tier):
    nsh, per = (16, 25) if tier == "quick" else (32, 600)
    return [[project_case(rng) for _ in range(per)] for _ in range(nsh)]


RULES = {
    "C01": ("projects of 1-5 rendered conventional Java units in 3 packages (class/interface, simple names reused across packages, Maven (also as a module below core/, test/, modules/test/) or flat layout, "
            "imports, 0-3 class annotations incl. arguments, extends/implements, 0-3 fields (arrays, initialisers), 0-4 methods/constructors with 0-3 parameters "
            "(generic List<String>), annotations on their own or the same line, wild layout/comments), plus a test file and a non-.java file in 30% of the trees; "
            "each shard is one process; non-trivial = at least one function entry"),
    "C02": ("same projects; bodies of 0-5 statements: local declarations with/without initialiser, expression statements, if / while / for-each / switch / "
            "try-catch nested to depth 2, `x = new T()`, lambdas, method references; calls that are unqualified, this., on a field / parameter / local "
            "(shadowing each other legally), static Type.m(), chained a.b().c(), this.field.m(), with nested call / creation / literal arguments; "
            "positions at any column and line"),
    "C07": ("same projects; per tree 6-7 runs in ONE process with the identifier set held fixed: sorted order, a random permutation, reversed, a random subset in random "
            "order, one file alone, one file twice, and the first run again; the per-file entries of the full pass, of the identifier pass, of the bad-smell pass (real BadSmellApp on a directory laid out in the run's order: node and findings of the file) and of the API scan (real JavaApiApp likewise; 30% of the classes are Spring controllers) must be identical in every run; in every run a call graph and a reverse call graph are generated twice in a row and must be equal"),
}
ASSUMPTIONS = ["generated Java is legally scoped (a local may hide a field, not a parameter or an enclosing local; an initializer does not mention its own variable)",
               "a receiver's declared type counts as 'plain class name' only without type arguments or array brackets",
               "a type of another package with the simple name of the class itself is not used (strings.EqualFold self-resolution)",
               "the identifier pass is asked for name and return type of every function (its missing parameter lists are the known finding c01-ident-params)"]
TRUSTED = ["vlib/javagen.py renderer, its ground truth and the listener event stream it derives", "ANTLR Java parser and tree walker"]


NESTED_TYPES = [
    "    public static class Entry {\n        int n;\n    }\n",
    "    static class Entry {\n        int n;\n\n        int size() {\n            return n;\n        }\n    }\n",
    "    interface Lookup {\n        int at(int k);\n    }\n",
    "    private class Slot {\n    }\n",
]


def raw_nested_case(rng):
    """C02 for a construct outside the Lean model: a NAMED nested type written somewhere in a class that calls through its field.
    The receiver of `field.m()` is the field's declared type wherever the nested type stands; judged by the statement alone."""
    repo = "package com.acme.repo;\n\npublic class BookRepository {\n    public int load(int k) {\n        return k;\n    }\n\n    public void save(int k) {\n    }\n}\n"
    parts = {
        "field": "    private BookRepository repository;\n",
        "find": "    public int find(int k) {\n        return repository.load(k);\n    }\n",
        "keep": "    public void keep(int k) {\n        repository.save(k);\n    }\n",
    }
    order = ["field", "find", "keep"]
    anon = rng.random() < 0.4
    if anon:
        # a method whose ANONYMOUS class declares, in its own method, a local with the field's name and another type: behind the
        # anonymous class the name is the field again
        parts["watch"] = ("    public void watch() {\n        Runnable r = new Runnable() {\n            public void run() {\n"
                          "                Helper repository = lookup();\n                repository.reset();\n            }\n        };\n"
                          "        repository.save(1);\n    }\n\n    static Helper lookup() {\n        return null;\n    }\n")
        order.insert(rng.randrange(1, len(order) + 1), "watch")
    for _ in range(rng.choice([0, 1, 1, 2])):
        order.insert(rng.randrange(len(order) + 1), "nested%d" % rng.randrange(len(NESTED_TYPES)))
    body = "\n".join(parts[o] if o in parts else NESTED_TYPES[int(o[6:])] for o in order)
    text = "package com.acme.app;\n\nimport com.acme.repo.BookRepository;\n" + ("import com.acme.util.Helper;\n" if anon else "") + "\npublic class Shelf {\n" + body + "}\n"
    lines = text.split("\n")
    fns = []
    for name, callee in (("find", "load"), ("keep", "save")):
        dl = next(i for i, l in enumerate(lines) if (" %s(int k) {" % name) in l and "public" in l)
        cl = next(i for i, l in enumerate(lines) if i > dl and ("repository.%s(" % callee) in l)
        fns.append({"name": name, "fullStartLine": dl + 1, "calls": [{"kind": "call", "name": callee, "line": cl + 1, "col": lines[cl].index(callee), "recv": "repository",
                                                                       "meta": {"recvType": "BookRepository", "recvVar": "repository"}}]})
    files = {"src/main/java/com/acme/repo/BookRepository.java": repo, "src/main/java/com/acme/app/Shelf.java": text}
    if anon:
        files["src/main/java/com/acme/util/Helper.java"] = "package com.acme.util;\n\npublic class Helper {\n    public void reset() {\n    }\n}\n"
    truth = [{"path": "src/main/java/com/acme/app/Shelf.java", "pkg": "com.acme.app", "name": "Shelf", "kind": "class", "imports": ["com.acme.repo.BookRepository"],
              "functions": fns, "unit": {"_scope": {"BookRepository": "com.acme.repo"}}}]
    c = {"op": "full", "files": files, "units": [], "identKeys": ["com.acme.repo.BookRepository", "com.acme.app.Shelf"], "truth": truth, "unmodelled": True,
         "cli": rng.random() < 0.1}
    if anon:
        c["identKeys"].append("com.acme.util.Helper")
        c["expectReceivers"] = [{"pkg": "com.acme.app", "cls": "Shelf", "fn": "watch", "callee": "save", "var": "repository",
                                 "want": ["com.acme.repo", "BookRepository"]}]
    return c


def gen_c02(rng, tier):
    shards = gen(rng, tier)
    shards.append([raw_nested_case(rng) for _ in range(24 if tier == "quick" else 300)])
    return shards


def make(prop):
    class M:
        pass
    m = M()
    m.PROP = prop
    m.FAMILY = FAMILY
    m.GEN_GROUPS = GEN_GROUPS + (["Ident", "Call", "Api", "Bs"] if prop == "C07" else [])
    m.PROPS = [prop] + (["C01Ident"] if prop in ("C01", "C07") else []) + (["C01Iface"] if prop == "C01" else [])
    m.gen = gen_c07 if prop == "C07" else gen_c02 if prop == "C02" else gen
    m.view = view
    m.view_det = view_det
    m.nontrivial = nontrivial
    m.features = features
    m.oracle = {"C01": oracle_c01, "C02": oracle_c02, "C07": oracle_c07}.get(prop, lambda case, out, raw: [("panic", "full pass panicked at %s: %s" % ((raw or {}).get("site"), (raw or {}).get("panic")))] if (out is None or "panic" in out) else [])
    m.WITNESSES = {}
    if prop == "C01":
        import os
        wp = os.path.join(os.path.dirname(os.path.dirname(os.path.abspath(__file__))), "findings", "c01-ident-params.json")
        if os.path.exists(wp):
            m.WITNESSES["c01-ident-params"] = json.load(open(wp))["history"]
    m.RULE = RULES[prop]
    m.ASSUMPTIONS = ASSUMPTIONS
    m.TRUSTED = TRUSTED
    return m


# ---------------------------------------------------------------------------------------------
# oracles (statement level, on the REAL output)

def fn_sig(f):
    return (f["Name"], f["ReturnType"], tuple((p[0], p[1]) for p in f["Parameters"]))


def oracle_c01(case, out, raw):
    if out is None or "panic" in out:
        return [("panic", "analysis panicked at %s: %s" % ((raw or {}).get("site"), (raw or {}).get("panic")))]
    ds = []
    for which, nodes in (("full", out["nodes"]), ("ident", out.get("identifiers", []))):
        by = {}
        for n in nodes:
            by.setdefault((n["Package"], n["NodeName"]), []).append(n)
        exp_keys = set((t["pkg"], t["name"]) for t in case["truth"])
        for k, v in by.items():
            if k not in exp_keys:
                ds.append(("c01-undeclared-type", "%s pass: entry %s.%s for a type that is not declared in a selected file" % (which, k[0], k[1])))
        for t in case["truth"]:
            k = (t["pkg"], t["name"])
            got = by.get(k, [])
            if len(got) != 1:
                ds.append(("c01-type-count", "%s pass: %d entries for %s.%s" % (which, len(got), k[0], k[1])))
                continue
            n = got[0]
            if n["Type"] != ("Class" if t["kind"] == "class" else "Interface"):
                ds.append(("c01-kind", "%s pass: %s has kind %s" % (which, k, n["Type"])))
            if which == "full" and n["FilePath"] != t["path"]:
                ds.append(("c01-path", "%s has path %r expected %r" % (k, n["FilePath"], t["path"])))
            if n["Annotations"] != t["annos"]:
                ds.append(("c01-annotations", "%s pass: %s annotations %s expected %s" % (which, k, n["Annotations"], t["annos"])))
            ext = t["ext"]
            if t["kind"] == "class":
                scope = t["unit"]["_scope"]
                ok_ext = {"" if not ext else ext}
                if ext and ext in scope:
                    ok_ext.add(scope[ext] + "." + ext)
                if n["Extend"] not in ok_ext:
                    ds.append(("c01-superclass", "%s pass: %s superclass %r expected one of %s" % (which, k, n["Extend"], sorted(ok_ext))))
            named = [f for f in n["Functions"] if f["Name"] != ""]
            if which == "full":
                got_sigs = sorted(fn_sig(f) for f in named)
                exp_sigs = sorted((f["name"], javagen.gtext(f["ret"]), tuple((p[0], p[1]) for p in f["params"])) for f in t["functions"])
                if got_sigs != exp_sigs:
                    iface_only = t["kind"] == "interface" and sorted((g[0], g[1]) for g in got_sigs) == sorted((e[0], e[1]) for e in exp_sigs)
                    if iface_only:
                        ds.append(("c01-interface-method-params", "interface %s: methods are listed without their parameters" % (k,)))
                    elif len(got_sigs) < len(exp_sigs) and same_line_members(t):
                        ds.append(("c01-same-line-members", "%s: two members of the same name starting on one line collapse into one entry" % (k,)))
                    else:
                        ds.append(("c01-functions", "%s: functions %s expected %s" % (k, got_sigs[:4], exp_sigs[:4])))
            else:
                got_nr = sorted((f["Name"], f["ReturnType"]) for f in named)
                exp_nr = sorted((f["name"], javagen.gtext(f["ret"])) for f in t["functions"])
                if got_nr != exp_nr:
                    ds.append(("c01-ident-functions", "identifier pass %s: functions %s expected %s" % (k, got_nr[:4], exp_nr[:4])))
                else:
                    got_p = sorted((f["Name"], tuple((p[0], p[1]) for p in f["Parameters"])) for f in named)
                    exp_p = sorted((f["name"], tuple((p[0], p[1]) for p in f["params"])) for f in t["functions"])
                    if got_p != exp_p:
                        if all(not g[1] for g in got_p):
                            ds.append(("c01-ident-params", "identifier pass %s: functions are listed without their parameter lists" % (k,)))
                        else:
                            ds.append(("c01-ident-functions", "identifier pass %s: parameters %s expected %s" % (k, got_p[:4], exp_p[:4])))
    return dedup(ds)


def same_line_members(t):
    seen = set()
    for f in t["functions"]:
        key = (f["name"], f["fullStartLine"])
        if key in seen:
            return True
        seen.add(key)
    return False


def dedup(ds):
    seen, res = set(), []
    for d in ds:
        if d[0] not in seen:
            seen.add(d[0])
            res.append(d)
    return res


def oracle_c02(case, out, raw):
    if out is None or "panic" in out:
        return [("panic", "analysis panicked at %s: %s" % ((raw or {}).get("site"), (raw or {}).get("panic")))]
    ds = []
    by = {(n["Package"], n["NodeName"]): n for n in out["nodes"]}
    for t in case["truth"]:
        n = by.get((t["pkg"], t["name"]))
        if n is None or t["kind"] != "class":
            continue
        scope = t["unit"]["_scope"]
        static_imports = [i for i in t["imports"] if i.startswith("static ")]
        fmap = {}
        for f in n["Functions"]:
            fmap.setdefault((f["Name"], f["Position"]["StartLine"]), []).append(f)
        for tf in t["functions"]:
            cand = fmap.get((tf["name"], tf["fullStartLine"]), [])
            if len(cand) != 1 or same_line_members(t):
                continue       # C01's business
            got = cand[0]["FunctionCalls"]
            exp = tf["calls"]
            if len(got) != len(exp):
                ds.append(("c02-call-count", "%s.%s: %d calls recorded, %d invocations/creations written" % (t["name"], tf["name"], len(got), len(exp))))
                continue
            for g, e in zip(got, exp):
                if e["kind"] == "call":
                    if g["FunctionName"] != e["name"]:
                        ds.append(("c02-order-or-name", "%s.%s: recorded %r where %r is written" % (t["name"], tf["name"], g["FunctionName"], e["name"])))
                        break
                    p = g["Position"]
                    if (p["StartLine"], p["StartLinePosition"], p["StopLinePosition"]) != (e["line"], e["col"], e["col"] + len(e["name"])):
                        ds.append(("c02-position", "%s.%s call %s: position %s does not select the callee at line %d col %d" % (t["name"], tf["name"], e["name"], p, e["line"], e["col"])))
                    if e["recv"] is None and not any(i.endswith("." + e["name"]) for i in t["imports"]):
                        if (g["Package"], g["NodeName"]) != (t["pkg"], t["name"]):
                            ds.append(("c02-implicit-receiver", "%s.%s: unqualified call %s recorded against %s.%s" % (t["name"], tf["name"], e["name"], g["Package"], g["NodeName"])))
                    meta = e.get("meta")
                    if meta and meta.get("recvType") in scope and meta["recvType"] not in ("String",):
                        want = (scope[meta["recvType"]], meta["recvType"])
                        if (g["Package"], g["NodeName"]) != want:
                            ds.append(("c02-receiver-resolution", "%s.%s: %s.%s() with %s declared as %s recorded against %s.%s, expected %s.%s" % (
                                t["name"], tf["name"], meta["recvVar"], e["name"], meta["recvVar"], meta["recvType"], g["Package"], g["NodeName"], want[0], want[1])))
                elif e["kind"] == "mref":
                    if g["FunctionName"] != e["name"]:
                        ds.append(("c02-order-or-name", "%s.%s: recorded %r where the method reference ::%s is written" % (t["name"], tf["name"], g["FunctionName"], e["name"])))
                        break
                else:
                    written = e["type"].split("<")[0]
                    # `new Outer.Inner()`: the statement does not say which part of a qualified created name is "the created type"
                    # (the code records the outer class, which is what its imports resolve); exactly one record, naming a part of it
                    ok_names = {written} if "." not in written else {written, written.split(".")[0], written.split(".")[-1]}
                    if g["FunctionName"] != "" or g["NodeName"] not in ok_names:
                        ds.append(("c02-creation", "%s.%s: creation of %s recorded as %s %s" % (t["name"], tf["name"], e["type"], g["NodeName"], g["FunctionName"])))
                        break
    # (cases with constructs outside the positional ground truth: a named call of a named function and the type it is a call on)
    for x in case.get("expectReceivers", []):
        n = by.get((x["pkg"], x["cls"]))
        if n is None:
            continue
        fs = [f for f in n["Functions"] if f["Name"] == x["fn"]]
        if len(fs) != 1:
            continue       # C01's business (a named nested type behind a method takes the function entries with it: outside C01's quantifier)
        calls = [g for g in fs[0]["FunctionCalls"] if g["FunctionName"] == x["callee"]]
        if not calls:
            ds.append(("c02-call-count", "%s.%s: the call %s.%s() is written in its body and not recorded" % (x["cls"], x["fn"], x["var"], x["callee"])))
        for g in calls:
            if [g["Package"], g["NodeName"]] != x["want"]:
                ds.append(("c02-receiver-resolution", "%s.%s: %s.%s() with the field %s declared as %s recorded against %s.%s" % (
                    x["cls"], x["fn"], x["var"], x["callee"], x["var"], x["want"][1], g["Package"], g["NodeName"])))
    return dedup(ds)


def features(case):
    """event kinds of the rendered units (what the listeners are driven through), number of files / runs"""
    out = set()
    for u in case.get("units", []):
        for e in u.get("events", []):
            if isinstance(e, dict):
                out.add("ev:" + str(e.get("e", "?")))
            elif isinstance(e, list) and e:
                out.add("ev:" + str(e[0]))
    out.add("files:%d" % min(len(case.get("units", [])), 5))
    if "runs" in case:
        out.add("runs:%d" % len(case["runs"]))
    return sorted(out)
