"""C05 method rename / C06 unused-import removal: generators with ground truth, statement-level oracles."""
import json
import os

from . import javagen
from . import p_java

FAMILY = "refactor"
GEN_GROUPS = ["Refactor"]

NEW_NAMES = ["q", "zz9", "renamedToSomethingMuchLonger", "go2", "x_y", "fetchAll", "sum$all", "$tmp", "_v"]      # ($ and _ are identifier characters)
COMMENTS = ["é note", "ünï — ✓", "日本語", "run();", "find(", "plain", "😀 two units in UTF-16", "𝒳𝒴 astral"]


# ------------------------------------------------------------------------------------------------
# C05

def rename_case(rng):
    for _ in range(50):
        units = p_java.gen_project(rng)
        cands = [(u, m) for u in units if u["kind"] == "class" for m in u["members"] if m["kind"] == "method"]
        if not cands:
            continue
        u, m = rng.choice(cands)
        old = m["name"]
        # a second rule in the same configuration (another method of the same class), with calls of both on one line
        old2 = None
        others2 = sorted(set(mm["name"] for mm in u["members"] if mm["kind"] == "method" and mm["name"] != old))
        hosts2 = [mm for mm in u["members"] if mm.get("body") is not None]
        if others2 and hosts2 and rng.random() < 0.25:
            old2 = rng.choice(others2)
            rng.choice(hosts2)["body"].insert(0, ("expr", ("call", None, old, [("call", None, old2, []), ("call", ("this",), old2, [("call", None, old, [])])])))
        if rng.random() < 0.3:
            # several sites on one line: a call of the renamed method with calls of it among its arguments
            hosts = [mm for mm in u["members"] if mm.get("body") is not None]
            if hosts:
                rng.choice(hosts)["body"].insert(0, ("expr", ("call", None, old, [("call", None, old, []), ("lit", "1"), ("call", ("this",), old, [])])))
        files, built = {}, []
        if rng.random() < 0.35:
            # a second class with the very same layout (same lines and columns) in another file
            # preferably a class that mentions the renamed name: then both files have sites at identical positions
            mention = [x for x in units if x is not u and ("'%s'" % old) in repr(x["members"]) and ("'%s'" % u["name"]) in repr(x)]
            mention = mention or [x for x in units if ("'%s'" % old) in repr(x["members"])]
            src = rng.choice(mention) if mention and rng.random() < 0.7 else rng.choice(units)
            twin = json.loads(json.dumps(src))
            twin["name"] = src["name"][:-1] + ("Z" if not src["name"].endswith("Z") else "Y")
            if not any(x["name"] == twin["name"] and x["pkg"] == twin["pkg"] for x in units):
                for mm in twin["members"]:
                    if mm["kind"] == "ctor":
                        mm["name"] = twin["name"]
                src["_twin"] = twin["_twin"] = True
                units = units + [twin]
        for un in units:
            text, facts = javagen.render_unit(un, rng, wild=0.0 if un.get("_twin") else rng.choice([0.0, 0.05, 0.15]), comments=COMMENTS)
            path = "src/main/java/%s/%s.java" % (un["pkg"].replace(".", "/"), un["name"])
            built.append({"path": path, "text": text, "facts": facts, "unit": un})
            files[path] = text
        new = rng.choice([n for n in NEW_NAMES if n != old])
        if any(new == mm["name"] for un in units for mm in un["members"]):
            continue
        def tokens_of(name):
            """path -> (line, col) of every declaration / call / method-reference identifier token of that name (ground truth)"""
            toks = {}
            for b in built:
                s = set()
                for f in b["facts"]["functions"]:
                    if f["name"] == name and f["kind"] != "ctor":
                        s.add((f["nameLine"], f["nameCol"]))
                    for c in f["calls"]:
                        if c["kind"] in ("call", "mref") and c["name"] == name:
                            s.add((c["line"], c["col"]))
                for c in b["facts"].get("fieldCalls", []):
                    if c["kind"] in ("call", "mref") and c["name"] == name:
                        s.add((c["line"], c["col"]))
                toks[b["path"]] = sorted(s)
            return toks
        if rng.random() < 0.15:
            # a Windows checkout: every line ends in CR LF (lines and columns are the same; the line ends are bytes like any other)
            files = {pth: txt.replace("\n", "\r\n") for pth, txt in files.items()}
        case = {"op": "rename", "files": files, "old": "%s.%s.%s" % (u["pkg"], u["name"], old), "new": "%s.%s.%s" % (u["pkg"], u["name"], new),
                "oldName": old, "newName": new, "tokens": tokens_of(old), "cls": [u["pkg"], u["name"]],
                # one project in six through the real `coca analysis -p dir` + `coca refactor -R conf -d deps.json` (fresh processes)
                "cli": rng.random() < 0.17}
        if old2:
            new2 = rng.choice([n for n in NEW_NAMES if n not in (old, old2, new)] or ["zz2"])
            if any(new2 == mm["name"] for un in units for mm in un["members"]):
                continue
            case.update({"old2": "%s.%s.%s" % (u["pkg"], u["name"], old2), "new2": "%s.%s.%s" % (u["pkg"], u["name"], new2),
                         "oldName2": old2, "newName2": new2, "tokens2": tokens_of(old2), "cli": rng.random() < 0.5})
        return case
    raise RuntimeError("no renameable project generated")


def gen_c05(rng, tier):
    nsh, per = (16, 12) if tier == "quick" else (32, 300)
    return [[rename_case(rng) for _ in range(per)] for _ in range(nsh)]


def replace_tokens(text, sites, old, new):
    """simultaneous replacement of the ranges [col, col+len(old)) (in characters) on the given 1-based lines"""
    lines = text.split("\n")
    by_line = {}
    for (ln, col) in sites:
        by_line.setdefault(ln, set()).add(col)
    for ln, cols in by_line.items():
        if not (1 <= ln <= len(lines)):
            return None
        line = lines[ln - 1]
        out, pos = "", 0
        for col in sorted(cols):
            if col < pos or line[col:col + len(old)] != old:
                return None
            out += line[pos:col] + new
            pos = col + len(old)
        lines[ln - 1] = out + line[pos:]
    return "\n".join(lines)


def strip_pos(o):
    """positions move with the length of the name, and argument texts quote the renamed calls"""
    if isinstance(o, dict):
        return {k: strip_pos(v) for k, v in o.items() if k != "Position" and not (k == "Parameters" and "FunctionName" in o)}
    if isinstance(o, list):
        return [strip_pos(x) for x in o]
    return o


def oracle_c05(case, out, raw):
    if out is None or "panic" in out:
        return [("panic", "rename panicked at %s: %s" % ((raw or {}).get("site"), (raw or {}).get("panic")))]
    ds = []
    old, new = case["oldName"], case["newName"]
    if "old2" in case:
        return oracle_c05_two(case, out)
    # the sites the model attributes to the method must stand on identifier tokens `old` (positions are C01/C02's business, re-checked here)
    per_file = {}
    for s in out["sites"]:
        per_file.setdefault(s["file"], set()).add((s["line"], s["start"]))
    for path, text in case["files"].items():
        sites = sorted(per_file.get(path, set()))
        truth = set(tuple(t) for t in case["tokens"].get(path, []))
        stray = [s for s in sites if s not in truth]
        if stray:
            ds.append(("c05-site-not-on-identifier", "%s: the model places %s at %s where no declaration/call identifier %r stands" % (path, old, stray[:3], old)))
            continue
        exp = replace_tokens(text, sites, old, new)
        got = out["files"].get(path)
        if exp is None:
            ds.append(("c05-site-not-on-identifier", "%s: a site does not select %r" % (path, old)))
        elif got != exp:
            ds.append(("c05-bytes-differ", "%s: rewritten file differs from 'only the attributed identifiers replaced': %s" % (path, first_text_diff(exp, got))))
    for path in out["files"]:
        if path not in case["files"]:
            ds.append(("c05-new-file", "unexpected file %s" % path))
    # re-analysis = the original model with that method and those calls renamed (positions aside)
    if not ds:
        pk, cl = case["cls"]
        exp_model = json.loads(json.dumps(out["before"]))
        for n in exp_model:
            for f in n["Functions"]:
                if (n["Package"], n["NodeName"]) == (pk, cl) and f["Name"] == old:
                    f["Name"] = new
                for c in f["FunctionCalls"]:
                    if c["Package"] + c["NodeName"] == pk + cl and c["FunctionName"] == old:
                        c["FunctionName"] = new

        # a chained call `old().m()` names its receiver by the callee before it: that text is renamed with it
        import re
        # (whole identifiers: `$` and `_` are identifier characters, so \b would not do)
        pat = re.compile(r"(?<![A-Za-z0-9_$])(%s|%s)(?![A-Za-z0-9_$])" % (re.escape(old), re.escape(new)))

        def chain(nodes):
            for n in nodes:
                for f in n["Functions"]:
                    for c in f["FunctionCalls"]:
                        # the receiver of a chained call is recorded as the callee before it (`old`) or as its text (`old()`)
                        if c["NodeName"] in (old, new) or "(" in c["NodeName"]:
                            c["NodeName"] = pat.sub("<the renamed callee>", c["NodeName"])
            return nodes
        a = canon_model(chain(strip_pos(out["after"])))
        b = canon_model(chain(strip_pos(exp_model)))
        if a != b:
            ds.append(("c05-reanalysis-differs", "re-analysing the rewritten tree does not give the renamed model: %s" % p_java.first_diff(b, a)))
    return p_java.dedup(ds)


def oracle_c05_two(case, out):
    """a configuration with two rules: every file equals the original with the attributed identifier tokens of BOTH methods replaced
    (simultaneously - the positions are those of the original text), every other byte unchanged"""
    ds = []
    rules = [(case["oldName"], case["newName"], case["tokens"], out["sites"]), (case["oldName2"], case["newName2"], case["tokens2"], out.get("sites2", []))]
    for path, text in case["files"].items():
        edits = {}      # line -> [(col, old, new)]
        bad = False
        for old, new, tokens, sites in rules:
            mine = sorted(set((s["line"], s["start"]) for s in sites if s["file"] == path))
            truth = set(tuple(t) for t in tokens.get(path, []))
            if any(s not in truth for s in mine):
                ds.append(("c05-site-not-on-identifier", "%s: a site of %s stands on no declaration/call identifier of that name" % (path, old)))
                bad = True
            for ln, col in mine:
                edits.setdefault(ln, []).append((col, old, new))
        if bad:
            continue
        lines = text.split("\n")
        for ln, es in edits.items():
            line, outl, pos = lines[ln - 1], "", 0
            for col, old, new in sorted(es):
                if col < pos or line[col:col + len(old)] != old:
                    ds.append(("c05-site-not-on-identifier", "%s line %d: a site does not select %r" % (path, ln, old)))
                    break
                outl += line[pos:col] + new
                pos = col + len(old)
            lines[ln - 1] = outl + line[pos:]
        exp = "\n".join(lines)
        if out["files"].get(path) != exp and not ds:
            ds.append(("c05-bytes-differ", "%s (two rules): rewritten file differs from 'only the attributed identifiers replaced': %s" % (path, first_text_diff(exp, out["files"].get(path)))))
    return p_java.dedup(ds)


def canon_model(nodes):
    out = []
    for n in nodes:
        n = dict(n)
        n["Functions"] = sorted(n["Functions"], key=lambda f: json.dumps(f, sort_keys=True))
        out.append(n)
    return sorted(out, key=lambda n: (n["Package"], n["NodeName"]))


def first_text_diff(a, b):
    if b is None:
        return "file missing"
    la, lb = a.split("\n"), b.split("\n")
    if len(la) != len(lb):
        return "%d lines expected, %d found" % (len(la), len(lb))
    for i, (x, y) in enumerate(zip(la, lb)):
        if x != y:
            return "line %d expected %r found %r" % (i + 1, x[:160], y[:160])
    return "?"


def augment(case, impl):
    """the rewrite MODEL runs on the sites / front-end tables the real analysis produced (layer-wise correspondence)"""
    c = dict(case)
    if impl and impl.get("out") and isinstance(impl["out"], dict):
        if case.get("op") == "rename":
            c["sites"] = impl["out"].get("sites", [])
        elif case.get("op") == "unused":
            c["front"] = impl["out"].get("front", [])
    return c


def view(o):
    if isinstance(o, dict) and "unmodelled" in o:
        return {"unmodelled": True}
    if isinstance(o, dict) and "files1" in o:
        return {"files1": o["files1"], "files2": o["files2"]}
    if isinstance(o, dict) and "files" in o:
        return {"files": o["files"]}
    return o


# ------------------------------------------------------------------------------------------------
# C06

LIB = [("java.util", "List"), ("java.util", "ArrayList"), ("java.util", "Map"), ("java.io", "IOException"), ("org.lib", "Tool"), ("org.lib.deep", "Order"),
       ("org.lib", "Helper"), ("javax.inject", "Inject"), ("org.lib", "Config"), ("com.acme", "Émile"),
       # sub-packages of java.lang are not imported implicitly
       ("java.lang.reflect", "Method"), ("java.lang.ref", "WeakReference")]
USES = ["field", "anno", "new", "static", "staticfield", "staticarg", "catch", "param", "ret", "extends", "generic", "throws", "cast", "local",
        "nestedfield", "nestedparam", "nestedlocal", "nestednew",
        "instanceof", "mref", "mrefnew", "classlit", "multicatch", "bound", "wildcard", "foreach", "trywith", "lambdaparam", "arraytype",
        "typeargnew", "arraynew", "castarr", "genericret", "annoarg", "ternary"]
MORE_USES = {   # one method or field that uses the simple name in that position (probed on the real code: all are recognised as uses)
    "instanceof": "    boolean io%(l)s(Object o) { return o instanceof %(n)s; }",
    "mref": "    void mr%(l)s(java.util.Collection<String> l) { l.forEach(%(n)s::use); }",
    "mrefnew": "    Object mn%(l)s() { java.util.function.Supplier<Object> s = %(n)s::new; return s; }",
    "classlit": "    Object cl%(l)s() { return %(n)s.class; }",
    "multicatch": "    void mc%(l)s() { try { run(); } catch (RuntimeException | %(n)s e) { run(); } }",
    "bound": "    <X extends %(n)s> void bd%(l)s(X x) { }",
    "wildcard": "    void wc%(l)s(java.util.Collection<? extends %(n)s> l) { }",
    "foreach": "    void fe%(l)s(java.util.Collection<Object> items) { for (%(n)s t : items) { } }",
    "trywith": "    void tw%(l)s() { try (%(n)s t = open()) { run(); } }",
    "lambdaparam": "    void lp%(l)s() { run((%(n)s t) -> 1); }",
    "arraytype": "    private %(n)s[] arr%(l)s;",
    "typeargnew": "    Object tn%(l)s() { return new java.util.LinkedList<%(n)s>(); }",
    "arraynew": "    Object an%(l)s() { return new %(n)s[3]; }",
    "castarr": "    Object cx%(l)s(Object o) { return (%(n)s[]) o; }",
    "genericret": "    java.util.SortedMap<String, %(n)s> gr%(l)s() { return null; }",
    "annoarg": "    @Size(groups = %(n)s.class) private int za%(l)s;",
    "ternary": "    Object te%(l)s(boolean b) { return b ? %(n)s.A : null; }",
}


def unused_file(rng, idx):
    """one conventional file: imports (used in a chosen way / unused / wildcard / static) at any line, and a body using exactly the 'used' ones"""
    pkg = rng.choice(["com.shop", "com.shop.order"])
    name = "C%d%s" % (idx, rng.choice(["Service", "Repo", ""]))
    kind = "class" if rng.random() < 0.85 else "interface"
    pool = list(LIB)
    rng.shuffle(pool)
    imports = []     # (text of the import line, simple name or None, used?)
    uses = []
    for (p, n) in pool[:rng.choice([0, 1, 2, 3, 5, 7])]:
        r = rng.random()
        if r < 0.45:
            how = rng.choice(USES if kind == "class" else ["param", "ret", "anno", "generic", "throws"])
            imports.append(("import %s.%s;" % (p, n), n, True))
            uses.append((how, n))
        elif r < 0.85:
            imports.append(("import %s.%s;" % (p, n), n, False))
        elif r < 0.93:
            imports.append(("import %s.*;" % p, None, True))
        elif r < 0.965:
            imports.append(("import static %s.%s.%s;" % (p, n, "make" + n), "make" + n, rng.random() < 0.5))
            if imports[-1][2]:
                uses.append(("staticcall", "make" + n))
        else:
            # a statically imported constant, referenced as a bare name somewhere in the file (or not at all)
            cn = "MAX_" + n.upper().replace("É", "E")
            if rng.random() < 0.4:
                cn = "out" + n.replace("É", "E").replace("é", "e")      # a lower-case member (`import static java.lang.System.out;`)
            imports.append(("import static %s.%s.%s;" % (p, n, cn), cn, rng.random() < 0.6))
            if imports[-1][2] and kind == "class":
                uses.append((rng.choice(["constfield", "constcmp", "constdim", "constassign", "constarg", "constret", "constanno"] if cn.startswith("MAX_") else ["lowrecv", "constarg", "constassign"]), cn))
            elif imports[-1][2]:
                imports[-1] = (imports[-1][0], cn, False)
    # the same single-type import written on two lines (a merge leftover): both lines are imports of that name, both go when
    # it is unused, both stay when it is used
    if imports and rng.random() < 0.15:
        dup = rng.choice([i for i in imports if " static " not in i[0] and not i[0].endswith(".*;")] or [None])
        if dup is not None:
            imports.insert(rng.randrange(len(imports) + 1), dup)
    lines = []
    if rng.random() < 0.3:
        lines.append("// header é — comment")
    lines.append("package %s;" % pkg)
    lines.append("")
    drop_lines = []
    for (txt, n, used) in imports:
        if rng.random() < 0.2:
            lines.append("")
        if rng.random() < 0.1:
            lines.append("// import note: import fake.Thing;")
        lines.append(txt)
        if not used:
            drop_lines.append(len(lines))
    lines.append("")
    fields, methods, class_annos, ext = [], [], [], ""
    for how, n in uses:
        if how == "field":
            fields.append("    private %s f%s;" % (n, n.lower()))
        elif how == "anno":
            class_annos.append("@%s" % n)
        elif how == "new":
            methods.append("    void mk%s() { Object o = new %s(); }" % (n, n))
        elif how == "static":
            methods.append("    void st%s() { %s.create(1); }" % (n, n))
        elif how == "staticcall":
            methods.append("    void sc%s() { %s(); }" % (n, n))
        elif how == "staticfield":
            methods.append("    int sf%s() { return %s.MAX; }" % (n, n))
        elif how == "staticarg":
            methods.append("    void sa%s() { run(1, %s.DEFAULT); }" % (n, n))
        elif how == "catch":
            methods.append("    void ct%s() { try { run(); } catch (%s e) { run(); } }" % (n, n))
        elif how == "param":
            methods.append("    void pa%s(%s p)%s" % (n, n, " { }" if kind == "class" else ";"))
        elif how == "ret":
            methods.append("    %s re%s()%s" % (n, n, " { return null; }" if kind == "class" else ";"))
        elif how == "extends" and not ext:
            ext = " extends " + n
        elif how == "extends":
            fields.append("    private %s g%s;" % (n, n.lower()))
        elif how == "generic":
            methods.append("    void ge%s(java.util.Set<%s> p)%s" % (n, n, " { }" if kind == "class" else ";"))
        elif how == "throws":
            methods.append("    void th%s() throws %s%s" % (n, n, " { }" if kind == "class" else ";"))
        elif how == "cast":
            methods.append("    Object ca%s(Object o) { return (%s) o; }" % (n, n))
        elif how == "local":
            methods.append("    void lo%s() { %s v = null; }" % (n, n))
        # the import is used only as the outer name of a nested type: Map.Entry<String, String>, Outer.Inner
        elif how in MORE_USES:
            line = MORE_USES[how] % {"n": n, "l": n.lower().replace("é", "e")}
            (fields if line.rstrip().endswith(";") and "(" not in line.split("=")[0] and "{" not in line else methods).append(line)
        elif how == "constfield":
            fields.append("    private int k%s = %s;" % (n.lower(), n))
        elif how == "constcmp":
            methods.append("    boolean cc%s(int k) { return k > %s; }" % (n.lower(), n))
        elif how == "constdim":
            methods.append("    int[] cd%s() { return new int[%s]; }" % (n.lower(), n))
        elif how == "constassign":
            methods.append("    void ca%s() { int k; k = %s; }" % (n.lower(), n))
        elif how == "lowrecv":
            methods.append("    void lr%s() { %s.println(1); }" % (n.lower(), n))
        elif how == "constarg":
            methods.append("    void cg%s() { run(1, %s); }" % (n.lower(), n))
        elif how == "constret":
            methods.append("    int cr%s() { return %s; }" % (n.lower(), n))
        elif how == "constanno":
            fields.append("    @Size(max = %s) private int z%s;" % (n, n.lower()))
        elif how == "nestedfield":
            fields.append("    private %s.Entry<String, String> n%s;" % (n, n.lower()))
        elif how == "nestedparam":
            methods.append("    void np%s(%s.Inner p) { }" % (n, n))
        elif how == "nestedlocal":
            methods.append("    void nl%s() { %s.Inner v = null; }" % (n, n))
        elif how == "nestednew":
            methods.append("    Object nn%s() { return new %s.Builder(); }" % (n, n))
    if kind == "class" and rng.random() < 0.5:
        methods.append("    void run() { }")
    lines += class_annos
    # (the type is public, package-private, final or abstract: its file is cleaned all the same)
    vis = rng.choice(["public ", "public ", "public ", "", "final " if kind == "class" else "", "abstract "])
    lines.append("%s%s %s%s {" % (vis, kind, name, ext if kind == "class" else ""))
    lines += fields + methods
    lines.append("}")
    text = "\n".join(lines) + ("\n" if rng.random() < 0.8 else "")
    exp_lines = text.split("\n")
    exp = "\n".join(l for i, l in enumerate(exp_lines) if (i + 1) not in drop_lines)
    path = "src/main/java/%s/%s.java" % (pkg.replace(".", "/"), name)
    return path, text, exp, len(drop_lines)


def unused_case(rng):
    files, expected, ndrop = {}, {}, 0
    for i in range(rng.choice([1, 2, 2, 3, 4])):
        p, t, e, n = unused_file(rng, i)
        files[p] = t
        expected[p] = e
        ndrop += n
    # one directory in eight through the real `coca refactor -m move.config -p dir` (twice, fresh processes)
    return {"op": "unused", "files": files, "expected": expected, "ndrop": ndrop, "cli": rng.random() < 0.12}


def gen_c06(rng, tier):
    nsh, per = (16, 20) if tier == "quick" else (32, 500)
    return [[unused_case(rng) for _ in range(per)] for _ in range(nsh)]


def oracle_c06(case, out, raw):
    if out is None or "panic" in out:
        return [("panic", "unused-import removal panicked at %s: %s" % ((raw or {}).get("site"), (raw or {}).get("panic")))]
    ds = []
    for path, exp in case["expected"].items():
        got = out["files1"].get(path)
        if got != exp:
            orig = case["files"][path]
            if got == orig and exp != orig:
                ds.append(("c06-file-not-cleaned", "%s keeps its unused imports (%d files in the directory)" % (path, len(case["files"]))))
            else:
                ds.append(("c06-wrong-lines", "%s: result is not 'original minus its unused single-type import lines': %s" % (path, first_text_diff(exp, got))))
        if out["files2"].get(path) != got:
            ds.append(("c06-second-run-changes", "%s changes again on a second run: %s" % (path, first_text_diff(got or "", out["files2"].get(path)))))
    return p_java.dedup(ds)


def nontrivial(case, mo):
    if case.get("op") == "rename":
        return any(case["tokens"].values())
    return case.get("ndrop", 0) > 0


RULES = {
    "C05": ("rendered projects (generator of C01/C02) in which one declared method of one class is renamed to a name of another length (1 to 28 characters); "
            "declaration and call sites at any column, several per line through nested and chained calls and method references, preceded on their line by block "
            "comments and string literals with multi-byte characters (wild layout 0 / 5 / 15 %), names split over lines, same method name in other classes "
            "(must stay), one or many files; non-trivial = at least one identifier token of that name in the tree"),
    "C06": ("directories of 1-4 files, each with 0-7 imports in random order: single-type imports used in exactly one way (field, annotation, creation, static "
            "receiver, catch, parameter, return, extends, type argument, throws, cast, local) or unused, wildcard imports, static imports used or not; blank "
            "lines and comment lines (one mentioning `import`) between them; class or interface; with or without final newline; followed by a second run; "
            "non-trivial = at least one import to delete"),
}
ASSUMPTIONS = ["C05: 'the calls the model attributes to the method' are read from the real code model (Package+NodeName, FunctionName), their places from the renderer's token positions",
               "C05: the new name is not already a member name of the project; identifiers are ASCII",
               "C06: one import per line; a static import counts as used iff its member name is called or referenced as a bare name"]
TRUSTED = ["vlib/javagen.py renderer and token positions", "ANTLR Java parser"]


def make(prop):
    class M:
        pass
    m = M()
    m.PROP = prop
    m.FAMILY = FAMILY
    m.GEN_GROUPS = GEN_GROUPS
    m.PROPS = [prop]
    m.gen = gen_c05 if prop == "C05" else gen_c06
    m.oracle = oracle_c05 if prop == "C05" else oracle_c06
    m.view = view
    m.augment = augment
    m.nontrivial = nontrivial
    m.WITNESSES = {}
    fdir = os.path.join(os.path.dirname(os.path.dirname(os.path.abspath(__file__))), "findings")
    for fn in sorted(os.listdir(fdir)):
        if fn.startswith(prop.lower() + "-") and fn.endswith(".json"):
            w = json.load(open(os.path.join(fdir, fn)))
            m.WITNESSES[w["finding"]] = w["history"]
    m.RULE = RULES[prop]
    m.ASSUMPTIONS = ASSUMPTIONS
    m.TRUSTED = TRUSTED
    return m
