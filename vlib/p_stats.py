"""C18: reference counts, evaluation summary, concept words — generators and oracle (decision layer
on code-model JSON; the identifier-pass front-end clauses are exercised by the Java front-end family)."""
import itertools
import re

PROP = "C18"
FAMILY = "stats"
PROPS = ["C18"]
GEN_GROUPS = ["Stats"]

MODS = ["public", "private", "protected", "static", "final", "abstract", "synchronized"]
NAMES = ["getUserName", "setValue", "findAllByIdAndName", "parseJSONData", "run", "a", "toURL", "process2Items", "x1", "save_all",
         "handleHTTPRequest", "isValid", "of", "MAX", "updateUser", "user", "userRepositoryImpl", "sha256Hex", "v2", "get", "Item9",
         "findUser", "findAll", "createOrder", "createInvoice", "updateOrder",
         # separators at an end of the name, doubled, or after a digit run: no empty "word" may be counted
         "_loadOrder", "shipOrder_", "test__cancelOrder", "step2_archiveInvoice"]


FAMILIES = [["findUser", "findAll", "findAllByIdAndName"], ["reserveItem", "reserveBatch"], ["sendWelcome", "sendReceipt", "sendAll"],
            ["trackParcel", "trackPallet"], ["computeNet", "computeGross"], ["createOrder", "createInvoice"]]


def rand_model(rng):
    clzs = []
    decl = []
    services = rng.random() < 0.25      # several service classes whose methods share a first word (the service lifecycle summary)
    for i in range(rng.choice([2, 3, 4]) if services else rng.choice([1, 2, 3, 4])):
        pk = rng.choice(["p", "q.r"])
        # (names that are a utility class AND a service class at once included)
        cn = rng.choice(["A", "StringUtil", "UserService", "OrderService", "MyUtils", "Utility", "Repo", "futile", "OrderServiceUtils", "UtilServiceLocator"])
        if services:
            cn = ["UserService", "OrderService", "PayService", "MailService"][i]
        fns = []
        fam = FAMILIES[(i + rng.choice([0, 0, 1])) % len(FAMILIES)] if services else None
        for j in range(rng.choice([2, 3, 4]) if services else rng.choice([0, 1, 2, 3, 5])):
            mods = rng.sample(MODS, rng.choice([0, 1, 2, 3, 7]))
            annos = []
            r = rng.random()
            if r < 0.15:
                annos.append({"Name": "Nullable"})
            elif r < 0.25:
                annos.append({"Name": "CheckForNull"})
            elif r < 0.35:
                annos.append({"Name": "Override"})
            fn = {"Name": (rng.choice(fam) if fam and rng.random() < 0.8 else rng.choice(NAMES)), "ReturnType": rng.choice(["void", "String", "A", "Repo"]),
                  "Modifiers": mods, "Annotations": annos, "IsReturnNull": rng.random() < 0.2,
                  "Parameters": [{"TypeValue": "int", "TypeType": "a"}] * rng.choice([0, 1, 4, 5]),
                  "Position": {"StartLine": 3 + j * 4, "StopLine": 5 + j * 4}, "FunctionCalls": []}
            fns.append(fn)
            decl.append((pk, cn, fn["Name"]))
        clzs.append({"NodeName": cn, "Package": pk, "Functions": fns})
    for c in clzs:
        for f in c["Functions"]:
            for _ in range(rng.choice([0, 1, 2, 3, 6])):
                r = rng.random()
                if r < 0.7 and decl:
                    pk, cn, mn = rng.choice(decl)
                    f["FunctionCalls"].append({"Package": pk, "NodeName": cn, "FunctionName": mn})
                elif r < 0.85:
                    f["FunctionCalls"].append({"Package": "ext", "NodeName": "Lib", "FunctionName": "call"})
                elif r < 0.92:
                    f["FunctionCalls"].append({"Package": "p", "NodeName": "A", "FunctionName": ""})
                else:
                    f["FunctionCalls"].append({"Package": "p", "NodeName": "", "FunctionName": "x"})
    return clzs


def gen(rng, tier):
    nsh, per = (16, 100) if tier == "quick" else (32, 1500)
    shards = []
    # all permutations of the 7 modifiers once (5040), in batches of 40 methods per class
    perms = list(itertools.permutations(MODS))
    rng2 = rng
    ex = []
    for i in range(0, len(perms), 60):
        fns = [{"Name": "m%d" % k, "Modifiers": list(p)} for k, p in enumerate(perms[i:i + 60])]
        fns += [{"Name": "n%d" % k, "Modifiers": [m for m in p if m != "static"]} for k, p in enumerate(perms[i:i + 60:7])]
        ids = [{"NodeName": "P", "Package": "p", "Functions": fns}]
        ex.append({"op": "evaluate", "clzs": ids, "identifiers": ids})
    shards.append(ex)
    for s in range(nsh):
        sh = []
        for i in range(per):
            m = rand_model(rng)
            k = rng.choice(["count", "evaluate", "concept"])
            c = {"op": k, "clzs": m}
            if k == "evaluate":
                c["identifiers"] = m if rng.random() < 0.7 else rand_model(rng)
            if k in ("evaluate", "concept") and rng.random() < (0.2 if tier == "quick" else 0.08):
                # through the real `coca evaluate` / `coca concept` in a fresh process: coca_reporter/evaluate.json, the printed table
                c["cli"] = True
            if k == "count" and rng.random() < (0.5 if tier == "quick" else 0.25):
                # the listing as printed by the real `coca count`, three fresh processes (its order must be reproducible)
                c["cliRuns"] = 3
                c["top"] = 0
            sh.append(c)
        shards.append(sh)
    return shards


# ---- oracle ------------------------------------------------------------------------------------

def full_call(x):
    if x.get("FunctionName", "") == "":
        return x.get("Package", "") + "." + x.get("NodeName", "")
    return x.get("Package", "") + "." + x.get("NodeName", "") + "." + x["FunctionName"]


STOP = None


def stop_words():
    global STOP
    if STOP is None:
        STOP = set()
        for f in ["/repo/pkg/application/call/stop_words/languages/en.go", "/repo/pkg/infrastructure/constants/java_target_config.go"]:
            txt = open(f).read()
            if "TechStopWords" in txt:
                txt = txt[txt.index("TechStopWords"):]
            STOP |= set(re.findall(r'^\s*"([^"]+)",', txt, re.M))
    return STOP


def split_words(name):
    """independent reading of 'the words of a camel-case name': lower/upper/digit runs, acronyms kept
    together, separators _ - space. Only used where it is unambiguous (see oracle)."""
    s = re.sub(r"([a-zA-Z])(\d+)([a-zA-Z]?)", r"\1 \2 \3", name).strip(" ")
    out, n = "", ""
    for i, v in enumerate(s):
        changed = False
        if i + 1 < len(s):
            nx = s[i + 1]
            if (v.isupper() and v.isascii() and nx.islower() and nx.isascii()) or (v.islower() and v.isascii() and nx.isupper() and nx.isascii()):
                changed = True
        if i > 0 and n[-1] != "." and changed:
            if v.isupper():
                n += "." + v
            elif v.islower():
                n += v + "."
        elif v in " _-":
            n += "."
        else:
            n += v
    return [w for w in n.lower().split(".") if w.strip() != "" and not re.fullmatch(r"[0-9]+", w)]


def oracle(case, out, raw):
    if out is None or "panic" in out:
        return [("panic", "%s panicked: %s" % (case["op"], (raw or {}).get("panic")))]
    ds = []
    clzs = case["clzs"]
    if "reportUnreadable" in out:
        return [("evaluate-report-unreadable", out["reportUnreadable"])]
    if case["op"] == "count":
        decl = set(c["Package"] + "." + c["NodeName"] + "." + f["Name"] for c in clzs for f in c.get("Functions") or [])
        exp = {}
        for c in clzs:
            for f in c.get("Functions") or []:
                for x in f.get("FunctionCalls") or []:
                    k = full_call(x)
                    if k in decl:
                        exp[k] = exp.get(k, 0) + 1
        got = [(p["Key"], p["Value"]) for p in out["pairs"]]
        if dict(got) != exp or len(got) != len(exp):
            ds.append(("refcount-wrong", "got %s expected %s" % (got[:5], sorted(exp.items())[:5])))
        if "cli" in out:
            # what `coca count` prints: the same rows in every run (reproducible order), and exactly the expected counts
            if out.get("cliError"):
                ds.append(("count-cli-error", out["cliError"][:300]))
            runs = out["cli"]
            if any(r != runs[0] for r in runs[1:]):
                ds.append(("refcount-order-irreproducible", "`coca count` listed the same model in different orders: %s vs %s" % (
                    runs[0][:6], [r for r in runs[1:] if r != runs[0]][0][:6])))
            for r in runs[:1]:
                if sorted((k, int(v)) for v, k in r) != sorted(exp.items()):
                    ds.append(("refcount-cli-wrong", "`coca count` printed %s, expected counts %s" % (r[:5], sorted(exp.items())[:5])))
    elif case["op"] == "evaluate":
        ids = case["identifiers"]
        methods = [(c, f) for c in ids for f in c.get("Functions") or []]
        exp = {"ClassCount": len(ids), "MethodCount": len(methods),
               "StaticMethodCount": sum(1 for _, f in methods if "static" in (f.get("Modifiers") or [])),
               "UtilsCount": sum(1 for c in clzs if "util" in c["NodeName"].lower())}
        for k, v in exp.items():
            if out[k] != v:
                ds.append(("summary-" + k, "%s = %d, derivable value %d" % (k, out[k], v)))
        nn = set()
        for c, f in methods:
            if f.get("IsReturnNull") or any(a.get("Name") in ("Nullable", "CheckForNull") for a in f.get("Annotations") or []):
                nn.add(c["Package"] + "." + c["NodeName"] + "." + f["Name"])
        if out["Nullable"] != sorted(nn):
            ds.append(("nullable-list", "got %s expected %s" % (out["Nullable"][:4], sorted(nn)[:4])))
    elif case["op"] == "concept":
        words = [w for c in clzs for f in c.get("Functions") or [] for w in split_words(f["Name"])]
        exp_total = sum(1 for w in words if w not in stop_words())
        got_total = sum(p["Value"] for p in out["pairs"])
        if got_total != exp_total:
            ds.append(("concept-sum", "word counts sum to %d, %d non-stop words in the method names" % (got_total, exp_total)))
        keys = [p["Key"] for p in out["pairs"]]
        if len(set(keys)) != len(keys) or any(k in stop_words() for k in keys):
            ds.append(("concept-keys", "duplicate or stop word listed"))
    return ds


def nontrivial(case, mo):
    return bool(mo.get("pairs")) or mo.get("MethodCount", 0) > 0


RULE = ("random code models (1-4 classes incl. *Util*/*Service* names and names that are both, 0-5 methods from a pool of camel-case shapes with acronyms/digits/underscores, "
        "modifier subsets, Nullable/CheckForNull/IsReturnNull, calls to declared/undeclared/creation/empty-NodeName callees) x {count, evaluate, concept}; "
        "a fifth of the evaluate / concept cases go through the real `coca evaluate` (coca_reporter/evaluate.json) / `coca concept` (printed table); half of the count cases (a quarter in the thorough tier) also run the REAL `coca count -d deps.json` three times in fresh processes; plus ALL 5040 permutations of the 7 modifiers (and the same without static) through evaluate once per run; non-trivial = non-empty report")
ASSUMPTIONS = ["method names are ASCII (strcase indexes bytes); the oracle's word splitter is an independent reading of strcase.ToDelimited",
               "floating-point fields of the summary (standard deviations) are not compared",
               "IsReturnNull / Modifiers as delivered by the identifier pass are inputs here; their extraction from source is covered by the Java front-end checks"]
TRUSTED = ["yourbasic/radix (bytewise lexicographic sort)", "iancoleman/strcase (modelled for ASCII)", "gonum stat (not compared)"]
WITNESSES = {}


def view(o):
    """the Lean model covers the summary counts and the nullable list; the rest of evaluate.json is compared between runs by C08 only"""
    if isinstance(o, dict) and "full" in o:
        return {k: v for k, v in o.items() if k != "full"}
    if isinstance(o, dict) and "cli" in o:
        return {k: v for k, v in o.items() if k not in ("cli", "cliError")}      # the printed table is judged by the oracle
    return o


def view_det(o):
    return o
