"""C18: reference counts, evaluation summary, concept words — generators and oracle (decision layer
on code-model JSON; the identifier-pass front-end clauses are exercised by the Java front-end family)."""
import itertools
import re

PROP = "C18"
FAMILY = "stats"
PROPS = ["C18", "C01Ident", "C18Source"]      # C01Ident: what the identifier pass delivers of a method (annotations, modifiers, returns-null)
GEN_GROUPS = ["Stats"]

MODS = ["public", "private", "protected", "static", "final", "abstract", "synchronized"]
NAMES = ["getUserName", "setValue", "findAllByIdAndName", "parseJSONData", "run", "a", "toURL", "process2Items", "x1", "save_all",
         "handleHTTPRequest", "isValid", "of", "MAX", "updateUser", "user", "userRepositoryImpl", "sha256Hex", "v2", "get", "Item9",
         "findUser", "findAll", "createOrder", "createInvoice", "updateOrder",
         # separators at an end of the name, doubled, or after a digit run: no empty "word" may be counted
         "_loadOrder", "shipOrder_", "test__cancelOrder", "step2_archiveInvoice"]


FAMILIES = [["findUser", "findAll", "findAllByIdAndName"], ["reserveItem", "reserveBatch"], ["sendWelcome", "sendReceipt", "sendAll"],
            ["trackParcel", "trackPallet"], ["computeNet", "computeGross"], ["createOrder", "createInvoice"]]


def rand_model(rng):
    clzs = []
    decl = []
    services = rng.random() < 0.25      # several service classes whose methods share a first word (the service lifecycle summary)
    for i in range(rng.choice([2, 3, 4]) if services else rng.choice([1, 2, 3, 4])):
        pk = rng.choice(["p", "q.r"])
        # (names that are a utility class AND a service class at once included)
        cn = rng.choice(["A", "StringUtil", "UserService", "OrderService", "MyUtils", "Utility", "Repo", "futile", "OrderServiceUtils", "UtilServiceLocator"])
        if services:
            cn = ["UserService", "OrderService", "PayService", "MailService"][i]
        fns = []
        fam = FAMILIES[(i + rng.choice([0, 0, 1])) % len(FAMILIES)] if services else None
        for j in range(rng.choice([2, 3, 4]) if services else rng.choice([0, 1, 2, 3, 5])):
            mods = rng.sample(MODS, rng.choice([0, 1, 2, 3, 7]))
            annos = []
            r = rng.random()
            if r < 0.15:
                annos.append({"Name": "Nullable"})
            elif r < 0.25:
                annos.append({"Name": "CheckForNull"})
            elif r < 0.35:
                annos.append({"Name": "Override"})
            fn = {"Name": (rng.choice(fam) if fam and rng.random() < 0.8 else rng.choice(NAMES)), "ReturnType": rng.choice(["void", "String", "A", "Repo"]),
                  "Modifiers": mods, "Annotations": annos, "IsReturnNull": rng.random() < 0.2,
                  "Parameters": [{"TypeValue": "int", "TypeType": "a"}] * rng.choice([0, 1, 4, 5]),
                  "Position": {"StartLine": 3 + j * 4, "StopLine": 5 + j * 4}, "FunctionCalls": []}
            fns.append(fn)
            decl.append((pk, cn, fn["Name"]))
        clzs.append({"NodeName": cn, "Package": pk, "Functions": fns})
    for c in clzs:
        for f in c["Functions"]:
            for _ in range(rng.choice([0, 1, 2, 3, 6])):
                r = rng.random()
                if r < 0.7 and decl:
                    pk, cn, mn = rng.choice(decl)
                    f["FunctionCalls"].append({"Package": pk, "NodeName": cn, "FunctionName": mn})
                elif r < 0.85:
                    f["FunctionCalls"].append({"Package": "ext", "NodeName": "Lib", "FunctionName": "call"})
                elif r < 0.92:
                    f["FunctionCalls"].append({"Package": "p", "NodeName": "A", "FunctionName": ""})
                else:
                    f["FunctionCalls"].append({"Package": "p", "NodeName": "", "FunctionName": "x"})
    return clzs


# ---- source trees: the evaluation of what `coca analysis` extracts ------------------------------------

RET_BODIES = {
    # (body lines, returns the null literal on some path)
    "null_last": (["return null;"], True),
    "null_first": (["if (k > 0) {", "    return null;", "}", "return make(k);"], True),
    "null_middle": (["if (k > 2) {", "    return make(k);", "} else if (k > 1) {", "    return null;", "}", "return make(0);"], True),
    "null_in_loop": (["for (int i = 0; i < k; i++) {", "    if (i == 3) return null;", "}", "return make(k);"], True),
    "plain": (["return make(k);"], False),
    "nullish_name": (["Object nullable = make(k);", "return nullable;"], False),
    "nullish_call": (["return nullSafe(k);"], False),
    "null_text": (["return \"null\";"], False),
    "null_compared": (["Object o = make(k);", "if (o == null) {", "    o = make(1);", "}", "return o;"], False),
    "null_assigned": (["Object o = null;", "o = make(k);", "return o;"], False),
}
VOID_BODIES = [[], ["return;"], ["if (k > 0) {", "    return;", "}", "make(k);"], ["Object o = null;", "make(k);"]]
SRC_ANNOS = ["Nullable", "CheckForNull", "Override", "Deprecated", "NonNull", "SuppressWarnings(\"unchecked\")", "Nullable()", "NotNull"]


def anno_name(a):
    return a.split("(")[0]


def src_method(rng, name, in_interface, abstract_ok):
    """one method: its source lines and what the source says about it"""
    ret = rng.choice(["String", "Object", "Repo", "void", "Object", "java.util.List<String>"])
    annos = []
    r = rng.random()
    if r < 0.22:
        annos = [rng.choice(["Nullable", "CheckForNull"])]
    elif r < 0.32:
        annos = [rng.choice(SRC_ANNOS)]
    elif r < 0.42:
        annos = rng.sample(SRC_ANNOS, 2)
    if ret == "void":
        annos = [a for a in annos if anno_name(a) not in ("Nullable", "CheckForNull", "javax.annotation.Nullable")]
    if in_interface:
        kind = rng.choice(["abstract", "abstract", "default", "static"])
        mods = {"abstract": rng.choice([[], ["public"], ["public", "abstract"], ["abstract"]]), "default": rng.choice([["default"], ["public", "default"], ["default", "public"]]),
                "static": rng.choice([["static"], ["public", "static"], ["static", "public"]])}[kind]
        has_body = kind != "abstract"
    else:
        abstract = abstract_ok and rng.random() < 0.2
        if abstract:
            mods = rng.choice([["abstract"], ["public", "abstract"], ["abstract", "protected"], ["protected", "abstract"]])
        else:
            mods = rng.sample(["static", "final", "synchronized"], rng.choice([0, 0, 1, 1, 2, 3]))
            if rng.random() < 0.8:
                mods.insert(rng.randrange(len(mods) + 1), rng.choice(["public", "private", "protected"]))
        has_body = not abstract
    # the annotations stand before the modifiers (the usual place), or between / behind them
    words = list(mods)
    place = rng.random()
    for a in annos:
        at = 0 if place < 0.7 else rng.randrange(len(words) + 1)
        words.insert(at, "@" + a)
    if place < 0.7:
        words = ["@" + a for a in annos] + list(mods)
    returns_null = False
    lines = []
    own_line = annos and place < 0.7 and rng.random() < 0.5
    head_words = words
    if own_line:
        lines += ["    @" + a for a in annos]
        head_words = list(mods)
    head = "    " + " ".join(head_words + [ret, name]) + "(int k)"
    if not has_body:
        lines.append(head + ";")
    else:
        if ret == "void":
            body = rng.choice(VOID_BODIES)
        else:
            bk = rng.choice(sorted(RET_BODIES))
            body, returns_null = RET_BODIES[bk]
        lines.append(head + " {")
        lines += ["        " + b for b in body]
        lines.append("    }")
    truth = {"Name": name, "ReturnType": ret, "Modifiers": list(mods), "Annotations": [{"Name": anno_name(a)} for a in annos], "IsReturnNull": returns_null}
    return lines, truth


def rand_source_project(rng):
    files, truth = {}, []
    used = set()
    layout = rng.choice(["src/main/java/", "", "core/src/main/java/"])
    for i in range(rng.choice([1, 2, 3, 4])):
        pk = rng.choice(["com.shop", "com.shop.order", "p"])
        interface = rng.random() < 0.2
        cn = rng.choice(["OrderRepo", "Finder", "Gateway"] if interface else
                        ["A", "StringUtil", "UserService", "OrderService", "MyUtils", "Utility", "Repo", "Futile", "OrderServiceUtils", "UtilServiceLocator", "Cart"])
        if cn in used:
            cn += str(i)
        used.add(cn)
        abstract_cls = (not interface) and rng.random() < 0.2
        lines = ["package %s;" % pk, "", "import javax.annotation.*;", ""]
        lines.append(("public interface %s {" % cn) if interface else ("public %sclass %s {" % ("abstract " if abstract_cls else "", cn)))
        if not interface and rng.random() < 0.5:
            lines += ["    private Object cache = null;", ""]
        fns = []
        names = []
        for j in range(rng.choice([0, 1, 2, 3, 4, 6])):
            name = rng.choice(NAMES[:26])
            if name in names and rng.random() < 0.7:
                name += str(j)
            names.append(name)
            ml, t = src_method(rng, name, interface, abstract_cls)
            lines += ml + [""]
            fns.append(t)
        if not interface:
            lines += ["    static Object make(int k) {", "        return new Object();", "    }", "",
                      "    static Object nullSafe(int k) {", "        return make(k);", "    }"]
            fns += [{"Name": "make", "ReturnType": "Object", "Modifiers": ["static"], "Annotations": [], "IsReturnNull": False},
                    {"Name": "nullSafe", "ReturnType": "Object", "Modifiers": ["static"], "Annotations": [], "IsReturnNull": False}]
        lines.append("}")
        files["%s%s/%s.java" % (layout, pk.replace(".", "/"), cn)] = "\n".join(lines) + "\n"
        truth.append({"NodeName": cn, "Package": pk, "Type": "Interface" if interface else "Class", "Functions": fns})
    return files, truth


def gen(rng, tier):
    nsh, per = (16, 100) if tier == "quick" else (32, 1500)
    shards = []
    # all permutations of the 7 modifiers once (5040), in batches of 40 methods per class
    perms = list(itertools.permutations(MODS))
    rng2 = rng
    ex = []
    for i in range(0, len(perms), 60):
        fns = [{"Name": "m%d" % k, "Modifiers": list(p)} for k, p in enumerate(perms[i:i + 60])]
        fns += [{"Name": "n%d" % k, "Modifiers": [m for m in p if m != "static"]} for k, p in enumerate(perms[i:i + 60:7])]
        ids = [{"NodeName": "P", "Package": "p", "Functions": fns}]
        ex.append({"op": "evaluate", "clzs": ids, "identifiers": ids})
    shards.append(ex)
    for s in range(nsh):
        sh = []
        for i in range(per):
            m = rand_model(rng)
            k = rng.choice(["count", "evaluate", "concept"])
            c = {"op": k, "clzs": m}
            if k == "evaluate":
                c["identifiers"] = m if rng.random() < 0.7 else rand_model(rng)
            if k in ("evaluate", "concept") and rng.random() < (0.2 if tier == "quick" else 0.08):
                # through the real `coca evaluate` / `coca concept` in a fresh process: coca_reporter/evaluate.json, the printed table
                c["cli"] = True
            if k == "count" and rng.random() < (0.5 if tier == "quick" else 0.25):
                # the listing as printed by the real `coca count`, three fresh processes (its order must be reproducible)
                c["cliRuns"] = 3
                c["top"] = 0
            sh.append(c)
        shards.append(sh)
    # source trees through the identifier pass, the full pass and the analyser (a tenth of them through `coca analysis` + `coca evaluate`)
    for s in range(4 if tier == "quick" else 16):
        sh = []
        for i in range(60 if tier == "quick" else 300):
            files, truth = rand_source_project(rng)
            c = {"op": "evaluatesrc", "files": files, "clzs": truth, "identifiers": truth}
            if rng.random() < 0.1:
                c["cli"] = True
            sh.append(c)
        shards.append(sh)
    return shards


# ---- oracle ------------------------------------------------------------------------------------

def full_call(x):
    if x.get("FunctionName", "") == "":
        return x.get("Package", "") + "." + x.get("NodeName", "")
    return x.get("Package", "") + "." + x.get("NodeName", "") + "." + x["FunctionName"]


STOP = None


def stop_words():
    global STOP
    if STOP is None:
        STOP = set()
        for f in ["/repo/pkg/application/call/stop_words/languages/en.go", "/repo/pkg/infrastructure/constants/java_target_config.go"]:
            txt = open(f).read()
            if "TechStopWords" in txt:
                txt = txt[txt.index("TechStopWords"):]
            STOP |= set(re.findall(r'^\s*"([^"]+)",', txt, re.M))
    return STOP


def split_words(name):
    """independent reading of 'the words of a camel-case name': lower/upper/digit runs, acronyms kept
    together, separators _ - space. Only used where it is unambiguous (see oracle)."""
    s = re.sub(r"([a-zA-Z])(\d+)([a-zA-Z]?)", r"\1 \2 \3", name).strip(" ")
    out, n = "", ""
    for i, v in enumerate(s):
        changed = False
        if i + 1 < len(s):
            nx = s[i + 1]
            if (v.isupper() and v.isascii() and nx.islower() and nx.isascii()) or (v.islower() and v.isascii() and nx.isupper() and nx.isascii()):
                changed = True
        if i > 0 and n[-1] != "." and changed:
            if v.isupper():
                n += "." + v
            elif v.islower():
                n += v + "."
        elif v in " _-":
            n += "."
        else:
            n += v
    return [w for w in n.lower().split(".") if w.strip() != "" and not re.fullmatch(r"[0-9]+", w)]


def oracle(case, out, raw):
    if out is None or "panic" in out:
        return [("panic", "%s panicked: %s" % (case["op"], (raw or {}).get("panic")))]
    ds = []
    clzs = case["clzs"]
    if "reportUnreadable" in out:
        return [("evaluate-report-unreadable", out["reportUnreadable"])]
    if case["op"] == "count":
        decl = set(c["Package"] + "." + c["NodeName"] + "." + f["Name"] for c in clzs for f in c.get("Functions") or [])
        exp = {}
        for c in clzs:
            for f in c.get("Functions") or []:
                for x in f.get("FunctionCalls") or []:
                    k = full_call(x)
                    if k in decl:
                        exp[k] = exp.get(k, 0) + 1
        got = [(p["Key"], p["Value"]) for p in out["pairs"]]
        if dict(got) != exp or len(got) != len(exp):
            ds.append(("refcount-wrong", "got %s expected %s" % (got[:5], sorted(exp.items())[:5])))
        if "cli" in out:
            # what `coca count` prints: the same rows in every run (reproducible order), and exactly the expected counts
            if out.get("cliError"):
                ds.append(("count-cli-error", out["cliError"][:300]))
            runs = out["cli"]
            if any(r != runs[0] for r in runs[1:]):
                ds.append(("refcount-order-irreproducible", "`coca count` listed the same model in different orders: %s vs %s" % (
                    runs[0][:6], [r for r in runs[1:] if r != runs[0]][0][:6])))
            for r in runs[:1]:
                if sorted((k, int(v)) for v, k in r) != sorted(exp.items()):
                    ds.append(("refcount-cli-wrong", "`coca count` printed %s, expected counts %s" % (r[:5], sorted(exp.items())[:5])))
    elif case["op"] in ("evaluate", "evaluatesrc"):
        # (evaluatesrc: "identifiers" / "clzs" are what the source of the case says)
        ids = case["identifiers"]
        methods = [(c, f) for c in ids for f in c.get("Functions") or []]
        exp = {"ClassCount": len(ids), "MethodCount": len(methods),
               "StaticMethodCount": sum(1 for _, f in methods if "static" in (f.get("Modifiers") or [])),
               "UtilsCount": sum(1 for c in clzs if "util" in c["NodeName"].lower())}
        for k, v in exp.items():
            if out[k] != v:
                ds.append(("summary-" + k, "%s = %d, derivable value %d" % (k, out[k], v)))
        nn = set()
        for c, f in methods:
            if f.get("IsReturnNull") or any(a.get("Name") in ("Nullable", "CheckForNull") for a in f.get("Annotations") or []):
                nn.add(c["Package"] + "." + c["NodeName"] + "." + f["Name"])
        if out["Nullable"] != sorted(nn):
            ds.append(("nullable-list", "got %s expected %s" % (out["Nullable"][:4], sorted(nn)[:4])))
    elif case["op"] == "concept":
        words = [w for c in clzs for f in c.get("Functions") or [] for w in split_words(f["Name"])]
        exp_total = sum(1 for w in words if w not in stop_words())
        got_total = sum(p["Value"] for p in out["pairs"])
        if got_total != exp_total:
            ds.append(("concept-sum", "word counts sum to %d, %d non-stop words in the method names" % (got_total, exp_total)))
        keys = [p["Key"] for p in out["pairs"]]
        if len(set(keys)) != len(keys) or any(k in stop_words() for k in keys):
            ds.append(("concept-keys", "duplicate or stop word listed"))
    return ds


def nontrivial(case, mo):
    return bool(mo.get("pairs")) or mo.get("MethodCount", 0) > 0


RULE = ("random code models (1-4 classes incl. *Util*/*Service* names and names that are both, 0-5 methods from a pool of camel-case shapes with acronyms/digits/underscores, "
        "modifier subsets, Nullable/CheckForNull/IsReturnNull, calls to declared/undeclared/creation/empty-NodeName callees) x {count, evaluate, concept}; "
        "plus SOURCE trees (1-4 classes / interfaces, methods with modifiers in any order, @Nullable / @CheckForNull / other annotations before, between or behind the modifiers, "
        "bodies returning null on the last / first / a middle path / in a loop, or only mentioning null-ish names and texts) through the real identifier pass, full pass and analyser "
        "(a tenth of them through `coca analysis` + `coca evaluate`), judged against what the source says; "
        "a fifth of the evaluate / concept cases go through the real `coca evaluate` (coca_reporter/evaluate.json) / `coca concept` (printed table); half of the count cases (a quarter in the thorough tier) also run the REAL `coca count -d deps.json` three times in fresh processes; plus ALL 5040 permutations of the 7 modifiers (and the same without static) through evaluate once per run; non-trivial = non-empty report")
ASSUMPTIONS = ["method names are ASCII (strcase indexes bytes); the oracle's word splitter is an independent reading of strcase.ToDelimited",
               "floating-point fields of the summary (standard deviations) are not compared",
               "source trees (evaluatesrc): one top-level class or interface per file, no constructors and no nested types (whether those count as classes / methods is not stated); "
               "a method returns the null literal when a `return null;` statement stands in its body (conditional expressions with a null branch and calls with a null argument in a return are not generated); "
               "annotations written with their simple name"]
TRUSTED = ["yourbasic/radix (bytewise lexicographic sort)", "iancoleman/strcase (modelled for ASCII)", "gonum stat (not compared)"]
WITNESSES = {}


def view(o):
    """the Lean model covers the summary counts and the nullable list; the rest of evaluate.json is compared between runs by C08 only"""
    if isinstance(o, dict) and "full" in o:
        return {k: v for k, v in o.items() if k != "full"}
    if isinstance(o, dict) and "cli" in o:
        return {k: v for k, v in o.items() if k not in ("cli", "cliError")}      # the printed table is judged by the oracle
    return o


def view_det(o):
    return o
