"""C03 (call graph) and C04 (reverse call graph): generators and property oracles."""
import re

FAMILY = "call"
GEN_GROUPS = ["Call"]
MAXLOOP = 6      # only used by the *oracle's* "fits in the budget" clause: expansions <= MAXLOOP+1

PKGS = ["p", "q.r", "com.x"]
CLSS = ["A", "B", "Svc", "Repo"]
MTHS = ["a", "b", "c", "run", "get\"x", "m1", "say\"hi\"",      # (names with one and with two quotes)
        "A", "Svc", "Save"]      # (a method named like its class - legal Java -, a capitalised method name)


def gen_model(rng, wide=False):
    ncls = rng.choice([1, 1, 2, 2, 3, 4])
    clzs = []
    decl = []
    for i in range(ncls):
        # (one class in eight lives in the default package: its methods are named `.Cls.m`)
        pk, cn = (rng.choice(PKGS) if rng.random() < 0.87 else ""), rng.choice(CLSS)
        nf = rng.choice([0, 1, 2, 2, 3, 4])
        fns = []
        for j in range(nf):
            mn = rng.choice(MTHS)
            fns.append({"Name": mn, "FunctionCalls": []})
            decl.append((pk, cn, mn))
        clzs.append({"NodeName": cn, "Package": pk, "Functions": fns})
    dens = rng.choice([0.5, 1.0, 1.5, 2.5])
    for c in clzs:
        for f in c["Functions"]:
            k = min(5, int(rng.expovariate(1.0 / dens))) if decl else 0
            for _ in range(k):
                r = rng.random()
                if r < 0.72 and decl:
                    pk, cn, mn = rng.choice(decl)
                    call = {"Package": pk, "NodeName": cn, "FunctionName": mn}
                elif r < 0.77:
                    call = {"Package": rng.choice(PKGS), "NodeName": rng.choice(CLSS), "FunctionName": "ext"}
                elif r < 0.80:
                    # a receiver whose type was not resolved: a node name without package
                    call = {"Package": "", "NodeName": rng.choice(["helper", "Svc", "log"]), "FunctionName": rng.choice(["prepare", "a"])}
                elif r < 0.86:
                    call = {"Package": "java.lang", "NodeName": "", "FunctionName": "x"}
                elif r < 0.93:
                    call = {"Package": rng.choice(PKGS), "NodeName": rng.choice(CLSS), "FunctionName": ""}
                else:
                    # self call
                    call = {"Package": c["Package"], "NodeName": c["NodeName"], "FunctionName": f["Name"]}
                f["FunctionCalls"].append(call)
    return clzs, decl


def pick_root(rng, decl):
    r = rng.random()
    if decl and r < 0.85:
        pk, cn, mn = rng.choice(decl)
        return "%s.%s.%s" % (pk, cn, mn)
    if r < 0.90:
        return "no.Such.method"
    if r < 0.95 and decl:
        pk, cn, mn = rng.choice(decl)
        return "%s.%s" % (pk, cn)          # the full name of a CLASS of the model: no method, so nothing is reachable from it
    return ""


def gen_ops(rng, n, kinds, cli_share=0.08):
    ops = []
    clzs, decl = gen_model(rng)
    for _ in range(n):
        if rng.random() < 0.6:
            clzs, decl = gen_model(rng)
        k = rng.choice(kinds)
        if k == "call":
            ops.append({"op": "call", "clzs": clzs, "root": pick_root(rng, decl), "lookup": rng.random() < 0.25})
        elif k == "rcall":
            ops.append({"op": "rcall", "clzs": clzs, "target": pick_root(rng, decl)})
        elif k == "lookup":
            # `coca call -l`: the forward graph of the target followed by its reverse graph
            t = pick_root(rng, decl)
            ops.append({"op": "call", "clzs": clzs, "root": t, "target": t, "lookup": True})
        else:
            apis = []
            for _ in range(rng.choice([0, 1, 2, 3])):
                if decl and rng.random() < 0.85:
                    pk, cn, mn = rng.choice(decl)
                else:
                    pk, cn, mn = "z", "Z", "z"
                apis.append({"HttpMethod": rng.choice(["GET", "POST", ""]), "Uri": rng.choice(["/a", "/b/{id}", "/q/x"]),
                             "PackageName": pk, "ClassName": cn, "MethodName": mn})
            di = {}
            for _ in range(rng.choice([0, 0, 1, 2])):
                if decl:
                    a, b = rng.choice(decl), rng.choice(decl)
                    di["%s.%s" % (a[0], a[1])] = "%s.%s" % (b[0], b[1])
            if len(clzs) >= 2 and rng.random() < 0.35:
                # dependency injection as it is used: a handler calls a method of an interface that records no calls itself,
                # the registered implementation's method of that name does the work
                import copy
                clzs = copy.deepcopy(clzs)
                ci, cimpl = rng.sample(range(len(clzs)), 2)
                iface, impl = clzs[ci], clzs[cimpl]
                mname = rng.choice(MTHS[:4])
                for c in (iface, impl):
                    if not any(f["Name"] == mname for f in c["Functions"]):
                        c["Functions"].append({"Name": mname, "FunctionCalls": []})
                for f in iface["Functions"]:
                    if f["Name"] == mname:
                        f["FunctionCalls"] = []
                others = [(c["Package"], c["NodeName"], f["Name"]) for c in clzs for f in c["Functions"] if c is not iface]
                for f in impl["Functions"]:
                    if f["Name"] == mname and not f["FunctionCalls"] and others:
                        for _ in range(rng.choice([1, 2])):
                            pk, cn, mn = rng.choice(others)
                            f["FunctionCalls"].append({"Package": pk, "NodeName": cn, "FunctionName": mn})
                di = dict(di)
                di["%s.%s" % (iface["Package"], iface["NodeName"])] = "%s.%s" % (impl["Package"], impl["NodeName"])
                handler_cls = rng.choice([c for c in clzs if c is not iface])
                if not handler_cls["Functions"]:
                    handler_cls["Functions"].append({"Name": "handle", "FunctionCalls": []})
                hf = rng.choice(handler_cls["Functions"])
                hf["FunctionCalls"].append({"Package": iface["Package"], "NodeName": iface["NodeName"], "FunctionName": mname})
                apis = apis + [{"HttpMethod": "GET", "Uri": "/di", "PackageName": handler_cls["Package"], "ClassName": handler_cls["NodeName"],
                                "MethodName": hf["Name"]}]
                decl = [(c["Package"], c["NodeName"], f["Name"]) for c in clzs for f in c["Functions"]]
            ops.append({"op": "api", "clzs": clzs, "apis": apis, "di": di})
    # the CLI tier: one op in twelve goes through the real command (`coca call|rcall|api`, cmd/*.go) in a fresh process; what
    # it leaves in coca_reporter/ is judged by the same oracle and compared with the model started from its initial state
    for o in ops:
        if rng.random() < cli_share and cli_ok(o):
            o["cli"] = True
    return ops


def cli_ok(o):
    """names survive the command line and the CSV report (no quote, comma or blank padding), rcall has a target, no DI map"""
    if o["op"] == "rcall" and o["target"] == "":
        return False
    if o["op"] == "api" and (o["di"] or not names_ok(o["clzs"], [a["Uri"] + a["HttpMethod"] for a in o["apis"]])):
        return False
    if o["op"] == "api":
        for a in o["apis"]:
            if any(ch in a[k] for k in ("PackageName", "ClassName", "MethodName", "Uri") for ch in '",'):
                return False
    return True


# --------------------------------------------------------------------------------------------
# property oracles (independent of the Lean model; used on the REAL output)

EDGE = re.compile(r'^"((?:[^"\\]|\\.)*)" -> "((?:[^"\\]|\\.)*)";$')


def unesc(s):
    return s.replace('\\"', '"')


def parse_dot(text, header):
    """returns (edges, error). Accepts exactly the subset coca emits."""
    if not text.startswith(header):
        return None, "header"
    body = text[len(header):]
    if not body.endswith("}\n"):
        return None, "no closing brace"
    body = body[:-2]
    edges = []
    for line in body.split("\n"):
        if line == "" or line == "rankdir = LR;":
            continue
        m = EDGE.match(line)
        if not m:
            return None, "malformed line %r" % line[:80]
        edges.append((unesc(m.group(1)), unesc(m.group(2))))
    return edges, None


def full(c):
    if c.get("FunctionName", "") == "":
        return c.get("Package", "") + "." + c.get("NodeName", "")
    return c.get("Package", "") + "." + c.get("NodeName", "") + "." + c["FunctionName"]


def method_map(clzs):
    mm = {}
    for c in clzs:
        for f in c.get("Functions") or []:
            mm[c["Package"] + "." + c["NodeName"] + "." + f["Name"]] = [full(x) for x in (f.get("FunctionCalls") or []) if x.get("NodeName", "") != ""]
    return mm


def names_ok(clzs, extra=()):
    for c in clzs:
        for s in [c["Package"], c["NodeName"]] + [f["Name"] for f in c.get("Functions") or []] + \
                [x.get(k, "") for f in c.get("Functions") or [] for x in f.get("FunctionCalls") or [] for k in ("Package", "NodeName", "FunctionName")]:
            if "\\" in s or "\n" in s or " -> " in s:
                return False
    return all("\\" not in s and "\n" not in s for s in extra)


def cls_of(p):
    return ".".join(p.split(".")[:-1])


def mth_of(p):
    return p.split(".")[-1]


def di_apply(di, ch):
    k = cls_of(ch)
    return di[k] + "." + mth_of(ch) if k in di else ch


def tree_expansions(mm, di, root, cap):
    """number of BuildCallChain-style expansions of the call tree unfolding (every occurrence of a
    method with callees below the root is expanded), capped."""
    n = 0
    stack = [root]
    while stack:
        f = stack.pop()
        n += 1
        if n > cap:
            return n
        for ch in mm.get(f, []):
            ch = di_apply(di, ch)
            if mm.get(ch):
                stack.append(ch)
    return n


def reach_edges(mm, di, root):
    seen, todo, edges = {root}, [root], set()
    while todo:
        a = todo.pop()
        for ch in mm.get(a, []):
            b = di_apply(di, ch)
            edges.add((a, b))
            if b not in seen:
                seen.add(b)
                todo.append(b)
    return edges


def forward_check(mm, di, root, edges, ds, tag=""):
    allowed = reach_edges(mm, di, root)
    for e in edges:
        if e not in allowed:
            ds.append(("call-edge-unsound", "%sedge %r -> %r is not a recorded call reachable from the root" % (tag, e[0], e[1])))
            break
    for ch in mm.get(root, []):
        if (root, di_apply(di, ch)) not in edges:
            ds.append(("root-callee-missing", "%sdirect callee %r of root %r missing" % (tag, ch, root)))
            break
    if tree_expansions(mm, di, root, MAXLOOP + 2) <= MAXLOOP + 1:
        if set(edges) != allowed:
            ds.append(("incomplete-within-budget", "%scall tree fits in the budget but edge set differs from the reachable call relation (missing %s)" % (tag, sorted(allowed - set(edges))[:3])))


def rmap_expected(clzs):
    decl = set()
    for c in clzs:
        for f in c.get("Functions") or []:
            decl.add(c["Package"] + "." + c["NodeName"] + "." + f["Name"])
    rm = {}
    for c in clzs:
        for f in c.get("Functions") or []:
            caller = c["Package"] + "." + c["NodeName"] + "." + f["Name"]
            for x in f.get("FunctionCalls") or []:
                if x.get("NodeName", "") != "" and full(x) in decl:
                    rm.setdefault(full(x), []).append(caller)
    return rm


def oracle_c03(case, out, raw):
    ds = []
    if out is None or "panic" in out:
        return [("panic", "call graph generation panicked: %s" % (raw or {}).get("panic"))]
    clzs = case["clzs"]
    mm = method_map(clzs)
    if case["op"] == "call":
        edges, err = parse_dot(out["dot"], "digraph G {\n")
        if edges is None:
            if names_ok(clzs, [case["root"]]):
                ds.append(("dot-malformed", err))
            return ds
        if case.get("lookup"):
            # forward part first, reverse part after: check forward clauses on the forward-sound subset
            fw = reach_edges(mm, {}, case["root"])
            rm = rmap_expected(clzs)
            for (a, b) in edges:
                if (a, b) not in fw and a not in rm.get(b, []):
                    ds.append(("call-edge-unsound", "edge %r -> %r is neither a forward call nor a reverse-map entry" % (a, b)))
                    break
            for ch in mm.get(case["root"], []):
                if (case["root"], ch) not in edges:
                    ds.append(("root-callee-missing", "direct callee %r missing" % ch))
                    break
        else:
            forward_check(mm, {}, case["root"], edges, ds)
    elif case["op"] == "api":
        di = case["di"]
        text = out["dot"]
        edges, err = parse_dot(text, "digraph G { \n")
        ok_names = names_ok(clzs, [a["Uri"] + a["HttpMethod"] for a in case["apis"]])
        if edges is None:
            if ok_names:
                ds.append(("dot-malformed", err))
            return ds
        if len(out["apis"]) != len(case["apis"]):
            ds.append(("api-count", "one CallAPI per API expected"))
            return ds
        # split the edge list per API: each API chain starts with its head edge
        pos = 0
        for a, ca in zip(case["apis"], out["apis"]):
            caller = "%s.%s.%s" % (a["PackageName"], a["ClassName"], a["MethodName"])
            head = (a["HttpMethod"] + " " + a["Uri"], caller)
            if pos >= len(edges) or edges[pos] != head:
                ds.append(("api-head-missing", "head edge of API %r missing" % (head,)))
                return ds
            pos += 1
            # chain edges until next head (heads contain a space before '/': ambiguous only if a method name equals one)
            chain = []
            allowed = reach_edges(mm, di, caller)
            while pos < len(edges) and edges[pos] in allowed:
                chain.append(edges[pos])
                pos += 1
            forward_check(mm, di, caller, chain, ds, tag="api %s: " % a["Uri"])
            if ok_names and ca["Size"] != len(chain) + 1:
                ds.append(("api-size", "Size %d but chain has %d edges" % (ca["Size"], len(chain))))
            if ca["Caller"] != caller:
                ds.append(("api-caller", "caller"))
        if pos != len(edges):
            ds.append(("call-edge-unsound", "edge %r is not a recorded call reachable from its API's handler" % (edges[pos],)))
    return ds


def oracle_c04(case, out, raw):
    ds = []
    if case["op"] == "call" and case.get("lookup") and "target" in case:
        # `coca call -l target`: forward edges may be there too; every direct caller must be
        if out is None or "panic" in out:
            return [("panic", "call graph with lookup panicked: %s" % (raw or {}).get("panic"))]
        clzs, tgt = case["clzs"], case["target"]
        exp = rmap_expected(clzs)
        edges, err = parse_dot(out["dot"], "digraph G {\n")
        if edges is None:
            return [("dot-malformed", err)] if names_ok(clzs, [tgt]) else []
        missing = [c for c in exp.get(tgt, []) if c != tgt and (c, tgt) not in edges]
        if missing:
            if lastchild_can_fire(exp, tgt):
                ds.append(("rcall-lastchild-drop", "direct caller %r of %r missing from `call -l` (a caller repeated at consecutive call sites)" % (missing[0], tgt)))
            else:
                ds.append(("direct-caller-missing", "`call -l`: direct caller %r of target %r missing" % (missing[0], tgt)))
        return ds
    if case["op"] != "rcall":
        return ds
    if out is None or "panic" in out:
        return [("panic", "reverse call graph generation panicked: %s" % (raw or {}).get("panic"))]
    clzs = case["clzs"]
    exp = rmap_expected(clzs)
    got = out["map"]
    if {k: v for k, v in got.items()} != exp:
        ds.append(("rmap-inexact", "reverse-call map differs from the exact inverse: got %s expected %s" % (str(got)[:200], str(exp)[:200])))
    edges, err = parse_dot(out["dot"], "digraph G {\n")
    tgt = case["target"]
    if edges is None:
        if names_ok(clzs, [tgt]):
            ds.append(("dot-malformed", err))
        return ds
    # caller chains ending at target
    anc, todo = {tgt}, [tgt]
    while todo:
        x = todo.pop()
        for c in exp.get(x, []):
            if c not in anc:
                anc.add(c)
                todo.append(c)
    for (a, b) in edges:
        if not (a in exp.get(b, []) and b in anc):
            ds.append(("redge-unsound", "edge %r -> %r is not in the reverse map on a caller chain ending at the target" % (a, b)))
            break
    callers = exp.get(tgt, [])
    missing = [c for c in callers if c != tgt and (c, tgt) not in edges]
    if missing:
        # classify: the known `child == lastChild -> return ""` discards everything accumulated.
        # It can only fire when some method on a caller chain lists the same caller at two call sites
        # in a row position that makes child == lastChild; we classify by its observable signature:
        # the whole graph of that node vanished although callers exist.
        if lastchild_can_fire(exp, tgt):
            ds.append(("rcall-lastchild-drop", "direct caller %r of %r missing (a caller repeated at consecutive call sites)" % (missing[0], tgt)))
        else:
            ds.append(("direct-caller-missing", "direct caller %r of target %r missing" % (missing[0], tgt)))
    return ds


def lastchild_can_fire(rm, tgt, depth=6):
    """replays the documented traversal order abstractly: is there a node, visited within the budget,
    whose caller list contains the most recently descended-into caller again?"""
    st = {"lc": 0, "last": ""}

    def rec(f):
        if st["lc"] >= depth:
            return False
        st["lc"] += 1
        for ch in rm.get(f, []):
            if ch == st["last"]:
                return True
            if rm.get(ch):
                st["last"] = ch
                if rec(ch):
                    return True
        return False
    return rec(tgt)


# --------------------------------------------------------------------------------------------

def make(prop):
    class M:
        pass
    m = M()
    m.PROP = prop
    m.FAMILY = FAMILY
    m.GEN_GROUPS = GEN_GROUPS
    m.PROPS = [prop]
    kinds = ["call", "call", "api"] if prop == "C03" else ["rcall", "rcall", "lookup"]

    def gen(rng, tier):
        nsh, per = (16, 130) if tier == "quick" else (64, 800)
        return [gen_ops(rng, per, kinds) for _ in range(nsh)]
    m.gen = gen
    m.oracle = oracle_c03 if prop == "C03" else oracle_c04
    m.nontrivial = lambda c, mo: '" -> "' in (mo.get("dot") or "")
    m.RULE = ("random code models (1-4 classes over 3 packages, 0-4 methods each from a 6-name pool so that duplicates and "
              "cycles are frequent, one class in eight in the default package; calls: 72% declared callee, unresolved, empty NodeName, a node name without package, creations, self calls; a name with a quote); "
              "each shard is ONE process history of consecutive Analysis/AnalysisByFiles/rcall.Analysis calls (C04: also `call -l`, i.e. Analysis with lookup on the target); "
              "non-trivial = the model's graph has at least one edge; distinct = distinct (model, root, options) JSON")
    m.ASSUMPTIONS = ["the implementation agrees with the Lean model outside the sampled inputs",
                     "Go map lookups/strings.Split/ReplaceAll behave as modelled (GoMap.get?, String.splitOn, String.replace)"]
    m.WITNESSES = {}
    if prop == "C04":
        import json, os
        w = json.load(open(os.path.join(os.path.dirname(os.path.dirname(os.path.abspath(__file__))), "findings", "rcall-lastchild-drop.json")))
        m.WITNESSES = {"rcall-lastchild-drop": w["history"]}
    return m
