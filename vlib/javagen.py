"""Renderer of conventional Java compilation units WITH ground truth.

`Emitter` writes tokens and records (line, column) of each (ANTLR convention: lines from 1, columns
from 0 counted in code points).  `render_unit` takes an abstract unit (dict) and returns
(text, facts): facts carry, for every member, the positions the listeners read, and
facts["events"]: the callbacks the ANTLR tree walker fires for this file, in order, with the texts and
token positions the Go listeners read (consumed by lean/CocaVerif/Model/JavaFull.lean).

Abstract unit:
  {pkg, imports:[str], annos:[anno], kind:'class'|'interface', name, tparams:[str], ext:str|None,
   impls:[str], fields:[{annos, mods:[str], type, name, init:expr|None}], members:[member]}
  anno   = {name, args: None | 'str' (single positional, already Java text) | [(key, valuetext)]}
  member = {kind:'method'|'ctor', annos:[anno], mods:[str], tparams:[str], ret:str, name:str,
            params:[{type,name,annos:[anno]}], body:[stmt] | None (abstract/interface), pre_nl:int}
  stmt   = ('local', type, name, expr|None) | ('expr', expr) | ('if', cond_expr, height, [stmt], [stmt]|None)
           | ('while', expr, [stmt]) | ('for', type, name, expr, [stmt]) | ('switch', expr, [[stmt]])
           | ('try', [stmt], exc_type, [stmt]) | ('return', expr|None) | ('filler', n) | ('raw', text)
  expr   = ('call', recv_expr|None, name, [expr]) | ('new', type, [expr]) | ('name', x) | ('lit', text)
           | ('bin', op, a, b) | ('assign', name, expr) | ('lambda', [names], expr) | ('this',)
           | ('field', expr, name) | ('mref', ('name', x), name) | ('paren', expr)
"""

PRIMS = ("int", "long", "char", "byte", "short", "boolean", "float", "double", "void")


class Emitter:
    def __init__(self, rng=None, wild=0.0, comments=None):
        self.lines = [""]
        self.rng = rng
        self.wild = wild          # probability of odd layout between tokens
        self.comments = comments or []
        self.indent = 0
        self.need_space = False

    def pos(self):
        return len(self.lines), len(self.lines[-1])

    def nl(self, n=1):
        for _ in range(n):
            self.lines.append("")
        self.need_space = False

    def _gap(self):
        if self.lines[-1] == "":
            self.lines[-1] = "    " * self.indent
            if self.rng and self.wild and self.rng.random() < self.wild * 0.3:
                self.lines[-1] = self.rng.choice(["\t", "  ", ""]) * self.indent
            return
        if self.rng and self.wild and self.rng.random() < self.wild:
            r = self.rng.random()
            if r < 0.3:
                self.lines[-1] += "  "
            elif r < 0.5 and self.comments:
                self.lines[-1] += " /* " + self.rng.choice(self.comments) + " */ "
            elif r < 0.65:
                if self.comments and self.rng.random() < 0.5:
                    self.lines[-1] += " // " + self.rng.choice(self.comments)
                self.nl()
                self.lines[-1] = "    " * (self.indent + 1)
            else:
                self.lines[-1] += " "
        elif self.need_space:
            self.lines[-1] += " "

    def tok(self, text, glue=False):
        if not glue or self.lines[-1] == "":
            self._gap()
        elif self.rng and self.wild and self.rng.random() < self.wild * 0.4:
            # layout is free between any two tokens: `format ("a")`, `a . b`, `x ;`
            self.lines[-1] += self.rng.choice([" ", " ", "  "])
        line, col = self.pos()
        self.lines[-1] += text
        self.need_space = True
        return line, col

    def raw(self, text):
        self.lines[-1] += text

    def text(self):
        return "\n".join(self.lines) + "\n"


def anno_text(a):
    s = "@" + a["name"]
    args = a.get("args")
    if args is None:
        return s
    if isinstance(args, str):
        return s + "(" + args + ")"
    return s + "(" + ", ".join("%s = %s" % (k, v) for k, v in args) + ")"


def anno_model(a):
    """what common_listener.BuildAnnotation stores"""
    args = a.get("args")
    if args is None:
        kvs = []
    elif isinstance(args, str):
        kvs = [{"Key": args.replace(" ", ""), "Value": args.replace(" ", "")}]
    else:
        kvs = [{"Key": k, "Value": v.replace(" ", "")} for k, v in args]
    return {"Name": a["name"], "KeyValues": kvs}


def created_idents(t):
    """identifiers of a createdName: a.b.Foo<X> -> [a, b, Foo]; primitive types have none"""
    base = t.split("<")[0].replace("[]", "")
    if base in PRIMS:
        return []
    return base.split(".")


def type_ident(t):
    """first identifier of the classOrInterfaceType of a field type, None for a primitive type"""
    base = t.split("<")[0].split("[")[0].strip()
    if base in PRIMS:
        return None
    return base.split(".")[0]


def gtext(t):
    """ANTLR GetText() of a type: no blanks"""
    return t.replace(" ", "")


class JavaRenderer:
    def __init__(self, rng=None, wild=0.0, comments=None):
        self.e = Emitter(rng, wild, comments)
        self.rng = rng
        self.calls = None   # current function's call facts
        self.events = []    # listener events in walker order

    # ---- expressions -------------------------------------------------------------------------
    def args(self, args):
        e = self.e
        e.tok("(", glue=True)
        first_arg_text = expr_text(args[0]) if args else None
        for i, a in enumerate(args):
            if i:
                e.tok(",", glue=True)
                self.expr(a, True, var_text=first_arg_text)
            else:
                self.expr(a, False, var_text=first_arg_text)
        return e.tok(")", glue=True)

    def expr(self, x, first=True, var_text=None, assign_var=None):
        """var_text: what EnterCreator reads as ctx.GetParent().GetParent().GetChild(0).GetText() if x is a `new`"""
        e = self.e
        k = x[0]
        if k == "name" or k == "lit":
            e.tok(x[1], glue=not first)
        elif k == "this":
            e.tok("this", glue=not first)
        elif k == "super":
            e.tok("super", glue=not first)
        elif k == "call":
            recv, name, args = x[1], x[2], x[3]
            if recv is not None:
                self.expr(recv, first, var_text=expr_text(recv))
                e.tok(".", glue=True)
                line, col = e.tok(name, glue=True)
            else:
                line, col = e.tok(name, glue=not first)
            fact = {"kind": "call", "name": name, "line": line, "col": col,
                    "recv": recv_text(recv), "nargs": len(args), "args": [expr_text(a) for a in args],
                    "meta": (x[4] if len(x) > 4 else None)}
            if self.calls is not None:
                self.calls.append(fact)
            ev = {"e": "call", "targetText": expr_text(recv) if recv is not None else expr_text(x),
                  "targetCallIdent": (recv[2] if (recv is not None and recv[0] == "call" and recv[1] is None) else None),
                  "callee": name, "ctxText": name + "(" + ",".join(expr_text(a) for a in args) + ")",
                  "args": [expr_text(a) for a in args], "startLine": line, "startCol": col}
            self.events.append(ev)
            el, _ = self.args(args)
            ev["stopLine"] = el
            fact["stopLine"] = el
        elif k == "new":
            line, col = e.tok("new", glue=not first)
            tl, tc = e.tok(x[1])
            if self.calls is not None:
                self.calls.append({"kind": "new", "type": x[1], "line": tl, "col": tc, "newline": line, "newcol": col, "nargs": len(x[2])})
            ev = {"e": "creator", "varText": var_text if var_text is not None else expr_text(x), "idents": created_idents(x[1]),
                  "assignVar": assign_var, "startLine": tl, "startCol": tc}
            self.events.append(ev)
            sl, sc = self.args(x[2])
            ev["stopLine"], ev["stopCol"] = sl, sc
        elif k == "bin":
            self.expr(x[2], first, var_text=expr_text(x[2]))
            e.tok(x[1])
            self.expr(x[3], True, var_text=expr_text(x[2]))
        elif k == "assign":
            e.tok(x[1], glue=not first)
            e.tok("=")
            self.expr(x[2], True, var_text=x[1], assign_var=x[1])      # `x = new T()`: the creator's grandparent is the assignment
        elif k == "field":
            self.expr(x[1], first, var_text=expr_text(x[1]))
            e.tok(".", glue=True)
            e.tok(x[2], glue=True)
        elif k == "lambda":
            e.tok("(", glue=not first)
            for i, n in enumerate(x[1]):
                if i:
                    e.tok(",", glue=True)
                if isinstance(n, (list, tuple)):
                    # explicitly typed lambda parameter `(Order o) -> ...`: a formalParameter of the grammar
                    e.tok(n[0], glue=(i == 0))
                    e.tok(n[1])
                    self.events.append({"e": "formalParam", "name": n[1], "type": gtext(n[0])})
                else:
                    e.tok(n, glue=(i == 0))
            e.tok(")", glue=True)
            e.tok("->")
            self.expr(x[2], True, var_text=lambda_params_text(x[1]))
        elif k == "mref":
            idx = len(self.events)
            self.events.append(None)      # EnterExpression of the `::` expression fires before its children
            sl, sc = e.tok(x[1][1], glue=not first)
            if self.rng and self.rng.random() < 0.2:
                # a reference continued on the next line (`.map(Helper  // note` / `::convert)`): the name's line is not the receiver's
                e.raw(" // the shared one" if self.rng.random() < 0.5 else "")
                e.nl()
                e.lines[-1] = "    " * (e.indent + 2)
            e.tok("::", glue=True)
            ml, mc = e.tok(x[2], glue=True)
            # the listener positions the reference at the method's name
            self.events[idx] = {"e": "mref", "exprText": x[1][1], "methodName": x[2], "startLine": ml, "startCol": mc,
                                "stopLine": ml, "stopCol": mc}
            if self.calls is not None:
                self.calls.append({"kind": "mref", "name": x[2], "line": ml, "col": mc})
        elif k == "paren":
            e.tok("(", glue=not first)
            self.expr(x[1], False, var_text=expr_text(x[1]))
            e.tok(")", glue=True)
        else:
            raise ValueError("expr " + repr(x))

    def cond(self, x, height, facts):
        """parenthesised condition spanning `height` lines (height>=1)"""
        e = self.e
        sl, _ = e.tok("(")
        self.expr(x, False, var_text=expr_text(x))
        for i in range(height - 1):
            e.nl()
            e.tok("&&")
            e.tok("true")
        el, _ = e.tok(")", glue=True)
        facts.append((sl, el))

    def block(self, stmts, fn):
        e = self.e
        e.tok("{")
        self.events.append({"e": "enterBlock"})
        e.indent += 1
        for s in stmts:
            e.nl()
            self.stmt(s, fn, top=False)
        e.indent -= 1
        e.nl()
        r = e.tok("}")
        self.events.append({"e": "exitBlock"})
        return r

    def stmt(self, s, fn, top):
        e = self.e
        k = s[0]
        if k == "local":
            self.events.append({"e": "localVar", "typeText": gtext(s[1]), "name": s[2]})
            e.tok(s[1])
            e.tok(s[2])
            if s[3] is not None:
                e.tok("=")
                # variableInitializer -> expression: the initializer's own text
                self.expr(s[3], True, var_text=expr_text(s[3]))
            e.tok(";", glue=True)
        elif k == "expr":
            self.expr(s[1], True, var_text=expr_text(s[1]))
            e.tok(";", glue=True)
        elif k == "if":
            e.tok("if")
            sink = fn["ifs"] if top else []
            self.cond(s[1], s[2], sink)
            if top:
                fn["ifSize"] += 1
            self.block(s[3], fn)
            if s[4] is not None:
                e.tok("else")
                self.block(s[4], fn)
        elif k == "while":
            e.tok("while")
            self.cond(s[1], 1, [])
            self.block(s[2], fn)
        elif k == "for":
            self.events.append({"e": "enterStmtScope"})
            e.tok("for")
            e.tok("(")
            self.events.append({"e": "forVar", "type": gtext(s[1]), "name": s[2]})
            e.tok(s[1], glue=True)
            e.tok(s[2])
            e.tok(":")
            self.expr(s[3], True, var_text=gtext(s[1]))
            e.tok(")", glue=True)
            self.block(s[4], fn)
            self.events.append({"e": "exitStmtScope"})
        elif k == "switch":
            self.events.append({"e": "enterStmtScope"})
            e.tok("switch")
            self.cond(s[1], 1, [])
            if top:
                fn["switchSize"] += 1
            e.tok("{")
            e.indent += 1
            for i, body in enumerate(s[2]):
                e.nl()
                if i + 1 < len(s[2]) or len(s[2]) == 1:
                    e.tok("case")
                    e.tok(str(i + 1))
                    e.tok(":", glue=True)
                else:
                    e.tok("default")
                    e.tok(":", glue=True)
                e.indent += 1
                for b in body:
                    e.nl()
                    self.stmt(b, fn, top=False)
                e.nl()
                e.tok("break")
                e.tok(";", glue=True)
                e.indent -= 1
            e.indent -= 1
            e.nl()
            e.tok("}")
            self.events.append({"e": "exitStmtScope"})
        elif k == "switch_arrow":
            # Java 14+: `switch (x) { case 1 -> stmt; default -> { ... } }` used as a statement (a switch expression in the grammar);
            # only generated for the bad-smell pass (no scope events for the full listener)
            e.tok("switch")
            self.cond(s[1], 1, [])
            if top:
                fn["switchSize"] += 1
            e.tok("{")
            e.indent += 1
            for i, body in enumerate(s[2]):
                e.nl()
                if i + 1 < len(s[2]) or len(s[2]) == 1:
                    e.tok("case")
                    e.tok(str(i + 1))
                else:
                    e.tok("default")
                e.tok("->")
                e.tok("{")
                e.indent += 1
                for b in body:
                    e.nl()
                    self.stmt(b, fn, top=False)
                e.indent -= 1
                e.nl()
                e.tok("}")
            e.indent -= 1
            e.nl()
            e.tok("}")
            if s[3]:
                e.tok(";", glue=True)
        elif k == "try":
            e.tok("try")
            self.block(s[1], fn)
            e.tok("catch")
            e.tok("(")
            e.tok(s[2], glue=True)
            e.tok("ex")
            e.tok(")", glue=True)
            self.block(s[3], fn)
        elif k == "tryres":
            # try-with-resources: `try (T v = init) { ... }` - the resource is a variable of the try statement only
            e.tok("try")
            e.tok("(")
            e.tok(s[1], glue=True)
            e.tok(s[2])
            e.tok("=")
            self.expr(s[3], True, var_text=s[2])
            e.tok(")", glue=True)
            self.block(s[4], fn)
        elif k == "return":
            e.tok("return")
            if s[1] is not None:
                self.events.append({"e": "returnExpr", "text": expr_text(s[1]), "hasNull": expr_has_null(s[1])})
                self.expr(s[1], True, var_text="return")
            e.tok(";", glue=True)
        elif k == "filler":
            for i in range(s[1]):
                if i:
                    e.nl()
                e.tok("tick")
                e.tok("++", glue=True)
                e.tok(";", glue=True)
        elif k == "raw":
            e.tok(s[1])
        else:
            raise ValueError("stmt " + repr(s))

    def annos(self, annos, same_line=False):
        for a in annos:
            self.e.tok(anno_text(a))
            self.events.append({"e": "anno", "anno": anno_model(a)})
            if not same_line:
                self.e.nl()

    def member(self, m, unit, facts):
        e = self.e
        is_iface = unit["kind"] == "interface"
        for _ in range(m.get("pre_nl", 1)):
            e.nl()
        if is_iface:
            self.events.append({"e": "interfaceBodyDecl"})
        self.annos(m.get("annos", []), m.get("annos_same_line", False))
        first_mod = None
        for md in m.get("mods", []):
            pos_ = e.tok(md)
            if first_mod is None:
                first_mod = pos_
        if m.get("mods_own_line") and m.get("mods"):
            e.nl()
        if m.get("tparams"):
            e.tok("<" + ", ".join(m["tparams"]) + ">")
        fn = {"kind": m["kind"], "name": m["name"], "ret": m.get("ret", ""), "ifSize": 0, "switchSize": 0, "ifs": [], "calls": [],
              "params": [(gtext(p["type"]), p["name"]) for p in m["params"]],
              "annos": [a["name"] for a in m.get("annos", [])], "mods": list(m.get("mods", []))}
        if m["kind"] == "method":
            sl, sc = e.tok(m["ret"])
            fn["startLine"], fn["retCol"] = sl, sc
            nl_, nc = e.tok(m["name"])
            startcol = sc
            if is_iface and first_mod is not None and not m.get("annos"):
                # an interface method's modifiers (`default`, `static`) belong to its declaration: it starts at the first of them
                fn["startLine"], startcol = first_mod
        else:
            nl_, nc = e.tok(m["name"])
            fn["startLine"] = nl_
            startcol = nc
        fn["nameLine"], fn["nameCol"] = nl_, nc
        # the full listener positions a class method at its name (line and column), everything else at the declaration's first token
        fn["fullStartLine"] = nl_ if (m["kind"] == "method" and not is_iface) else fn["startLine"]
        params = [[gtext(p["type"]), p["name"]] for p in m["params"]]
        amodel = [anno_model(a) for a in m.get("annos", [])]
        # a generic class method `<T> T m(..)` is a genericMethodDeclaration: the listeners look for the modifiers on the
        # grandparent of the methodDeclaration, which is then the memberDeclaration — they see no annotations and no modifiers
        generic = bool(m.get("tparams")) and m["kind"] == "method" and not is_iface
        if generic:
            amodel = []
        if m["kind"] == "ctor":
            head = {"e": "enterCtor", "name": m["name"], "params": params, "emptyParams": not params, "startLine": nl_, "startCol": nc}
        elif is_iface:
            head = {"e": "interfaceMethod", "name": m["name"], "ret": gtext(m["ret"]), "annos": amodel, "params": params, "emptyParams": not params,
                    "startLine": fn["startLine"], "startCol": startcol}
        else:
            head = {"e": "enterMethod", "name": m["name"], "ret": gtext(m["ret"]), "annos": amodel, "params": params, "emptyParams": not params,
                    "startLine": nl_, "nameCol": nc}
        # what the identifier listener reads for this declaration: ctx.GetStart(), the annotations among its modifiers, the other
        # modifiers (not for constructors; a generic class method shows neither, see above)
        annos_ = m.get("annos", [])
        head["ident"] = {"startLine": (nl_ if m["kind"] == "ctor" else fn["startLine"]), "startCol": (nc if m["kind"] == "ctor" else startcol),
                         "annos": ([anno_model(a) for a in annos_] if m["kind"] != "ctor" and not generic else []),
                         "mods": (list(m.get("mods", [])) if (m["kind"] == "method" and not generic) else [])}
        self.events.append(head)
        e.tok("(", glue=True)
        for i, p in enumerate(m["params"]):
            if i:
                e.tok(",", glue=True)
            # (a C-style array declarator `String args[]`: the declarator id reads `args[]`, its identifier `args`)
            self.events.append({"e": "formalParam", "name": p["name"] + ("[]" if p.get("dims") else ""), "type": gtext(p["type"])})
            for a in p.get("annos", []):
                e.tok(anno_text(a), glue=(i == 0))
                self.events.append({"e": "anno", "anno": anno_model(a)})
            e.tok(p["type"], glue=(i == 0 and not p.get("annos")))
            e.tok(p["name"])
            if p.get("dims"):
                e.tok("[]", glue=True)
        e.tok(")", glue=True)
        if m.get("throws"):
            e.tok("throws")
            e.tok(m["throws"])
        if m.get("body") is None:
            el, ec = e.tok(";", glue=True)
        else:
            self.calls = fn["calls"]
            e.tok("{")
            self.events.append({"e": "enterBlock"})
            e.indent += 1
            for s in m["body"]:
                e.nl()
                self.stmt(s, fn, top=True)
            e.indent -= 1
            e.nl()
            el, ec = e.tok("}")
            self.events.append({"e": "exitBlock"})
            self.calls = None
        fn["stopLine"], fn["stopCol"] = el, ec
        head["stopLine"], head["stopCol"] = el, ec
        if m["kind"] == "ctor":
            self.events.append({"e": "exitCtor"})
        elif not is_iface:
            self.events.append({"e": "exitMethod"})
        facts["functions"].append(fn)

    def unit(self, u):
        e = self.e
        facts = {"pkg": u.get("pkg", ""), "name": u["name"], "kind": u["kind"], "functions": [], "fields": [],
                 "imports": list(u.get("imports", [])), "ext": u.get("ext"), "impls": list(u.get("impls", [])),
                 "annos": [a["name"] for a in u.get("annos", [])]}
        if u.get("header_comment"):
            e.raw(u["header_comment"])
            e.nl()
        if u.get("pkg"):
            e.tok("package")
            e.tok(u["pkg"])
            e.tok(";", glue=True)
            e.nl(2)
            self.events.append({"e": "pkg", "name": u["pkg"]})
        for imp in u.get("imports", []):
            e.tok("import")
            e.tok(imp)
            e.tok(";", glue=True)
            e.nl()
            q = imp[len("static "):] if imp.startswith("static ") else imp
            if q.endswith(".*"):
                q = q[:-2]
            self.events.append({"e": "imp", "name": q})
        e.nl()
        self.annos(u.get("annos", []))
        for md in u.get("mods", ["public"]):
            e.tok(md)
        e.tok("class" if u["kind"] == "class" else "interface")
        e.tok(u["name"] + ("<" + ", ".join(u["tparams"]) + ">" if u.get("tparams") else ""))
        if u.get("ext"):
            e.tok("extends")
            e.tok(u["ext"])
        if u.get("impls"):
            e.tok("implements" if u["kind"] == "class" else "extends")
            e.tok(", ".join(u["impls"]))
        if u["kind"] == "class":
            self.events.append({"e": "enterClass", "name": u["name"], "ext": gtext(u["ext"]) if u.get("ext") else None,
                                "impls": [gtext(i) for i in u.get("impls", [])]})
        else:
            self.events.append({"e": "enterInterface", "name": u["name"], "exts": [gtext(i) for i in u.get("impls", [])]})
        e.tok("{")
        e.indent += 1
        for f in list(u.get("fields", [])) + [None] + list(u.get("late_fields", [])):
            if f is None:
                # the members; then the fields that are declared after them
                for m in u.get("members", []):
                    self.member(m, u, facts)
                if u.get("late_fields"):
                    e.nl()
                continue
            e.nl()
            for a in f.get("annos", []):
                e.tok(anno_text(a))
                self.events.append({"e": "anno", "anno": anno_model(a)})
            for md in f.get("mods", []):
                e.tok(md)
            tl, tc = e.tok(f["type"])
            ev = {"e": "field", "typeIdent": type_ident(f["type"]), "names": [f["name"]], "startLine": tl, "startCol": tc}
            self.events.append(ev)
            e.tok(f["name"])
            if f.get("init") is not None:
                e.tok("=")
                self.calls = []
                self.expr(f["init"], True, var_text=expr_text(f["init"]))
                facts.setdefault("fieldCalls", []).extend(self.calls)
                self.calls = None
            sl, sc = e.tok(";", glue=True)
            ev["stopLine"], ev["stopCol"] = sl, sc
            facts["fields"].append({"type": gtext(f["type"]), "name": f["name"], "mods": list(f.get("mods", []))})
        e.indent -= 1
        e.nl()
        e.tok("}")
        self.events.append({"e": "exitBody"})
        facts["events"] = self.events
        return e.text(), facts


def recv_text(r):
    return None if r is None else expr_text(r)


def expr_text(x):
    """ANTLR GetText(): token texts concatenated without blanks"""
    k = x[0]
    if k in ("name", "lit"):
        return x[1].replace(" ", "") if k == "name" else x[1]
    if k == "this":
        return "this"
    if k == "super":
        return "super"
    if k == "call":
        return (expr_text(x[1]) + "." if x[1] is not None else "") + x[2] + "(" + ",".join(expr_text(a) for a in x[3]) + ")"
    if k == "new":
        return "new" + gtext(x[1]) + "(" + ",".join(expr_text(a) for a in x[2]) + ")"
    if k == "bin":
        return expr_text(x[2]) + x[1] + expr_text(x[3])
    if k == "assign":
        return x[1] + "=" + expr_text(x[2])
    if k == "field":
        return expr_text(x[1]) + "." + x[2]
    if k == "lambda":
        return lambda_params_text(x[1]) + "->" + expr_text(x[2])
    if k == "mref":
        return expr_text(x[1]) + "::" + x[2]
    if k == "paren":
        return "(" + expr_text(x[1]) + ")"
    raise ValueError(x)


def expr_has_null(x):
    """does the expression contain a null literal token?"""
    if x is None or isinstance(x, str):
        return False
    if x[0] == "lit":
        return x[1] == "null"
    if x[0] == "name":
        return False
    return any(expr_has_null(y) for y in x[1:] if isinstance(y, tuple)) or any(expr_has_null(z) for y in x[1:] if isinstance(y, list) for z in y if isinstance(z, tuple))


def lambda_params_text(ps):
    """GetText() of a lambda's parameter list: `(a,b)` or `(Ordero,Repor)`"""
    return "(" + ",".join(p if isinstance(p, str) else gtext(p[0]) + p[1] for p in ps) + ")"


def ident_events(events):
    """the events the identifier listener (java_identifier_listener.go) receives for the same file, in walker order"""
    out = []
    pending = False      # an interface method whose exit callback is still to come (it fires after the body, if there is one)
    depth = 0
    for ev in events:
        k = ev["e"]
        if pending and depth == 0 and k in ("interfaceBodyDecl", "exitBody", "interfaceMethod"):
            out.append({"e": "exitInterfaceMethod"})
            pending = False
        if k == "enterBlock":
            depth += 1
        elif k == "exitBlock":
            depth -= 1
            if pending and depth == 0:
                out.append({"e": "exitInterfaceMethod"})
                pending = False
        if k in ("pkg", "imp", "anno"):
            out.append(ev)
        elif k == "enterClass":
            out.append({"e": "enterClass", "name": ev["name"], "ext": ev["ext"], "impls": ev["impls"]})
        elif k == "enterInterface":
            out.append({"e": "enterInterface", "name": ev["name"]})
        elif k in ("enterMethod", "interfaceMethod", "enterCtor"):
            i = ev["ident"]
            out.append({"e": {"enterMethod": "enterMethod", "interfaceMethod": "interfaceMethod", "enterCtor": "enterCtor"}[k], "name": ev["name"],
                        "ret": ev.get("ret", ""), "annos": i["annos"], "mods": i["mods"],
                        "startLine": i["startLine"], "startCol": i["startCol"], "stopLine": ev["stopLine"], "stopCol": ev["stopCol"],
                        "hasBody": True})
            if k == "interfaceMethod":
                pending = True
                depth = 0
        elif k == "exitMethod":
            out.append({"e": "exitMethod"})
        elif k == "exitCtor":
            out.append({"e": "exitCtor"})
        elif k == "returnExpr":
            out.append(ev)
        elif k == "exitBody":
            out.append({"e": "exitType"})
    return out


def render_unit(u, rng=None, wild=0.0, comments=None):
    text, facts = JavaRenderer(rng, wild, comments).unit(u)
    if isinstance(facts, dict) and "events" in facts:
        facts["ievents"] = ident_events(facts["events"])
        facts["events"] = [ev for ev in facts["events"] if ev["e"] != "returnExpr"]      # not a callback of the full listener
    return text, facts
