"""C11 test smells: generators (code-model JSON; rendered JUnit-style trees through the real
identifier pass + full pass + tbs) and the oracle written from the property statement."""
import json

from . import javagen

PROP = "C11"
FAMILY = "tbs"
PROPS = ["C11"]
GEN_GROUPS = ["Tbs"]
ASSERT_PREFIXES = ["assert", "should", "check", "maynotbe", "is", "spec", "verify"]

ATOMS = ["print", "printf", "sleep", "eq", "asserteq", "assert", "assert2", "helper_assert", "helper_plain", "other", "new", "assertcaps", "assertmay", "asserteq3"]


def atom_calls(atom, line, cls, pkg):
    """code-model calls of one evidence atom (JSON op)"""
    pos = {"StartLine": line, "StopLine": line}
    if atom == "print":
        return [{"Package": pkg, "NodeName": "System.out", "FunctionName": "println", "Parameters": [{"TypeValue": "\"x\""}], "Position": pos}]
    if atom == "printf":
        return [{"Package": pkg, "NodeName": "System.out", "FunctionName": "printf", "Parameters": [{"TypeValue": "\"%d\""}, {"TypeValue": "1"}], "Position": pos}]
    if atom == "sleep":
        return [{"Package": pkg, "NodeName": "Thread", "FunctionName": "sleep", "Parameters": [{"TypeValue": "10"}], "Position": pos}]
    if atom == "eq":
        return [{"Package": pkg, "NodeName": cls, "FunctionName": "compare", "Parameters": [{"TypeValue": "a"}, {"TypeValue": "a"}], "Position": pos}]
    if atom == "asserteq":
        return [{"Package": pkg, "NodeName": cls, "FunctionName": "assertEquals", "Parameters": [{"TypeValue": "1"}, {"TypeValue": "1"}], "Position": pos}]
    if atom == "asserteq3":
        # the same assertion method with a message argument: another arity, the same method
        return [{"Package": pkg, "NodeName": cls, "FunctionName": "assertEquals", "Parameters": [{"TypeValue": "\"m\""}, {"TypeValue": "1"}, {"TypeValue": "2"}], "Position": pos}]
    if atom == "assert":
        return [{"Package": pkg, "NodeName": cls, "FunctionName": "assertTrue", "Parameters": [{"TypeValue": "ok"}], "Position": pos}]
    if atom == "hassert":
        return [{"Package": pkg, "NodeName": cls, "FunctionName": "assertHelperOk", "Parameters": [{"TypeValue": "ok"}], "Position": pos}]
    if atom == "assertcaps":
        # assertion names are recognised whatever their letter case: Verify..., mayNotBe... (ArchUnit)
        return [{"Package": pkg, "NodeName": cls, "FunctionName": "VerifyState", "Parameters": [{"TypeValue": "x"}], "Position": pos}]
    if atom == "assertmay":
        return [{"Package": pkg, "NodeName": "rule", "FunctionName": "mayNotBeAccessedByAnyLayer", "Position": pos}]
    if atom == "assert2":
        return [{"Package": pkg, "NodeName": "", "FunctionName": "verifyAll", "Parameters": [{"TypeValue": "x"}, {"TypeValue": "y"}], "Position": pos}]
    if atom == "helper_assert":
        return [{"Package": pkg, "NodeName": cls, "FunctionName": "helpAssert", "Position": pos}]
    if atom == "helper_plain":
        return [{"Package": pkg, "NodeName": cls, "FunctionName": "helpPlain", "Position": pos}]
    if atom == "other":
        return [{"Package": pkg, "NodeName": "Svc", "FunctionName": "run", "Position": pos}]
    if atom == "new":
        return [{"Package": pkg, "NodeName": "Foo", "FunctionName": "", "Type": "CreatorClass", "Position": pos}]
    raise ValueError(atom)


def rand_atoms(rng):
    atoms = _rand_atoms(rng)
    # mostly keep assertions reached through a helper below the duplicate-assert limit (2 helper calls x <=2 assertions):
    # whether inlined helper assertions count towards "called at least 5 times" is not decided by the statement. One case in
    # eight calls the helper again and again (model and code must still agree - each invocation is inlined -, the oracle
    # leaves DuplicateAssertTest of that class open)
    if rng.random() < 0.12:
        return atoms + ["helper_assert"] * rng.choice([3, 4, 5])
    out, n = [], 0
    for a in atoms:
        if a == "helper_assert":
            n += 1
            if n > 2:
                continue
        out.append(a)
    return out


def _rand_atoms(rng):
    r = rng.random()
    if r < 0.18:
        return []
    if r < 0.3:
        return [rng.choice(ATOMS)]
    if r < 0.4:
        return [rng.choice(["assert", "asserteq"])] * rng.choice([4, 5, 6]) + ([rng.choice(ATOMS)] if rng.random() < 0.5 else [])
    if r < 0.44:
        # one assertion method called at least five times in all, with and without its message argument (3 + 2, 4 + 1, 2 + 2)
        a, b = rng.choice([(3, 2), (4, 1), (2, 2), (2, 3), (1, 4)])
        l = ["asserteq3"] * a + ["asserteq"] * b
        rng.shuffle(l)
        return l
    if r < 0.52:
        # several different methods called repeatedly: an assertion and a non-assertion both above the duplicate limit, in either order
        a = [rng.choice(["assert", "asserteq"])] * rng.choice([5, 6])
        b = [rng.choice(["other", "eq", "print"])] * rng.choice([5, 6, 7])
        return (a + b) if rng.random() < 0.5 else (b + a)
    return [rng.choice(ATOMS) for _ in range(rng.choice([2, 3, 4, 6]))]


def rand_annos(rng):
    return rng.choice([["Test"], ["Test"], ["Test"], ["Ignore"], ["Test", "Ignore"], ["Ignore", "Test"], [], ["Before"], ["Test", "Deprecated"], ["Deprecated", "Test"],
                       # annotations whose names merely END in Test / Ignore: the method is not a test, nothing is reported for it
                       ["BeforeTest"], ["AfterTest"], ["JsonIgnore"], ["Test", "JsonIgnore"], ["BeforeTest", "Deprecated"]])


def abstract_class(rng, idx):
    cls = rng.choice(["FooTest", "BarTests", "Baz", "QuxTest", "ÜberweisungTest"]) + ("" if idx == 0 else str(idx))
    methods = []
    for j in range(rng.choice([1, 2, 3, 4])):
        methods.append({"name": "t%d" % j, "annos": rand_annos(rng), "atoms": rand_atoms(rng)})
    helpers = {"helpAssert": rng.choice([["hassert"], ["other", "hassert"], ["hassert", "hassert"]]),
               "helpPlain": rng.choice([[], ["other"], ["other", "other"]])}
    return {"cls": cls, "pkg": rng.choice(["p", "com.x"]), "methods": methods, "helpers": helpers}


def to_json_model(ac, path):
    fns = []
    line = 5
    for m in ac["methods"]:
        calls = []
        l = line + 1
        for a in m["atoms"]:
            calls += atom_calls(a, l, ac["cls"], ac["pkg"])
            l += 1
        fns.append({"Name": m["name"], "Annotations": [{"Name": a} for a in m["annos"]], "FunctionCalls": calls,
                    "Position": {"StartLine": line, "StopLine": l}})
        m["_start"] = line
        m["_lines"] = {str(i): line + 1 + i for i in range(len(m["atoms"]))}
        line = l + 2
    for hn, hatoms in ac["helpers"].items():
        calls = []
        for a in hatoms:
            calls += atom_calls(a, line + 1, ac["cls"], ac["pkg"])
        fns.append({"Name": hn, "FunctionCalls": calls, "Position": {"StartLine": line, "StopLine": line + 2}})
        line += 4
    return {"NodeName": ac["cls"], "Package": ac["pkg"], "FilePath": path, "Type": "Class", "Functions": fns}


ATOM_STMT = {
    "print": ("expr", ("call", ("name", "System.out"), "println", [("lit", '"x"')])),
    "printf": ("expr", ("call", ("name", "System.out"), "printf", [("lit", '"%d"'), ("lit", "1")])),
    "sleep": ("expr", ("call", ("name", "Thread"), "sleep", [("lit", "10")])),
    "eq": ("expr", ("call", None, "compare", [("name", "a"), ("name", "a")])),
    "asserteq": ("expr", ("call", None, "assertEquals", [("lit", "1"), ("lit", "1")])),
    "asserteq3": ("expr", ("call", None, "assertEquals", [("lit", '"m"'), ("lit", "1"), ("lit", "2")])),
    "assert": ("expr", ("call", None, "assertTrue", [("name", "ok")])),
    "assert2": ("expr", ("call", None, "verifyAll", [("name", "x"), ("name", "y")])),
    "assertcaps": ("expr", ("call", None, "VerifyState", [("name", "x")])),
    "assertmay": ("expr", ("call", ("name", "rule"), "mayNotBeAccessedByAnyLayer", [])),
    "hassert": ("expr", ("call", None, "assertHelperOk", [("name", "ok")])),
    "helper_assert": ("expr", ("call", None, "helpAssert", [])),
    "helper_plain": ("expr", ("call", None, "helpPlain", [])),
    "other": ("expr", ("call", ("name", "svc"), "run", [])),
    "new": ("local", "Foo", "f", ("new", "Foo", [])),
}


def to_java(ac, rng):
    members = []
    for m in ac["methods"]:
        members.append({"kind": "method", "annos": [{"name": a, "args": None} for a in m["annos"]], "mods": ["public"], "ret": "void",
                        "name": m["name"], "params": [], "body": [ATOM_STMT[a] for a in m["atoms"]],
                        "annos_same_line": rng.random() < 0.3, "pre_nl": rng.choice([1, 2])})
    for hn, hatoms in ac["helpers"].items():
        members.append({"kind": "method", "annos": [], "mods": ["private"], "ret": "void", "name": hn, "params": [],
                        "body": [ATOM_STMT[a] for a in hatoms]})
    u = {"pkg": ac["pkg"], "imports": ["org.junit.Test", "org.junit.Ignore"] + (["static org.junit.Assert.assertTrue"] if False else []),
         "kind": "class", "name": ac["cls"], "members": members, "fields": [{"mods": ["private"], "type": "Svc", "name": "svc"}]}
    text, facts = javagen.render_unit(u, rng, wild=rng.choice([0.0, 0.0, 0.04]), comments=["todo", "@Test"])
    for m, f in zip(ac["methods"], facts["functions"]):
        m["_start"] = f["startLine"]
        # one call fact per atom (helper/other/new included), in order
        m["_lines"] = {str(i): c["line"] for i, c in enumerate(f["calls"])}
    return text


def rand_tree(rng):
    layout = rng.choice(["flat", "maven"])
    files, classes = {}, []
    for i in range(rng.choice([1, 2, 3])):
        ac = abstract_class(rng, i)
        is_test_name = ac["cls"].rstrip("0123456789").endswith("Test") or ac["cls"].rstrip("0123456789").endswith("Tests")
        if i > 0:
            ac["cls"] = ac["cls"].rstrip("0123456789") + ("%d" % i if not is_test_name else "")
            ac["cls"] = ("K%d" % i) + ac["cls"]
        if layout == "maven":
            path = "src/test/java/%s/%s.java" % (ac["pkg"].replace(".", "/"), ac["cls"])
            selected = True
        else:
            path = "%s.java" % ac["cls"]
            selected = path.endswith("Test.java") or path.endswith("Tests.java")
        files[path] = to_java(ac, rng)
        ac["path"] = path
        ac["selected"] = selected
        classes.append(ac)
    # production code with smells that must not be reported
    prod = {"cls": "Prod", "pkg": "p", "methods": [{"name": "t0", "annos": ["Test"], "atoms": ["print"]}], "helpers": {"helpAssert": [], "helpPlain": []}}
    files["src/main/java/p/Prod.java" if layout == "maven" else "Prod.java"] = to_java(prod, rng)
    files["notes.txt"] = "@Test void x() {}"
    c = {"op": "tbsdir", "files": files, "classes": classes}
    if rng.random() < 0.15:
        c["cli"] = True        # through the real `coca tbs -p dir` in a fresh process (coca_reporter/tbs.json, tdeps.json)
        c["relroot"] = rng.random() < 0.5      # ... half of them run inside the tree with the relative root `.` (the command's default)
    return c


def gen(rng, tier):
    nsh, per = (16, 50) if tier == "quick" else (32, 800)
    shards = []
    # bounded-exhaustive: all atom sequences up to length 2 (quick) / 3 (thorough), @Test only, JSON op
    import itertools
    ex = []
    maxlen = 2 if tier == "quick" else 3
    for n in range(maxlen + 1):
        for seq in itertools.product(ATOMS, repeat=n):
            ac = {"cls": "ExTest", "pkg": "p", "methods": [{"name": "t", "annos": ["Test"], "atoms": list(seq)}],
                  "helpers": {"helpAssert": ["hassert"], "helpPlain": ["other"]}}
            ex.append({"op": "tbs", "clzs": [to_json_model(ac, "ExTest.java")], "classes": [dict(ac, path="ExTest.java", selected=True)]})
    shards.append(ex)
    for s in range(nsh):
        sh = []
        for i in range(per):
            if rng.random() < 0.5:
                acs = [abstract_class(rng, k) for k in range(rng.choice([1, 2]))]
                for k, ac in enumerate(acs):
                    ac["cls"] = "J%d%s" % (k, ac["cls"])
                    ac["path"] = "t/%s.java" % ac["cls"]
                    ac["selected"] = True
                sh.append({"op": "tbs", "clzs": [to_json_model(ac, ac["path"]) for ac in acs], "classes": acs})
            else:
                sh.append(rand_tree(rng))
        shards.append(sh)
    return shards


def augment(case, impl):
    """for rendered trees the tbs MODEL runs on the code model the real front-end produced"""
    if case.get("op") == "tbsdir" and impl and "out" in impl and impl["out"]:
        c = dict(case)
        c["clzs"] = impl["out"].get("deps") or []
        return c
    return case


def view(o):
    if isinstance(o, dict) and "findings" in o:
        return {"findings": o["findings"]}
    return o


# ---- oracle: the statement ---------------------------------------------------------------------

def is_assert_name(n):
    return any(n.lower().startswith(p) for p in ASSERT_PREFIXES)


ATOM_FN = {"print": "println", "printf": "printf", "sleep": "sleep", "eq": "compare", "asserteq": "assertEquals", "asserteq3": "assertEquals", "assert": "assertTrue",
           "assert2": "verifyAll", "assertcaps": "VerifyState", "assertmay": "mayNotBeAccessedByAnyLayer", "helper_assert": "helpAssert", "helper_plain": "helpPlain", "other": "run", "new": ""}


def expected(classes):
    exp = []
    for ac in classes:
        if not ac.get("selected", True):
            continue
        for m in ac["methods"]:
            if "Test" not in m["annos"] and "Ignore" not in m["annos"]:
                continue
            atoms = m["atoms"]
            if "Ignore" in m["annos"]:
                exp.append(("IgnoreTest", ac["path"], None))
            if not atoms:
                exp.append(("EmptyTest", ac["path"], None))
            for i, a in enumerate(atoms):
                if a in ("print", "printf"):
                    exp.append(("RedundantPrintTest", ac["path"], m["_lines"][str(i)]))
                if a == "sleep":
                    exp.append(("SleepyTest", ac["path"], m["_lines"][str(i)]))
                if a in ("eq", "asserteq"):
                    exp.append(("RedundantAssertionTest", ac["path"], None))
            has_assert = any(a in ("assert", "asserteq", "asserteq3", "assert2", "assertcaps", "assertmay") for a in atoms) or \
                any(a == "helper_assert" and "hassert" in ac["helpers"]["helpAssert"] for a in atoms)
            if atoms and not has_assert:
                exp.append(("UnknownTest", ac["path"], None))
            for fn in set(ATOM_FN[a] for a in atoms):
                if fn and is_assert_name(fn) and sum(1 for a in atoms if ATOM_FN[a] == fn) >= 5:
                    exp.append(("DuplicateAssertTest", ac["path"], None))
                    break
    return exp


def oracle(case, out, raw):
    if out is None or "panic" in out:
        return [("panic", "tbs panicked: %s" % (raw or {}).get("panic"))]
    ds = []
    exp = expected(case["classes"])
    got = [(f["Type"], f["FileName"], f["Line"] if f["Type"] in ("RedundantPrintTest", "SleepyTest") else None) for f in out["findings"]]
    if any(f["FileName"] == "" for f in out["findings"]):
        ds.append(("finding-without-file", "a finding does not name its file"))
    # a class in which some test reaches an assertion five times only THROUGH A HELPER: the statement does not say whether
    # that is "called at least 5 times" - DuplicateAssertTest of that file is judged by the model correspondence only
    for ac in case["classes"]:
        for m in ac["methods"]:
            inl = sum(ac["helpers"]["helpAssert"].count("hassert") for a in m["atoms"] if a == "helper_assert")
            if inl >= 5:
                exp = [x for x in exp if not (x[0] == "DuplicateAssertTest" and x[1] == ac["path"])]
                got = [x for x in got if not (x[0] == "DuplicateAssertTest" and x[1] == ac["path"])]
    e, g = sorted(map(str, exp)), sorted(map(str, got))
    if e == g:
        return ds
    from collections import Counter
    ce, cg = Counter(exp), Counter(got)
    extra = list((cg - ce).elements())
    miss = list((ce - cg).elements())
    # classify per class/method
    by_path = {ac["path"]: ac for ac in case["classes"]}
    for t, path, line in extra:
        ac = by_path.get(path)
        if t == "EmptyTest" and ac and any(("Test" in m["annos"]) and single_call(ac, m) for m in ac["methods"]):
            ds.append(("tbs-emptytest-single-call", "EmptyTest reported for a @Test method that makes exactly one call (%s)" % path))
        else:
            ds.append(("tbs-spurious", "spurious %s in %s line %s" % (t, path, line)))
    for t, path, line in miss:
        ac = by_path.get(path)
        if t == "EmptyTest" and ac and any(m["annos"] == ["Ignore"] and not m["atoms"] for m in ac["methods"]):
            ds.append(("tbs-ignore-only-empty", "@Ignore-only test without calls is not reported as EmptyTest (%s)" % path))
        else:
            ds.append(("tbs-missing", "missing %s in %s line %s" % (t, path, line)))
    # de-duplicate classes
    seen, res = set(), []
    for d in ds:
        if d not in seen:
            seen.add(d)
            res.append(d)
    return res


def single_call(ac, m):
    n = len(m["atoms"])
    for a in m["atoms"]:
        if a == "helper_assert":
            n += len(ac["helpers"]["helpAssert"])
        if a == "helper_plain":
            n += len(ac["helpers"]["helpPlain"])
    return n == 1


def second_annotation_matters(m, t):
    an = m["annos"]
    if len(an) < 2:
        return False
    relevant = [a for a in an if a in ("Test", "Ignore")]
    if not relevant:
        return False
    # anything this method should report can be lost when an annotation other than the first is dropped
    return an[0] not in ("Test", "Ignore") or (t == "IgnoreTest" and an[0] != "Ignore") or (t == "EmptyTest" and an[0] != "Test")


def nontrivial(case, mo):
    return bool(mo.get("findings"))


RULE = ("(a) bounded-exhaustive: every sequence of evidence atoms (11 kinds: print, printf, sleep, equal-args call, assertEquals(1,1), assertion, "
        "two-arg assertion with NodeName \"\", helper with/without assertion, other call, creation) up to length 2 (quick) / 3 (thorough) under @Test; "
        "(b) random code models of test classes (annotation lists Test/Ignore alone, together in either order, with unrelated annotations, none); "
        "(c) rendered Java trees (flat *Test.java/*Tests.java and Maven src/test/java) with production classes and non-Java files that must not be scanned, "
        "through the real identifier pass + full pass + tbs; non-trivial = at least one finding")
ASSUMPTIONS = ["helpers contain only assertion/plain calls (prints/sleeps through helpers are outside the statement's wording)",
               "for rendered trees the Lean tbs model runs on the code model produced by the REAL front-end (layer-wise correspondence); the end-to-end "
               "statement is judged by the oracle from the abstract description"]
TRUSTED = ["vlib/javagen.py ground truth for call lines", "ANTLR Java parser"]


def _load_witness(name):
    import os
    p = os.path.join(os.path.dirname(os.path.dirname(os.path.abspath(__file__))), "findings", name + ".json")
    if os.path.exists(p):
        return json.load(open(p))["history"]
    return None


WITNESSES = {}
for _k in ["tbs-emptytest-single-call", "tbs-ignore-only-empty"]:
    _w = _load_witness(_k)
    if _w:
        WITNESSES[_k] = _w
