"""C09 no pass panics on any valid Java: grammar-wide generator (random sentences of the shipped JavaParser.g4) + the repository's own
fixtures under layout rewrites; every pass is run under its own recover by the harness (family `passes`)."""
import glob
import json
import os
import random

from . import g4gen

PROP = "C09"
FAMILY = "passes"
PROPS = ["C09"]
GEN_GROUPS = ["Nav"]

_G = None


def diagnose(report):
    """when an obligation broke: name the accessor sites and navigation chains that the checker cannot discharge any more
    (evaluated with the model, which builds even when the theorem does not)"""
    import subprocess
    import tempfile
    from . import core
    src = """import CocaVerif.Model.Nav
open CocaVerif CocaVerif.Nav CocaVerif.Gen
#eval IO.println (String.intercalate "\n" ((unsafeSites JavaGrammar.rhs NavSites.sites).map fun s => s!"UNSAFE-ACCESSOR {s.pos} {s.fn} rule={s.rule} accessor={s.sym} given={s.given}"))
#eval IO.println (String.intercalate "\n" ((unsafePaths JavaGrammar.rhs JavaGrammar.ruleNames NavSites.pathSites).map fun s => s!"UNSAFE-CHAIN {s.pos} {s.fn} rule={s.rule} steps={repr s.steps}"))
#eval IO.println (String.intercalate "\n" (NavSites.missingFiles.map fun f => s!"MISSING-FILE {f}"))
"""
    ok, out = core.lake_build(["CocaVerif.Model.Nav"])
    if not ok:
        return ["Model.Nav does not build (regenerated grammar or sites no longer type-check)"]
    d = tempfile.mkdtemp(prefix="diag_", dir=os.path.join(core.LEAN, ".lake"))
    try:
        f = os.path.join(d, "Diag.lean")
        open(f, "w").write(src)
        r = subprocess.run(["lake", "env", "lean", f], cwd=core.LEAN, capture_output=True, text=True, timeout=600)
        txt = " ".join((r.stdout + r.stderr).split())
        txt = txt.replace("CocaVerif.NavTree.Step", "")
        lines = []
        for part in txt.replace("UNSAFE-", "\nUNSAFE-").replace("MISSING-FILE", "\nMISSING-FILE").splitlines():
            if part.startswith(("UNSAFE-", "MISSING-FILE")):
                lines.append(part.strip())
        return lines[:40]
    finally:
        import shutil
        shutil.rmtree(d, ignore_errors=True)


def grammar():
    global _G
    if _G is None:
        _G = g4gen.Grammar()
    return _G


def unit(rng):
    g = grammar()
    toks = []
    if rng.random() < 0.6:
        g._gen(("ref", "packageDeclaration"), rng, 8, toks, (0, 0, 1))
    for _ in range(rng.choice([0, 1, 2])):
        g._gen(("ref", "importDeclaration"), rng, 8, toks, (0, 0, 1))
    for _ in range(rng.choice([1, 1, 2])):
        g._gen(("ref", "typeDeclaration"), rng, rng.choice([9, 12, 15, 18]), toks, (0, 0, 1, 1, 2))
    # half of the units carry comments between their tokens (every small comment shape: the todo scan reads them)
    return g4gen.render(toks, rng, comments=rng.choice([None, 0.03, 0.1]))


MAPPINGS = ["RequestMapping", "GetMapping", "PostMapping", "PutMapping", "DeleteMapping", "PatchMapping", "ServiceMethod", "Override", "Test", "Ignore"]


def anno_args(rng):
    """an annotation argument list whose element values are sentences of the grammar's `elementValue` rule: scalars, constants,
    nested annotations, array initialisers (empty, one element, trailing comma), conditional expressions, ..."""
    g = grammar()

    def ev():
        toks = []
        g._gen(("ref", "elementValue"), rng, rng.choice([2, 3, 5, 7]), toks, (0, 0, 1, 2))
        return " ".join(toks)
    r = rng.random()
    if r < 0.15:
        return ""
    if r < 0.25:
        return "()"
    if r < 0.5:
        return "(" + rng.choice([ev(), "{}", "{ }", '{"/a", "/b"}', '{"/a",}', '"/x"', "Api.PATH", '"/a" + "/b"']) + ")"
    keys = rng.sample(["value", "method", "path", "produces", "name", "consumes"], rng.choice([1, 2, 3]))
    vals = [rng.choice([ev(), "{}", "{RequestMethod.GET, RequestMethod.HEAD}", "RequestMethod.POST", '{"/a", "/b"}', '"/x"']) for _ in keys]
    return "(" + ", ".join("%s = %s" % kv for kv in zip(keys, vals)) + ")"


def spring_unit(rng):
    """a controller-shaped unit: the listeners that look for particular annotation names (API scan, test smells, override) get
    those names with every argument form"""
    lines = ["package com.app.web;", "", "import org.springframework.web.bind.annotation.*;", ""]
    for a in rng.sample(["@RestController", "@Controller", "@RequestMapping" + anno_args(rng), "@Service", "@RestController" + anno_args(rng)], rng.choice([0, 1, 2, 3])):
        lines.append(a)
    kind = rng.choice(["class", "class", "class", "interface"])
    lines.append("public %s C%d%s {" % (kind, rng.randrange(9), rng.choice(["", " implements Api", " extends Base implements Api, Other"]) if kind == "class" else ""))
    for j in range(rng.choice([0, 1, 2, 3, 4])):
        for _ in range(rng.choice([0, 1, 1, 2])):
            lines.append("    @" + rng.choice(MAPPINGS) + anno_args(rng))
        params = []
        for k in range(rng.choice([0, 0, 1, 2, 3])):
            pa = rng.choice(["", "", "@RequestBody ", "@PathVariable" + anno_args(rng) + " ", "final ", "@Valid @RequestBody "])
            params.append("%s%s p%d" % (pa, rng.choice(["UserDto", "String", "List<Item>", "int[]", "Map.Entry<String, ?>", "long"]), k))
        body = " { }" if kind == "class" else ";"
        if kind == "class" and rng.random() < 0.3:
            body = " {\n        return %s;\n    }" % rng.choice(["null", "svc.find(p0)", "this"])
        lines.append("    %s%s h%d(%s)%s" % (rng.choice(["public ", "", "protected "]) if kind == "class" else "", rng.choice(["void", "String", "ResponseEntity<List<T>>", "<T> T"]), j,
                                          ", ".join(params), body))
    lines.append("}")
    if rng.random() < 0.4:
        lines = [ln + (" " + rng.choice(g4gen.BLOCK_COMMENTS + g4gen.LINE_COMMENTS) if rng.random() < 0.3 else "") for ln in lines]
    return "\n".join(lines) + "\n"


def fixture_files():
    fs = []
    for root in ["/repo/_fixtures", "/repo/pkg"]:
        fs += glob.glob(root + "/**/*.java", recursive=True)
    return sorted(fs)


def corpus_files():
    """real-world Java sources that happen to be on this machine (jfreechart, jEdit, xz-java under the Isabelle distribution of
    tlapm; ~1800 files): used when present, never required"""
    fs = glob.glob("/opt/veriftools/tlapm/lib/tlapm/backends/Isabelle/**/*.java", recursive=True)
    return sorted(f for f in fs if os.path.getsize(f) < 120000)


def rewrite(text, rng):
    """layout / comment rewrites that keep the token sequence"""
    r = rng.random()
    if r < 0.3:
        return text
    if r < 0.6:
        return text.replace("{", "{ " + rng.choice(g4gen.BLOCK_COMMENTS)).replace(";", " ;\n")
    if r < 0.8:
        return rng.choice(g4gen.LINE_COMMENTS) + "\n" + "// head é\n" + text.replace("\t", "    ")
    return text.replace("\n", "\n\n")


def gen(rng, tier):
    nsh, per = (16, 30) if tier == "quick" else (32, 1500)
    shards = []
    fx = fixture_files()
    for s in range(nsh):
        sh = []
        for i in range(per):
            r_src = rng.random()
            if r_src < 0.2:
                sh.append({"op": "passes", "files": {"src/Ctl%d.java" % k: spring_unit(rng) for k in range(rng.choice([1, 2]))}, "src": "spring"})
                if rng.random() < (0.07 if tier == "quick" else 0.03):
                    sh[-1]["cli"] = True
            elif r_src < 0.8 or not fx:
                files = {}
                for k in range(rng.choice([1, 1, 2])):
                    files["src/U%d.java" % k] = unit(rng)
                if rng.random() < 0.1:
                    # the smallest compilation units next to the others: an empty file, blanks, a lone `;`, a lone comment
                    files["src/Tiny%d.java" % i] = rng.choice(["", "\n", " ", ";", "//", "/**/", "\ufeff".encode("utf-8").decode("utf-8") + "class B { }"])
                sh.append({"op": "passes", "files": files, "src": "grammar"})
                if rng.random() < (0.07 if tier == "quick" else 0.03):
                    sh[-1]["cli"] = True        # also through the commands themselves (coca analysis | bs | api | todo | refactor), fresh processes
            else:
                f = rng.choice(fx)
                try:
                    txt = open(f, encoding="utf-8", errors="replace").read()
                except Exception:
                    continue
                sh.append({"op": "passes", "files": {"fx/" + os.path.basename(f): rewrite(txt, rng)}, "src": f})
        shards.append(sh)
    cf = corpus_files()
    rng.shuffle(cf)
    pick = cf[:80] if tier == "quick" else cf
    for i in range(0, len(pick), 120):
        sh = []
        for f in pick[i:i + 120]:
            try:
                sh.append({"op": "passes", "files": {"fx/" + os.path.basename(f): open(f, encoding="utf-8", errors="replace").read()}, "src": f})
            except Exception:
                continue
        if sh:
            shards.append(sh)
    return shards


def oracle(case, out, raw):
    if out is None or "panic" in (out or {}):
        return [("panic-harness", "harness-level panic at %s: %s" % ((raw or {}).get("site"), (raw or {}).get("panic")))]
    if "rejected" in out:
        return []
    ds = []
    for p in out["passes"]:
        if "panic" in p:
            ds.append(("panic@" + p["pass"] + ":" + str(p.get("site")), "%s pass panicked at %s: %s" % (p["pass"], p.get("site"), p["panic"])))
    seen, res = set(), []
    for d in ds:
        if d[0] not in seen:
            seen.add(d[0])
            res.append(d)
    return res


def view(o):
    """the model's claim: every pass completes on every file the parser accepts"""
    if isinstance(o, dict) and "passes" in o:
        return {"allok": all(p.get("ok", False) for p in o["passes"])}
    if isinstance(o, dict) and "rejected" in o:
        return {"allok": True}
    return o


def nontrivial(case, mo):
    return True


RULE = "16 x 30 (quick) / 32 x 1500 (thorough) trees of 1-2 files: 80% random sentences of languages/java/JavaParser.g4 (read from /repo on every run) (half of them with block / line comments of every small shape between tokens) + the smallest units (empty file, blanks, `;`, a lone comment) + controller-shaped units + repository fixtures under layout / comment rewrites; only files the tool's own parser accepts without syntax error count"
ASSUMPTIONS = []
TRUSTED = ["ANTLR runtime"]
WITNESSES = {}
