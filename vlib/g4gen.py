"""Random sentences of an ANTLR4 parser grammar (here: the JavaParser.g4 the tool ships): valid by construction
with respect to the grammar, as wide as the grammar.  The .g4 text is read from /repo on every run."""
import os
import re

TOK = re.compile(r"""
    (?P<ws>\s+)
  | (?P<lc>//[^\n]*)
  | (?P<bc>/\*.*?\*/)
  | (?P<lit>'(?:\\.|[^'\\])*')
  | (?P<act>\{[^{}]*\}\??)
  | (?P<opt><[^<>]*>)
  | (?P<id>[A-Za-z_][A-Za-z_0-9]*)
  | (?P<p>[:|;()?*+=~.])
  | (?P<arrow>->)
  | (?P<hash>\#)
""", re.X | re.S)


def lex(text):
    pos, out = 0, []
    while pos < len(text):
        m = TOK.match(text, pos)
        if not m:
            raise ValueError("g4 lex error at %d: %r" % (pos, text[pos:pos + 30]))
        pos = m.end()
        k = m.lastgroup
        if k in ("ws", "lc", "bc", "act", "opt"):
            continue
        out.append((k, m.group()))
    return out


class Parser:
    def __init__(self, toks):
        self.t, self.i = toks, 0

    def peek(self):
        return self.t[self.i] if self.i < len(self.t) else ("eof", "")

    def eat(self, v=None):
        k, x = self.peek()
        if v is not None and x != v:
            raise ValueError("g4 parse: expected %r got %r" % (v, x))
        self.i += 1
        return k, x

    def rules(self):
        rules = {}
        # header: `parser grammar X ;` `options {...}` (the braces were dropped as actions)
        while self.peek()[1] in ("parser", "lexer", "grammar", "options", "tokens", "import"):
            while self.peek()[1] != ";" and self.peek()[0] != "eof":
                nxt = self.t[self.i + 1] if self.i + 1 < len(self.t) else ("eof", "")
                if self.peek()[1] == "options" and nxt[1] != "{":
                    self.eat()
                    break
                self.eat()
            if self.peek()[1] == ";":
                self.eat()
        while self.peek()[0] != "eof":
            if self.peek()[1] == "fragment":
                self.eat()
            name = self.eat()[1]
            self.eat(":")
            alts = self.alts()
            self.eat(";")
            rules[name] = alts
        return rules

    def alts(self):
        alts = [self.seq()]
        while self.peek()[1] == "|":
            self.eat()
            alts.append(self.seq())
        return ("alt", alts)

    def seq(self):
        items = []
        while True:
            k, x = self.peek()
            if x in ("|", ";", ")") or k == "eof":
                break
            if k == "hash":
                self.eat()
                self.eat()
                continue
            if k == "arrow":          # lexer command: -> skip / channel(HIDDEN)
                self.eat()
                while self.peek()[1] not in ("|", ";"):
                    self.eat()
                continue
            items.append(self.elem())
        return ("seq", items)

    def elem(self):
        k, x = self.eat()
        if k == "id" and self.peek()[1] == "=":       # label=
            self.eat()
            k, x = self.eat()
        if x == "~":
            k2, x2 = self.eat()
            if x2 == "(":
                self.alts()
                self.eat(")")
            e = ("tokclass",)
        elif x == "(":
            e = self.alts()
            self.eat(")")
        elif k == "lit":
            e = ("lit", x[1:-1].replace("\\'", "'").replace("\\\\", "\\"))
        elif k == "id":
            e = ("ref", x)
        elif x == ".":
            e = ("tokclass",)
        else:
            raise ValueError("g4 parse: unexpected %r" % x)
        k, x = self.peek()
        if x in ("?", "*", "+"):
            self.eat()
            if self.peek()[1] == "?":       # non-greedy
                self.eat()
            e = ({"?": "opt", "*": "star", "+": "plus"}[x], e)
        return e


SAMPLES = {
    "IDENTIFIER": ["foo", "Bar", "x1", "élan", "_v", "$t", "Outer", "value", "T", "E", "main", "a", "b", "i", "RequestMapping", "Override",
                   "RestController", "Controller", "GetMapping", "PostMapping", "RequestBody", "method", "Test", "Ignore", "assertEquals", "get", "set",
                   "ServiceMethod", "String", "List", "println", "sleep", "RequestMethod", "GET"],
    "DECIMAL_LITERAL": ["0", "42", "1_000L", "7"],
    "HEX_LITERAL": ["0x1F"], "OCT_LITERAL": ["017"], "BINARY_LITERAL": ["0b101"],
    "FLOAT_LITERAL": ["1.5e3f", "2.0", ".5"], "HEX_FLOAT_LITERAL": ["0x1.8p1"],
    "BOOL_LITERAL": ["true", "false"], "CHAR_LITERAL": ["'c'", "'\\n'", "'é'"],
    "STRING_LITERAL": ['"s"', '"é \\" x"', '""', '"/x"', '"a"'], "TEXT_BLOCK": ['"""\n text é\n """'], "NULL_LITERAL": ["null"],
}


class Grammar:
    def __init__(self, repo="/repo"):
        ptxt = open(os.path.join(repo, "languages/java/JavaParser.g4")).read()
        ltxt = open(os.path.join(repo, "languages/java/JavaLexer.g4")).read()
        self.rules = Parser(lex(ptxt)).rules()
        self.tokens = {}
        for m in re.finditer(r"^([A-Z_][A-Z_0-9]*)\s*:\s*'((?:\\.|[^'\\])*)'\s*;", ltxt, re.M):
            self.tokens[m.group(1)] = m.group(2).replace("\\'", "'").replace("\\\\", "\\")
        self.depth = {}
        self._min_depths()

    # minimal derivation depth of every rule / element (for termination under a budget)
    def _md(self, e):
        k = e[0]
        if k in ("lit", "tokclass"):
            return 0
        if k == "ref":
            return 0 if e[1] not in self.rules else self.depth.get(e[1], 10 ** 6)
        if k in ("opt", "star"):
            return 0
        if k == "plus":
            return self._md(e[1])
        if k == "seq":
            return max([self._md(x) for x in e[1]] or [0])
        if k == "alt":
            return min(self._md(x) for x in e[1])
        raise ValueError(k)

    def _min_depths(self):
        changed = True
        while changed:
            changed = False
            for r, a in self.rules.items():
                d = self._md(a) + 1
                if d < self.depth.get(r, 10 ** 6):
                    self.depth[r] = d
                    changed = True

    def gen(self, rng, rule="compilationUnit", budget=14, rep=(0, 0, 1, 1, 2)):
        out = []
        self._gen(("ref", rule), rng, budget, out, rep)
        return out

    def _gen(self, e, rng, budget, out, rep):
        k = e[0]
        if k == "lit":
            out.append(e[1])
        elif k == "tokclass":
            out.append("x")
        elif k == "ref":
            n = e[1]
            if n == "identifier" and rng.random() < 0.85:
                out.append(rng.choice(SAMPLES["IDENTIFIER"]))       # mostly plain identifiers, sometimes a contextual keyword
            elif n in self.rules:
                self._gen(self.rules[n], rng, budget - 1, out, rep)
            elif n == "EOF":
                pass
            elif n in self.tokens:
                out.append(self.tokens[n])
            else:
                out.append(rng.choice(SAMPLES.get(n, ["x"])))
        elif k == "seq":
            for x in e[1]:
                self._gen(x, rng, budget, out, rep)
        elif k == "alt":
            ok = [x for x in e[1] if self._md(x) < budget]
            if not ok:
                m = min(self._md(x) for x in e[1])
                ok = [x for x in e[1] if self._md(x) == m]
            self._gen(rng.choice(ok), rng, budget, out, rep)
        elif k == "opt":
            if self._md(e[1]) < budget and rng.random() < (0.6 if budget > 6 else 0.3):
                self._gen(e[1], rng, budget, out, rep)
        elif k == "star":
            if self._md(e[1]) < budget:
                for _ in range(rng.choice(rep if budget <= 8 else (1, 1, 2, 2, 3))):
                    self._gen(e[1], rng, budget, out, rep)
        elif k == "plus":
            n = 1 + (rng.choice(rep) if self._md(e[1]) < budget else 0)
            for _ in range(n):
                self._gen(e[1], rng, budget, out, rep)


BLOCK_COMMENTS = ["/**/", "/***/", "/* */", "/** */", "/*x*/", "/** TODO */", "/*TODO*/", "/* TODO(bob): x */", "/**\n * TODO y\n */", "/*\n*/",
                  "/* é */", "/*/ */", "/**/ /**/", "/* FIXME */", "/*:*/", "/*(*/", "/** @param x */"]
LINE_COMMENTS = ["//", "// ", "//x", "// TODO", "//TODO(", "// FIXME(a): b", "///", "//*", "// é", "//TODO", "// todo:", "//:"]


def render(tokens, rng, comments=None):
    """tokens separated by blanks; a newline after ; { } so that lines (and columns) vary. With `comments` (a probability), block
    and line comments of every small shape are put between tokens (comments are valid anywhere between two tokens)"""
    out, line = [], []
    for t in tokens:
        line.append(t)
        if comments and rng.random() < comments:
            if rng.random() < 0.6:
                line.append(rng.choice(BLOCK_COMMENTS))
            else:
                line.append(rng.choice(LINE_COMMENTS))
                out.append(" ".join(line))
                line = []
                continue
        if t in (";", "{", "}") and rng.random() < 0.8:
            out.append(" ".join(line))
            line = []
    if line:
        out.append(" ".join(line))
    return "\n".join(out) + "\n"
