"""Generic check driver: proof obligations + correspondence + verdict for one property module.

A property module (vlib/p_<x>.py) provides:
  PROP          'C03'
  FAMILY        harness/driver family name
  PROPS         list of Lean Props modules whose theorems are this property's obligations
  gen(rng, tier) -> list of shards (each a list of case dicts WITHOUT ids); a shard is one history
  oracle(case, out) -> list of (class_key, text): discrepancies between the property's statement and
                 an OUTPUT (used on the real code's output for every case, and for classification)
  nontrivial(case, model_out) -> bool
  view(out) -> the part of an output that is compared between model and implementation (default: all)
  WITNESSES     {finding_key: shard}   concrete histories kept for each known finding
  ASSUMPTIONS, TRUSTED, RULE, DESIGN text for evidence
"""
import json
import os
import random
import sys
import time
import traceback

from . import core


def _ids(shards):
    n = 0
    for sh in shards:
        for c in sh:
            n += 1
            c["id"] = n
    return n


def proof_phase(mod, report, tier="quick"):
    """returns list of broken-obligation descriptions (empty = all discharged)"""
    broken = []
    with core.BuildLock():
        ok, out = core.build_go()
        report["go_build_ok"] = ok
        if not ok:
            report["go_build_out"] = out[-3000:]
            return ["go build of harness against /repo failed:\n" + out[-1500:]], True
        ok, rep = core.run_extract()
        report["extract"] = rep
        if not ok:
            broken.append("extractor failed: %s" % rep)
        if rep.get("stale"):
            for s in rep["stale"]:
                if any(s.startswith(g + ".") for g in getattr(mod, "GEN_GROUPS", [])):
                    broken.append("regenerated fact not extractable any more: " + s)
        ok, out = core.lake_build(["driver"])
        report["driver_build_ok"] = ok
        if not ok:
            report["driver_build_out"] = out[-3000:]
            return ["model driver does not build (a regenerated definition no longer type-checks):\n" + out[-1500:]], "nomodel"
        names = []
        built = {}
        for pm in mod.PROPS:
            ok, out = core.lake_build(["CocaVerif.Props." + pm])
            built[pm] = ok
            tn = core.theorem_names(pm)
            names += [(pm, n) for n in tn]
            if not ok:
                # which theorems fail? lake output has "error: ...Props/Cxx.lean:LINE:COL"
                broken.append("Props.%s does not build:\n%s" % (pm, "\n".join(l for l in out.splitlines() if "error" in l)[:1500]))
        report["props_built"] = built
        ax_all = {}
        for pm in mod.PROPS:
            if built.get(pm):
                ax, raw = core.audit_axioms(pm, [n for (p, n) in names if p == pm])
                for n, a in ax.items():
                    ax_all[n] = a
                    if a is None:
                        broken.append("audit: theorem %s not found" % n)
                    elif set(a) - core.ALLOWED_AXIOMS:
                        broken.append("audit: theorem %s depends on disallowed axioms %s" % (n, sorted(set(a) - core.ALLOWED_AXIOMS)))
        report["axioms"] = ax_all
        if tier == "thorough":
            # independent re-check of the compiled property modules (and everything they import) by leanchecker
            rc_all = {}
            for pm in mod.PROPS:
                if built.get(pm):
                    rc, out = core.sh(["lake", "env", "leanchecker", "CocaVerif.Props." + pm], cwd=core.LEAN, timeout=3600)
                    rc_all[pm] = rc == 0
                    if rc != 0:
                        broken.append("leanchecker rejects CocaVerif.Props.%s: %s" % (pm, out[-600:]))
            report["leanchecker"] = rc_all
        hits = core.grep_forbidden()
        if hits:
            broken.append("forbidden constructs in Lean sources: " + "; ".join(hits[:5]))
        report["obligations"] = len(names)
        report["discharged"] = sum(1 for (p, n) in names if built.get(p) and ax_all.get(n) is not None
                                   and not (set(ax_all[n]) - core.ALLOWED_AXIOMS))
        report["theorems"] = [n for (_, n) in names]
    return broken, False


def run(mod, tier, seed, replay=None):
    t0 = time.time()
    prop = mod.PROP
    report = {}
    broken, fatal = proof_phase(mod, report, tier)
    if broken and hasattr(mod, "diagnose"):
        try:
            broken += mod.diagnose(report)
        except Exception as e:       # a diagnosis aid only
            broken.append("diagnose failed: %r" % (e,))
    known = core.open_findings(prop)
    violations = []        # (kind, text, replay_obj)
    known_seen = {}
    stats = {"evaluations": 0, "mismatches": 0, "panics": 0}
    samples = []
    distinct = set()
    corr_breaks = []
    dist = {"ops": {}, "case_size": {}, "features": {}}
    # the model does not build: the search for a failing input still runs, implementation against the statement-level oracle
    nomodel = fatal == "nomodel" and not hasattr(mod, "run_shards")
    if nomodel:
        fatal = False
    if not fatal:
        rng = random.Random(seed)
        shards = []
        if replay:
            rp = json.load(open(replay))
            shards = [rp["history"]] if "history" in rp else []
        else:
            for k, w in getattr(mod, "WITNESSES", {}).items():
                shards.append([dict(c, _witness=k) for c in w])
            cdir = os.path.join(core.VERIF, "corpus", prop)
            if os.path.isdir(cdir):
                for fn in sorted(os.listdir(cdir)):
                    if fn.endswith(".json"):
                        shards.append(json.load(open(os.path.join(cdir, fn)))["history"])
            shards += mod.gen(rng, tier)
        # every case goes through a JSON round trip first: the oracles then see exactly what a replay file gives them
        shards = [[json.loads(json.dumps(c)) for c in sh] for sh in shards if sh]
        _ids(shards)
        if hasattr(mod, "run_shards"):
            impl, model = mod.run_shards(shards)
        else:
            impl, model = core.run_shards(mod.FAMILY, shards, timeout=getattr(mod, "TIMEOUT", 1800), augment=getattr(mod, "augment", None),
                                          no_model=nomodel)
        view = getattr(mod, "view", lambda o: o)
        for si, sh in enumerate(shards):
            for ci, c in enumerate(sh):
                stats["evaluations"] += 1
                dist["ops"][c.get("op", "?")] = dist["ops"].get(c.get("op", "?"), 0) + 1
                if c.get("cli") or c.get("cliRuns"):
                    # cases that went through the real coca command (cmd/*.go) in a fresh process
                    dist["through_cli"] = dist.get("through_cli", 0) + 1
                sz = len(json.dumps(c))
                bucket = "<300B" if sz < 300 else "<1KB" if sz < 1000 else "<3KB" if sz < 3000 else "<10KB" if sz < 10000 else ">=10KB"
                dist["case_size"][bucket] = dist["case_size"].get(bucket, 0) + 1
                if hasattr(mod, "features"):
                    try:
                        for ft in mod.features(c):
                            dist["features"][ft] = dist["features"].get(ft, 0) + 1
                    except Exception:
                        pass
                ri = impl.get(c["id"])
                rm = model.get(c["id"])
                io = None if ri is None else (ri.get("out") if "panic" not in ri else {"panic": ri.get("site", "?")})
                mo = None if rm is None else rm.get("out")
                if ri is not None and "panic" in ri:
                    stats["panics"] += 1
                hist = [{k: v for k, v in x.items() if k not in ("id",)} for x in sh[:ci + 1]]
                if isinstance(io, dict) and "panic" in io and isinstance(mo, dict) and "panic" in mo:
                    same = True      # both panic (the model predicts the panic; sites/messages are informational)
                else:
                    same = nomodel or core.canon(view(io)) == core.canon(view(mo))
                try:
                    ds = mod.oracle(c, io, ri)
                except Exception:
                    ds = [("oracle-error", traceback.format_exc()[-800:])]
                unexplained = [d for d in ds if d[0] not in known]
                for d in ds:
                    if d[0] in known:
                        known_seen[d[0]] = known_seen.get(d[0], 0) + 1
                if unexplained:
                    violations.append(("failing-input", "; ".join("%s: %s" % d for d in unexplained[:3]),
                                       {"property": prop, "reason": "the real code's output violates the property on this input",
                                        "discrepancies": unexplained[:10], "history": hist, "impl": ri, "model": rm}))
                elif not same:
                    stats["mismatches"] += 1
                    corr_breaks.append({"property": prop,
                                        "reason": "correspondence model==implementation no longer checks (Lean model CocaVerif.Model.* vs real code); no discrepancy with the property statement found on this input",
                                        "history": hist, "impl": ri, "model": rm})
                try:
                    nt = mo is not None and mod.nontrivial(c, mo)
                except Exception:
                    nt = False
                if nt:
                    h = core.case_hash(c)
                    if h not in distinct and len(samples) < 3 and "_witness" not in c:
                        samples.append({"case": json.loads(core.shrink_text(json.dumps({k: v for k, v in c.items() if k != "id"}), 100000)) if len(json.dumps(c)) < 3000 else core.shrink_text(c, 1500),
                                        "impl_out": core.shrink_text(io, 800), "agrees_with_model": same})
                    distinct.add(h)
    # ---- verdict
    lines = []
    rc = 0
    failing = [v for v in violations if v[0] == "failing-input"]
    if failing:
        # one VIOLATION line per distinct discrepancy class, smallest history first
        seen_cls = set()
        failing.sort(key=lambda v: len(json.dumps(v[2]["history"])))
        for kind, text, obj in failing:
            cls = tuple(sorted(set(d[0] for d in obj["discrepancies"])))
            if cls in seen_cls:
                continue
            seen_cls.add(cls)
            if broken:
                obj["broken_obligations"] = broken
            p = core.write_replay(prop, "input", obj)
            lines.append("VIOLATION property=%s replay=%s" % (prop, p))
            if len(seen_cls) >= 5:
                break
        rc = 1
    elif corr_breaks or broken:
        corr_breaks.sort(key=lambda o: len(json.dumps(o["history"])))
        obj = {"property": prop,
               "reason": "a proof obligation or the model/implementation correspondence no longer checks; no input on which the property itself fails was found",
               "broken_obligations": broken,
               "correspondence_breaks": len(corr_breaks)}
        if corr_breaks:
            obj.update({k: corr_breaks[0][k] for k in ("history", "impl", "model")})
            obj["correspondence"] = "model %s (lean/CocaVerif/Model) vs real code via harness family '%s'" % (prop, mod.FAMILY)
        p = core.write_replay(prop, "obligation", obj)
        lines.append("VIOLATION property=%s replay=%s no-failing-input-found" % (prop, p))
        rc = 1
    for k, f in known.items():
        if known_seen.get(k):
            lines.append("KNOWN-FINDING: property=%s %s" % (prop, f["text"]))
    wall = time.time() - t0
    ev = {
        "property_id": prop, "tier": tier, "seed": seed, "level": "proof",
        "coverage": {
            "obligations": report.get("obligations", 0), "discharged": report.get("discharged", 0),
            "checker_cmd": "cd lean && lake build " + " ".join("CocaVerif.Props." + p for p in mod.PROPS) + "  (+ #print axioms audit of every theorem, grep for sorry/axiom/native_decide)",
            "trusted_base": ["Lean 4 kernel", "axioms ⊆ {propext, Classical.choice, Quot.sound}",
                             "translator harness/cmd/extract (regenerated Gen/*.lean)",
                             "correspondence harness (Go) + vlib comparison"] + list(getattr(mod, "TRUSTED", [])),
            "theorems": report.get("theorems", []), "axioms": report.get("axioms", {}), "leanchecker": report.get("leanchecker"),
            "broken_obligations": broken,
            "regenerated_facts": report.get("extract", {}),
            "evaluations": stats["evaluations"], "distinct_nontrivial": len(distinct),
            "rule": getattr(mod, "RULE", ""), "samples": samples, "input_distribution": dist,
            "correspondence_mismatches": stats["mismatches"], "impl_panics": stats["panics"],
            "known_findings_seen": known_seen,
            "explanation": getattr(mod, "EXPLANATION", ""),
        },
        "assumptions": list(getattr(mod, "ASSUMPTIONS", [])),
        "wall_s": round(wall, 2), "violations": sum(1 for l in lines if l.startswith("VIOLATION")),
    }
    core.write_evidence(prop, ev)
    for l in lines:
        print(l)
    print("%s tier=%s seed=%d obligations=%d/%d cases=%d distinct_nontrivial=%d mismatches=%d known=%s wall=%.1fs"
          % (prop, tier, seed, ev["coverage"]["discharged"], ev["coverage"]["obligations"], stats["evaluations"],
             len(distinct), stats["mismatches"], known_seen, wall))
    if broken:
        for b in broken:
            core.log("BROKEN:", b)
    return rc
