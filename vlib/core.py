"""Shared machinery of the checks: build, run (real code vs. Lean model), verdict, evidence.

Every check is   ./check Cxx [--tier quick|thorough] [--replay F]
  1. regenerate lean/CocaVerif/Gen/*.lean from /repo's working tree (harness/cmd/extract)
  2. lake build the property's Props module (proof obligations, re-checked against the regenerated
     facts) and the core-only model driver; audit axioms of every theorem
  3. go build the harness against /repo's working tree
  4. run generated cases through the real code (harness) and through the model (driver), compare
  5. verdict + evidence + replay
"""
import fcntl
import hashlib
import json
import os
import random
import re
import shutil
import subprocess
import sys
import tempfile
import time
from concurrent.futures import ThreadPoolExecutor

VERIF = os.path.dirname(os.path.dirname(os.path.abspath(__file__)))
LEAN = os.path.join(VERIF, "lean")
HARNESS = os.path.join(VERIF, "harness")
REPO = "/repo"
NCPU = 16
ALLOWED_AXIOMS = {"propext", "Classical.choice", "Quot.sound"}

GOENV = dict(os.environ, GOFLAGS="-mod=mod", GOPROXY="off", GOSUMDB="off", GOTOOLCHAIN="local",
             GOMEMLIMIT="6GiB")


def log(*a):
    print(*a, file=sys.stderr, flush=True)


def sh(cmd, cwd=None, env=None, timeout=3600):
    p = subprocess.run(cmd, cwd=cwd, env=env, stdout=subprocess.PIPE, stderr=subprocess.STDOUT,
                       text=True, timeout=timeout)
    return p.returncode, p.stdout


class BuildLock:
    def __enter__(self):
        self.f = open(os.path.join(VERIF, ".build.lock"), "w")
        fcntl.flock(self.f, fcntl.LOCK_EX)
        return self

    def __exit__(self, *a):
        fcntl.flock(self.f, fcntl.LOCK_UN)
        self.f.close()


def write_if_changed(path, text):
    try:
        if open(path).read() == text:
            return False
    except FileNotFoundError:
        pass
    os.makedirs(os.path.dirname(path), exist_ok=True)
    with open(path, "w") as f:
        f.write(text)
    return True


# --------------------------------------------------------------------------------------------
# build

def build_go():
    """(re)build extractor and harness against /repo's working tree. Returns (ok, output)."""
    if not os.path.exists(os.path.join(HARNESS, "go.sum")) or \
            open(os.path.join(HARNESS, "go.sum")).read() != open(os.path.join(REPO, "go.sum")).read():
        pass
    # go.sum of the harness must cover /repo's deps: start from /repo's
    sums = set(open(os.path.join(REPO, "go.sum")).read().splitlines())
    try:
        sums |= set(open(os.path.join(HARNESS, "go.sum")).read().splitlines())
    except FileNotFoundError:
        pass
    write_if_changed(os.path.join(HARNESS, "go.sum"), "\n".join(sorted(s for s in sums if s)) + "\n")
    os.makedirs(os.path.join(HARNESS, "bin"), exist_ok=True)
    rc, out = sh(["go", "build", "-tags", "verif", "-o", "bin/", "./cmd/..."], cwd=HARNESS, env=GOENV)
    return rc == 0, out


def run_extract():
    """regenerate Gen/*.lean; returns (ok, report dict)."""
    exe = os.path.join(HARNESS, "bin", "extract")
    rc, out = sh([exe, REPO, os.path.join(LEAN, "CocaVerif", "Gen")], cwd=HARNESS)
    rep = {}
    try:
        rep = json.loads(out.strip().splitlines()[-1])
    except Exception:
        rep = {"raw": out[-2000:]}
    # the two other translators: listener dereference sites (go/ast) and the shipped Java grammar (.g4 -> Rx)
    rc2, out2 = sh([os.path.join(HARNESS, "bin", "navsites"), REPO, os.path.join(LEAN, "CocaVerif", "Gen")], cwd=HARNESS)
    rc3, out3 = sh([sys.executable, os.path.join(VERIF, "vlib", "g4lean.py"), REPO, os.path.join(LEAN, "CocaVerif", "Gen", "JavaGrammar.lean")], cwd=VERIF)
    rep["navsites"] = out2.strip()[-200:]
    rep["grammar"] = out3.strip()[-200:]
    if rc2 != 0 or rc3 != 0:
        rep.setdefault("stale", [])
        rep["stale"] = (rep.get("stale") or []) + ["Nav.translators (navsites rc=%s, g4lean rc=%s)" % (rc2, rc3)]
    return rc == 0, rep


def lake_build(targets):
    rc, out = sh(["lake", "build"] + targets, cwd=LEAN, timeout=7200)
    return rc == 0, out


def theorem_names(prop):
    """theorem names declared in Props/<prop>.lean, with their namespace."""
    path = os.path.join(LEAN, "CocaVerif", "Props", prop + ".lean")
    names = []
    ns = []
    for line in open(path):
        m = re.match(r"\s*namespace\s+(\S+)", line)
        if m:
            ns.append(m.group(1))
        m = re.match(r"\s*end\s+(\S+)", line)
        if m and ns and ns[-1] == m.group(1):
            ns.pop()
        m = re.match(r"\s*(?:@\[[^\]]*\]\s*)?theorem\s+(\S+)", line)
        if m:
            names.append(".".join(ns + [m.group(1)]))
    return names


def audit_axioms(prop, names):
    """#print axioms for every property theorem; returns {name: [axioms]} (None = not found)."""
    d = tempfile.mkdtemp(prefix="audit_", dir=os.path.join(LEAN, ".lake"))
    try:
        src = "import CocaVerif.Props.%s\n" % prop + "".join("#print axioms %s\n" % n for n in names)
        f = os.path.join(d, "Audit.lean")
        open(f, "w").write(src)
        rc, out = sh(["lake", "env", "lean", f], cwd=LEAN)
        res = {n: None for n in names}
        # output: "'X' depends on axioms: [a, b]" (possibly wrapped) / "'X' does not depend on any axioms"
        flat = re.sub(r"\s+", " ", out)
        for n in names:
            m = re.search(r"'%s' depends on axioms: \[([^\]]*)\]" % re.escape(n), flat)
            if m:
                res[n] = [a.strip() for a in m.group(1).split(",") if a.strip()]
            elif re.search(r"'%s' does not depend on any axioms" % re.escape(n), flat):
                res[n] = []
        return res, out
    finally:
        shutil.rmtree(d, ignore_errors=True)


FORBIDDEN = re.compile(r"\b(sorry|admit|native_decide|bv_decide|implemented_by|unsafe)\b|^\s*axiom\s|maxHeartbeats\s+0")


def grep_forbidden():
    hits = []
    for root, _, files in os.walk(os.path.join(LEAN, "CocaVerif")):
        for fn in files:
            if fn.endswith(".lean"):
                p = os.path.join(root, fn)
                in_block = 0
                for i, line in enumerate(open(p), 1):
                    s = line
                    # strip comments (good enough: line comments and /- -/ blocks)
                    if in_block:
                        if "-/" in s:
                            in_block = 0
                            s = s.split("-/", 1)[1]
                        else:
                            continue
                    if "/-" in s:
                        pre, rest = s.split("/-", 1)
                        if "-/" in rest:
                            s = pre + rest.split("-/", 1)[1]
                        else:
                            s = pre
                            in_block = 1
                    s = s.split("--", 1)[0]
                    s = re.sub(r'"[^"]*"', '""', s)
                    if FORBIDDEN.search(s):
                        hits.append("%s:%d: %s" % (os.path.relpath(p, LEAN), i, line.strip()))
    return hits


# --------------------------------------------------------------------------------------------
# running cases

def _run_harness(family, cases, tmp, tag, timeout):
    """run the real code on `cases` (list of dicts with 'id'); returns {id: result}. A dying process
    (fatal error, os.Exit, timeout) marks the first unanswered case as crashed and continues with the
    rest in a fresh process (the model is told via a 'reset' marker)."""
    results = {}
    todo = list(cases)
    rnd = 0
    while todo:
        rnd += 1
        fin = os.path.join(tmp, "%s.%d.in" % (tag, rnd))
        fout = os.path.join(tmp, "%s.%d.out" % (tag, rnd))
        with open(fin, "w") as f:
            for c in todo:
                f.write(json.dumps(c) + "\n")
        try:
            p = subprocess.run([os.path.join(HARNESS, "bin", "harness"), family, fin, fout],
                               stdout=subprocess.DEVNULL, stderr=subprocess.PIPE, timeout=timeout, env=GOENV,
                               cwd=tmp)
            err = p.stderr.decode(errors="replace")[-400:]
            rc = p.returncode
        except subprocess.TimeoutExpired:
            err, rc = "timeout", -9
        got = []
        if os.path.exists(fout):
            for line in open(fout):
                line = line.strip()
                if line:
                    try:
                        got.append(json.loads(line))
                    except Exception:
                        pass
        for r in got:
            results[r["id"]] = r
        if len(got) >= len(todo):
            break
        culprit = todo[len(got)]
        results[culprit["id"]] = {"id": culprit["id"], "panic": "process-died rc=%s %s" % (rc, err), "site": "process"}
        todo = todo[len(got) + 1:]
    return results


def _run_driver(family, cases, tmp, tag, timeout):
    fin = os.path.join(tmp, "%s.drv.in" % tag)
    with open(fin, "w") as f:
        for c in cases:
            f.write(json.dumps(c) + "\n")
    exe = os.path.join(LEAN, ".lake", "build", "bin", "driver")
    with open(fin) as inp:
        p = subprocess.run([exe, family], stdin=inp, stdout=subprocess.PIPE, stderr=subprocess.PIPE, timeout=timeout)
    res = {}
    for line in p.stdout.decode().splitlines():
        line = line.strip()
        if not line:
            continue
        r = json.loads(line)
        if "id" in r:
            res[r["id"]] = r
    if p.returncode != 0:
        log("driver rc", p.returncode, p.stderr.decode()[-500:])
    return res


def run_shards(family, shards, timeout=1800, augment=None, no_model=False):
    """shards: list of lists of case dicts (ids unique across shards). Returns (impl, model) dicts by id."""
    tmp = tempfile.mkdtemp(prefix="cocaverif_")
    try:
        def one(i):
            sh_ = shards[i]
            a = _run_harness(family, sh_, tmp, "s%d" % i, timeout)
            # after a process death the real globals were reset: tell the model
            cases = []
            for c in sh_:
                if augment is not None:
                    c = augment(c, a.get(c["id"]))
                cases.append(c)
                r = a.get(c["id"])
                if r is not None and r.get("site") == "process":
                    cases.append({"id": 0, "op": "__reset__"})
            b = {} if no_model else _run_driver(family, cases, tmp, "s%d" % i, timeout)
            return a, b
        impl, model = {}, {}
        with ThreadPoolExecutor(max_workers=NCPU) as ex:
            for a, b in ex.map(one, range(len(shards))):
                impl.update(a)
                model.update(b)
        return impl, model
    finally:
        shutil.rmtree(tmp, ignore_errors=True)


def tie_groups(rows, key):
    """an order-preserving canonical form of a sorted table: consecutive rows with the same sort key form one group that is
    compared as a set; the sequence of groups keeps the emitted order (used by C08's run-to-run comparison)"""
    out = []
    for r in rows:
        k = key(r)
        if out and out[-1][0] == k:
            out[-1][1].append(json.dumps(r, sort_keys=True, ensure_ascii=False))
        else:
            out.append([k, [json.dumps(r, sort_keys=True, ensure_ascii=False)]])
    return [[k, sorted(v)] for k, v in out]


def canon(x):
    return json.dumps(x, sort_keys=True, ensure_ascii=False)


def case_hash(c):
    d = {k: v for k, v in c.items() if k != "id"}
    return hashlib.sha1(canon(d).encode()).hexdigest()[:12]


# --------------------------------------------------------------------------------------------
# findings file

def load_findings():
    """KNOWN_FINDINGS.txt: lines 'finding: property=Cxx key=<slug> ...' / 'fixed: property=Cxx <commit> ...'"""
    out = []
    p = os.path.join(VERIF, "KNOWN_FINDINGS.txt")
    if not os.path.exists(p):
        return out
    for line in open(p):
        line = line.strip()
        if not line or line.startswith("#"):
            continue
        m = re.match(r"(finding|fixed): property=(C\d+)\s+(.*)", line)
        if not m:
            continue
        kind, prop, rest = m.groups()
        key = None
        mk = re.search(r"key=(\S+)", rest)
        if mk:
            key = mk.group(1)
        out.append({"kind": kind, "property": prop, "key": key, "text": rest})
    return out


def open_findings(prop):
    return {f["key"]: f for f in load_findings() if f["kind"] == "finding" and f["property"] == prop and f["key"]}


# --------------------------------------------------------------------------------------------
# evidence / replay

def write_replay(prop, name, obj):
    d = os.path.join(VERIF, "replays")
    os.makedirs(d, exist_ok=True)
    h = hashlib.sha1(canon(obj).encode()).hexdigest()[:10]
    p = os.path.join(d, "%s-%s-%s.json" % (prop, name, h))
    with open(p, "w") as f:
        json.dump(obj, f, indent=1, ensure_ascii=False)
    return os.path.relpath(p, VERIF)


def write_evidence(prop, ev):
    # VERIF_EVIDENCE_DIR: used by tools/seed_*.sh so that a run against a deliberately changed /repo never overwrites
    # the evidence of the unchanged tree
    d = os.environ.get("VERIF_EVIDENCE_DIR") or os.path.join(VERIF, "evidence")
    os.makedirs(d, exist_ok=True)
    with open(os.path.join(d, prop + ".json"), "w") as f:
        json.dump(ev, f, indent=1, ensure_ascii=False)


def shrink_text(s, n=600):
    s = s if isinstance(s, str) else json.dumps(s, ensure_ascii=False)
    return s if len(s) <= n else s[:n] + "…(%d more)" % (len(s) - n)
