"""C13 architecture graph: generator and oracle."""

PROP = "C13"
FAMILY = "arch"
PROPS = ["C13"]
GEN_GROUPS = []

PKGS = ["com.a", "com.a.b", "com.c", "org.x", "ab", "a", "bc", "c", "q.r.s.t.u.v.w.x", "q.r.s.t.u.v.w.y.z", "org.graph"]
NAMES = ["Foo", "Bar", "Baz", "Main", "Svc", "Repo", "Util", "Ab", "B", "Node", "Edge", "Graph"]     # (DOT keywords are ordinary Java names)


def rand_model(rng):
    types = []
    seen = set()
    for _ in range(rng.choice([1, 2, 3, 5, 7])):
        pk, nm = rng.choice(PKGS), rng.choice(NAMES)
        if (pk, nm) in seen:
            continue
        seen.add((pk, nm))
        types.append((pk, nm))
    ext = [("java.util", "List"), ("ext.lib", "Thing"), ("com.a", "Ghost")]
    allt = types + ext

    def pick():
        return rng.choice(allt)
    clzs = []
    for pk, nm in types:
        c = {"Package": pk, "NodeName": nm, "Implements": [], "Extend": "", "FunctionCalls": [], "Functions": []}
        for _ in range(rng.choice([0, 0, 1, 2])):
            t = pick()
            c["Implements"].append(t[0] + "." + t[1])
        if rng.random() < 0.35:
            t = pick()
            c["Extend"] = t[0] + "." + t[1]
        for _ in range(rng.choice([0, 1, 2])):
            t = pick() if rng.random() < 0.85 else (pk, nm)
            c["FunctionCalls"].append({"Package": t[0], "NodeName": t[1], "Type": "field"})
        for j in range(rng.choice([0, 1, 2, 3])):
            mn = rng.choice(["run", "main", "get", "work"])
            calls = []
            for _ in range(rng.choice([0, 1, 2, 3])):
                t = pick() if rng.random() < 0.85 else (pk, nm)
                calls.append({"Package": t[0], "NodeName": t[1], "FunctionName": rng.choice(["a", "b", ""])})
            c["Functions"].append({"Name": mn, "FunctionCalls": calls})
        clzs.append(c)
    ident = [pk + "." + nm for pk, nm in types]
    if rng.random() < 0.3 and ident:
        ident = ident[:-1]     # identifier set may lag behind deps
    if rng.random() < 0.3:
        ident.append("com.a.Ghost")
    return clzs, ident


def gen(rng, tier):
    nsh, per = (16, 80) if tier == "quick" else (32, 2500)
    shards = []
    for s in range(nsh):
        sh = []
        for i in range(per):
            clzs, ident = rand_model(rng)
            if rng.random() < 0.12:
                # two relations whose merged endpoints concatenate to the same text: ab+c / a+bc
                def t(pk, nm, to):
                    return {"Package": pk, "NodeName": nm, "Implements": [], "Extend": "", "Functions": [],
                            "FunctionCalls": [{"Package": to[0], "NodeName": to[1], "Type": "field"}]}
                clzs = clzs[:2] + [t("ab", "P", ("c", "Q")), t("a", "R", ("bc", "S")), t("c", "Q", ("java.util", "List")), t("bc", "S", ("java.util", "List"))]
                ident = ident + ["ab.P", "a.R", "c.Q", "bc.S"]
            sh.append({"op": "arch", "clzs": clzs, "identKeys": ident,
                       "mergeHeader": rng.random() < 0.3, "mergePackage": rng.random() < 0.3,
                       "filters": rng.choice([[""], [""], ["com"], ["com.a", "org"], ["zzz"], ["a"]])})
            if rng.random() < (0.08 if tier == "quick" else 0.01):
                # through the real `coca arch -d deps.json [-H] [-P] -x filters` in a fresh process (coca_reporter/arch.dot)
                sh[-1]["cli"] = True
        shards.append(sh)
    return shards


def merge_header(s):
    t = s.split(".")
    return ".".join(t[:-1]) if len(t) > 1 else s


def merge_package(s):
    split = "/" if "/" in s else "." if "." in s else "::"
    t = s.split(split)
    pk = t[0]
    if pk == s:
        pk = "main"
    if len(t) > 7:
        pk = split.join(t[:7])
    return pk


def oracle(case, out, raw):
    if out is None or "panic" in out:
        return [("panic", "arch panicked: %s" % (raw or {}).get("panic"))]
    if "dotError" in out:
        return [("dot-malformed", out["dotError"])]
    ds = []
    ident = set(case["identKeys"])
    nodes = set()
    edges = set()
    for c in case["clzs"]:
        if c["NodeName"] == "Main":
            continue
        a = c["Package"] + "." + c["NodeName"]
        nodes.add(a)
        for i in c.get("Implements") or []:
            edges.add((a, i))
        if c.get("Extend"):
            edges.add((a, c["Extend"]))
        for f in c.get("FunctionCalls") or []:
            edges.add((a, f["Package"] + "." + f["NodeName"]))
        for m in c.get("Functions") or []:
            if m["Name"] == "main":
                continue
            for call in m.get("FunctionCalls") or []:
                b = call["Package"] + "." + call["NodeName"]
                if b != a and b in ident:
                    edges.add((a, b))
    for flag, fn in (("mergeHeader", merge_header), ("mergePackage", merge_package)):
        if case.get(flag):
            nodes = set(fn(n) for n in nodes)
            edges = set((fn(a), fn(b)) for a, b in edges if fn(a) != fn(b))
    # the graph itself (before any layout): with a merge it is the quotient by the package function without self-loops
    exp_rels = sorted(set("%s -> %s" % (a, b) for a, b in edges))
    got_rels = sorted(set(out.get("allRels", [])))
    if "allRels" in out and got_rels != exp_rels:       # (a case that went through `coca arch` shows the drawn graph only)
        miss = [r for r in exp_rels if r not in got_rels][:4]
        extra = [r for r in got_rels if r not in exp_rels][:4]
        ds.append(("arch-graph-relations", "relations of the %s graph: missing %s, not expected %s" % (
            "merged" if (case.get("mergeHeader") or case.get("mergePackage")) else "full", miss, extra)))
    filt = case["filters"]
    shown = set(n for n in nodes if any(f in n for f in filt))
    # a name that is a proper dotted prefix of another displayed name is drawn as a cluster only
    prefix_clash = any(o != n and o.startswith(n + ".") for n in shown for o in shown)
    exp_edges = sorted("%s -> %s" % (a, b) for a, b in edges if a in shown and b in shown)
    if prefix_clash:
        return ds      # outside the conventional (prefix-free) naming the layout clause does not apply
    if out["nodes"] != sorted(shown):
        ds.append(("arch-nodes", "displayed nodes %s expected %s" % (out["nodes"][:6], sorted(shown)[:6])))
    if sorted(set(out["edges"])) != exp_edges:
        ds.append(("arch-edges", "edges %s expected %s" % (sorted(set(out["edges"]))[:6], exp_edges[:6])))
    if len(out["nodes"]) != len(set(out["nodes"])):
        ds.append(("arch-node-twice", "a type is shown twice"))
    return ds


def view(o):
    if isinstance(o, dict) and "edges" in o:
        v = {"nodes": o["nodes"], "edges": sorted(set(o["edges"]))}
        if "allNodes" in o:
            v.update({"allNodes": o["allNodes"], "allRels": sorted(set(o["allRels"]))})
        return v
    return o


def nontrivial(case, mo):
    return bool(mo.get("edges"))


RULE = ("random code models over a package tree (nested, single-segment and 9-segment packages; names chosen so that concatenations collide, e.g. "
        "packages a/ab/bc/c), implements/extends/field/method-call relations to project, external and own type, `main` methods and a `Main` class, "
        "identifier sets that lag behind or exceed the deps; x merge-header / merge-package on/off x filters; the emitted DOT is re-parsed by "
        "gographviz and read back as label paths; non-trivial = at least one edge drawn")
ASSUMPTIONS = ["type and package names contain neither '->' nor '/' and no type name is a dotted prefix of another displayed name (conventional Java naming)"]
TRUSTED = ["gographviz printer/parser (DOT well-formedness = it re-parses its own output)"]
WITNESSES = {}
