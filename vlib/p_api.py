"""C12 Spring HTTP APIs: controller projects with ground truth, listener events, oracle."""
from . import javagen

PROP = "C12"
FAMILY = "api"
PROPS = ["C12"]
GEN_GROUPS = ["Api"]

VERBS = {"GetMapping": "GET", "PostMapping": "POST", "PutMapping": "PUT", "DeleteMapping": "DELETE"}
PATHS = ["/users", "/{id}", "/a/b", "", "/x-y_z", "/bücher/{größe}", "/" + "segment/" * 12 + "end", "login", "api/orders"]      # (also written without a leading slash)


def q(s):
    return '"' + s + '"'


def rand_controller(rng, idx):
    kind = "class" if rng.random() < 0.9 else "interface"
    ctrl = rng.choice(["RestController", "RestController", "Controller", None])
    # (a class-level path may end in a slash, `/api/v1/` + `orders`: the handler's URI is the two as written, one after the other)
    cm = rng.choice([None, None, ("positional", rng.choice(PATHS[:3] + ["/api/v1/", "/"])), ("value", rng.choice(PATHS[:3] + ["/api/v1/"]))])
    members = []
    for j in range(rng.choice([1, 2, 3, 4])):
        r = rng.random()
        if r < 0.65:
            ann = rng.choice(["GetMapping", "PostMapping", "PutMapping", "DeleteMapping", "RequestMapping"])
            form = rng.choice(["none", "positional", "value"])
            path = rng.choice(PATHS) if form != "none" else ""
            mattr = rng.choice([None, "GET", "POST", "PUT", "DELETE"]) if ann == "RequestMapping" else None
            if ann == "RequestMapping" and mattr and form == "positional":
                form = "value"      # @RequestMapping("/x", method=..) is not valid Java: needs value=
            params = []
            for k in range(rng.choice([0, 0, 1, 2, 3])):
                pk = rng.choice(["rb", "pv", "plain"])
                params.append({"kind": pk, "type": rng.choice(["UserDto", "String", "Long", "List<Item>"]), "name": "p%d" % k})
            members.append({"t": "handler", "ann": ann, "form": form, "path": path, "mattr": mattr, "name": "h%d" % j, "params": params,
                            "extra_anno_first": rng.random() < 0.2})
        elif r < 0.85:
            members.append({"t": "plain", "name": rng.choice(["init", "helper", "toDto"]) + str(j),
                            "params": [{"kind": "plain", "type": "String", "name": "s"}] * rng.choice([0, 1])})
        else:
            members.append({"t": "field", "name": "svc%d" % j})
    # (one controller in eight has no package declaration: its handlers' package is the empty one, whatever was scanned before it)
    return {"pkg": rng.choice(["com.app.web", "com.app.api"]) if rng.random() < 0.875 else "", "name": rng.choice(["C%dController", "C%dController", "Testimonial%dController", "Contest%dCaseController"]) % idx, "kind": kind, "ctrl": ctrl,
            "ctrlFirst": rng.random() < 0.75, "cm": cm, "members": members, "otherAnno": rng.random() < 0.2}


def anno_of(name, form, path, mattr=None):
    if form == "none" and not mattr:
        return {"name": name, "args": None}, {"e": "anno", "name": name, "form": "none"}
    if form == "positional":
        return {"name": name, "args": q(path)}, {"e": "anno", "name": name, "form": "positional", "text": q(path)}
    kvs = []
    if form == "value":
        kvs.append(("value", q(path)))
    if mattr:
        kvs.append(("method", "RequestMethod." + mattr))
    return {"name": name, "args": kvs}, {"e": "anno", "name": name, "form": "pairs", "kvs": [{"k": k, "v": v} for k, v in kvs]}


def build(ctrl):
    """returns (javagen unit, listener events in walker order, expected APIs per the statement)"""
    evs = [{"e": "pkg", "name": ctrl["pkg"]}] if ctrl["pkg"] else []
    imports = ["org.springframework.web.bind.annotation.*"]
    evs.append({"e": "imp", "name": "org.springframework.web.bind.annotation"})
    class_annos, class_evs = [], []
    if ctrl["otherAnno"]:
        class_annos.append({"name": "Slf4j", "args": None})
        class_evs.append({"e": "anno", "name": "Slf4j", "form": "none"})
    ca = None
    if ctrl["ctrl"]:
        ca = ({"name": ctrl["ctrl"], "args": None}, {"e": "anno", "name": ctrl["ctrl"], "form": "none"})
    ma = None
    if ctrl["cm"]:
        ma = anno_of("RequestMapping", ctrl["cm"][0], ctrl["cm"][1])
    order = [ca, ma] if ctrl["ctrlFirst"] else [ma, ca]
    for x in order:
        if x:
            class_annos.append(x[0])
            class_evs.append(x[1])
    evs += class_evs
    is_class = ctrl["kind"] == "class"
    if is_class:
        evs.append({"e": "enterClass", "name": ctrl["name"], "implements": ""})
    members, fields = [], []
    expected = []
    base = ctrl["cm"][1] if ctrl["cm"] else ""
    for m in ctrl["members"]:
        if m["t"] == "field":
            fields.append({"annos": [{"name": "Autowired", "args": None}], "mods": ["private"], "type": "Svc", "name": m["name"]})
            continue
    # javagen emits fields before members: mirror that order in the event stream
    if is_class:
        for f in fields:
            evs.append({"e": "anno", "name": "Autowired", "form": "none"})
    for m in ctrl["members"]:
        if m["t"] == "field":
            continue
        annos, aevs = [], []
        if m["t"] == "handler":
            if m.get("extra_anno_first"):
                annos.append({"name": "Deprecated", "args": None})
                aevs.append({"e": "anno", "name": "Deprecated", "form": "none"})
            a, e = anno_of(m["ann"], m["form"], m["path"], m.get("mattr"))
            annos.append(a)
            aevs.append(e)
        params, pevs, after = [], [], []
        for p in m["params"]:
            pa = []
            if p["kind"] == "rb":
                pa = [{"name": "RequestBody", "args": None}]
                after.append({"e": "anno", "name": "RequestBody", "form": "none"})
            elif p["kind"] == "pv":
                pa = [{"name": "PathVariable", "args": q(p["name"])}]
                after.append({"e": "anno", "name": "PathVariable", "form": "positional", "text": q(p["name"])})
            params.append({"type": p["type"], "name": p["name"], "annos": pa})
            pevs.append({"annos": [x["name"] for x in pa], "type": p["type"].replace(" ", ""), "name": p["name"]})
        members.append({"kind": "method", "annos": annos, "mods": ["public"] if is_class else [], "ret": "String", "name": m["name"], "params": params,
                        "body": [("return", ("lit", "null"))] if is_class else None})
        if is_class:
            evs += aevs
            evs.append({"e": "method", "name": m["name"], "params": pevs})
            evs += after
        else:
            evs += aevs + after      # interface methods: only the annotation events fire
        if m["t"] == "handler" and ctrl["ctrl"] and is_class:
            verb = VERBS.get(m["ann"], m.get("mattr") or "")
            rb = ""
            for p in m["params"]:
                if p["kind"] == "rb":
                    rb = p["type"].replace(" ", "")
            expected.append({"Uri": base + m["path"], "HttpMethod": verb, "MethodName": m["name"], "RequestBodyClass": rb,
                             "PackageName": ctrl["pkg"], "ClassName": ctrl["name"]})
    if is_class:
        evs.append({"e": "exitClass"})
    unit = {"pkg": ctrl["pkg"], "imports": imports, "annos": class_annos, "kind": ctrl["kind"], "name": ctrl["name"], "fields": fields if is_class else [],
            "members": members}
    return unit, evs, expected


def rand_project(rng):
    files, events, expected, ctrls = {}, [], [], []
    n = rng.choice([1, 2, 3, 4])
    built = []
    for i in range(n):
        c = rand_controller(rng, i)
        unit, evs, exp = build(c)
        text, _ = javagen.render_unit(unit, rng, wild=rng.choice([0.0, 0.0, 0.03]), comments=["@GetMapping", "note"])
        path = "src/main/java/%s/%s.java" % (c["pkg"].replace(".", "/"), c["name"])
        if not c["pkg"]:
            path = rng.choice(["src/main/java/%s.java", "tools/%s.java"]) % c["name"]      # (scanned before / after the packaged files)
        built.append((path, text, evs, exp, c))
    built.sort(key=lambda b: b[0].split("/"))
    for path, text, evs, exp, c in built:
        files[path] = text
        events.append(evs)
        expected += exp
        ctrls.append(c)
    c = {"op": "apidir", "files": files, "events": events, "expected": expected, "ctrls": ctrls}
    if rng.random() < 0.1:
        c["cli"] = True     # through the real `coca analysis -p dir` + `coca api -f -p dir` in fresh processes (coca_reporter/apis.json)
    return c


def gen(rng, tier):
    nsh, per = (16, 40) if tier == "quick" else (32, 800)
    return [[rand_project(rng) for _ in range(per)] for _ in range(nsh)]


def oracle(case, out, raw):
    if out is None or "panic" in out:
        return [("panic", "API scan panicked at %s: %s" % ((raw or {}).get("site"), (raw or {}).get("panic")))]
    got, exp = out["apis"], case["expected"]
    if "csvRows" in out and len(out["csvRows"]) != len(exp):
        # through the command: coca_reporter/api.csv has one row per handler too
        return [("api-csv-rows", "api.csv of `coca api -f` has %d rows for %d handlers: %s" % (len(out["csvRows"]), len(exp), out["csvRows"][:4]))]
    if got == exp:
        return []
    ds = []
    ctrls = case["ctrls"]
    reversed_order = any(c["ctrl"] and c["cm"] and not c["ctrlFirst"] for c in ctrls)
    key = lambda a: (a["PackageName"], a["ClassName"], a["MethodName"])
    gk, ek = {key(a): a for a in got}, {key(a): a for a in exp}
    for k, e in ek.items():
        g = gk.get(k)
        if g is None:
            ds.append(("api-missing", "handler %s not listed" % (k,)))
        elif g != e:
            cname = k[1]
            c = [x for x in ctrls if x["name"] == cname][0]
            if True:
                ds.append(("api-wrong", "%s: got %s expected %s" % (k, g, e)))
    for k in gk:
        if k not in ek:
            ds.append(("api-spurious", "entry %s %s is not an annotated handler of a controller" % (k, gk[k])))
    if len(got) != len(gk):
        ds.append(("api-duplicate", "a handler is listed twice"))
    if not ds:
        ds.append(("api-order", "same entries in a different order"))
    seen, res = set(), []
    for d in ds:
        if d[0] not in seen:
            seen.add(d[0])
            res.append(d)
    return res


def view(o):
    if isinstance(o, dict) and "csvRows" in o:
        return {k: v for k, v in o.items() if k != "csvRows"}      # the command's csv report is judged by the oracle (row count)
    return o


def nontrivial(case, mo):
    return bool(mo.get("apis"))


RULE = ("projects of 1-4 rendered Spring files: classes/interfaces with @RestController/@Controller/none, class-level @RequestMapping absent / positional / "
        "value= (before or after the controller annotation), handlers with Get/Post/Put/Delete/RequestMapping in marker, positional and value= form, "
        "method=RequestMethod.X, 0-3 parameters with @RequestBody/@PathVariable/none, non-handler methods and @Autowired fields interleaved, an unrelated "
        "annotation before the mapping; each shard is one process (listener globals carried from project to project); non-trivial = at least one API")
ASSUMPTIONS = ["@RequestMapping without `method` has the empty verb; a class without class-level mapping has the empty base path",
               "the listener's `implements … @ServiceMethod` path is outside the statement and not generated"]
TRUSTED = ["vlib/javagen.py renderer and the event streams derived from the abstract controllers", "ANTLR Java parser"]
WITNESSES = {}
