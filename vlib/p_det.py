"""C08 identical input -> identical output: every family's real pipeline is run twice in separate processes
(two samples of every randomised map order) on the same histories and compared as collections, and as lists where
the report promises an order.  The 'model' slot of the runner holds the deterministic ideal (run 1 repeated)."""
import json
import os
import random
import shutil
import tempfile
from concurrent.futures import ThreadPoolExecutor

from . import core
from .registry import REGISTRY

PROP = "C08"
FAMILY = "multi"
PROPS = ["C08"]
GEN_GROUPS = []

SOURCES = ["C01", "C03", "C04", "C10", "C11", "C12", "C13", "C15", "C16", "C18", "C19", "C17", "C14"]


def gen(rng, tier):
    shards = []
    take = 2 if tier == "quick" else 8
    for pid in SOURCES:
        m = REGISTRY[pid]()
        sub = m.gen(random.Random(rng.random()), "quick")
        for sh in sub[:take]:
            shards.append([dict(c, _family=m.FAMILY, _src=pid) for c in sh])
    # legacy code in a broken state: trees in which the import of a name that two packages declare is missing. What the tool
    # guesses for such a name is nobody's business here - but it must be the same guess on every run
    from . import p_java
    m = REGISTRY["C01"]()
    for _ in range(take):
        sh = [dict(p_java.project_case(rng, missing_import=0.6), _family=m.FAMILY, _src="C01") for _ in range(6)]
        for k in range(6):
            # the plain case: one simple name declared in two to four packages, used without import from a fifth
            name = rng.choice(["Helper", "Order", "Util"])
            pkgs = rng.sample(["com.a", "com.b", "org.c", "net.d"], rng.choice([2, 3, 4]))
            files = {"%s/%s.java" % (pk.replace(".", "/"), name): "package %s;\n\npublic class %s {\n    public void run() { }\n}\n" % (pk, name) for pk in pkgs}
            files["app/Main%d.java" % k] = ("package app;\n\npublic class Main%d {\n    private %s h;\n    public void start(%s p) {\n        h.run();\n        p.run();\n"
                                            "        %s q = new %s();\n        q.run();\n    }\n}\n") % (k, name, name, name, name)
            sh.append({"op": "full", "files": files, "units": [], "truth": [], "identKeys": [], "_family": m.FAMILY, "_src": "C01"})
        for k in range(6):
            # overloads that make different calls, through the commands (`coca analysis`, then `coca count` on its deps.json): the
            # functions of a type come out of a map in any order, the reference counts must not depend on it
            svc, meth = rng.choice(["OrderService", "Checkout", "Importer"]), rng.choice(["submit", "run", "apply"])
            files = {
                "com/shop/Repo.java": "package com.shop;\n\npublic class Repo {\n    public void save(int k) { }\n    public void load(int k) { }\n}\n",
                "com/shop/Notifier.java": "package com.shop;\n\npublic class Notifier {\n    public void send(int k) { }\n}\n",
                "com/shop/%s.java" % svc: ("package com.shop;\n\npublic class %s {\n    private Repo repo;\n    private Notifier notifier;\n\n"
                                           "    public void %s(int k) {\n        repo.save(k);\n    }\n\n"
                                           "    public void %s(int k, boolean loud) {\n        repo.save(k);\n        repo.load(k);\n        notifier.send(k);\n    }\n\n"
                                           "    public void %s(int k, int j, boolean loud) {\n        notifier.send(k);\n        notifier.send(j);\n    }\n}\n") % (svc, meth, meth, meth),
            }
            sh.append({"op": "full", "cli": True, "files": files, "units": [], "truth": [], "identKeys": [], "_family": m.FAMILY, "_src": "C01"})
        shards.append(sh)
    return shards


_VIEWS = {}


def _view(pid):
    if pid not in _VIEWS:
        m = REGISTRY[pid]()
        # a module may offer a wider view for run-to-run comparison than the one its model covers
        _VIEWS[pid] = getattr(m, "view_det", None) or getattr(m, "view", lambda o: o)
    return _VIEWS[pid]


def run_shards(shards):
    tmp = tempfile.mkdtemp(prefix="cocaverif_det_")
    try:
        def one(i):
            sh = shards[i]
            fam = sh[0]["_family"]
            cases = [{k: v for k, v in c.items() if not k.startswith("_")} for c in sh]
            a = core._run_harness(fam, cases, tmp, "a%d" % i, 1800)
            b = core._run_harness(fam, cases, tmp, "b%d" % i, 1800)
            c3 = core._run_harness(fam, cases, tmp, "c%d" % i, 1800)
            # a third sample: report it in the place of the second where only it differs
            for cid, r3 in c3.items():
                if core.canon(r3.get("out")) != core.canon((a.get(cid) or {}).get("out")) and \
                        core.canon((b.get(cid) or {}).get("out")) == core.canon((a.get(cid) or {}).get("out")):
                    b[cid] = r3
            return sh, a, b
        impl, model = {}, {}
        with ThreadPoolExecutor(max_workers=core.NCPU) as ex:
            for sh, a, b in ex.map(one, range(len(shards))):
                for c in sh:
                    ra, rb = a.get(c["id"]), b.get(c["id"])
                    oa = None if ra is None else (ra.get("out") if "panic" not in ra else {"panic": ra.get("site")})
                    ob = None if rb is None else (rb.get("out") if "panic" not in rb else {"panic": rb.get("site")})
                    v = _view(c["_src"])      # the property's own canonical view (ties of a sort key are unspecified)
                    try:
                        oa, ob = collection(c["_src"], v(oa)), collection(c["_src"], v(ob))
                    except Exception:
                        pass
                    impl[c["id"]] = {"id": c["id"], "out": {"run1": oa, "run2": ob}}
                    model[c["id"]] = {"id": c["id"], "out": {"run1": oa, "run2": oa}}
        return impl, model
    finally:
        shutil.rmtree(tmp, ignore_errors=True)


def collection(pid, o):
    """reports whose order the statement does not promise are compared as collections"""
    if pid == "C11" and isinstance(o, dict) and isinstance(o.get("findings"), list):
        return dict(o, findings=sorted(o["findings"], key=lambda f: json.dumps(f, sort_keys=True)))     # test-smell list: no promised order
    return o


def first_diff(a, b, path=""):
    if type(a) != type(b):
        return "%s: %r vs %r" % (path, str(a)[:120], str(b)[:120])
    if isinstance(a, dict):
        for k in sorted(set(a) | set(b)):
            if a.get(k) != b.get(k):
                return first_diff(a.get(k), b.get(k), path + "." + k)
    if isinstance(a, list):
        if len(a) != len(b):
            return "%s: %d vs %d items" % (path, len(a), len(b))
        for i, (x, y) in enumerate(zip(a, b)):
            if x != y:
                return first_diff(x, y, "%s[%d]" % (path, i))
    return "%s: %r vs %r" % (path, str(a)[:120], str(b)[:120])


def oracle(case, out, raw):
    if out is None:
        return []
    a, b = out.get("run1"), out.get("run2")
    if core.canon(a) != core.canon(b):
        return [("c08-runs-differ", "%s (%s): two runs of the same command on the same input differ: %s" % (case.get("_src"), case.get("op"), first_diff(a, b)))]
    return []


def nontrivial(case, mo):
    return mo.get("run1") not in (None, {}, [])


RULE = ("the quick generators of C01 C03 C04 C10 C11 C12 C13 C14 C15 C16 C17 C18 C19 (2 shards each, 8 in the thorough tier): every history is executed three times by "
        "the real code in three separate processes (plus Java trees with a missing import of an ambiguous name) and the canonical outputs (collections sorted by the harness; promised orders kept: sorted listings, --sort "
        "groups, top authors, team summary, code age) are compared; the Go runtime draws a fresh order for every `range` over a map in each run")
ASSUMPTIONS = ["the harness canonicalisation (sort of unordered collections) is the 'identical as a collection' of the statement",
               "two runs sample two iteration orders per map loop; the universal claim is the Lean part (every oracle)"]
TRUSTED = ["harness canonicalisation of unordered collections"]
WITNESSES = {}
