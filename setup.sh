#!/bin/sh
# offline build of the framework from files on disk only
set -e
cd "$(dirname "$0")"
export GOFLAGS=-mod=mod GOPROXY=off GOSUMDB=off GOTOOLCHAIN=local
cat /repo/go.sum harness/go.sum 2>/dev/null | sort -u > harness/go.sum.tmp && mv harness/go.sum.tmp harness/go.sum
mkdir -p harness/bin
(cd harness && go build -tags verif -o bin/ ./cmd/...)
./harness/bin/extract /repo lean/CocaVerif/Gen
(cd lean && lake build)
echo setup-ok
