HOOK_COMMITS = []
NOT_YET = {}
CHECKS = {
 "C03": {"ref": "DESIGN.md §7 C03",
  "text": "Theorems for ALL models/roots/DI maps/counter values about the executable Lean model of BuildCallChain/Analysis/AnalysisByFiles: edge soundness (recorded call after DI, caller reachable from root), all direct callees of the root present, expansion counter bounded by the fixed budget (totality = termination), fuel never exhausted, completeness whenever the budget test never fired, per-API independence. The budget constant, the budget comparison and the counter reset are regenerated from the Go source on every run; the model is compared with the real code on ~2000 generated process histories per run (exact DOT text and CallAPI sizes).",
  "note": "Trusted: Lean kernel (axioms propext/Classical.choice/Quot.sound only), extractor, harness; assumed: model==implementation outside sampled inputs. DOT well-formedness and Size=edges+1 are checked on the real output by the parser/oracle in vlib/p_call.py, not yet proved in Lean."},
 "C04": {"ref": "DESIGN.md §7 C04",
  "text": "Theorems for ALL models/targets: the reverse-call map computed by the Go loop (modelled as the same fold over a Go-map log) equals the exact inverse relation, per call site, source order; keys and callers are declared methods; every reverse edge is a map entry on a caller chain ending at the target; depth counter bounded (termination). 'Every direct caller present' is refuted by a kernel-checked witness (known finding, pinned by the repo's own test) and proved under the explicit no-abort flag. Correspondence: exact map + DOT text on ~2000 histories per run.",
  "note": "Same trusted base as C03. Known finding rcall-lastchild-drop is matched by class (vlib/p_call.py: oracle_c04) and witnessed in findings/."},
}
