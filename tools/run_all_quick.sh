#!/bin/bash
# every property's quick check on the current /repo (which must be unchanged: evidence/ is rewritten)
cd /verif
if [ -n "$(git -C /repo status --short)" ]; then echo "/repo has uncommitted changes: not running (evidence must come from the unchanged tree)"; exit 2; fi
for i in 01 02 03 04 05 06 07 08 09 10 11 12 13 14 15 16 17 18 19 20; do ./check C$i --tier quick 2>&1 | grep -E "^VIOLATION|tier=|BROKEN" | cut -c1-220; done
