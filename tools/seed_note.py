#!/usr/bin/env python3
"""usage: tools/seed_note.py <seed-id> <detected_first: yes|no|obligation> <note> — record how a seeded change was first seen and what was strengthened"""
import json, sys
sid, first, note = sys.argv[1:4]
p = "/verif/seeded/%s/meta.json" % sid
m = json.load(open(p))
if "first_result" not in m:
    m["first_result"] = m.get("check_result_with_patch")
m["detected_first"] = first == "yes"
m["first_kind"] = {"yes": "input", "no": "missed", "obligation": "obligation-only"}[first]
m["note"] = note
if len(sys.argv) > 4:
    m["check_result_with_patch"] = sys.argv[4]
    m["detected"] = "VIOLATION" in sys.argv[4]
json.dump(m, open(p, "w"), indent=1, ensure_ascii=False)
