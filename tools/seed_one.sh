#!/bin/bash
# usage: tools/seed_one.sh <seed-id> [tier]  — re-apply one stored seed to /repo, run its property's check, restore /repo
cd /verif
id=$1; prop=${id%%-*}; tier=${2:-quick}
git -C /repo status --short | grep -q . && { echo "/repo is dirty"; exit 2; }
git -C /repo apply $PWD/seeded/$id/patch.diff || exit 2
VERIF_EVIDENCE_DIR=/tmp/seed_evidence ./check $prop --tier $tier 2>/dev/null | grep -E "^VIOLATION|^KNOWN|tier=" | head -5
git -C /repo checkout -- .
