#!/bin/bash
# usage: tools/seed2.sh <prop> <seed-id> [round]   — takes a later-round agent's deliverables (/tmp/seed<round>-<prop>-out) and confirms them
P=$1; ID=$2; R=${3:-2}
WT=/tmp/seed$R-$P; O=/tmp/seed$R-$P-out
export GOFLAGS=-mod=mod GOPROXY=off GOSUMDB=off GOTOOLCHAIN=local
mkdir -p $WT/_seed && cp $O/patch.diff $O/meta.json $WT/_seed/ && cp $O/*_test.go $WT/_seed/
PKG=$(python3 -c "import json;print(json.load(open('$O/meta.json'))['demo_package'])")
PKG=${PKG#/tmp/seed$R-$P/}; PKG=${PKG#./}
cp $O/*_test.go $WT/$PKG/
RE=$(grep -ho "^func Test[A-Za-z0-9_]*" $O/*_test.go | sed 's/func //' | paste -sd'|')
( cd $WT && git checkout -q go.mod 2>/dev/null; git diff --quiet || true )
bash /verif/tools/seed_confirm.sh $WT $ID $P ./$PKG/ "$RE"
