#!/bin/bash
# usage: tools/seed_recheck_rest.sh [PROP-to-skip ...]  — like seed_recheck.sh, but leaves out the seeds of the given properties
# (those re-checked separately, e.g. with tools/seed_one.sh); /repo is restored after each one.
cd /verif
skip=" $* "
for d in seeded/*/; do
  id=$(basename $d); prop=${id%%-*}
  case "$skip" in *" $prop "*) continue;; esac
  if ! git -C /repo apply --check $PWD/$d/patch.diff 2>/dev/null; then echo "$id: patch no longer applies"; echo "{\"applies\": false}" > $d/recheck.json; continue; fi
  git -C /repo apply $PWD/$d/patch.diff
  out=$(VERIF_EVIDENCE_DIR=/tmp/seed_evidence ./check $prop --tier quick 2>/dev/null | grep -E "^VIOLATION|tier=" | head -3 | tr '\n' ' ')
  git -C /repo checkout -- .
  det=false; echo "$out" | grep -q VIOLATION && det=true
  nf=true; echo "$out" | tr ' ' '\n' | grep -q "replays/.*-input-" && nf=false
  echo "$id: detected=$det only_obligation=$nf"
  python3 - "$d" "$det" "$nf" "$out" <<'PY'
import json,sys
d,det,nf,out=sys.argv[1:5]
json.dump({"applies":True,"detected":det=="true","only_obligation":det=="true" and nf=="true","result":out},open(d+"/recheck.json","w"),indent=1)
PY
done
git -C /repo status --short | head -3
echo FINISHED
