#!/usr/bin/env python3
"""uncovered blocks of the files a property is anchored in, under that property's generated histories (see tools/coverage.py)"""
import json
import os
import re
import sys

OUT = sys.argv[1] if len(sys.argv) > 1 else "/tmp/cov"
props = {json.loads(l)["id"]: json.loads(l) for l in open("/verif/properties.jsonl")}
want = sys.argv[2:] or sorted(props)
for pid in want:
    prof = os.path.join(OUT, pid + ".txt")
    if not os.path.exists(prof):
        continue
    files = props[pid]["anchors"].get("files", [])
    blocks = {}
    for line in open(prof):
        m = re.match(r"github.com/modernizing/coca/(.+):(\d+)\.(\d+),(\d+)\.(\d+) (\d+) (\d+)", line)
        if not m:
            continue
        f = m.group(1)
        if f not in files:
            continue
        key = (f, int(m.group(2)), int(m.group(4)))
        blocks[key] = max(blocks.get(key, 0), int(m.group(7)))
    tot = len(blocks)
    unc = sorted(k for k, v in blocks.items() if v == 0)
    print("== %s: %d/%d blocks of the anchored files never executed" % (pid, len(unc), tot))
    src = {}
    for (f, a, b) in unc:
        if f not in src:
            src[f] = open(os.path.join("/repo", f)).read().split("\n")
        print("   %s:%d-%d  %s" % (f, a, b, src[f][a - 1].strip()[:110]))
