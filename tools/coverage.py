#!/usr/bin/env python3
"""Which statements of phodal/coca do the generated histories execute?  Builds the harness with Go's binary coverage
(-cover, GOCOVERDIR), runs the quick-tier histories of every property module through it, and prints per anchored
file the uncovered blocks.  A diagnosis aid for generator reach (not part of any check)."""
import json
import os
import random
import shutil
import subprocess
import sys
import tempfile

sys.path.insert(0, os.path.dirname(os.path.dirname(os.path.abspath(__file__))))
from vlib import core  # noqa: E402
from vlib.registry import REGISTRY  # noqa: E402

OUT = sys.argv[1] if len(sys.argv) > 1 else "/tmp/cov"
props = sys.argv[2:] or sorted(REGISTRY)
covbin = os.path.join(OUT, "harness.cover")
os.makedirs(OUT, exist_ok=True)
core.build_go()
rc, out = core.sh(["go", "build", "-tags", "verif", "-cover", "-coverpkg=verifharness/cmd/harness,github.com/modernizing/coca/pkg/...,github.com/modernizing/coca/cmd/...", "-o", covbin, "./cmd/harness"],
                  cwd=core.HARNESS, env=core.GOENV)
if rc != 0:
    print(out)
    sys.exit(1)
for pid in props:
    m = REGISTRY[pid]()
    if hasattr(m, "run_shards"):
        continue
    covdir = os.path.join(OUT, "data_" + pid)
    shutil.rmtree(covdir, ignore_errors=True)
    os.makedirs(covdir)
    shards = m.gen(random.Random(1), "quick")
    n = 0
    tmp = tempfile.mkdtemp(prefix="covrun_")
    env = dict(core.GOENV, GOCOVERDIR=covdir)
    for si, sh in enumerate(shards):
        fin = os.path.join(tmp, "s%d.in" % si)
        with open(fin, "w") as f:
            for c in sh:
                n += 1
                f.write(json.dumps(dict(c, id=n)) + "\n")
        subprocess.run([covbin, m.FAMILY, fin, os.path.join(tmp, "s%d.out" % si)], stdout=subprocess.DEVNULL, stderr=subprocess.DEVNULL,
                       env=env, cwd=tmp, timeout=1800)
    shutil.rmtree(tmp, ignore_errors=True)
    prof = os.path.join(OUT, pid + ".txt")
    core.sh(["go", "tool", "covdata", "textfmt", "-i=" + covdir, "-o=" + prof], cwd=core.HARNESS, env=core.GOENV)
    print(pid, "cases", n, "profile", prof)
