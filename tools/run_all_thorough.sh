#!/bin/bash
# every property's thorough check on the unchanged tree, one after the other (each uses all cores). Evidence goes to
# $VERIF_EVIDENCE_DIR when set (a sweep with another VERIF_SEED must not overwrite the committed evidence).
cd /verif
git -C /repo status --short | grep -q . && { echo "/repo has uncommitted changes: refusing to run"; exit 2; }
for p in C01 C02 C03 C04 C05 C06 C07 C08 C09 C10 C11 C12 C13 C14 C15 C16 C17 C18 C19 C20; do
  ./check $p --tier thorough 2>&1 | grep -E "^VIOLATION|tier="
done
