#!/bin/bash
# re-validate every stored seeded change against the CURRENT /repo: does the patch still apply, and does the
# property's quick check report a violation with it?  /repo is restored after each one.
cd /verif
for d in seeded/*/; do
  id=$(basename $d); prop=${id%%-*}
  if ! git -C /repo apply --check $PWD/$d/patch.diff 2>/dev/null; then
    echo "$id: patch no longer applies to the current tree (the code it changes was repaired / rewritten since)"; echo "{\"applies\": false}" > $d/recheck.json; continue
  fi
  git -C /repo apply $PWD/$d/patch.diff
  out=$(VERIF_EVIDENCE_DIR=/tmp/seed_evidence ./check $prop --tier quick 2>/dev/null | grep -E "^VIOLATION|tier=" | head -3 | tr '\n' ' ')
  git -C /repo checkout -- .
  det=false; echo "$out" | grep -q VIOLATION && det=true
  nf=false; echo "$out" | grep -q no-failing-input-found && nf=true
  echo "$id: detected=$det no_failing_input=$nf"
  python3 - "$d" "$det" "$nf" "$out" <<'PY'
import json,sys
d,det,nf,out=sys.argv[1:5]
json.dump({"applies":True,"detected":det=="true","only_obligation":nf=="true","result":out},open(d+"/recheck.json","w"),indent=1)
PY
done
git -C /repo status --short | head -3
