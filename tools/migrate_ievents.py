#!/usr/bin/env python3
"""One-off migration of stored cases (corpus/, findings/) to the identifier-pass event format of the model after the
repairs 756f639 / 1ba7232 / 8a26b33 in /repo: `annos` (all annotation modifiers) instead of `firstAnno`, `mods` for
interface methods too, `hasNull` on return expressions. The sources ("files") are untouched."""
import json, re, sys, glob

NULL = re.compile(r'(?<![A-Za-z0-9_$])null(?![A-Za-z0-9_$])')


def has_null(text):
    return bool(NULL.search(re.sub(r'"(\\.|[^"\\])*"', '""', text)))


def fix_unit(u, truth):
    heads = [e for e in u["events"] if e["e"] in ("enterMethod", "interfaceMethod", "enterCtor")]
    iheads = [e for e in u["ievents"] if e["e"] in ("enterMethod", "interfaceMethod", "enterCtor")]
    assert len(heads) == len(iheads), (len(heads), len(iheads))
    fns = (truth or {}).get("functions") or []
    for k, (h, i) in enumerate(zip(heads, iheads)):
        generic_hidden = h["e"] == "enterMethod" and h.get("annos") == [] and i.get("firstAnno") is None
        i["annos"] = [] if h["e"] == "enterCtor" else list(h.get("annos", []))
        if h["e"] == "interfaceMethod":
            assert k < len(fns) and fns[k]["name"] == h["name"], (u.get("path"), h["name"])
            i["mods"] = list(fns[k].get("mods", []))
        i.pop("firstAnno", None)
        if "ident" in h:
            h["ident"]["annos"] = i["annos"]
            h["ident"]["mods"] = i["mods"]
            h["ident"].pop("firstAnno", None)
    for e in u["ievents"]:
        if e["e"] == "returnExpr":
            e["hasNull"] = has_null(e.get("text", ""))


def walk(x, n):
    if isinstance(x, dict):
        if isinstance(x.get("units"), list) and x["units"] and isinstance(x["units"][0], dict) and "ievents" in x["units"][0]:
            truth = {t.get("path"): t for t in x.get("truth") or [] if isinstance(t, dict)}
            for u in x["units"]:
                fix_unit(u, truth.get(u.get("path")))
                n[0] += 1
        for v in x.values():
            walk(v, n)
    elif isinstance(x, list):
        for v in x:
            walk(v, n)


for f in sys.argv[1:]:
    d = json.load(open(f))
    n = [0]
    walk(d, n)
    json.dump(d, open(f, "w"), ensure_ascii=False)
    print(f, n[0], "units")
