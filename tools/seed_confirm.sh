#!/bin/bash
# usage: tools/seed_confirm.sh <worktree> <seed-id> <prop> <go test pkg> <test regex>
# confirms a seeded change in its scratch worktree (demo fails with patch, passes without; suite as baseline),
# stores it under /verif/seeded/<seed-id>/, then runs the property's quick check against /repo with the patch applied.
set -u
WT=$1; ID=$2; PROP=$3; PKG=$4; RE=$5
OUT=/verif/seeded/$ID
mkdir -p $OUT
cp $WT/_seed/patch.diff $OUT/patch.diff
cp $WT/_seed/*_test.go $OUT/ 2>/dev/null
cp $WT/_seed/meta.json $OUT/agent_meta.json 2>/dev/null
cd $WT
with=$(go test -vet=off -count=1 -run "$RE" $PKG 2>&1 | tail -1)
git apply -R _seed/patch.diff
without=$(go test -vet=off -count=1 -run "$RE" $PKG 2>&1 | tail -1)
git apply _seed/patch.diff
# existing suite with the patch, demo test moved aside
mkdir -p /tmp/seed_aside_$ID; for f in $(git status --porcelain | grep '^??' | awk '{print $2}' | grep '_test.go$'); do mv $f /tmp/seed_aside_$ID/; done
suite=$(go test -vet=off -count=1 ./... 2>&1 | grep -E "^(FAIL|---)" | tr '\n' ' ')
mv /tmp/seed_aside_$ID/*_test.go $(dirname $(git status --porcelain | grep '^??' | awk '{print $2}' | grep -v _seed | head -1) 2>/dev/null) 2>/dev/null
rm -rf /tmp/seed_aside_$ID
echo "WITH: $with"; echo "WITHOUT: $without"; echo "SUITE(with patch): $suite"
cd /verif
git -C /repo apply $OUT/patch.diff || { echo "patch does not apply to /repo"; exit 1; }
res=$(VERIF_EVIDENCE_DIR=/tmp/seed_evidence ./check $PROP --tier quick 2>/dev/null | grep -E "^VIOLATION|tier=" | head -4)
git -C /repo checkout -- .
echo "CHECK: $res"
python3 - "$OUT" "$ID" "$PROP" "$with" "$without" "$suite" "$res" <<'PY'
import json,sys,os
out,id_,prop,w,wo,suite,res=sys.argv[1:8]
am={}
try: am=json.load(open(os.path.join(out,'agent_meta.json')))
except Exception: pass
json.dump({"id":id_,"property":prop,"summary":am.get("summary"),"needs":am.get("needs"),
 "confirmed":{"demo_with_patch":w,"demo_without_patch":wo,"existing_suite_with_patch_failures":suite},
 "check_result_with_patch":res,"detected":"VIOLATION" in res},open(os.path.join(out,'meta.json'),'w'),indent=1)
PY
