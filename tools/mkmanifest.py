#!/usr/bin/env python3
"""regenerates MANIFEST.json from the table below and validates it against the schema"""
import json, os, sys
V = os.path.dirname(os.path.dirname(os.path.abspath(__file__)))
sys.path.insert(0, V)
from tools.manifest_table import CHECKS, NOT_YET, HOOK_COMMITS  # noqa

props = [json.loads(l)["id"] for l in open(os.path.join(V, "properties.jsonl"))]
checks = []
for pid in props:
    if pid in CHECKS:
        c = CHECKS[pid]
        checks.append({
            "property_id": pid,
            "quick_cmd": "./check %s --tier quick" % pid,
            "thorough_cmd": "./check %s --tier thorough" % pid,
            "evidence_file": "evidence/%s.json" % pid,
            "replay_cmd_template": "./check %s --replay {path}" % pid,
            "engine": "lean4-proof+correspondence",
            "level_claimed": {"category": "proof", "text": c["text"], "design_ref": c.get("ref", "DESIGN.md §7")},
            "level_note": c["note"],
            "technique": c.get("technique", "Lean 4 theorems about an executable model + regenerated facts + differential correspondence with the real code"),
        })
na = [{"property_id": p, "reason": NOT_YET.get(p, "check not built yet at this commit (DESIGN.md §10 staging); no claim made")}
      for p in props if p not in CHECKS]
m = {
    "version": 1,
    "setup_cmd": "./setup.sh",
    "hooks": {"guard": "verif", "enable": "go build -tags verif (harness module with replace => /repo)",
              "baseline_off_cmd": "cd /repo && go test -vet=off -count=1 ./...",
              "source_commits": HOOK_COMMITS, "add_only": True},
    "engines": [{"name": "lean4-proof+correspondence", "path": "lean/ harness/ vlib/ check",
                 "serves_properties": [c["property_id"] for c in checks],
                 "kind_free_text": "Lean 4 model + theorems (lake build, #print axioms audit), Go fact extractor regenerating Gen/*.lean, Go harness running the real code, Lean driver running the model, python orchestrator comparing them"}],
    "checks": checks,
    "not_applicable": na,
    "notes": "Every check: regenerate facts from /repo -> re-check the property's theorems -> run real code vs model on generated histories -> verdict. A share of the histories of every family that has a coca command goes through the REAL command (cmd/*.go) in a fresh process and is read back from coca_reporter/ or the printed table (CLI tier; counted as input_distribution.through_cli in each evidence file). See DESIGN.md section 0.",
}
json.dump(m, open(os.path.join(V, "MANIFEST.json"), "w"), indent=1)
try:
    import jsonschema
    jsonschema.validate(m, json.load(open("/root/.vp/MANIFEST.schema.json")))
    print("MANIFEST valid;", len(checks), "checks;", len(na), "not claimed")
except ImportError:
    print("jsonschema not available; written unvalidated")
