module verifharness

go 1.18

require github.com/modernizing/coca v0.0.0

require github.com/yourbasic/radix v0.0.0-20180308122924-cbe1cc82e907 // indirect

replace github.com/modernizing/coca => /repo
