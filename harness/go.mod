module verifharness

go 1.18

require (
	github.com/antlr/antlr4/runtime/Go/antlr/v4 v4.0.0-20221202181307-76fa05c21b12
	github.com/awalterschulze/gographviz v0.0.0-20190522210029-fa59802746ab
	github.com/modernizing/coca v0.0.0
	github.com/spf13/cobra v0.0.5
)

require (
	github.com/boyter/scc v0.0.0-20200907020550-91af61dfda0d // indirect
	github.com/dbaggerman/cuba v0.3.2 // indirect
	github.com/huleTW/bad-smell-analysis v0.1.0 // indirect
	github.com/iancoleman/strcase v0.0.0-20191112232945-16388991a334 // indirect
	github.com/json-iterator/go v1.1.9 // indirect
	github.com/mattn/go-runewidth v0.0.7 // indirect
	github.com/minio/blake2b-simd v0.0.0-20160723061019-3f5f724cb5b1 // indirect
	github.com/modern-go/concurrent v0.0.0-20180306012644-bacd9c7ef1dd // indirect
	github.com/modern-go/reflect2 v0.0.0-20180701023420-4b7aa43c6742 // indirect
	github.com/olekukonko/tablewriter v0.0.4 // indirect
	github.com/sabhiram/go-gitignore v0.0.0-20180611051255-d3107576ba94 // indirect
	github.com/spf13/pflag v1.0.3 // indirect
	github.com/yourbasic/radix v0.0.0-20180308122924-cbe1cc82e907 // indirect
	golang.org/x/exp v0.0.0-20220722155223-a9213eeb770e // indirect
	golang.org/x/text v0.3.0 // indirect
	gonum.org/v1/gonum v0.6.2 // indirect
	gopkg.in/yaml.v2 v2.2.4 // indirect
)

replace github.com/modernizing/coca => /repo
